"""C04 — chain contexts: proof obligations (Props/C04.v) + all 12 chain contexts x 3
call forms x receivers x behaviour vectors {value, nil, raise}^3, compared with
PanCore and with the property's rules (Python oracle)."""
import itertools
from pv import *
import pancore

PRELUDE = '''boom := {|i| raise Err.new("E" + i.S)}
stop := {|i| raise StopIterErr.new("E" + i.S)}
INIL := Nil.bear({q: 1}).new
ARRD := Arr.bear({_iter: m{ <{|i| yield self[i] if i >= 0; recur(i - 1)}>.new(.len - 1) }})
beh := {|k, i| return nil if k == 'n; return INIL if k == 'i; return boom(i) if k == 'r; return stop(i) if k == 's; i * 10}
mk := {|i, B| {i: i, m: {|self| ("c" + self.i.S).p; beh(B[self.i], self.i)}}}
'''

ADDS = ["", "&", "~", "="]
RECVS = {
    # kind: (receiver expr, index expr of element x, element reprs)
    "arr": ("[1, 2, 3]", "x", ["1", "2", "3"]),
    "int": ("3", "x", ["1", "2", "3"]),
    "range": ("(1:4)", "x", ["1", "2", "3"]),
    "str": ('"abc"', '%{"a": 1, "b": 2, "c": 3}[x]', ['"a"', '"b"', '"c"']),
    "obj": ("{a: 1, b: 2, c: 3}", "x[1]", ['["a", 1]', '["b", 2]', '["c", 3]']),
    "map": ("%{7: 1, 8: 2, 9: 3}", "x[1]", ["[7, 1]", "[8, 2]", "[9, 3]"]),
    "iter": ("<{|i| yield i if i < 4; recur(i + 1)}>.new(1)", "x", ["1", "2", "3"]),
    "arrnil": ("[1, nil, 3]", "%{1: 1, nil: 2, 3: 3}[x]", ["1", "nil", "3"]),
    # an element that is an INHERITED nil (instance of a descendant of Nil) is nil in every context and every call form
    "arrinil": ("[1, INIL, 3]", "(2 if x.nil? else x)", ["1", "nil", "3"]),
    # a descendant of Arr whose prototype defines its own _iter (here: from the last element to the first): every chain
    # context iterates the receiver with ITS iterator
    "arrdesc": ("ARRD.new([3, 2, 1])", "x", ["1", "2", "3"]),
}


def callee(idx, B):
    return '{|x| i := %s; ("c" + i.S).p; beh(%s[i], i)}' % (idx, B)


def bmap(beh):
    return "%{" + ", ".join("%d: '%s" % (i + 1, b) for i, b in enumerate(beh)) + "}"


def oracle_list(add, beh, elems, carg):
    """returns (trace, outcome) where outcome = ('val', repr) | ('err', msg)"""
    trace, out = [], []
    for i, (b, e) in enumerate(zip(beh, elems)):
        n = i + 1
        if add == "&" and e == "nil":
            continue                        # lonely: nil receiver is skipped, yields nil (dropped)
        trace.append("c%d" % n)
        if b in "rs":
            if add == "~":
                out.append(e)
                continue
            return trace, ("err", "E%d" % n)
        if b in "ni":
            if add == "~":
                out.append(e)
            elif add == "=":
                out.append("nil")
            continue
        out.append(str(n * 10))
    if carg == "[9]":
        out = ["9"] + out
    return trace, ("val", "[" + ", ".join(out) + "]")


def oracle_scalar(add, b, recv_repr, n):
    if add == "&" and recv_repr == "nil":
        return [], ("val", "nil")
    trace = ["c%d" % n]
    if b in "rs":
        return trace, (("val", recv_repr) if add == "~" else ("err", "E%d" % n))
    if b in "ni":
        return trace, ("val", recv_repr if add == "~" else "nil")
    return trace, ("val", str(n * 10))


def oracle_reduce(add, beh, init):
    """literal / variable form: h(acc, x) = acc + beh(x); acc0 = init (int) — `+` on a nil acc
    returns the other operand (Nil#+), so nil results restart the sum."""
    trace = []
    acc = init
    for i, b in enumerate(beh):
        n = i + 1
        trace.append("c%d" % n)
        if b in "rs":
            if add == "~":
                continue
            return trace, ("err", "E%d" % n)
        if b in "ni":
            if add == "~":
                continue
            acc = None
            continue
        acc = n * 10 if acc is None else acc + n * 10
    return trace, ("val", "nil" if acc is None else str(acc))


def gen(chk):
    cases = []  # (family, program, trace, outcome)
    # 's' raises an error of kind StopIterErr (the kind the chain loops themselves watch for on the ITERATOR): from the callee
    # it is a failure like any other
    vecs = list(itertools.product("vnr", repeat=3)) + [tuple("svv"), tuple("vsv"), tuple("vvs"), tuple("nsv"), tuple("vsr"),
                                                      tuple("ivv"), tuple("viv"), tuple("vvi"), tuple("niv"), tuple("irv")]
    # list chains: literal and variable form over every receiver kind
    for kind, (recv, idx, elems) in RECVS.items():
        for add in ADDS:
            for beh in vecs:
                if kind not in ("arr", "arrnil", "iter", "arrinil", "arrdesc") and chk.tier == "quick" and (dhash((kind, add, beh)) % 3):
                    continue
                for carg in ("", "[9]"):
                    if carg and kind != "arr":
                        continue
                    tr, oc = oracle_list(add, beh, elems, carg)
                    ca = "(%s)" % carg if carg else ""
                    B = bmap(beh)
                    cases.append(("list/%s@/lit/%s" % (add, kind), "r := %s%s@%s%s\nr" % (recv, add, ca, callee(idx, B)), tr, oc))
                    cases.append(("list/%s@/var/%s" % (add, kind), "f := %s\nr := %s%s@%s^f\nr" % (callee(idx, B), recv, add, ca), tr, oc))
    # list chains: the three forms on arrays of objects (the property form needs a property)
    for add in ADDS:
        for beh in vecs:
            B = bmap(beh)
            elems = ['{"i": %d, "m": {|self| (("c" + self.i.S)).p(); beh.call(B.at([self.i]), self.i)}}' % i for i in (1, 2, 3)]
            tr, oc = oracle_list(add, beh, ["<o1>", "<o2>", "<o3>"], "")
            pre = "B := %s\nos := [mk(1, B), mk(2, B), mk(3, B)]\n" % B
            for form, expr in (("prop", "os%s@m" % add), ("lit", "os%s@{|x| x.m}" % add), ("var", "f := {|x| x.m}\nr := os%s@^f" % add)):
                body = expr if form == "var" else "r := " + expr
                # `~@` substitutes the element (an object): compare by the `i` of each result instead of printing closures
                cases.append(("three/%s@/%s" % (add, form), pre + body + "\nr=@{|e| e.i if e.proto == Obj && e.keys.has?('i) else e}", tr,
                              (oc[0], oc[1].replace("<o1>", "1").replace("<o2>", "2").replace("<o3>", "3"))))
                # the same chain written on a continuation line, after a trailing comment and after a comment line
                if beh in (tuple("vvv"), tuple("vnr"), tuple("nvv"), tuple("rvv")):
                    for li, lay in enumerate((" # note\n  |", "\n  # note\n  |", "\n  |")):
                        ml = body.replace("os%s@" % add, "os%s%s@" % (lay, add))
                        cases.append(("layout/%s@/%s" % (add, form), pre + ml + "\nr=@{|e| e.i if e.proto == Obj && e.keys.has?('i) else e}", tr,
                                      (oc[0], oc[1].replace("<o1>", "1").replace("<o2>", "2").replace("<o3>", "3"))))
    # a nil element among objects, all three forms, every additional context; also written on a continuation line with a chain argument
    for add, nilx in itertools.product(ADDS, ("nil", "INIL")):
        pre = "B := %%{1: 'v, 2: 'v, 3: 'v}\nos := [mk(1, B), %s, mk(3, B)]\n" % nilx
        if add == "&":
            tr, out = ["c1", "c3"], "[10, 30]"
        elif add == "~":
            tr, out = ["c1", "c3"], "[10, nil, 30]"
        else:
            tr, out = ["c1"], None       # nil has no property m / nil.m fails
        for form, expr in (("prop", "os%s@m" % add), ("lit", "os%s@{|x| x.m}" % add), ("var", "f := {|x| x.m}\nr := os%s@^f" % add)):
            body = expr if form == "var" else "r := " + expr
            oc = ("val", out) if out else ("err", "property `m` is not defined.")
            cases.append(("nilelem/%s@/%s" % (add, form), pre + body + "\nr", tr, oc))
            if out:
                ml = body.replace("os%s@" % add, "os # note\n  |%s@([9])" % add)
                cases.append(("layout-arg/%s@/%s" % (add, form), pre + ml + "\nr", tr, ("val", "[9, " + out[1:])))
    # elements that lack the property (property form): NoPropErr is a failed result
    for add in ADDS:
        pre = "B := %{1: 'v, 2: 'v, 3: 'v}\nos := [mk(1, B), {i: 2}, mk(3, B)]\n"
        if add == "~":
            tr, oc = ["c1", "c3"], ("val", "[10, 2, 30]")
        else:
            tr, oc = ["c1"], ("err", "property `m` is not defined.")
        cases.append(("noprop/%s@/prop" % add, pre + "r := os%s@m\nr=@{|e| e.i if e.proto == Obj && e.keys.has?('i) else e}" % add, tr, oc))
        cases.append(("noprop/%s@/lit" % add, pre + "r := os%s@{|x| x.m}\nr=@{|e| e.i if e.proto == Obj && e.keys.has?('i) else e}" % add, tr, oc))
    # a chain argument digests the collected results even when nothing was collected
    for add in ADDS:
        for recv, why in (("[]", "empty"), ("0", "empty-int"), ("[nil, nil]", "all-nil")):
            for carg, exp_empty in (("{z: 1}", '{"z": 1}'), ("%{0: 0}", "%{0: 0}"), ("[9]", "[9]")):
                if why == "all-nil" and add in ("=", "~"):
                    continue   # nils are kept: digest of nils is another matter
                for form, expr in (("prop", "%s%s@(%s)S" % (recv, add, carg)),
                                   ("lit", "%s%s@(%s){|x| x.S}" % (recv, add, carg)),
                                   ("var", "f := {|x| x.S}\nr := %s%s@(%s)^f" % (recv, add, carg))):
                    if why == "all-nil":
                        expr = expr.replace("S", "nil?.{nil}") if False else expr
                    body = expr if form == "var" else "r := " + expr
                    if why == "all-nil" and add != "&":
                        continue
                    cases.append(("digest-empty/%s@/%s/%s" % (add, form, why), body + "\nr", [], ("val", exp_empty)))
    # scalar chains: three forms on one object, and literal form on nil / value receivers
    for add in ADDS:
        for b in "vnrsi":
            B = bmap([b, b, b])
            tr, oc = oracle_scalar(add, b, "<o>", 1)
            pre = "B := %s\no := mk(1, B)\n" % B
            for form, expr in (("prop", "o%s.m" % add), ("lit", "o%s.{|x| x.m}" % add), ("var", "f := {|x| x.m}\nr := o%s.^f" % add)):
                body = expr if form == "var" else "r := " + expr
                cases.append(("scalar/%s./%s" % (add, form), pre + body + "\n(r.i if r.proto == Obj && r.keys.has?('i) else r)", tr,
                              (oc[0], oc[1].replace("<o>", "1"))))
            for rr, rrepr in (("5", "5"), ("nil", "nil"), ("INIL", "nil")):
                tr, oc = oracle_scalar(add, b, rrepr, 1)
                cases.append(("scalar/%s./lit/%s" % (add, rr),
                              'r := %s%s.{|x| "c1".p; beh(\'%s, 1)}\nr' % (rr, add, b), tr, oc))
    # reduce chains: literal and variable form with behaviours; property form with `+`
    for add in ADDS:
        for beh in vecs:
            B = bmap(beh)
            for init, ini in (("(0)", 0), ("(100)", 100), ("", None)):
                tr, oc = oracle_reduce(add, beh, ini)
                fn = '{|acc, x| ("c" + x.S).p; b := beh(%s[x], x); nil if b.nil? else (acc + b)}' % B
                cases.append(("reduce/%s$/lit" % add, "r := [1, 2, 3]%s$%s%s\nr" % (add, init, fn), tr, oc))
                cases.append(("reduce/%s$/var" % add, "f := %s\nr := [1, 2, 3]%s$%s^f\nr" % (fn, add, init), tr, oc))
        for recv, res in (("[1, 2, 3]", 6), ("3", 6), ("(1:4)", 6), ("ARRD.new([3, 2, 1])", 6)):
            for init, ini in (("(0)", 0), ("(100)", 100)):
                cases.append(("reduce/%s$/prop" % add, "r := %s%s$%s+\nr" % (recv, add, init), [], ("val", str(res + ini))))
                cases.append(("reduce/%s$/litplus" % add, "r := %s%s$%s{|acc, x| acc + x}\nr" % (recv, add, init), [], ("val", str(res + ini))))
    # receivers of one Go type but different prototypes in one chain: each element is looked up along ITS OWN chain, in all three forms
    het = [("xs := [1, Int.bear({S: m{\"five\"}}).new(5), 2]", "S", '["1", "five", "2"]'),
           ('ys := ["a", Str.bear({len: m{99}}).new("bb"), "c"]', "len", "[1, 99, 1]")]
    for pre, name, want in het:
        var = pre.split(" ")[0]
        for form, expr in (("prop", "%s@%s" % (var, name)), ("lit", "%s@{|x| x.%s}" % (var, name)), ("var", "f := {|x| x.%s}\nr := %s@^f" % (name, var))):
            body = expr if form == "var" else "r := " + expr
            cases.append(("hetero/@/%s" % form, pre + "\n" + body + "\nr", [], ("val", want)))
    cases.append(("hetero/$/prop", "zs := [3, Int.bear({'+: m{|o| 1000}}).new(4), 5]\nr := zs$(0)+\nr", [], ("val", "12")))
    cases.append(("hetero/$/lit", "zs := [3, Int.bear({'+: m{|o| 1000}}).new(4), 5]\nr := zs$(0){|a, x| a + x}\nr", [], ("val", "12")))
    # a receiver that cannot be iterated: every list / reduce context raises TypeErr, the thoughtful ones capture nothing silently
    for recv in ("BaseObj.bear({a: 1})", "{_iter: nil}"):
        for chain in ("@{|x| x}", "~@{|x| x}", "=@{|x| x}", "&@{|x| x}", "$(0){|a, x| a}", "~$(0){|a, x| a}", "=$(0){|a, x| a}", "~$(0)+", "@S", "~@S"):
            cases.append(("noiter/%s" % chain[:2], "r := 1.try.{|_| (%s)%s}.err.{|e| e.type._name if e != nil}\nr" % (recv, chain), [], ("val", '"TypeErr"')))
    # a built-in function OBJECT as the callee of a variable call: each element is its one argument, whatever its length
    pre = "rows := [[3, 1, 2], [5], [], [4, 6]]\nlen := Arr['len]\nuc := Str['uc]\n"
    cases.append(("builtin-callee/@", pre + "r := [rows@len, rows@{|x| x.len}, rows@^len, rows~@^len, rows=@^len, rows&@^len]\nr", [],
                  ("val", "[" + ", ".join(["[3, 1, 0, 2]"] * 6) + "]")))
    cases.append(("builtin-callee/.", pre + 'r := [[7, 8].^len, [7, 8]&.^len, [7, 8]~.^len, ["ab", "c"]@^uc, "ab".^uc]\nr', [], ("val", '[2, 2, 2, ["AB", "C"], "AB"]')))
    cases.append(("builtin-callee/$", pre + "r := rows$(0){|acc, r| acc + r.^len}\nr", [], ("val", "6")))
    # a strict chain keeps nil results: with an obj / map chain argument they are not pairs, so the digest fails (it must not drop
    # them as `@` does); with an arr chain argument they are kept
    pre = ("xs := [1, 2, 3, 4]\npairOf := {|x| [x.S, x * 10] if x.even?}\no4 := xs@{|x| {v: x, pair: m{[.v.S, .v * 10] if .v.even?}}}\n"
           "t := {|f| nil.try.fmap {f()}.err.{|e| e.type._name if e != nil}}\n")
    cases.append(("strict-digest/squash", pre + "r := [xs@({})^pairOf, xs@({}){|x| [x.S, x * 10] if x.even?}, o4@({})pair, xs@(%{})^pairOf, xs&@({})^pairOf]\nr", [],
                  ("val", '[{"2": 20, "4": 40}, {"2": 20, "4": 40}, {"2": 20, "4": 40}, %{"2": 20, "4": 40}, {"2": 20, "4": 40}]')))
    cases.append(("strict-digest/strict", pre + "r := [t({|| xs=@({})^pairOf}), t({|| xs=@({}){|x| [x.S, x * 10] if x.even?}}), t({|| o4=@({})pair}), t({|| xs=@(%{})^pairOf})]\nr", [],
                  ("val", '["ValueErr", "ValueErr", "ValueErr", "ValueErr"]')))
    cases.append(("strict-digest/arr", pre + "r := xs=@([])^pairOf\nr", [], ("val", '[nil, ["2", 20], nil, ["4", 40]]')))
    # a child (bear) of an iterator is a receiver like the iterator itself, in every context and form
    pre = "it := <{|i| yield i if i <= 3; recur(i + 1)}>.new(1)\nnamed := it.bear({name: \"one to three\"})\nf := {|x| x * 3}\n"
    cases.append(("iter-child", pre + "r := [named.name, named@{|x| x * 2}, named@S, named$(0)+, named.A, named~@{|x| x}, named=@{|x| x}, named&@{|x| x}, named@^f, named$(1){|a, x| a * x}]\nr", [],
                  ("val", '["one to three", [2, 4, 6], ["1", "2", "3"], 6, [1, 2, 3], [1, 2, 3], [1, 2, 3], [1, 2, 3], [3, 6, 9], 6]')))
    cases.append(("iter-child", "b := [1, 2, 3]._iter.bear({})\nr := b@{|x| x * 2}\nr", [], ("val", "[2, 4, 6]")))
    # the chain argument's own entries win over collected results with the same key
    cases.append(("digest/obj-overlap", 'r := ["a", "b"]@({a: 0}){|k| [k, k.uc]}\nr', [], ("val", '{"a": 0, "b": "B"}')))
    cases.append(("digest/map-overlap", "r := [1, 2]@(%{1: 'x}){|k| [k, k * 2]}\nr", [], ("val", '%{1: "x", 2: 4}')))
    # digest into other containers
    cases.append(("digest/obj", 'r := [1, 2]@({z: 0}){|x| ["k" + x.S, x]}\nr', [], ("val", '{"k1": 1, "k2": 2, "z": 0}')))
    cases.append(("digest/map", 'r := [1, 2]@(%{0: 0}){|x| [x, x * 2]}\nr', [], ("val", "%{0: 0, 1: 2, 2: 4}")))
    cases.append(("digest/arr", "r := [1, 2]@([7])S\nr", [], ("val", '[7, "1", "2"]')))
    return cases


def main(chk):
    ok, broken = obligations(chk, "Props/C04.v")
    cases = gen(chk)
    progs = [c[1] + "\n" for c in cases]
    res = pancore.run_programs(chk, progs, cmp_msg=True, prelude=PRELUDE)
    viol, model_only, fam = [], [], {}
    for (f, prog, tr, oc), r in zip(cases, res):
        key = "/".join(f.split("/")[:3])
        fam[key] = fam.get(key, 0) + 1
        chk.count(prog, True)
        imp = r["impl"]
        eout = "".join(t + "\n" for t in tr)
        if oc[0] == "err":
            good = imp["kind"] == "error" and imp.get("errk") in ("Err", "NoPropErr", "StopIterErr") and (imp.get("errmsg") == oc[1] or imp.get("errk") == "NoPropErr") and imp.get("out") == eout
        else:
            good = imp["kind"] == "value" and imp.get("repr") == oc[1] and imp.get("out") == eout
        if not good:
            viol.append(("chain rule violated (%s): expected calls %s and %s, implementation gave %s" % (
                f, tr, oc, {k: imp.get(k) for k in ("kind", "repr", "errk", "errmsg", "out")}),
                {"program": prog, "prelude": PRELUDE, "expected_trace": tr, "expected_outcome": oc, "impl": imp, "family": f},
                "C04:" + key))
        elif r["verdict"] == "disagree":
            model_only.append(r)
    chk.cov["input_distribution"] = fam
    chk.cov["rule"] = ("12 chain contexts ({'', &, ~, =} x {., @, $}) x call forms (property call, literal call, variable call) x receivers "
                       "(arr, arr with a nil element, int, range, str, obj, map, iterator literal) x ALL behaviour vectors {value, nil, raise}^3 (+ vectors with a callee that raises StopIterErr) of a "
                       "table-driven callee that prints its argument; list chains with and without a chain argument; the three forms side by "
                       "side on arrays of objects (list), on one object (scalar) and with `+` (reduce); digest into arr/obj/map (also with overlapping keys and with nothing collected); the chain on a continuation line after comments; receivers of one Go type "
                       "but different prototypes; receivers that cannot be iterated. Expected calls "
                       "and result from the property's per-element rules (Python oracle) and from PanCore. The lonely reduce chain is compared "
                       "per form only (its receiver differs between the forms, as the property says).")
    for i in (0, len(progs) // 2, len(progs) - 1):
        chk.sample({"program": progs[i], "expected_trace": cases[i][2], "expected": cases[i][3],
                    "impl": {k: res[i]["impl"].get(k) for k in ("kind", "repr", "errk", "out")}, "model_verdict": res[i]["verdict"]})
    chk.cov["rule"] += " Added after seeded round 5: an element / result / receiver that is an inherited nil, a receiver that is a descendant of Arr with its own _iter."
    chk.cov["rule"] += " (10 receiver kinds in all.) Added after seeded round 6: a built-in function object as callee, strict chains with obj / map / arr chain arguments and nil results, a child of an iterator as receiver."
    return pancore.conclude(chk, ok, broken, "Props/C04.v", res, viol, model_only, "C04",
                            "Core.Interp (prop_chain, lit_chain) vs evaluator/eval_{propcall,literalcall}_chain.go")
