"""Shared machinery of the /verif checks: building the harness and the Coq
development, running correspondence shards inside Coq, reading proof
obligations, known findings, evidence and VIOLATION reporting."""
import concurrent.futures as cf
import hashlib
import json
import os
import random
import re
import shutil
import subprocess
import sys
import time

ROOT = os.path.dirname(os.path.dirname(os.path.abspath(__file__)))
REPO = os.environ.get("VERIF_REPO", "/repo")
COQ = os.path.join(ROOT, "coq")
GEN = os.path.join(COQ, "gen")
BUILD = os.path.join(ROOT, "build")
# runs against a scratch worktree ($VERIF_REPO) use their own generated Coq modules (gen/World_<suffix>.v,
# gen/cases_..._<suffix>.v) so that they can run beside a run against /repo
SUFFIX = "" if os.path.realpath(REPO) == "/repo" else "_" + re.sub(r"[^A-Za-z0-9]+", "_", os.path.basename(os.path.realpath(REPO)))
WORLD = "World" + SUFFIX
# one binary per repository path, so that a run against a scratch worktree ($VERIF_REPO) never replaces the
# binary a concurrent run against /repo is using
HARNESS = os.path.join(BUILD, "panharness" if os.path.realpath(REPO) == "/repo" else
                       "panharness-" + re.sub(r"[^A-Za-z0-9]+", "_", os.path.realpath(REPO)).strip("_"))
NCPU = min(16, os.cpu_count() or 4)

GOENV = dict(os.environ, GOFLAGS="-mod=mod", GOPROXY="off", GOSUMDB="off",
             GOTOOLCHAIN="local", CGO_ENABLED=os.environ.get("CGO_ENABLED", "0"))

ALLOWED_AXIOMS = {
    "Classical_Prop.classic",
    "ClassicalDedekindReals.sig_not_dec",
    "ClassicalDedekindReals.sig_forall_dec",
    "FunctionalExtensionality.functional_extensionality_dep",
}

FORBIDDEN = re.compile(r"\b(Admitted|admit|Axiom|Parameter|Conjecture|Unset Guard|bypass_check|Admit Obligations)\b")


class Check:
    """One run of one property's check."""

    def __init__(self, pid, tier=None, seed=None):
        self.pid = pid
        self.tier = tier or os.environ.get("VERIF_TIER") or "quick"
        if self.tier not in ("quick", "thorough"):
            self.tier = "quick"
        self.seed = int(seed if seed is not None else os.environ.get("VERIF_SEED", "20260925") or 0)
        self.rng = random.Random(self.seed)
        self.t0 = time.time()
        self.violations = []       # (what, replay dict)
        self.known = []            # strings
        self.cov = {"evaluations": 0, "distinct_nontrivial": 0, "rule": "", "samples": [],
                    "obligations": 0, "discharged": 0, "checker_cmd": "", "trusted_base": [],
                    "explanation": ""}
        self.assumptions = []
        self.distinct = set()
        self.findings = load_known(pid)
        self.log = []

    # ---- bookkeeping -------------------------------------------------
    def note(self, *a):
        msg = " ".join(str(x) for x in a)
        self.log.append(msg)
        print("[%s %6.1fs] %s" % (self.pid, time.time() - self.t0, msg), flush=True)

    def count(self, key, nontrivial=True, n=1):
        self.cov["evaluations"] += n
        if nontrivial:
            h = hashlib.sha1(repr(key).encode()).digest()[:8]
            self.distinct.add(h)

    def sample(self, s, limit=12):
        if len(self.cov["samples"]) < limit:
            self.cov["samples"].append(s)

    # ---- outcome -----------------------------------------------------
    def fail(self, what, replay, klass=None, no_input=False):
        """Report a failing input (or a broken obligation). klass is matched
        against the open entries of known_findings.json."""
        for f in self.findings:
            if f.get("status") == "open" and klass is not None and f.get("class") == klass:
                line = "KNOWN-FINDING: property=%s %s" % (self.pid, f["what"])
                if line not in self.known:
                    self.known.append(line)
                return False
        self.violations.append((what, replay, no_input))
        return True

    def finish(self):
        self.cov["distinct_nontrivial"] = len(self.distinct)
        os.makedirs(os.path.join(ROOT, "evidence"), exist_ok=True)
        nviol = len(self.violations)
        ev = {
            "property_id": self.pid, "tier": self.tier, "seed": self.seed, "level": "proof",
            "coverage": self.cov, "assumptions": self.assumptions,
            "wall_s": round(time.time() - self.t0, 2), "violations": nviol,
        }
        ev["coverage"]["known_findings_reported"] = list(self.known)
        if WATCHDOG:
            ev["coverage"]["stopped_by_watchdog"] = {"count": len(WATCHDOG), "first": [list(w) for w in WATCHDOG[:10]]}
        with open(os.path.join(ROOT, "evidence", self.pid + ".json"), "w") as f:
            json.dump(ev, f, indent=1, sort_keys=True)
            f.write("\n")
        for line in self.known:
            print(line)
        if nviol:
            rdir = os.path.join(ROOT, "replays", self.pid)
            os.makedirs(rdir, exist_ok=True)
            # one VIOLATION line per distinct class, at most 5
            for i, (what, replay, no_input) in enumerate(self.violations[:5]):
                path = os.path.join(rdir, "%d.json" % i)
                with open(path, "w") as f:
                    json.dump({"property": self.pid, "what": what, "replay": replay,
                               "seed": self.seed, "tier": self.tier}, f, indent=1)
                    f.write("\n")
                tail = " no-failing-input-found" if no_input else ""
                print("VIOLATION property=%s replay=%s%s" % (self.pid, os.path.relpath(path, ROOT), tail))
                print("  " + what[:300])
            sys.stdout.flush()
            return 1
        print("OK property=%s tier=%s obligations=%d/%d evaluations=%d distinct_nontrivial=%d wall=%.1fs" % (
            self.pid, self.tier, self.cov["discharged"], self.cov["obligations"],
            self.cov["evaluations"], self.cov["distinct_nontrivial"], time.time() - self.t0))
        return 0


def load_known(pid):
    p = os.path.join(ROOT, "known_findings.json")
    if not os.path.exists(p):
        return []
    with open(p) as f:
        d = json.load(f)
    return [e for e in d.get("findings", []) if e.get("property") == pid]


# ---- building ----------------------------------------------------------
def run(cmd, cwd=None, env=None, timeout=1800, inp=None):
    p = subprocess.run(cmd, cwd=cwd, env=env, input=inp, stdout=subprocess.PIPE,
                       stderr=subprocess.STDOUT, timeout=timeout,
                       universal_newlines=isinstance(inp, str) or inp is None)
    return p.returncode, p.stdout


_built = {}


def build_harness(race=False, tags="verif"):
    """go build of /verif/harness against /repo's working tree."""
    key = ("race" if race else "plain")
    if key in _built:
        return _built[key]
    os.makedirs(BUILD, exist_ok=True)
    hdir = os.path.join(ROOT, "harness")
    shutil.copyfile(os.path.join(REPO, "go.sum"), os.path.join(hdir, "go.sum"))
    out = HARNESS + ("-race" if race else "")
    # built under a private name and moved into place only when it differs: a check running at the same time may be executing it
    final, out = out, out + ".%d.tmp" % os.getpid()
    env = dict(GOENV)
    cmd = ["go", "build", "-tags", tags, "-o", out]
    if os.path.realpath(REPO) != "/repo":
        # mutation / scratch runs: same module, replace directives pointed at $VERIF_REPO
        mod = open(os.path.join(hdir, "go.mod")).read().replace("=> /repo", "=> " + os.path.realpath(REPO))
        alt = os.path.join(BUILD, os.path.basename(HARNESS) + ".mod")
        with open(alt, "w") as f:
            f.write(mod)
        shutil.copyfile(os.path.join(REPO, "go.sum"), alt[:-4] + ".sum")
        cmd += ["-modfile", alt]
    if race:
        env["CGO_ENABLED"] = "1"
        cmd.insert(2, "-race")
    cmd.append(".")
    rc, log = run(cmd, cwd=hdir, env=env)
    if rc != 0:
        try:
            os.remove(out)
        except OSError:
            pass
        raise BuildError("go build of the harness against %s failed:\n%s" % (REPO, log))
    import filecmp
    if os.path.exists(final) and filecmp.cmp(out, final, shallow=False):
        os.remove(out)
    else:
        os.replace(out, final)
    _built[key] = final
    return final


class BuildError(Exception):
    pass


def harness(sub, lines, extra=(), race=False, timeout=1800, shards=1, env=None, force=False):
    """Run a harness sub-command over JSON lines; returns the list of JSON replies.
    With shards>1 the input is split round-robin over parallel processes."""
    exe = build_harness(race=race)
    reqs = [json.dumps(x) if not isinstance(x, str) else x for x in lines]
    shards = min(shards, max(1, len(reqs)))
    if shards <= 1 or (len(reqs) < 2 * shards and not force):
        return _harness1(exe, sub, extra, reqs, timeout, env)
    chunks = [reqs[i::shards] for i in range(shards)]
    with cf.ThreadPoolExecutor(max_workers=min(shards, 2 * NCPU)) as ex:
        outs = list(ex.map(lambda c: _harness1(exe, sub, extra, c, timeout, env), chunks))
    res = [None] * len(reqs)
    for i, o in enumerate(outs):
        res[i::shards] = o
    return res


def _harness1(exe, sub, extra, reqs, timeout, env=None):
    """One harness process over the request lines. When the harness's watchdog stops the process (exit 3, last line
    {"watchdog": kind}) the request that was running gets the reply {"kind": "fuel", "watchdog": kind} — discarded like an
    evaluation that ran out of fuel — and a new process continues with the remaining requests."""
    outs = []
    todo = list(reqs)
    while todo:
        p = subprocess.run([exe, sub] + list(extra), input="\n".join(todo) + "\n",
                           stdout=subprocess.PIPE, stderr=subprocess.PIPE, timeout=timeout,
                           universal_newlines=True, env=env)
        got = []
        for l in p.stdout.split("\n"):
            l = l.strip()
            if l.startswith("{") or l.startswith("["):      # (the HTTP module's server prints a banner on the same stream)
                try:
                    got.append(json.loads(l))
                except ValueError:
                    pass
        if p.returncode == 3 and got and isinstance(got[-1], dict) and "watchdog" in got[-1] and len(got) <= len(todo):
            kind = got[-1]["watchdog"]
            outs += got[:-1] + [{"kind": "fuel", "watchdog": kind, "out": "", "repr": "", "errk": "", "errmsg": ""}]
            WATCHDOG.append((sub, kind, todo[len(got) - 1][:300]))
            todo = todo[len(got):]
            continue
        if p.returncode != 0 or len(got) != len(todo):
            raise HarnessCrash(sub, p.returncode, p.stderr[-4000:], len(outs) + len(got), len(reqs),
                               todo[len(got)] if len(got) < len(todo) else None)
        outs += got
        todo = []
    return outs


WATCHDOG = []   # (sub-command, kind, request) of every evaluation the harness watchdog stopped in this run


class HarnessCrash(Exception):
    def __init__(self, sub, rc, stderr, got, want, culprit):
        Exception.__init__(self, "harness %s exited %s after %d of %d replies" % (sub, rc, got, want))
        self.sub, self.rc, self.stderr, self.got, self.want, self.culprit = sub, rc, stderr, got, want, culprit


def coq_project_files():
    files = []
    for l in open(os.path.join(COQ, "_CoqProject")):
        l = l.strip()
        if l.endswith(".v"):
            files.append(l)
    return files


def write_coq_project():
    """_CoqProject lists every .v under coq/ except gen/ (coqdep orders them)."""
    files = []
    for dp, dn, fn in os.walk(COQ):
        dn[:] = sorted(d for d in dn if d != "gen" and not d.startswith("."))
        for f in sorted(fn):
            if f.endswith(".v"):
                files.append(os.path.relpath(os.path.join(dp, f), COQ))
    body = ("-R . PanVerif\n-arg -w -arg -notation-overridden,-deprecated-hint-without-locality,"
            "-deprecated-instance-without-locality\n" + "\n".join(sorted(files)) + "\n")
    path = os.path.join(COQ, "_CoqProject")
    old = open(path).read() if os.path.exists(path) else None
    if old != body:
        with open(path, "w") as f:
            f.write(body)
        return True
    return False


def coq_make(targets=None, timeout=3000):
    """Full .vo build (never -vos) through coq_makefile. targets: list of .vo paths
    relative to coq/, or None for everything."""
    changed = write_coq_project()
    if changed or not os.path.exists(os.path.join(COQ, "Makefile")) or \
            os.path.getmtime(os.path.join(COQ, "Makefile")) < os.path.getmtime(os.path.join(COQ, "_CoqProject")):
        rc, log = run(["coq_makefile", "-f", "_CoqProject", "-o", "Makefile"], cwd=COQ)
        if rc != 0:
            return False, log
    cmd = ["timeout", str(timeout), "make", "-j%d" % NCPU]
    if targets:
        cmd += targets
    rc, log = run(cmd, cwd=COQ, timeout=timeout + 60)
    return rc == 0, log


def scan_forbidden():
    """grep the whole development for Admitted / admit / Axiom / ... (comments stripped)."""
    bad = []
    for dp, dn, fn in os.walk(COQ):
        for f in fn:
            if not f.endswith(".v"):
                continue
            p = os.path.join(dp, f)
            try:
                txt = open(p).read()
            except FileNotFoundError:          # a generated shard of a check running at the same time, already evaluated and removed
                continue
            if not FORBIDDEN.search(txt):      # fast path: the word does not occur at all
                continue
            txt = strip_comments(txt)
            for m in FORBIDDEN.finditer(txt):
                bad.append("%s: %s" % (os.path.relpath(p, COQ), m.group(0)))
    return bad


def strip_comments(txt):
    out, depth, i = [], 0, 0
    while i < len(txt):
        if txt.startswith("(*", i):
            depth += 1
            i += 2
        elif txt.startswith("*)", i) and depth > 0:
            depth -= 1
            i += 2
        else:
            if depth == 0:
                out.append(txt[i])
            i += 1
    return "".join(out)


class coq_lock:
    """Checks may be run at the same time (different properties, or the same property against different trees): builds in coq/
    are serialised through a lock file so that no run reads a .vo another run is rewriting."""
    def __enter__(self):
        import fcntl
        os.makedirs(BUILD, exist_ok=True)
        self.f = open(os.path.join(BUILD, ".coq.lock"), "w")
        fcntl.flock(self.f, fcntl.LOCK_EX)
        return self

    def __exit__(self, *a):
        import fcntl
        fcntl.flock(self.f, fcntl.LOCK_UN)
        self.f.close()


def obligations(chk, props_file, extra_targets=()):
    """Build Props/<id>.v (and what it depends on), read the theorems it states and
    the Print Assumptions block under each. Records obligations/discharged and the
    axioms in the evidence. Returns (ok, broken) where broken names what failed."""
    vo = props_file[:-2] + ".vo"
    with coq_lock():
        ok, log = coq_make([vo] + list(extra_targets))
    if ok:
        # the property file is compiled once more, into a private output, to capture what it prints (Print Assumptions under every
        # theorem); the shared .vo is never removed, so checks running at the same time (and coqchk) always find it
        tmpdir = os.path.join(BUILD, "props", str(os.getpid()))
        os.makedirs(tmpdir, exist_ok=True)
        tmpvo = os.path.join(tmpdir, os.path.basename(vo))       # coqc wants the same file name, the directory may differ
        rc, log = run(["coqc", "-q", "-R", ".", "PanVerif", "-w", "-notation-overridden,-deprecated-hint-without-locality,-deprecated-instance-without-locality",
                       "-noglob", "-o", tmpvo, props_file], cwd=COQ, timeout=1800)
        ok = rc == 0
        shutil.rmtree(tmpdir, ignore_errors=True)
    src = strip_comments(open(os.path.join(COQ, props_file)).read())
    thms = re.findall(r"^\s*(?:Theorem|Lemma)\s+(\w+)", src, re.M)
    chk.cov["obligations"] += len(thms)
    chk.cov["checker_cmd"] = ("coq_makefile -f _CoqProject && make %s  (coqc 8.16.1, full .vo build), then coqc -o build/props/<pid>/%s %s to capture "
                              "Print Assumptions under every theorem (the shared .vo is never removed)" % (vo, os.path.basename(vo), props_file))
    bad = scan_forbidden()
    if bad:
        chk.note("forbidden constructs:", bad[:5])
        return False, "forbidden construct in development: " + "; ".join(bad[:5])
    if not ok:
        m = re.search(r'File "([^"]+)", line (\d+)[^\n]*\n(?:.*\n){0,12}?Error:[^\n]*(?:\n[^\n]+){0,3}', log)
        where = m.group(0) if m else log[-1500:]
        chk.note("Coq build failed:\n" + where)
        return False, "proof obligation does not check: " + where[:1200]
    # Print Assumptions output: one block per theorem, in order
    blocks = re.split(r"(?=^Closed under the global context|^Axioms:)", log, flags=re.M)
    blocks = [b for b in blocks if b.startswith("Closed under") or b.startswith("Axioms:")]
    axioms = set()
    for b in blocks:
        if b.startswith("Axioms:"):
            for m in re.finditer(r"^([A-Za-z_][\w.]*)\s*(?::|$)", b[len("Axioms:"):], re.M):
                axioms.add(m.group(1))
    bad_ax = sorted(a for a in axioms if a not in ALLOWED_AXIOMS)
    if bad_ax:
        return False, "theorem depends on an axiom outside the allow-list: " + ", ".join(bad_ax)
    if len(blocks) < len(thms):
        return False, "Print Assumptions missing under some theorem of %s (%d < %d)" % (props_file, len(blocks), len(thms))
    if chk.tier == "thorough" and "coqchk" not in chk.cov:
        # independent re-check of the compiled property file and everything it depends on
        mod = "PanVerif." + props_file[:-2].replace("/", ".")
        rc, out = run(["timeout", "2400", "coqchk", "-silent", "-o", "-R", ".", "PanVerif", mod], cwd=COQ, timeout=2500)
        flat = " ".join(out.split())
        m = re.search(r"\* Axioms: (.*?) \* Constants/Inductives relying on type-in-type", flat)
        chk.cov["coqchk"] = {"cmd": "coqchk -silent -o -R . PanVerif " + mod, "rc": rc, "axioms": m.group(1).strip() if m else "?"}
        if rc != 0:
            return False, "coqchk rejects %s: %s" % (vo, out[-600:])
        bad_ck = [a for a in re.findall(r"([A-Za-z_][\w.]*)\s*:", m.group(1)) if a.split(".")[-1] not in
                  [x.split(".")[-1] for x in ALLOWED_AXIOMS]] if m and "<none>" not in m.group(1) else []
        if bad_ck:
            return False, "coqchk reports axioms outside the allow-list: " + ", ".join(bad_ck)
    chk.cov["discharged"] += len(thms)
    chk.cov["theorems"] = chk.cov.get("theorems", []) + thms
    tb = chk.cov["trusted_base"]
    for x in ["Coq 8.16.1 kernel + VM (vm_compute); no native_compute",
              "axioms under the property theorems: " + (", ".join(sorted(axioms)) if axioms else "none (closed under the global context)")]:
        if x not in tb:
            tb.append(x)
    return True, None


def coq_eval(name, body, timeout=900):
    """Write gen/<name>.v with body, compile it, return (rc, output)."""
    os.makedirs(GEN, exist_ok=True)
    if SUFFIX:
        name += SUFFIX
        body = body.replace("gen.World.", "gen." + WORLD + ".").replace("gen.World\n", "gen." + WORLD + "\n").replace("gen.World ", "gen." + WORLD + " ")
    path = os.path.join(GEN, name + ".v")
    with open(path, "w") as f:
        f.write(body)
    # (a large C stack: vm_compute recurses as deep as the evaluated program does)
    rc, out = run(["bash", "-c", "ulimit -s unlimited 2>/dev/null || ulimit -s 1000000 2>/dev/null; exec timeout %d coqc -R . PanVerif -w -all %s"
                   % (timeout, os.path.join("gen", name + ".v"))], cwd=COQ, timeout=timeout + 30)
    # the correspondence shards are pure data + one Eval: not kept once they have been evaluated (kept when coqc failed)
    exts = (".vo", ".vok", ".vos", ".glob") + ((".v",) if rc == 0 and name.startswith("cases_") else ())
    for ext in exts:
        try:
            os.remove(os.path.join(GEN, name + ext))
        except OSError:
            pass
    try:
        os.remove(os.path.join(GEN, "." + name + ".aux"))
    except OSError:
        pass
    return rc, out


def coq_eval_many(named_bodies, timeout=900):
    with cf.ThreadPoolExecutor(max_workers=NCPU) as ex:
        return list(ex.map(lambda nb: coq_eval(nb[0], nb[1], timeout), named_bodies))


def dhash(x):
    """deterministic hash (Python's own hash of strings changes from process to process)"""
    import zlib
    return zlib.crc32(repr(x).encode())


_ERRVAL = re.compile(r"\[([A-Z][A-Za-z]*Err): (?:[^\[\]]|\[[^\[\]]*\])*\]")


def norm_err_msgs(s):
    """An error VALUE prints as [Kind: message]. Where a property speaks about the kind of an error and not about its wording, the
    oracles compare texts with the message removed, so that rewording a message of the implementation is not reported as a violation."""
    return _ERRVAL.sub(lambda m: "[" + m.group(1) + "]", s or "")


def run_seeded_corpus(chk, pid=None):
    """Regression cases kept from seeded changes (tools/seeded_corpus/<PID>/*.pangaea + .json, written by tools/addcorpus.py):
    every program is evaluated twice in one interpreter and must print what it printed on the unchanged tree."""
    pid = pid or chk.pid
    d = os.path.join(ROOT, "tools", "seeded_corpus", pid)
    if not os.path.isdir(d):
        return 0
    names = sorted(f[:-8] for f in os.listdir(d) if f.endswith(".pangaea"))
    cases = []
    for n in names:
        exp = json.load(open(os.path.join(d, n + ".json")))
        cases.append((n, open(os.path.join(d, n + ".pangaea")).read(), exp))
    # (programs that read standard input are evaluated once: the second evaluation would find it consumed)
    outs = harness("eval", [{"src": src, "stdin": exp.get("stdin", ""), "repeat": 1 if exp.get("stdin") else 2} for _, src, exp in cases], shards=min(NCPU, max(1, len(cases))))
    for (n, src, exp), r in zip(cases, outs):
        chk.count(("seeded-corpus", n), True)
        if r["kind"] == "fuel":
            continue
        same_out = r.get("out", "") == exp["out"] or (pid != "C13" and norm_err_msgs(r.get("out", "")) == norm_err_msgs(exp["out"]))
        if r.get("nondet") or r["kind"] != exp["kind"] or not same_out or (exp["kind"] == "error" and r.get("errk") != exp["errk"]):
            chk.fail("regression case %s (kept from a seeded change: %s): the program no longer prints what it printed on the unchanged tree: %r vs %r%s" % (
                n, exp.get("what", "")[:120], (r["kind"], r.get("errk"), r.get("out", "")[-300:]), (exp["kind"], exp.get("errk"), exp["out"][-300:]),
                " (and differs between two evaluations)" if r.get("nondet") else ""),
                {"program": src, "stdin": exp.get("stdin", ""), "expected": exp, "impl": {k: r.get(k) for k in ("kind", "errk", "errmsg", "out", "nondet")}},
                klass=pid + ":corpus:" + n)
    chk.cov["seeded_corpus_cases"] = len(cases)
    return len(cases)


def shard(seq, n):
    n = max(1, min(n, len(seq)))
    k = (len(seq) + n - 1) // n
    return [seq[i:i + k] for i in range(0, len(seq), k)] if seq else []


def zlit(z):
    z = int(z)
    return "(%d)" % z if z < 0 else "%d" % z


def coq_string(s):
    """Coq string literal for a python str of bytes <= 0x7f; others via ascii codes."""
    return '"' + s.replace('"', '""') + '"'
