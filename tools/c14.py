"""C14 — iterator protocol and independence: proof obligations (Props/C14.v) +
interleaved histories of new / next / chain / A / _iter over several iterators made
from one literal, compared with PanCore and with an explicit per-iterator state
machine (the property's direct oracle)."""
from pv import *
import pancore

N = 4

# families: (name, literal source, initial state from args, step(state) -> ('y', value, newstate) | ('stop',))
def fam_counter():
    src = "<{|i| yield i if i < %d; recur(i + 1)}>" % N
    def step(s):
        i, = s
        return ("y", i, (i + 1,)) if i < N else ("stop",)
    return ("counter", src, 1, step, True)

def fam_fib():
    src = "<{|a, b| yield a if a < 20; recur(b, a + b)}>"
    def step(s):
        a, b = s
        return ("y", a, (b, a + b)) if a < 20 else ("stop",)
    return ("fib", src, 2, step, True)

def fam_local():
    src = "<{|i| j := i * 2; yield j + 1 if i < %d; recur(i + 1)}>" % N
    def step(s):
        i, = s
        return ("y", i * 2 + 1, (i + 1,)) if i < N else ("stop",)
    return ("local", src, 1, step, True)

def fam_outer():
    src = "<{|i| yield i * k if i < %d; recur(i + 1)}>" % N
    def step(s):
        i, = s
        return ("y", i * 3, (i + 1,)) if i < N else ("stop",)
    return ("outer", src, 1, step, True)

def fam_norecur():
    src = "<{|i| yield i if i < %d}>" % N
    def step(s):
        i, = s
        return ("y", i, (i,)) if i < N else ("stop",)
    return ("norecur", src, 1, step, False)     # never stops when i < N: no chains

def fam_infinite():
    src = "<{|i| yield i; recur(i + 2)}>"
    def step(s):
        i, = s
        return ("y", i, (i + 2,))
    return ("infinite", src, 1, step, False)

def fam_twoyields():
    src = "<{|i| yield i if i < %d; yield 99; recur(i + 1)}>" % N
    def step(s):
        i, = s
        return ("y", i, (i + 1,)) if i < N else ("stop",)
    return ("twoyields", src, 1, step, True)

def fam_kw():
    src = "<{|i, step: 1| yield i if i < %d; recur(i + step, step: step)}>" % N
    def step(s):
        i, st = s
        return ("y", i, (i + st, st)) if i < N else ("stop",)
    return ("kw", src, 1, step, True)

def fam_rebind():
    src = "<{|i| i := i * 2; yield i if i < 40; recur(i + 1)}>"
    def step(s):
        i, = s
        i2 = i * 2
        return ("y", i2, (i2 + 1,)) if i2 < 40 else ("stop",)
    return ("rebind", src, 1, step, True)

def fam_rebind_norecur():
    src = "<{|n| n := n + 1; yield n if n < 5}>"
    def step(s):
        n, = s
        return ("y", n + 1, (n + 1,)) if n + 1 < 5 else ("stop2", (n + 1,))
    return ("rebind_norecur", src, 1, step, True)

def fam_nilyield():
    src = "<{|i| yield (i if i % 2 == 1) if i < 6; yield 777; recur(i + 1)}>"
    def step(s):
        i, = s
        return ("y", (i if i % 2 == 1 else None), (i + 1,)) if i < 6 else ("stop",)
    return ("nilyield", src, 1, step, True)

def fam_trailing():
    src = "<{|a, b| yield (a if a > 1) if a < 9; recur(b, a + b); b}>"
    def step(s):
        a, b = s
        return ("y", (a if a > 1 else None), (b, a + b)) if a < 9 else ("stop",)
    return ("trailing", src, 2, step, True)

def fam_stop_by_later_yield():
    # the first yield gives the value; a LATER guarded yield still decides whether the step ends with StopIterErr
    src = "<{|i| yield i * i; yield i if i < %d; recur(i + 1)}>" % N
    def step(s):
        i, = s
        return ("y", i * i, (i + 1,)) if i < N else ("stop",)
    return ("stop_by_later_yield", src, 1, step, True)

FAMILIES = [fam_stop_by_later_yield(), fam_rebind(), fam_rebind_norecur(), fam_nilyield(), fam_trailing(), fam_counter(), fam_fib(), fam_local(), fam_outer(), fam_norecur(), fam_infinite(), fam_twoyields(), fam_kw()]


# programs with a hand-derived answer: what the NEXT round sees is exactly what `new` / the most recent `recur` bound, in the
# scope where the literal was written (not the scope where `new` is called, not the previous round's scope)
EXPECT = [
    # a round that yields nothing ends THAT call of next with StopIterErr; the iterator goes on with the next round when asked again
    ("stop_is_per_round", "gen := <{|i| recur(i + 1); yield i if i != 2}>\nit := gen.new(0)\n[it.next, it.next, it.try.next.err?, it.try.next.A, it.try.next.A].p\n"
     "gen2 := <{|i| yield i if i < 2; recur(i + 1)}>\nit2 := gen2.new(0)\n[it2.next, it2.next, it2.try.next.err?, it2.try.next.err?].p\n",
     "[0, 1, true, [3, nil], [4, nil]]\n[0, 1, true, true]\n"),
    # StopIterErr raised by the FUNCTION of a chain over an iterator is an error like any other (only the iterator's own end stops the chain)
    ("stop_from_the_callee_is_an_error", "g5 := <{|i| yield i if i < 5; recur(i + 1)}>\na := g5.new(0)\nb := g5.new(3)\n"
     "[a.try.{|it| it@{|x| [x, b.next]}}.err.type._name, b.try.next.err?].p\nc := g5.new(0)\n"
     "[c.try.{|it| it=@{|x| raise StopIterErr.new(\"mine\") if x == 3; x}}.err.msg, c.try.{|it| it@{|x| 1 / (2 - x)}}.err.type._name, g5.new(2)@{|x| x * x}].p\n",
     '["StopIterErr", true]\n["mine", "ZeroDivisionErr", [4, 9, 16]]\n'),
    # `recur` only prepares the next round: the rest of the body still runs with this round's parameters and locals
    ("recur_before_yield", "<{|i| recur(i + 1); yield i if i <= 3}>.new(1).A.p\n<{|i| k := i * 2; recur(i + 1); yield [i, k] if i < 3}>.new(0).A.p\n"
     "it := <{|i| recur(i + 1); yield i if i <= 2}>.new(1)\n[it.next, it.next, it.try.next.err?].p\n"
     "<{|i, j: 10| m := i + j; recur(i + 1, j: j + 1); yield m if i < 3}>.new(0).A.p\n",
     "[1, 2, 3]\n[[0, 0], [1, 2], [2, 4]]\n[1, 2, true]\n[10, 12, 14]\n"),
    # `new` on an iterator that has already been started gives another independent iterator and leaves the receiver's progress
    # alone; `new` on the literal leaves the literal un-initialised
    ("new_on_a_started_iterator", "gen := <{|i| yield i if i < 100; recur(i + 1)}>\na := gen.new(1)\nx1 := a.next\nx2 := a.next\nb := a.new(50)\n"
     "[x1, x2, b.next, a.next, a.next, b.next].p\nc := gen.new(7)\n[gen.try.next.err?, c.next, gen.new(3).next, c.next].p\n"
     "d := c.new(0)\n[d.next, c.next, d.next].p\n", "[1, 2, 50, 3, 4, 51]\n[true, 7, 3, 8]\n[0, 9, 1]\n"),
    ("argvar_not_rebound_by_recur", "gen := <{|i| yield [i, \\2] if i < 3; recur(i + 1)}>\nit := gen.new(0, 'extra)\nit.next.p\n1.try.{|_| it.next}.A.p\n",
     '[0, "extra"]\n[nil, [NameErr: name `\\2` is not defined]]\n'),
    ("kwarg_not_passed_by_recur", "gen2 := <{|i, step: 1| yield [i, \\step] if i < 9; recur(i + step)}>\nit2 := gen2.new(0, step: 3)\nit2.next.p\n1.try.{|_| it2.next}.A.p\n",
     "[0, 3]\n[nil, [NameErr: name `\\step` is not defined]]\n"),
    ("local_of_an_earlier_round", "gen3 := <{|i| first := 5 if i == 0; yield [i, first] if i < 3; recur(i + 1)}>\nit3 := gen3.new(0)\nit3.next.p\n1.try.{|_| it3.next}.A.p\n",
     "[0, 5]\n[nil, [NameErr: name `first` is not defined]]\n"),
    ("iterator_inside_iterator", "outer := <{|i| inner := <{|j| yield [i, j] if j < 2; recur(j + 1)}>.new(0); yield inner.A if i < 2; recur(i + 1)}>\n"
     "o := outer.new(0)\no.next.p\no.next.p\n1.try.{|_| o.next}.A.p\nouter.new(0).A.p\n",
     "[[0, 0], [0, 1]]\n[[1, 0], [1, 1]]\n[nil, [StopIterErr: iter stopped]]\n[[[0, 0], [0, 1]], [[1, 0], [1, 1]]]\n"),
    ("literal_from_a_factory", "mk := {|n| <{|i| yield i * n if i < 3; recur(i + 1)}>}\ng := mk(10)\nn := 7\ng.new(1).A.p\n", "[10, 20]\n"),
    ("new_called_in_a_shadowing_helper", "lim := 2\nlit := <{|i| yield i if i < lim; recur(i + 1)}>\nhelper := {|g, lim| g.new(0).A}\nhelper(lit, 5).p\nlit.new(0).A.p\n",
     "[0, 1]\n[0, 1]\n"),
]


def show(x):
    return "nil" if x is None else str(x)


def run_all(step, s):
    out = []
    for _ in range(200):
        r = step(s)
        if r[0] in ("stop", "stop2"):
            return out
        out.append(r[1])
        s = r[2]
    return None


def gen_history(rng, fam, nops):
    name, src, nargs, step, finite = fam
    lines = ["k := 3", "gen := " + src]
    exp = []
    iters = {}   # var -> state
    cnt = 0

    def newiter():
        nonlocal cnt
        cnt += 1
        v = "it%d" % cnt
        if name == "kw":
            a, st = rng.randint(0, 3), rng.randint(1, 2)
            lines.append("%s := gen.new(%d, step: %d)" % (v, a, st))
            iters[v] = (a, st)
        elif nargs == 2:
            a, b = rng.randint(0, 3), rng.randint(1, 3)
            lines.append("%s := gen.new(%d, %d)" % (v, a, b))
            iters[v] = (a, b)
        else:
            a = rng.randint(0, 5)
            lines.append("%s := gen.new(%d)" % (v, a))
            iters[v] = (a,)
        return v

    newiter(); newiter()
    for _ in range(nops):
        op = rng.choice(["next", "next", "next", "new", "A", "chain", "reduce", "copy", "nextnext", "gen_next"])
        v = rng.choice(sorted(iters))
        if op == "new" and len(iters) < 4:
            newiter()
        elif op in ("next", "nextnext"):
            for _ in range(2 if op == "nextnext" else 1):
                lines.append("%s.try.next.A.p" % v)
                r = step(iters[v])
                if r[0] == "stop":
                    exp.append("[nil, [StopIterErr: iter stopped]]")
                elif r[0] == "stop2":
                    exp.append("[nil, [StopIterErr: iter stopped]]")
                    iters[v] = r[1]
                else:
                    exp.append("[%s, nil]" % show(r[1]))
                    iters[v] = r[2]
        elif op == "A" and finite:
            lines.append("%s.A.p" % v)
            exp.append("[" + ", ".join(show(x) for x in run_all(step, iters[v]) if x is not None) + "]")
        elif op == "chain" and finite:
            lines.append("%s=@{|x| [x]}.p" % v)
            exp.append("[" + ", ".join("[%s]" % show(x) for x in run_all(step, iters[v])) + "]")
        elif op == "reduce" and finite:
            lines.append("%s$(0)+.p" % v)
            exp.append(str(sum(x for x in run_all(step, iters[v]) if x is not None)))
        elif op == "copy" and len(iters) < 5:
            cnt += 1
            c = "it%d" % cnt
            lines.append("%s := %s._iter" % (c, v))
            iters[c] = iters[v]
        elif op == "gen_next":
            pass
    return "\n".join(lines) + "\n", "".join(e + "\n" for e in exp)


def main(chk):
    ok, broken = obligations(chk, "Props/C14.v")
    cases = []
    rng = chk.rng
    st0 = rng.getstate()
    rng.seed(31337)
    for name, prog, exp in EXPECT:
        cases.append(("expect:" + name, prog, exp))
    for fam in FAMILIES:            # systematic part (seed-independent)
        for i in range(12):
            prog, exp = gen_history(rng, fam, 8)
            cases.append((fam[0], prog, exp))
    rng.setstate(st0)
    n = 150 if chk.tier == "quick" else 6000
    for _ in range(n):
        fam = rng.choice(FAMILIES)
        prog, exp = gen_history(rng, fam, rng.randint(4, 10 if chk.tier == "quick" else 30))
        cases.append((fam[0], prog, exp))
    progs = [c[1] for c in cases]
    res = pancore.run_programs(chk, progs, cmp_msg=True)
    viol, model_only, hist = [], [], {}
    for (fname, prog, exp), r in zip(cases, res):
        hist[fname] = hist.get(fname, 0) + 1
        chk.count(prog, True)
        imp = r["impl"]
        if not (imp["kind"] == "value" and (imp.get("out") == exp or norm_err_msgs(imp.get("out")) == norm_err_msgs(exp))):
            viol.append(("iterator history (%s): the per-iterator state machines predict %r, implementation printed %r (%s)" % (
                fname, exp, imp.get("out"), imp.get("errk")),
                {"program": prog, "expected_out": exp, "impl": {k: imp.get(k) for k in ("kind", "repr", "errk", "errmsg", "out")}},
                "C14:" + fname))
        elif r["verdict"] == "disagree":
            model_only.append(r)
    chk.cov["input_distribution"] = hist
    chk.cov["rule"] = ("%d programs with hand-derived answers (names a later round must NOT see: argvars / kwargs / locals of earlier rounds; an iterator inside an "
                       "iterator; a literal returned by a factory; `new` called in a scope that shadows the body's free variable); %d iterator-body families (counter, two-parameter recurrence, local assignment before the yield, closure over an outer "
                       "variable, no recur, unguarded infinite, two yields, keyword parameter, a body that rebinds a variable it reads with and "
                       "without recur, a first yield that can be nil, a trailing statement after the yield) x histories of 4-10 operations (30 thorough) over 2-5 "
                       "iterators derived from one literal: new with arguments, next (also twice), A, list chain, reduce chain, _iter copies. "
                       "Oracle: one explicit state machine per iterator (next returns the first yield and applies recur; StopIterErr exactly when "
                       "the guard is false, repeatedly; A/chains list what next would return without advancing anything). Built-in iterators "
                       "(arr/int/...) share their Go closure across _iter copies and are outside the property." % (len(EXPECT), len(FAMILIES)))
    for i in (0, len(progs) // 2, len(progs) - 1):
        chk.sample({"program": progs[i], "expected_out": cases[i][2], "impl_out": res[i]["impl"].get("out"), "model_verdict": res[i]["verdict"]})
    chk.cov["rule"] += " Added after seeded round 5: `new` on a started iterator, `recur` before the yield and locals used after `recur`."
    chk.cov["rule"] += " Added after seeded round 6: a round without a yield stops that call only, StopIterErr from the callee of a chain over an iterator is an error."
    return pancore.conclude(chk, ok, broken, "Props/C14.v", res, viol, model_only, "C14",
                            "Core.Interp (Iter#new/next/_iter, recur) vs evaluator/{iternew,iternext}.go, props/iter_props.go")
