"""Regenerates coq/gen/World.v — the interpreter's start-up world (built-in objects,
their prototype links, zero values and properties; native functions as PanCore
syntax; the global scope) — from the running implementation (harness dumpworld)."""
import json
import os
import subprocess
import pv

HEADER = """(* GENERATED on every run by tools/world.py from `panharness dumpworld`. Do not edit. *)
From Coq Require Import ZArith String List.
Import ListNotations.
From PanVerif Require Import Core.Syntax Core.Values Core.Interp Core.Run.
Local Open Scope string_scope.
"""


def coqstr(s):
    if all(32 <= ord(c) <= 126 for c in s):
        return '"' + s.replace('"', '""') + '"'
    return "(sb [" + ";".join(str(b) for b in s.encode()) + "])"


def build_world(chk=None):
    """Writes gen/World.v and compiles it to gen/World.vo. Returns (ok, log, info)."""
    exe = pv.build_harness()
    p = subprocess.run([exe, "dumpworld"], input="", stdout=subprocess.PIPE, stderr=subprocess.PIPE,
                       universal_newlines=True, timeout=120)
    if p.returncode != 0:
        return False, "dumpworld failed: " + p.stderr[-2000:], {}
    w = json.loads(p.stdout)
    objs = w["objs"]
    names = [(o["name"], o["id"]) for o in objs]
    lines = [HEADER]
    lines.append("Definition W : wk := {| wk_names := [%s] |}.\n" % "; ".join(
        "(%s, %d)" % (coqstr(n), i) for n, i in names))
    lines.append("Definition NATIVE_ENV : nat := 1.\n")
    lines.append("Definition world_funcs : list clo := [\n  %s].\n" % ";\n  ".join(
        c + " NATIVE_ENV" if False else "(%s NATIVE_ENV)" % c[1:-1] if c.startswith("(mkclo") else c
        for c in w["clos"]))
    recs = []
    for o in objs:
        proto = "None" if o["proto"] < 0 else "(Some (VObj %d))" % o["proto"]
        zero = "None" if o["zero"] == "(VObj %d)" % o["id"] else "(Some %s)" % o["zero"]
        pairs = "; ".join("(%s, %s)" % (coqstr(p["key"]), p["coq"]) for p in (o["pairs"] or []))
        recs.append("{| oproto := %s; ozero := %s; opairs := [%s] |}" % (proto, zero, pairs))
    lines.append("Definition world_heap : list objrec := [\n  %s].\n" % ";\n  ".join(recs))
    globs = "; ".join("(%s, %s)" % (coqstr(g["key"]), g["coq"]) for g in w["globals"])
    lines.append("Definition world_globals : list (string * val) := [%s].\n" % globs)
    lines.append("""Definition init_state (stdin : list string) : state :=
  {| heap := world_heap;
     frames := [ {| fstore := world_globals; fouter := None |};
                 {| fstore := []; fouter := Some 0 |} ];
     funcs := world_funcs; biters := []; out := []; inp := stdin |}.
Definition init0 : state := init_state [].
""")
    os.makedirs(pv.GEN, exist_ok=True)
    path = os.path.join(pv.GEN, pv.WORLD + ".v")
    body = "".join(lines)
    old = open(path).read() if os.path.exists(path) else None
    vo = os.path.join(pv.GEN, pv.WORLD + ".vo")
    info = {"objects": len(objs), "native_closures": len(w["clos"]),
            "go_builtins": len({p["coq"] for o in objs for p in (o["pairs"] or []) if p["kind"] == "builtin"}),
            "globals": len(w["globals"]), "unsupported_values": sorted(set(w.get("unsup") or []))}
    deps = [os.path.join(pv.COQ, "Core", f + ".vo") for f in ("Syntax", "Values", "Interp", "Run")]
    fresh = old == body and os.path.exists(vo) and all(
        os.path.exists(d) and os.path.getmtime(d) <= os.path.getmtime(vo) for d in deps)
    if fresh:
        return True, "", info
    with pv.coq_lock():
        # (another check may have rebuilt it while this one waited)
        old = open(path).read() if os.path.exists(path) else None
        if old == body and os.path.exists(vo) and all(os.path.exists(d) and os.path.getmtime(d) <= os.path.getmtime(vo) for d in deps):
            return True, "", info
        tmp = path + ".%d.tmp" % os.getpid()
        with open(tmp, "w") as f:
            f.write(body)
        os.replace(tmp, path)
        rc, log = pv.run(["timeout", "600", "coqc", "-R", ".", "PanVerif", "-w", "-all", "gen/%s.v" % pv.WORLD], cwd=pv.COQ)
    return rc == 0, log, info
