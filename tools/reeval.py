#!/usr/bin/env python3
"""tools/reeval.py [--no-corpus] [--ids C01,C06] <seed name> ... — re-run the check of a stored seeded change (seeded/<name>/patch.diff)
in a scratch worktree after the machinery changed: every stored change must still be caught. Prints one line per change."""
import json, os, subprocess, sys
ROOT = os.path.dirname(os.path.dirname(os.path.abspath(__file__)))
ENV = dict(os.environ, GOFLAGS="-mod=mod", GOPROXY="off", GOSUMDB="off", GOTOOLCHAIN="local")


def sh(cmd, cwd=None, env=None, timeout=3000):
    p = subprocess.run(cmd, shell=True, cwd=cwd, env=env or ENV, stdout=subprocess.PIPE, stderr=subprocess.STDOUT,
                       universal_newlines=True, timeout=timeout, stdin=subprocess.DEVNULL)
    return p.returncode, p.stdout


def main():
    args = sys.argv[1:]
    nocorpus = "--no-corpus" in args
    args = [a for a in args if a != "--no-corpus"]
    ids = None
    if args and args[0] == "--ids":
        ids = args[1].split(",")
        args = args[2:]
    for name in args:
        d = os.path.join(ROOT, "seeded", name)
        meta = json.load(open(os.path.join(d, "meta.json")))
        pid = meta.get("property") or name.split("-")[0].upper()
        wt = "/tmp/reeval-" + name
        sh("git -C /repo worktree remove --force %s" % wt)
        sh("git -C /repo worktree add -q --detach %s" % wt)
        try:
            rc, out = sh("git apply %s" % os.path.join(d, "patch.diff"), cwd=wt)
            back = 0
            rc0, head = sh("git rev-parse HEAD", cwd=wt)
            head = head.strip()
            while rc != 0 and back < 3:
                # the change was made against an earlier commit of /repo (a later `fix:` touched the same lines): evaluate it there
                back += 1
                sh("git checkout -q --detach %s~%d" % (head, back), cwd=wt)
                rc, out = sh("git apply %s" % os.path.join(d, "patch.diff"), cwd=wt)
            if rc != 0:
                print(json.dumps({"name": name, "error": "patch does not apply"}))
                continue
            res = {}
            for i in ids or [pid]:
                env = dict(ENV, VERIF_REPO=wt)
                if nocorpus:
                    env["VERIF_NO_CORPUS"] = "1"
                rc, out = sh("./check %s --tier quick 2>&1" % i, cwd=ROOT, env=env)
                v = [l for l in out.splitlines() if l.startswith("VIOLATION")]
                res[i] = ("caught" + (" (no-failing-input-found)" if v and all("no-failing-input-found" in l for l in v) else "")) if v else "MISSED"
            print(json.dumps({"name": name, "result": res}), flush=True)
        finally:
            sh("git -C /repo worktree remove --force %s" % wt)
            for f in os.listdir(os.path.join(ROOT, "build")):
                if f.startswith("panharness-tmp_reeval_" + name.replace("-", "_")):
                    os.remove(os.path.join(ROOT, "build", f))


main()
