#!/usr/bin/env python3
"""tools/addcorpus.py <seed name> [<property id>]  — keep the demonstration of a seeded change as a regression case.
Copies seeded/<name>/demo.pangaea (and the files it imports) to tools/seeded_corpus/<PID>/<name>.pangaea, evaluates it with the
harness built against /repo (the unchanged tree) and stores what it prints as <name>.json. The checks run every case of their
property's directory (pv.run_seeded_corpus) and compare stdout, outcome kind and error kind."""
import json, os, shutil, sys
ROOT = os.path.dirname(os.path.dirname(os.path.abspath(__file__)))
sys.path.insert(0, os.path.join(ROOT, "tools"))
import pv


def main():
    name = sys.argv[1]
    meta = json.load(open(os.path.join(ROOT, "seeded", name, "meta.json")))
    pid = sys.argv[2] if len(sys.argv) > 2 else meta["property"]
    srcdir = os.path.join(ROOT, "seeded", name)
    demo = next((f for f in sorted(os.listdir(srcdir)) if f.endswith(".pangaea") and f.startswith("demo")), None)
    if not demo:
        print("no demo.pangaea in", srcdir)
        return 1
    src = open(os.path.join(srcdir, demo), encoding="utf-8", errors="replace").read()
    stdin = ""
    for f in os.listdir(srcdir):
        if f.startswith("stdin") and os.path.getsize(os.path.join(srcdir, f)) < 300000:
            stdin = open(os.path.join(srcdir, f), errors="replace").read()
    import re
    m = re.search(r"printf\s+'([^']*)'\s*\|", meta.get("demo_cmd", ""))
    if m:
        stdin = m.group(1).encode().decode("unicode_escape")
    r = pv.harness("eval", [{"src": src, "stdin": stdin, "repeat": 1}])[0]
    dst = os.path.join(ROOT, "tools", "seeded_corpus", pid)
    os.makedirs(dst, exist_ok=True)
    with open(os.path.join(dst, name + ".pangaea"), "w") as f:
        f.write(src)
    exp = {"stdin": stdin, "kind": r["kind"], "errk": r.get("errk"), "errmsg": r.get("errmsg"), "out": r.get("out", ""),
           "what": meta.get("summary", "")[:300]}
    json.dump(exp, open(os.path.join(dst, name + ".json"), "w"), indent=1, ensure_ascii=False)
    claimed = (meta.get("expected_output_unmodified") or "").strip()
    print(name, pid, r["kind"], r.get("errk"), "stdout lines:", len(r.get("out", "").splitlines()),
          "| matches the seed's own record:", claimed != "" and claimed.replace("\r", "") in (r.get("out", "") + (r.get("errmsg") or "")).replace("\r", "") or "n/a")
    return 0


if __name__ == "__main__":
    sys.exit(main())
