"""C12 — truthiness: proof obligations (Props/C12.v + gen/C12World.v on the regenerated
world) + condition pool x conditional constructs with side-effecting operands."""
from pv import *
import pancore
import world

PRELUDE = '''t := {|i| i.p; i}
bt := {B: {|self| "B".p; true}, tag: "bt"}
bf := {B: {|self| "B".p; false}, tag: "bf"}
bn := {B: {|self| "B".p; 1}, tag: "bn"}
be := {B: {|self| "B".p; raise Err.new("inB")}, tag: "be"}
ci0 := Int.bear.new(0)
ci3 := Int.bear.new(3)
IB := Int.bear({B: m{"B".p; self > 1}})
ib1 := IB.new(1)
ib2 := IB.new(2)
sb := Str.bear({B: m{"B".p; true}}).new("")
ab := Arr.bear({B: m{"B".p; false}}).new([1, 2])
idf := {|x| x}
nb := Nil.bear({B: m{"B".p; true}}).new
nbf := Nil.bear({B: m{"B".p; false}}).new
'''

# (expression, truthy?, prints B marker?, Inspect of the value or None when not compared)
POOL = [
    ("0", False, False, "0"), ("1", True, False, "1"), ("-1", True, False, "-1"),
    ("0.0", False, False, "0.000000"), ("1.5", True, False, "1.500000"),
    ('""', False, False, '""'), ('"a"', True, False, '"a"'),
    ("[]", False, False, "[]"), ("[0]", True, False, "[0]"),
    ("{}", False, False, "{}"), ("{a: 0}", True, False, '{"a": 0}'),
    ("{_p: 0}", True, False, '{"_p": 0}'), ("{_p: 0, _q: nil}", True, False, '{"_p": 0, "_q": nil}'),
    ("%{nil: nil}", True, False, "%{nil: nil}"), ("%{[1]: 1}", True, False, "%{[1]: 1}"), ("[nil]", True, False, "[nil]"),
    ('" "', True, False, '" "'), ("-0", False, False, "0"), ("(nil:nil)", True, False, "(nil:nil:nil)"),
    ("%{}", False, False, "%{}"), ("%{0: 0}", True, False, "%{0: 0}"),
    ("nil", False, False, "nil"), ("true", True, False, "true"), ("false", False, False, "false"),
    ("(1:2)", True, False, "(1:2:nil)"), ("{|x| x}", True, False, "{|x| x}"),
    ("0.bear", False, False, "{}"), ("1.bear", True, False, "{}"), ("Int.bear", False, False, "{}"),
    ('"".bear', False, False, "{}"), ('"a".bear', True, False, "{}"), ("Str.bear", False, False, "{}"),
    ("[].bear", False, False, "{}"), ("[1].bear", True, False, "{}"), ("Arr.bear", False, False, "{}"),
    ("{}.bear", False, False, "{}"), ("{a: 1}.bear", False, False, "{}"), ("{a: 1}.bear({})", False, False, "{}"),
    ("{}.bear({a: 1})", True, False, '{"a": 1}'), ("Obj.bear", False, False, "{}"),
    ("nil.bear", False, False, "{}"), ("Nil.bear", False, False, "{}"),
    ("ci0", False, False, "0"), ("ci3", True, False, "3"),
    ("bt", True, True, None), ("bf", False, True, None), ("bn", False, True, None), ("be", False, True, None),
    ("bt.bear", True, True, None), ("bf.bear", False, True, None),
    # typed descendants whose prototype overrides B: the rule is `.B`, whatever the Go representation of the value
    # negative zero is zero; a nil made from a descendant of Nil that defines B is asked like any other value (also by `!`)
    ("-0.0", False, False, "-0.000000"), ("(0.0 * -1)", False, False, "-0.000000"), ("nb", True, True, "nil"), ("nbf", False, True, "nil"),
    ("ib1", False, True, "1"), ("ib2", True, True, "2"), ("sb", True, True, '""'), ("ab", False, True, "[1, 2]"),
]

ZERO_FALSE = ["0", "0.0", '""', "[]", "{}", "%{}", "nil", "false"]
NONZERO_TRUE = ["1", "-1", "1.5", '"a"', "[0]", "{a: 0}", "%{0: 0}", "true", "(1:2)"]


def constructs(c, truthy, bmark, insp):
    """yield (family, program, expected_out, expected_repr or None)"""
    B = ["B"] if bmark else []
    L = lambda xs: "".join("%s\n" % x for x in xs)
    yield "if_else", "r := (t(1) if %s else t(2))\nr" % c, L(B + ([1] if truthy else [2])), "1" if truthy else "2"
    yield "if", "r := (t(1) if %s)\nr" % c, L(B + ([1] if truthy else [])), "1" if truthy else "nil"
    yield "not", "r := !(%s)\nr" % c, L(B), "false" if truthy else "true"
    yield "not_not", "r := !!(%s)\nr" % c, L(B), "true" if truthy else "false"
    yield "and", "r := %s && t(1)\nr" % c, L(B + ([1] if truthy else [])), "1" if truthy else insp
    yield "or", "r := %s || t(1)\nr" % c, L(B + ([] if truthy else [1])), insp if truthy else "1"
    yield "or_left_decides", "r := t(1) || %s\nr" % c, L([1]), "1"            # the deciding left operand is evaluated once
    yield "and_left_decides", "r := t(0) && %s\nr" % c, L([0]), "0"
    yield "or_assign", "a := %s\na ||= t(1)\na" % c, L(B + ([] if truthy else [1])), insp if truthy else "1"
    yield "and_assign", "a := %s\na &&= t(1)\na" % c, L(B + ([1] if truthy else [])), "1" if truthy else insp
    yield "and_left", "r := t(1) && %s\nr" % c, L([1]), insp
    yield "or_left", "r := t(0) || %s\nr" % c, L([0]), insp
    yield "return_if", "{|| return t(1) if %s; t(2)}()" % c, L(B + ([1] if truthy else [2])), "1" if truthy else "2"
    yield "raise_if", '{|| raise Err.new("g") if %s; t(2)}()' % c, L(B + ([] if truthy else [2])), ("!Err:g" if truthy else "2")
    yield "defer_if", '{|| defer t(9) if %s; t(2)}()' % c, L(B + [2] + ([9] if truthy else [])), "2"
    yield "yield_if", '<{|| yield t(1) if %s}>.new.next' % c, L(B + ([1] if truthy else [])), ("1" if truthy else "!StopIterErr:iter stopped")
    # the same operators written directly as a call argument (also under a prefix operator): still evaluated once
    yield "arg_not_or", "r := idf(!(%s || t(1)))\nr" % c, L(B + ([] if truthy else [1]) + (B if truthy else [])), "false"   # `!` asks the kept operand again
    yield "arg_and", "r := idf(%s && t(1))\nr" % c, L(B + ([1] if truthy else [])), "1" if truthy else insp
    yield "arg_not", "r := [7].has?(!(%s))\nr" % c, L(B), "false"
    yield "B_direct", "r := %s.B\nr" % c, None, None
    yield "chain_guard", "[1, 2]@{|x| t(x) if %s}" % c, L(B + ([1] if truthy else []) + B + ([2] if truthy else [])), "[1, 2]" if truthy else "[]"
    # mixed chains: `a && b || c` is `(a && b) || c`, and an inner link that short-cuts decides only its own link
    # (the value it keeps is asked again by the outer operator)
    yield "and_or", "r := %s && t(1) || t(2)\nr" % c, L(B + ([1] if truthy else B + [2])), "1" if truthy else "2"
    yield "or_and", "r := (%s || t(0)) && t(2)\nr" % c, L(B + (B + [2] if truthy else [0])), "2" if truthy else "0"
    yield "and_or_and_or", "r := %s && t(1) || %s && t(3) || t(4)\nr" % (c, c), L(B + ([1] if truthy else B + B + B + [4])), "1" if truthy else "4"
    yield "nested", "r := ((t(1) if %s else t(2)) if (%s || t(3)) else t(4))\nr" % (c, c), None, None


def world_lemma(chk):
    """gen/C12World.v: built-in zero values are false and non-zero values are true in the
    regenerated world, by kernel computation."""
    srcs = ZERO_FALSE + NONZERO_TRUE
    reps = harness("eval", [{"src": s, "coq": True} for s in srcs])
    zs = "; ".join(r["coq"] for r in reps[:len(ZERO_FALSE)])
    ns = "; ".join(r["coq"] for r in reps[len(ZERO_FALSE):])
    body = (pancore.PRELUDE + "From PanVerif Require Import Core.TruthyProofs.\n"
            "(* GENERATED by tools/c12.py: programs are the ASTs the parser built for %s / %s *)\n" % (ZERO_FALSE, NONZERO_TRUE) +
            "Definition truth_of (prog : list stmt) : option bool :=\n"
            "  match run_program W default_fuel prog 0 init0 with\n"
            "  | (Ok v, st) => match is_truthy (level W default_fuel) 0 v st with (Ok b, _) => Some b | _ => None end\n"
            "  | _ => None end.\n"
            "Definition zero_progs : list (list stmt) := [%s].\nDefinition nonzero_progs : list (list stmt) := [%s].\n" % (zs, ns) +
            "Lemma C12_builtin_zero_values_are_false :\n"
            "  forallb (fun p => match truth_of p with Some false => true | _ => false end) zero_progs = true.\n"
            "Proof. vm_compute. reflexivity. Qed.\n"
            "Lemma C12_nonzero_values_are_true :\n"
            "  forallb (fun p => match truth_of p with Some true => true | _ => false end) nonzero_progs = true.\n"
            "Proof. vm_compute. reflexivity. Qed.\n"
            "Print Assumptions C12_builtin_zero_values_are_false.\nPrint Assumptions C12_nonzero_values_are_true.\n")
    rc, out = coq_eval("C12World", body)
    chk.cov["obligations"] += 2
    if rc == 0 and out.count("Closed under the global context") == 2:
        chk.cov["discharged"] += 2
        return True, None
    return False, "gen/C12World.v (zero values false / non-zero true on the regenerated world) does not check: " + out[-800:]


def main(chk):
    ok, broken = obligations(chk, "Props/C12.v")
    okw, logw, _ = world.build_world(chk)
    if okw:
        ok2, broken2 = world_lemma(chk)
        if not ok2:
            ok, broken = False, broken2
    cases = []
    for (c, truthy, bmark, insp) in POOL:
        for fam, prog, eout, erepr in constructs(c, truthy, bmark, insp):
            cases.append((fam, c, prog + "\n", eout, erepr))
    # seeded random compositions of conditions
    n = 150 if chk.tier == "quick" else 6000
    for _ in range(n):
        a, b, c3 = (chk.rng.choice(POOL) for _ in range(3))
        op1, op2 = chk.rng.choice(["&&", "||"]), chk.rng.choice(["&&", "||"])
        cases.append(("random", a[0], "r := (t(1) if ((%s %s %s) %s !(%s)) else t(2))\nr\n" % (a[0], op1, b[0], op2, c3[0]), None, None))
    progs = [c[2] for c in cases]
    res = pancore.run_programs(chk, progs, cmp_msg=True, prelude=PRELUDE)
    viol, model_only, fam = [], [], {}
    for (f, c, prog, eout, erepr), r in zip(cases, res):
        fam[f] = fam.get(f, 0) + 1
        chk.count(prog, True)
        imp = r["impl"]
        if eout is not None:
            if erepr is not None and erepr.startswith("!"):
                k, m = erepr[1:].split(":", 1)
                good = imp["kind"] == "error" and imp.get("errk") == k and imp.get("errmsg") == m and imp.get("out") == eout
            else:
                good = imp["kind"] == "value" and imp.get("out") == eout and (erepr is None or imp.get("repr") == erepr)
            if not good:
                viol.append(("truthiness rule violated by `%s` in %s: expected trace %r value %s, implementation gave %s" % (
                    c, f, eout, erepr, {k: imp.get(k) for k in ("kind", "repr", "errk", "errmsg", "out")}),
                    {"program": prog, "prelude": PRELUDE, "expected_out": eout, "expected_value": erepr, "impl": imp}, "C12:" + f))
                continue
        if r["verdict"] == "disagree":
            if eout is None:
                viol.append(("conditional result differs from the reference evaluator (`%s` in %s): model %s, implementation %s" % (
                    c, f, r.get("model"), {k: imp.get(k) for k in ("kind", "repr", "errk", "out")}),
                    {"program": prog, "prelude": PRELUDE, "model": r.get("model"), "impl": imp}, "C12:" + f))
            else:
                model_only.append(r)
    chk.cov["input_distribution"] = fam
    chk.cov["rule"] = ("condition pool of %d values (every built-in type's zero and non-zero value, children made with bear of values and "
                       "of the type objects, typed descendants made with new (also Int / Str / Arr descendants whose prototype overrides B), objects whose B prints and returns true / false / a non-boolean / "
                       "raises) x 25 conditional constructs (if/else, if, !, !!, && and || on either side incl. a side-effecting left operand that decides, the "
                       "compound forms ||= and &&=, the operators written directly as call arguments, mixed && / || chains whose inner link short-cuts, guarded return/raise/defer/yield, B "
                       "called directly, guard inside a list chain, nested conditionals) with marker-printing operands, plus seeded random "
                       "compositions. Expected trace and value from the property's rule; all cases non-trivial, distinct by text. Children of "
                       "BaseObj itself are outside the property's domain and not generated." % len(POOL))
    for i in (0, len(progs) // 2, len(progs) - 1):
        chk.sample({"program": progs[i], "expected_out": cases[i][3], "expected_value": cases[i][4],
                    "impl": {k: res[i]["impl"].get(k) for k in ("kind", "repr", "out")}, "model_verdict": res[i]["verdict"]})
    chk.cov["rule"] += " Added after seeded round 6: negative zero, an inherited nil whose prototype defines B."
    return pancore.conclude(chk, ok, broken, "Props/C12.v", res, viol, model_only, "C12",
                            "Core.Interp vs evaluator/{eval_if,eval_infix,eval_jumpifstmt}.go and the B built-ins")
