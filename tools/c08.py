"""C08 — evaluation order and reproducibility: proof obligations (Props/C08.v) +
programs whose every sub-expression prints a marker, evaluated repeatedly in one
process and in separate processes, compared with PanCore and with source order."""
from pv import *
import pancore
import c07

EXTRA = '''o9 := {k9: 9, k1: 1, k5: 5, k3: 3, k7: 7, k2: 2, k8: 8, k4: 4, k6: 6, k10: 10}
m9 := %{9: "i", 1: "a", 5: "e", 3: "c", 7: "g", 2: "b", 8: "h", 4: "d", 6: "f", 10: "j", "s": 0}
'''
PRELUDE = c07.PRELUDE + EXTRA

# programs checked for determinism and against the model (no marker oracle)
FIXED = [
    ("dup_obj", '{a: t(1), a: t(2), b: t(3)}.{|o| [o.a, o.b]}.p'),
    ("dup_map", '%{1: t(1), 1: t(2), "1": t(3)}.{|m| [m[1], m["1"], m.len]}.p'),
    ("dup_kwargs", 'fk(t(1), k1: t(2), k1: t(3), k2: t(4)).p'),
    ("dup_unpack_obj", '{a: t(1), **{a: t(2), b: t(3)}, **{b: t(4), c: t(5)}}.p'),
    ("dup_unpack_map", '%{1: t(1), **%{1: t(2), 2: t(3)}, **%{2: t(4), 3: t(5)}}.p'),
    ("kwargs_unpack", 'fk(t(1), k2: t(2), **{k1: t(3), k2: t(4)}).p'),
    ("kwargs_unpack_two", 'fk(t(1), **{k1: t(2)}, **{k1: t(3), k2: t(4)}).p'),
    ("kwargs_unpack_three", '{|| \\_}(**{k: t(1)}, **{k: t(2), j: t(3)}, **{j: t(4), k: t(5), i: t(6)}).p'),
    ("kwargs_unpack_mixed", 'fk(t(1), k2: t(2), **{k2: t(3)}, **{k1: t(4), k2: t(5)}).p'),
    ("obj_unpack_three", '{**{k: t(1)}, **{k: t(2), j: t(3)}, **{j: t(4), i: t(5)}}.p'),
    ("map_unpack_three", '%{**%{1: t(1)}, **%{1: t(2), 2: t(3)}, **{a: t(4)}, **{a: t(5)}}.p'),
    ("arr_unpack_two", '[*[t(1), t(2)], t(3), *[t(4)]].p'),
    ("args_unpack_two", 'f3(*[t(1)], *[t(2), t(3)]).p'),
    ("obj_iter_9", 'o9@{|k, v| [k, v]}.p'),
    ("obj_keys_9", 'o9.keys.p; o9.values.p; o9.items.p'),
    ("obj_print_9", 'o9.p; o9.S.p'),
    ("obj_eq_9", '(o9 == {**o9}).p; (o9 == {k1: 1}).p'),
    ("obj_unpack_9", '{**o9}.keys.p; %{**o9}.keys.p'),
    ("map_iter_9", 'm9@{|k, v| k}.p; m9.keys.p; m9.values.p; m9.items.p'),
    ("map_print_9", 'm9.p'),
    ("map_unpack_9", '%{**m9}.keys.p; %{0: 0, **m9, 11: 11}.keys.p'),
    ("map_eq_9", '(m9 == %{**m9}).p'),
    ("kwargs_obj", '{|| \\_}(z: t(1), y: t(2), x: t(3), w: t(4), v: t(5)).keys.p'),
    ("kwargs_many", '{|a: 0, b: 0, c: 0, d: 0, e: 0, f: 0, g: 0, h: 0, i: 0| [a, b, c, d, e, f, g, h, i]}(i: t(1), h: t(2), g: t(3), f: t(4), e: t(5), d: t(6), c: t(7), b: t(8), a: t(9)).p'),
    ("kwarg_defaults", '{|a: t(1), b: t(2), c: t(3)| [a, b, c]}().p'),
    ("reduce_obj", 'o9$(0){|acc, kv| acc * 10 + kv[1]}.p'),
    ("tally", '[3, 1, 3, 2, 1, 3].tally.p'),
    ("arr_of_objs", '[{b: t(1), a: t(2)}, %{2: t(3), 1: t(4)}].p'),
    ("case_keys", '{m: "metre", M: "mega", g: "gram", G: "giga"}.p; %{"id": 1, "ID": 2, "Id": 3}.p; {m: 1, M: 2, mm: 3, Mm: 4, mM: 5}.keys.p; {Ab: 1, aB: 2, ab: 3, AB: 4}.S.p'),
    ("float_keys_print", '%{1.0: "one", 1.0000001: "more", 2: "two"}.p; %{0.0000001: 1, 0.0000002: 2}.S.p'),
    ("iter_advance", 'it := <{|i| yield i if i < 9; recur(i + 1)}>.new(1); [it.next, it.next, it.next] .p'),
]


def gen(chk):
    rng = chk.rng
    st = rng.getstate()
    rng.seed(4242)
    cases = []  # (program, expected_out or None, family)
    for tpl in c07.TEMPLATES:
        ctr = c07.Counter()
        text, holes = c07.build(rng, 0, ctr, want=tpl)
        body, markers = c07.instantiate(text, holes, None, None)
        prog = '"before".p\nr := ' + body + '\n"after".p\n'
        cases.append((prog, "".join("%s\n" % m for m in ["before"] + markers + ["after"]), "order:" + tpl[0]))
    # arity 1..4 for the list-shaped constructs
    for n in range(1, 5):
        hs = ", ".join("t(%d)" % i for i in range(1, n + 1))
        exp = "".join("%s\n" % m for m in ["before"] + list(range(1, n + 1)) + ["after"])
        for name, fmt in [("arr", "[%s]"), ("args", "{|| \\0}(%s)"), ("unpack", "[*[%s]]")]:
            cases.append(('"before".p\nr := ' + fmt % hs + '\n"after".p\n', exp, "arity:%s/%d" % (name, n)))
        kws = ", ".join("k%d: t(%d)" % (i, i) for i in range(1, n + 1))
        cases.append(('"before".p\nr := {|| \\_}(' + kws + ')\n"after".p\n', exp, "arity:kwargs/%d" % n))
        ov = ", ".join("k%d: t(%d)" % (n + 1 - i, i) for i in range(1, n + 1))
        cases.append(('"before".p\nr := {' + ov + '}\n"after".p\n', exp, "arity:obj/%d" % n))
        mv = ", ".join("%d: t(%d)" % (n + 1 - i, i) for i in range(1, n + 1))
        cases.append(('"before".p\nr := %{' + mv + '}\n"after".p\n', exp, "arity:map/%d" % n))
        es = "".join("#{ t(%d) }-" % i for i in range(1, n + 1))
        cases.append(('"before".p\nr := "' + es + '"\n"after".p\n', exp, "arity:embstr/%d" % n))
    for name, body in FIXED:
        cases.append((body + "\n", None, "fixed:" + name))
    # equality of containers whose values define `==` themselves: the hooks run in key order (sorted names for objects,
    # insertion order for maps, positions for arrays), never in hash-table order
    names = ["kj", "ka", "kf", "kc", "kh", "kb", "kg", "kd", "ki", "ke", "_y", "_x"]
    hook = "T := {'==: m{|o| t(.n); true}}\n"
    a = "{" + ", ".join("%s: T.bear({n: %d})" % (k, 1 + sorted(names[:10]).index(k) if not k.startswith("_") else 11 + sorted(names[10:]).index(k))
                        for k in names) + "}"
    b = "{" + ", ".join("%s: T.bear({n: 0})" % k for k in reversed(names)) + "}"
    exp12 = "".join("%d\n" % i for i in range(1, 13))
    cases.append((hook + "r := (%s == %s)\nr.p\n" % (a, b), exp12 + "true\n", "eqhooks:obj"))
    keys = ['"z"', "3", '"a"', "nil", "1.5", "true", "7", '"m"', "-2", '"b"', "0"]
    ma = "%{" + ", ".join("%s: T.bear({n: %d})" % (k, i + 1) for i, k in enumerate(keys)) + "}"
    mb = "%{" + ", ".join("%s: T.bear({n: 0})" % k for k in reversed(keys)) + "}"
    cases.append((hook + "r := (%s == %s)\nr.p\n" % (ma, mb), "".join("%d\n" % i for i in range(1, 12)) + "true\n", "eqhooks:map"))
    cases.append((hook + "r := ([%s, [%s]] == [%s, [%s]])\nr.p\n" % (a, ma, b, mb),
                  exp12 + "".join("%d\n" % i for i in range(1, 12)) + "true\n", "eqhooks:nested"))
    cases.append((hook + "r := [%s, %s].has?(%s)\nr.p\n" % ("{q: 1}", a, b), exp12 + "true\n", "eqhooks:has"))
    # layout must not matter: arguments and keyword arguments spread over several lines
    ml = [("fk(t(1),\n  k1: t(2),\n  k2: t(3))", [1, 2, 3]),
          ("fk(t(1), k2: t(2),\n  k1: t(3))", [1, 2, 3]),
          ("fk(\n  t(1),\n  k1: t(2),\n  k1: t(3),\n  k2: t(4)\n)", [1, 2, 3, 4]),
          ("{|| \\_}(z: t(1),\n  y: t(2),\n  x: t(3),\n  w: t(4))", [1, 2, 3, 4]),
          ("{|a: t(1),\n  b: t(2),\n  c: t(3)| [a, b, c]}()", [1, 2, 3]),
          ("f3(t(1),\n  t(2),\n  t(3))", [1, 2, 3]),
          ("[t(1),\n  t(2),\n  t(3)]", [1, 2, 3]),
          ("{a: t(1),\n  b: t(2),\n  a: t(3)}", [1, 2, 3]),
          ("%{1: t(1),\n  2: t(2),\n  1: t(3)}", [1, 2, 3])]
    for body, ms in ml:
        cases.append(('"before".p\nr := ' + body + '\n"after".p\nr.p\n', None, "multiline"))
        cases.append(('"before".p\nr := ' + body + '\n"after".p\n', "".join("%s\n" % m for m in ["before"] + ms + ["after"]), "multiline"))
    # more than 48 elements (beyond any "small" fast path): elements are visited in order, once, on one goroutine
    big = "os := (1:61).A@{|i| {n: i, S: m{t(.n); .n.S}, '==: m{|o| t(.n); true}, '<=>: m{|o| t(.n); .n <=> o.n}}}\n"
    seq60 = "".join("%d\n" % i for i in range(1, 61))
    cases.append((big + 'r := os.join(",")\nr.len.p\n', seq60 + "170\n", "big-array"))
    cases.append((big + "r := os@S\nr.len.p\n", seq60 + "60\n", "big-array"))
    cases.append((big + "r := (os == os@{|o| o})\nr.p\n", seq60 + "true\n", "big-array"))
    cases.append((big + "r := os@{|o| o.n}.sum\nr.p\n", "1830\n", "big-array"))
    cases.append(("r := (1:101).A@{|i| t(i)}.len\nr.p\n", "".join("%d\n" % i for i in range(1, 101)) + "100\n", "big-array"))
    # layout volume must not matter either: a keyword after 1100 spaces / tabs, the next one on the following line
    for padc in (" ", "\t"):
        pad = padc * 1100
        cases.append(('"before".p\nr := fk(t(1),\n' + pad + 'k1: t(2),\n  k2: t(3))\n"after".p\n', "before\n1\n2\n3\nafter\n", "multiline"))
        cases.append(('"before".p\nr := {|| \\_}(z: t(1),\n' + pad + 'y: t(2),\nx: t(3),\n' + pad + 'w: t(4))\n"after".p\n', "before\n1\n2\n3\n4\nafter\n", "multiline"))
        cases.append(('"before".p\nr := {|a: t(1),\n' + pad + 'b: t(2),\n c: t(3)| [a, b, c]}()\n"after".p\n', "before\n1\n2\n3\nafter\n", "multiline"))
    # a lonely chain on a nil receiver still evaluates what is written: chain argument and arguments, once, in order
    for body, ms in [("nil&.foo(t(1), t(2))", [1, 2]), ("nil&.foo(t(1), k: t(2))", [1, 2]), ("t(1).{|x| nil}&.foo(t(2))", [1, 2]),
                     ("[nil, nil]&@foo(t(1))", [1]), ("[nil]&@([t(1)])foo(t(2))", [1, 2]), ("nil&.foo(*[t(1)], **{k: t(2)})", [1, 2])]:
        cases.append(('"before".p\nr := ' + body + '\n"after".p\n', "".join("%s\n" % m for m in ["before"] + ms + ["after"]), "lonely-nil"))
    # a variable call is a call: its arguments are evaluated once, in order (they are dropped today: open finding)
    cases.append(('"before".p\nr := 1.^f3(t(1), t(2))\n"after".p\n', "before\n1\n2\nafter\n", "varcall-args"))
    cases.append(('"before".p\nr := [1, 2]@^idf(t(1))\n"after".p\n', "before\n1\nafter\n", "varcall-args"))
    # short-cut operators and conditionals: the deciding operand is evaluated exactly once, the other one never or once
    L = lambda ms: "".join("%s\n" % m for m in ["before"] + ms + ["after"])
    sc = [("t(1) || t(2)", [1]), ("tz(1) || t(2)", [1, 2]), ("tz(1) && t(2)", [1]), ("t(1) && t(2)", [1, 2]),
          ("t(1) || t(2) || t(3)", [1]), ("tz(1) || tz(2) || t(3)", [1, 2, 3]), ("t(1) && t(2) && t(3)", [1, 2, 3]), ("t(1) && tz(2) && t(3)", [1, 2]),
          ("tz(1) && t(2) || t(3)", [1, 3]), ("t(1) && t(2) || t(3)", [1, 2]), ("(t(1) || t(2)) && t(3)", [1, 3]), ("(tz(1) || t(2)) && t(3)", [1, 2, 3]),
          ("tz(1) || t(2) && t(3)", [1, 2, 3]), ("t(1) || t(2) && t(3)", [1]),
          ("[t(1) || t(2), tz(3) && t(4), tz(5) || t(6)]", [1, 3, 5, 6]), ("f3(t(1) || t(2), tz(3) || t(4), t(5) && t(6))", [1, 3, 4, 5, 6]),
          ("{a: t(1) || t(2), b: tz(3) || t(4)}", [1, 3, 4]), ('"#{ t(1) || t(2) }-#{ tz(3) && t(4) }"', [1, 3]),
          ("t(1) if t(2) else t(3)", [2, 1]), ("t(1) if tz(2) else t(3)", [2, 3]), ("(t(1) if tz(2))", [2]),
          ("it0.next || t(2)", []), ("(it0.next || t(2)) + it0.next", []), ("!t(1)", [1]), ("!!tz(1)", [1]), ("-t(1)", [1])]
    for body, ms in sc:
        pre = "it0 := [10, 20, 30]._iter\n" if "it0" in body else ""
        cases.append((pre + '"before".p\nr := ' + body + '\n"after".p\nr.p\n', None, "shortcut"))
        if "it0" not in body:
            cases.append(('"before".p\nr := ' + body + '\n"after".p\n', L(ms), "shortcut"))
    cases.append(('it0 := [10, 20, 30]._iter\nr := [it0.next || 0, it0.next && 1, it0.next]\nr.p\n', "[10, 1, 30]\n", "shortcut"))
    cases.append(('a := tz(1)\na ||= t(2)\na ||= t(3)\na &&= t(4)\na.p\n', "1\n2\n4\n4\n", "shortcut"))
    # a literal / variable call evaluates the receiver before the function literal (whose keyword defaults are evaluated with it)
    for body, ms in [("t(1).{|x, k: t(2)| [x, k]}", [1, 2]), ("[t(1)]@{|x, k: t(2)| [x, k]}", [1, 2]), ("t(1)&.{|x, k: t(2)| x}", [1, 2]),
                     ("t(1)~.{|x, k: t(2)| x}", [1, 2]), ("t(1).{|x, k: t(2), j: t(3)| [x, k, j]}", [1, 2, 3])]:
        cases.append(('"before".p\nr := ' + body + '\n"after".p\n', L(ms), "literal-call-order"))
    # the parts of an embedded str are converted one by one, also when two parts are the SAME object (its S may print or advance)
    cases.append(('o := {S: m{t(7).S}}\n"before".p\nr := "#{o}-#{o}"\n"after".p\nr.p\n', "before\n7\n7\nafter\n7-7\n", "embstr-same-object"))
    cases.append(('c := [1, 2, 3]._iter\nq := {S: m{c.next.S}}\nr := "#{q}#{q}#{q}"\nr.p\n', "123\n", "embstr-same-object"))
    cases.append(('o := {S: m{t(7).S}}\nr := "#{o}#{ t(1) }#{o}#{ t(1) }"\nr.p\n', "7\n1\n7\n1\n7171\n", "embstr-same-object"))
    # a range over objects asks `<=>` and then `_incBy` of the current value BEFORE it hands the value out (once each, in that order);
    # Iterable#chain converts its operands to iterators when it is called, left to right
    hookpre = ("N := {'<=>: m{|o| \"cmp #{.v}\".p; .v <=> o.v}, _incBy: m{|n| \"inc #{.v}\".p; N.bear({v: .v + n})}}\nmk := {|v| N.bear({v: v})}\n")
    cases.append((hookpre + '(mk(1):mk(3))@{|x| "body #{x.v}".p; x.v}.p\n', "cmp 1\ninc 1\nbody 1\ncmp 2\ninc 2\nbody 2\ncmp 3\n[1, 2]\n", "range-hooks"))
    cases.append((hookpre + 'it := (mk(10):mk(13))._iter\n"first #{it.next.v}".p\n"between".p\n"second #{it.next.v}".p\n',
                  "cmp 10\ninc 10\nfirst 10\nbetween\ncmp 11\ninc 11\nsecond 11\n", "range-hooks"))
    cases.append(('a := {_iter: m{"iter of a".p; [1, 2]._iter}}\nb := {_iter: m{"iter of b".p; [3, 4]._iter}}\nIterable[\'chain](a, b)@{|x| "elem #{x}".p; x}.p\n',
                  "iter of a\niter of b\nelem 1\nelem 2\nelem 3\nelem 4\n[1, 2, 3, 4]\n", "chain-operands"))
    cases.append(('gen := <{|n| yield n; recur(n + 1)}>.new(1)\nc := [0].chain(gen)\nr := [gen.next, gen.next, c.first, c.while {\\ < 5}.A]\nr.p\n',
                  "[1, 2, 0, [1, 2, 3, 4]]\n", "chain-operands"))
    # a call whose property does not exist still evaluates what is written — arguments, keyword arguments, chain argument —
    # once and in order before it fails, and an argument's own error wins
    for body, ms in [("{}.nosuch(t(1), t(2))", [1, 2]), ("1.nosuch(t(1), k: t(2))", [1, 2]), ('"s".nosuch(*[t(1)], **{k: t(2)})', [1, 2]),
                     ("[1, 2]@nosuch(t(1))", [1]), ("{a: 1}.nosuch(t(1)).foo(t(2))", [1]), ("nil.nosuch(t(1), t(2))", [1, 2])]:
        cases.append(('"before".p\nr := "".try.{ ' + body + ' }\n"after".p\nr.err.kindOf?(NoPropErr).p\n', L(ms) + "true\n", "undefined-prop-args"))
    cases.append(('"before".p\nr := "".try.{ {}.nosuch(t(1), boom(2), t(3)) }\n"after".p\nr.err.msg.p\n', L([1, 2]) + "E2\n", "undefined-prop-args"))
    cases.append(('"before".p\nr := "".try.{ {}.nosuch(t(1), k: boomz(2)) }\n"after".p\nr.err.kindOf?(ZeroDivisionErr).p\n', L([1, 2]) + "true\n", "undefined-prop-args"))
    rng.setstate(st)
    n = 300 if chk.tier == "quick" else 8000
    for _ in range(n):
        ctr = c07.Counter()
        text, holes = c07.build(rng, rng.randint(1, 3), ctr)
        body, markers = c07.instantiate(text, holes, None, None)
        prog = '"before".p\nr := ' + body + '\n"after".p\n'
        cases.append((prog, "".join("%s\n" % m for m in ["before"] + markers + ["after"]), "nested"))
    return cases


def main(chk):
    ok, broken = obligations(chk, "Props/C08.v")
    cases = gen(chk)
    progs = [c[0] for c in cases]
    R = 8 if chk.tier == "quick" else 64
    res = pancore.run_programs(chk, progs, cmp_msg=True, prelude=PRELUDE, repeat=R)
    # separate processes: the same programs again, sharded differently (each shard is a new process)
    P = 1 if chk.tier == "quick" else 7
    others = []
    for p in range(P):
        rot = progs[p + 1:] + progs[:p + 1]
        reps = harness("eval", [{"src": s, "prelude": PRELUDE, "repeat": 1} for s in rot], shards=NCPU - 1 - p % 3)
        others.append(reps[-(p + 1):] + reps[:-(p + 1)])
    viol, model_only, fam = [], [], {}
    runs = 0
    # standard input is read where the program says so, a line at a time: an outer `<>` chain and reads inside its block alternate
    sin = "config\nhost\nlocalhost\nport\n80\n"
    scases = [('header := <>.S\nheader.p\n<>@{|key| "#{key}=#{<>.S}"}.p\n<>.S.repr.p\n', 'config\n["host=localhost", "port=80"]\n""\n'),
              ('it := <>._iter\n[it.next, <>.S, it.next, <>.S].p\n[<>.A.len].p\n', '["config", "host", "localhost", "port"]\n[1]\n'),
              ('[<>.S, <>.S].p\n<>@{|l| l.uc}.p\n', '["config", "host"]\n["LOCALHOST", "PORT", "80"]\n')]
    sres = pancore.run_programs(chk, [c[0] for c in scases], cmp_msg=True, repeat=R, stdin=sin, tag="C08in")
    for (prog, exp), r in zip(scases, sres):
        chk.count(("stdin", prog), True)
        imp = r["impl"]
        if imp.get("nondet") or not (imp["kind"] == "value" and imp.get("out") == exp):
            viol.append(("standard input is not read line by line where the program reads it: expected %r, got %r" % (exp, imp.get("out")),
                         {"program": prog, "stdin": sin, "expected_out": exp, "impl": {k: imp.get(k) for k in ("kind", "repr", "errk", "errmsg", "out", "nondet")}},
                         "C08:stdin-order"))
        elif r["verdict"] == "disagree":
            model_only.append(r)
    for i, ((prog, exp, family), r) in enumerate(zip(cases, res)):
        fam[family.split("/")[0]] = fam.get(family.split("/")[0], 0) + 1
        chk.count(prog, True)
        imp = r["impl"]
        runs += R + P
        if imp.get("nondet"):
            viol.append(("the same program gave different results in repeated evaluations of one process (%s)" % family,
                         {"program": prog, "prelude": PRELUDE, "first": {k: imp.get(k) for k in ("kind", "repr", "errk", "out")},
                          "other": imp["nondet"][:2]}, "C08:nondet:" + family.split("/")[0]))
            continue
        diff = [o[i] for o in others if not (o[i]["kind"] == imp["kind"] and o[i].get("out") == imp.get("out")
                                               and o[i].get("repr") == imp.get("repr") and o[i].get("errk") == imp.get("errk"))]
        if diff:
            viol.append(("the same program gave different results in different processes (%s)" % family,
                         {"program": prog, "prelude": PRELUDE, "first": {k: imp.get(k) for k in ("kind", "repr", "errk", "out")},
                          "other": {k: diff[0].get(k) for k in ("kind", "repr", "errk", "out")}}, "C08:nondet:" + family.split("/")[0]))
            continue
        if exp is not None and not (imp["kind"] == "value" and imp.get("out") == exp):
            viol.append(("sub-expressions not evaluated once each in source order (%s): expected trace %r, got %r (%s)" % (
                family, exp, imp.get("out"), imp.get("errk")),
                {"program": prog, "prelude": PRELUDE, "expected_out": exp, "impl": {k: imp.get(k) for k in ("kind", "repr", "errk", "errmsg", "out")}},
                "C08:" + family.split("/")[0]))
        elif r["verdict"] == "disagree":
            if exp is None:
                viol.append(("result differs from the reference evaluator (%s): model %s, implementation %s" % (
                    family, r.get("model"), {k: imp.get(k) for k in ("kind", "repr", "errk", "out")}),
                    {"program": prog, "prelude": PRELUDE, "model": r.get("model"), "impl": imp}, "C08:" + family))
            else:
                model_only.append(r)
    chk.cov["input_distribution"] = fam
    chk.cov["runs"] = runs
    chk.cov["rule"] = ("every construct template of C07 with a marker-printing helper in every hole (no raise), arities 1..4 of "
                       "array/arguments/unpacking/keyword arguments/object/map/embedded string, duplicate keys and keywords, `**` unpacking, "
                       "objects and maps with 10-11 keys (beyond Go's 8-entry bucket) iterated/printed/compared/unpacked, equality of objects / maps / "
                       "nested arrays / has? whose 11-12 values define `==` themselves (hooks must run in key order), variable calls with "
                       "arguments (open finding), arguments / keywords / literals spread over several lines (also after 1100 spaces or tabs), lonely chains on nil "
                       "receivers, arrays of 60 objects whose S / == / <=> print, seeded random "
                       "nestings to depth 3; each program evaluated %d times in one process and in %d further process(es); all runs must "
                       "agree with each other, with source order (marker oracle) and with PanCore. Three programs read standard input (`<>`) in an outer "
                       "chain and inside its block (hand-derived output; the model does not implement `<>` and discards them). Added after seeded round 6: "
                       "printing of objects / maps whose keys differ only in case or print alike, receiver before the function literal of a literal call." % (R, P))
    for i in (0, len(progs) // 2, len(progs) - 1):
        chk.sample({"program": progs[i], "expected_out": cases[i][1], "impl_out": res[i]["impl"].get("out"),
                    "model_verdict": res[i]["verdict"]})
    chk.cov["rule"] += " Added after seeded round 5: short-cut operators and conditionals with marker operands in every position (26 shapes), a call of an absent property (its arguments are evaluated first, an argument's error wins), embedded strs whose parts are one object with an impure S."
    chk.cov["rule"] += " Added after seeded round 7: ranges over objects whose `<=>` / `_incBy` print, the operands of Iterable#chain."
    return pancore.conclude(chk, ok, broken, "Props/C08.v", res, viol, model_only, "C08",
                            "Core.Interp vs evaluator/*.go on marker programs")
