"""C10 — integer arithmetic: proof obligations (Props/C10.v) + correspondence of
Arith/IntModel.v with props/int_props.go on enumerated and random int64 pairs."""
import struct
from pv import *

OPS = [("+", "OAdd"), ("-", "OSub"), ("*", "OMul"), ("-%", "ONeg"), ("**", "OPow"),
       ("//", "OFloorDiv"), ("%", "OMod"), ("/", "ODiv"), ("<=>", "OCmp")]
MIN, MAX = -2 ** 63, 2 ** 63 - 1


def in64(z):
    return MIN <= z <= MAX


def math_oracle(op, a, b):
    """The mathematically exact answer the property demands, or None when the
    property says nothing (result does not fit / negative exponent / float)."""
    if op == "+":
        r = a + b
    elif op == "-":
        r = a - b
    elif op == "*":
        r = a * b
    elif op == "-%":
        r = -a
    elif op == "**":
        if b < 0 or (abs(a) > 1 and b > 64):
            return None
        r = a ** b
    elif op == "//":
        if b == 0:
            return "e:ZeroDivisionErr"
        r = a // b
    elif op == "%":
        if b == 0:
            return "e:ZeroDivisionErr"
        return "mod"
    elif op == "/":
        if b == 0:
            return "e:ZeroDivisionErr"
        try:
            return "f:%016x" % struct.unpack(">Q", struct.pack(">d", float(a) / float(b)))[0]
        except OverflowError:
            return None
    elif op == "<=>":
        r = (a > b) - (a < b)
    return "i:%d" % r if in64(r) else None


def holds(op, a, b, got):
    want = math_oracle(op, a, b)
    if want is None:
        return True
    if want == "mod":
        if not got.startswith("i:"):
            return False
        r = int(got[2:])
        return abs(r) < abs(b) and (a - r) % b == 0
    return got == want


def gen_cases(chk):
    extra_pow = []
    for sh in (32, 48, 56, 57, 58, 59, 60, 61, 62):
        for k in (-3, -1, 0, 1, 2, 3, 5, 7):
            for b in (0, 1, 2, 3):
                extra_pow.append(("**", 2 ** sh + k, b))
                extra_pow.append(("**", -(2 ** sh) + k, b))
    cases = []
    small = range(-9, 10)
    for op, _ in OPS:
        for a in small:
            for b in (small if op != "-%" else [0]):
                cases.append((op, a, b))
    B = {0, 1, -1, 2, -2, 3, -3, MAX, -MAX, MIN, 3037000499, -3037000499, 3037000500, -3037000500}
    for k in (31, 32, 52, 53, 54, 62):
        for d in (-1, 0, 1):
            B.add(2 ** k + d)
            B.add(-(2 ** k + d))
    B = sorted(B)
    for op, _ in OPS:
        if op == "/" and chk.tier == "quick":
            Bs = B[::2]
        else:
            Bs = B
        for a in Bs:
            for b in (Bs if op != "-%" else [0]):
                cases.append((op, a, b))
    for a in list(range(-11, 12)) + [2 ** 31, -2 ** 31, 3037000499, -3037000499]:
        for b in range(0, 71):
            cases.append(("**", a, b))
    n = 20000 if chk.tier == "quick" else 400000
    r = chk.rng
    for _ in range(n):
        op = r.choice(OPS)[0]
        if op == "/" and r.random() < 0.8:
            op = r.choice(["+", "-", "*", "//", "%", "<=>"])
        kind = r.random()
        def draw():
            if kind < 0.4:
                return r.randint(MIN, MAX)
            bits = r.randint(1, 63)
            return r.randint(-(2 ** bits), 2 ** bits - 1)
        a, b = draw(), draw()
        if op == "**":
            a = r.choice([r.randint(-40, 40), r.randint(-3037000500, 3037000500), a])
            b = r.randint(0, 66)
        if op == "-%":
            b = 0
        cases.append((op, a, b))
    # small bases first, then bases that agree with them modulo a power of two (what a memo keyed too coarsely would confuse)
    cases += [c for c in extra_pow if -(2 ** 63) <= c[1] < 2 ** 63]
    for a in (-1, 0, 1, 2, -2):
        for b in (63, 64, 65, 2 ** 53 + 1, 2 ** 53 + 2, 2 ** 63 - 1, 2 ** 63 - 2):
            cases.append(("**", a, b))
    for m in (3, 7, -3, 5, 1, -1):
        for k in (2 ** 53 + 1, 2 ** 53 + 3, 2 ** 54 + 1, 2 ** 60 + 1, 9007199254740993):
            if -(2 ** 63) <= k * m < 2 ** 63:
                for op in ("/", "//", "%"):
                    cases.append((op, k * m, m))
    for op in ("/", "//", "%", "*"):
        cases.append((op, -(2 ** 63), -1))
    return cases


def go2coq(s):
    if s.startswith("i:"):
        return "RInt " + zlit(s[2:])
    if s.startswith("f:"):
        return "RFloat %d" % int(s[2:], 16)
    if s == "e:ZeroDivisionErr":
        return "RZeroDiv"
    return "ROther"


def main(chk):
    ok, broken = obligations(chk, "Props/C10.v")
    cases = gen_cases(chk)
    # de-duplicate, keep order
    seen, uniq = set(), []
    for c in cases:
        if c not in seen:
            seen.add(c)
            uniq.append(c)
    cases = uniq
    chk.note("cases:", len(cases))
    # every case through the built-in directly; a third of them also through parsed source
    nsrc = 3 if chk.tier == "quick" else 1
    reqs = [{"op": op, "a": str(a), "b": str(b), "src": (i % nsrc == 0)} for i, (op, a, b) in enumerate(cases)]
    outs = harness("intop", reqs, shards=NCPU)
    opname = dict(OPS)
    hist = {}
    failing = []
    # 1. the direct oracle of the property (exact integers) against the implementation
    for (op, a, b), o in zip(cases, outs):
        hist[op] = hist.get(op, 0) + 1
        nontriv = abs(a) > 1 and (abs(b) > 1 or op == "-%")
        chk.count((op, a, b), nontriv)
        for via in ("r", "s"):
            if via not in o:
                continue
            if not holds(op, a, b, o[via]):
                failing.append((op, a, b, via, o[via], math_oracle(op, a, b)))
        if "s" in o and o["r"] != o["s"] and math_oracle(op, a, b) is not None:
            failing.append((op, a, b, "direct-vs-source", o["r"] + " vs " + o["s"], None))
    # 2. correspondence with the Coq model (vm_compute inside Coq)
    shards = shard(list(enumerate(zip(cases, outs))), NCPU)
    bodies = []
    for k, sh in enumerate(shards):
        rows = ["(%d, %s, %s, %s, %s)" % (i, opname[op], zlit(a), zlit(b), go2coq(o["r"]))
                for i, ((op, a, b), o) in sh]
        body = ("From Coq Require Import ZArith List.\nImport ListNotations.\n"
                "From PanVerif Require Import Arith.IntModel.\nOpen Scope Z_scope.\n"
                "Definition cases : list icase := [\n" + ";\n".join(rows) + "].\n"
                "Definition M := Eval vm_compute in mismatches cases.\nPrint M.\n")
        bodies.append(("cases_C10_%d" % k, body))
    results = coq_eval_many(bodies)
    mism = []
    for (name, _), (rc, out) in zip(bodies, results):
        flat = " ".join(out.split())
        if rc != 0:
            chk.fail("correspondence shard %s did not evaluate: %s" % (name, out[-600:]),
                     {"correspondence": "Arith.IntModel vs props/int_props.go", "shard": name}, no_input=True)
            continue
        if re.search(r"M = \[\s*\]", flat):
            continue
        for m in re.finditer(r"\((\d+),\s*(R\w+(?:\s+(?:\(-?\d+\)|\d+))?)\)", flat):
            mism.append((int(m.group(1)), m.group(2)))
    chk.cov["model_mismatches"] = len(mism)
    chk.cov["input_distribution"] = hist
    chk.cov["rule"] = ("exhaustive [-9,9]^2 per operator; boundary set (0,+-1..3, 2^k+-1 for k in 31,32,52,53,54,62, "
                       "int64 extremes, +-3037000499/500) squared per operator; a**b for a in [-11,11]+{+-2^31,+-3037000499}, b in [0,70]; "
                       "bases 2^k + j (k in 32..62) after the small bases; seeded random 64-bit / random-magnitude pairs. Each case is run through the built-in called directly and "
                       "through parsed source `(a) op (b)`; 8 operators x 8x8 boundary operands also as Int descendants (`Int.bear({}).new`) on both sides "
                       "and on the right only: same value / same error as the plain integers. non-trivial: |a|>1 and |b|>1 (|a|>1 for unary minus); distinct by (op,a,b).")
    for i in (0, len(cases) // 3, len(cases) // 2, len(cases) - 1):
        (op, a, b), o = cases[i], outs[i]
        chk.sample({"op": op, "a": str(a), "b": str(b), "impl_direct": o["r"], "impl_source": o.get("s")})
    chk.cov["trusted_base"] += [
        "hand-written model coq/Arith/IntModel.v of props/int_props.go (+ - * -% ** // % / <=>), tied by vm_compute correspondence on every case",
        "harness sub-command intop (Go), Python exact-integer oracle used only to search for failing inputs",
        "Flocq 4 binary64 (Bdiv, binary_normalize) for `/`; Go's float64 conversion and division are compared bit for bit",
        "math.Pow float path of `**` (negative exponent, result beyond int64) is outside the model and the property"]
    chk.assumptions += ["operands are int64 values (PanInt and Int descendants); nil/float operands are outside C10",
                        "literals are spelled in range so that literal parsing (C17) does not interfere"]
    # 3. operands that are Int DESCENDANTS (typed integers made with bear/new) and booleans behave as the plain integers do
    tvals = [0, 1, -1, 2, -7, 2 ** 62, -(2 ** 63) + 1, 2 ** 63 - 1]
    tops = ["+", "-", "*", "//", "%", "/", "**", "<=>"]
    tprogs, tmeta = [], []
    lit = lambda v: "(%d)" % v
    for op in tops:
        for a in tvals:
            for b in tvals:
                if op == "**" and (b < 0 or b > 70):
                    continue
                tmeta.append((op, a, b))
                tprogs.append("%s %s %s" % (lit(a), op, lit(b)))
                tprogs.append("M := Int.bear({})\n(M.new(%s) - M.new(0)) %s (M.new(%s) - M.new(0))" % (lit(a), op, lit(b)))
                tprogs.append("M := Int.bear({})\n%s %s (M.new(%s) - M.new(0))" % (lit(a), op, lit(b)))
    touts = harness("eval", [{"src": p_} for p_ in tprogs], shards=NCPU)
    for i, (op, a, b) in enumerate(tmeta):
        plain, typed, mixed = touts[3 * i], touts[3 * i + 1], touts[3 * i + 2]
        chk.count(("typed", op, a, b), True)
        key = lambda r: (r["kind"], r.get("errk"), r.get("repr") if r["kind"] == "value" else None)
        for what, r in (("both operands typed", typed), ("right operand typed", mixed)):
            if key(r) != key(plain) and plain["kind"] != "fuel":
                failing.append((op, a, b, "Int descendants (%s)" % what,
                                "%s vs plain %s" % ({k: r.get(k) for k in ("kind", "errk", "repr", "panic")}, {k: plain.get(k) for k in ("kind", "errk", "repr")}), None))
                break
    hist["typed-operands"] = len(tmeta)
    # decide
    if failing:
        seenk = set()
        for f in failing:
            op, a, b, via, got, want = f
            klass = "C10:%s" % op
            if klass in seenk:
                continue
            seenk.add(klass)
            chk.fail("int `%s`: (%d) %s (%d) gives %s via %s, exact answer %s" % (op, a, op, b, got, via, want),
                     {"harness": "intop", "op": op, "a": str(a), "b": str(b), "got": got, "want": want,
                      "theorem": "C10_*_exact instance contradicted by the implementation"}, klass=klass)
    if mism and not failing:
        i, m = mism[0]
        (op, a, b), o = cases[i], outs[i]
        chk.fail("model/implementation disagree on (%d) %s (%d): model %s, implementation %s; no input found on which the property itself fails"
                 % (a, op, b, m, o["r"]),
                 {"correspondence": "Arith.IntModel.iapply vs props/int_props.go", "op": op, "a": str(a), "b": str(b),
                  "model": m, "impl": o["r"]}, no_input=True)
    if not ok:
        # a proof obligation broke: the searches above are the failing-input search
        if not failing:
            chk.fail(broken, {"theorem_file": "coq/Props/C10.v", "detail": broken}, no_input=True)
    return chk.finish()
