"""The repository's own tests/*.pangaea scripts as a correspondence corpus for PanCore."""
import glob
import os
import pv
import pancore


def run_corpus(chk, tag="corpus"):
    files = sorted(glob.glob(os.path.join(pv.REPO, "tests", "*.pangaea")))
    progs = [open(f).read() for f in files]
    res = pancore.run_programs(chk, progs, tag=tag)
    for f, r in zip(files, res):
        r["file"] = os.path.basename(f)
    return res


if __name__ == "__main__":
    import sys
    chk = pv.Check("T00")
    res = run_corpus(chk)
    print(pancore.summarize(chk, res))
    for r in res:
        if r["verdict"] in ("disagree", "fuel", "panic", "nocoq"):
            print(r["verdict"], r["file"], r.get("model", "")[:300], "| impl:", r["impl"].get("kind"), r["impl"].get("errk"), (r["impl"].get("errmsg") or "")[:100])
