"""C16 — layout volume, token length, reader chunking.

1. proof obligations: Props/C16.v (Lex/Refill.v, Lex/LayoutTok.v and their proofs);
2. correspondence, evaluated inside Coq by vm_compute over coq/gen/cases_C16_*.v:
   (a) the hand-written matchers of Lex/LayoutTok.v against Go's regexp compiled from the
       pattern text the running parser installs (harness dumpregex),
   (b) the refill state machine of Lex/Refill.v (repaired logic) with the reduced token table
       against simplexer.Lexer itself, fed through a scripted io.Reader (harness lextoks);
3. the property's direct oracle on the implementation (harness lexchunk): base programs x every
   line-break position x paddings x reader chunkings, long tokens x chunkings: ast String() must
   equal the original's. A failing variant is a concrete failing input."""
import glob
import os
from pv import *

# ---------------------------------------------------------------------------
# base programs: every "\n" in them is a line break of the grammar (none inside a string)
BASES = [
    "{\n  a: 1,\n  b: 2,\n}\n",
    "obj := {\n  name: \"x\",\n  # the age\n  age: 3,\n}\nobj.name.p\n",
    "[\n  1,\n  2,\n  3,\n]\n",
    "arr := [\n  [1, 2],\n  [3, 4],\n]\narr[0].p\n",
    "%{\n  'a: 1,\n  \"b\": 2,\n}\n",
    "m := %{\n  1: 'one,\n  2: 'two,\n}\nm[1].p\n",
    "{\n  a: {\n    b: [\n      1,\n      2,\n    ],\n  },\n}\n",
    "f := {|x|\n  y := x * 2\n  y + 1\n}\nf(3).p\n",
    "add := {|a, b: 1|\n  a + b\n}\nadd(1, b: 2).p\n",
    "m{|x|\n  .a + x\n}\n",
    "{\n  add: m{|n|\n    .v + n\n  },\n  v: 1,\n}.add(2).p\n",
    "g := {|x|\n  return 1 if x == 0\n  # otherwise recurse\n  x * g(x - 1)\n}\ng(5).p\n",
    "it := <{|n|\n  yield n if n < 3\n  recur(n + 1)\n}>\nit.new(0).A.p\n",
    "{|x|\n  defer \"bye\".p\n  raise Err.new(\"e\") if x\n  x\n}\n",
    "[1, 2, 3]\n  |@{|x| x * 2}\n  |.sum\n  |.p\n",
    "\"abc\"\n  |.uc\n  |&.p\n",
    "x := (1:4)\n  |@{\\ + 1}\n  |$(0){|a, i| a + i}\nx.p\n",
    "foo\n  |.bar(1)\n  # a comment between chain steps\n  |@baz\n  |=.qux\n",
    "a\n|~.b\n|.c\n",
    "a := 1\nb := 2\na + b\n",
    "# leading comment\n# second line\nx := 10\nx.p\n",
    "\n\nx := 1\n\n\ny := 2\n",
    "x := 1 # trailing comment\ny := x + 1 # another\ny.p\n",
    "1.p; 2.p\n3.p\n",
    "a := 5\nb := a if a > 3 else 0\nb.p\n",
    "s := \"a#{1 + 2}b\"\ns.p\n",
    "r := `raw # not a comment`\nr.p\n",
    "c := ?a\nd := 'sym\n[c, d].p\n",
    "x := 0x1f + 0b11 + 1_000 + 1.5e3\nx.p\n",
    "Point := {\n  new: m{|x, y| .bear({x: x, y: y})},\n  # norm\n  norm2: m{.x * .x + .y * .y},\n}\nPoint.new(3, 4).norm2.p\n",
    "a <=> b\nc === d\n!e\n-f ** 2\n",
    "{|x| x}(1)\n  |.S\n  |.p\n\n# eof comment\n",
    "x => y\nz += 1\n",
    # non-ASCII text: a multi-byte character must survive every split of the bytes into reads
    "s := \"日本語✓é\"\ns.p\n",
    "# コメント ✓ comment\nx := \"é\"\n# ключ\nx.len.p\n",
    "{\n  a: \"ü\",\n  # 注\n  b: `生✓`,\n}\n",
]

CHUNKS = [1, 2, 3, 7, 1023, 1024, 2047, 2048, 2049, 0, 4095, 4096, 4097, 5]          # 0 = whole (all that is requested)


def sizes_around():
    s = list(range(1020, 1031)) + list(range(2040, 2057)) + list(range(3066, 3079)) + list(range(4088, 4105))
    return s


IDCH = set("abcdefghijklmnopqrstuvwxyzABCDEFGHIJKLMNOPQRSTUVWXYZ0123456789_")


def break_positions(src):
    """indices of the "\\n" of src that lie outside string and char literals; None when the
    text has constructs this scanner does not classify (embedded strings)."""
    pos, i, n, st = [], 0, len(src), None
    while i < n:
        c = src[i]
        if st is None:
            if c == "\n":
                pos.append(i)
            elif c == "#":
                st = "cm"
            elif c == '"':
                st = "dq"
            elif c == "`":
                st = "bq"
            elif c == "?" and not (i > 0 and src[i - 1] in IDCH):
                i += 2 if (i + 1 < n and src[i + 1] == "\\") else 1
        elif st == "cm":
            if c == "\n":
                pos.append(i)
                st = None
        elif st == "dq":
            if c == "\\" and i + 1 < n and src[i + 1] == '"':
                i += 1
            elif c == '"':
                st = None
            elif c == "\n" or (c == "#" and i + 1 < n and src[i + 1] == "{"):
                return None
        elif st == "bq":
            if c == "\\" and i + 1 < n and src[i + 1] == "`":
                i += 1
            elif c == "`":
                st = None
        i += 1
    return pos if st in (None, "cm") else None


# ---------------------------------------------------------------------------
# paddings: pieces (count, unit) of exactly n bytes (n >= 1) that replace one "\n"
def pad_nl(n):
    return [(n, "\n")]


def pad_lead(n):
    return [(n - 1, " "), (1, "\n")]


def pad_trail(n):
    return [(1, "\n"), (n - 1, " ")]


def pad_tabs(n):
    a = (n - 1) // 2
    return [(a, "\t"), (1, "\n"), (n - 1 - a, "\t")]


def pad_comment1(n):
    if n < 3:
        return pad_nl(n)
    return [(1, " #"), (n - 3, "c"), (1, "\n")]


def pad_commentlines(n):
    q, r = divmod(n - 1, 4)
    return [(1, "\n"), (q, "# c\n"), (r, "\n")]


def pad_blanklines(n):
    q, r = divmod(n - 1, 4)
    return [(1, "\n"), (q, " \t \n"), (r, "\n")]


def pad_crlf(n):
    return [(n // 2, "\r\n"), (n % 2, "\n")]


def pad_mixed(n):
    if n < 12:
        return pad_blanklines(n)
    q, r = divmod(n - 6, 6)
    return [(1, " # x\n"), (q, "\t#y\n\n "), (r, " "), (1, "\n")]


def pad_commentlines_bars(n):
    """comment lines whose text looks like chain links and layout: `|`, `|@`, `#`, quotes"""
    q, r = divmod(n - 1, 4)
    units = ["#|@\n", "# |\n", "##|\n", "#`|\n", "#\"|\n"]
    return [(1, "\n")] + [(q // len(units) + (1 if i < q % len(units) else 0), u) for i, u in enumerate(units)] + [(r, "\n")]


def pad_comment1_bars(n):
    if n < 5:
        return pad_nl(n)
    return [(1, " #"), ((n - 3) // 2, "|."), ((n - 3) % 2, "|"), (1, "\n")]


SHAPES = [("newlines", pad_nl), ("spaces-before", pad_lead), ("spaces-after", pad_trail), ("tabs-around", pad_tabs),
          ("one-long-comment", pad_comment1), ("comment-lines", pad_commentlines), ("blank-lines", pad_blanklines),
          ("crlf", pad_crlf), ("mixed", pad_mixed),
          ("comment-lines-with-bars", pad_commentlines_bars), ("one-long-comment-with-bars", pad_comment1_bars)]


def norm_pieces(ps):
    return [(n, u) for n, u in ps if n > 0 and u != ""]


def text_of(ps):
    return "".join(u * n for n, u in ps)


def coq_pieces(ps):
    return "[" + "; ".join("(%d, [%s])" % (n, "; ".join(str(b) for b in u.encode("utf-8")))
                           for n, u in norm_pieces(ps)) + "]"


def rle(s):
    out = []
    for ch in s:
        if out and out[-1][1] == ch:
            out[-1] = (out[-1][0] + 1, ch)
        else:
            out.append((1, ch))
    return out


def json_pieces(ps):
    return [[n, u] for n, u in norm_pieces(ps)]


# ---------------------------------------------------------------------------
# (a) matcher cases
FRAGS = [" ", "\t", "\n", "\r", "\r\n", "#", "#c|.", "|.", "|&", "|", "|x", "\"", "\\\"", "\\", "`", "\\`", "ab", "Z9_",
         "_", "__", "!", "?", "#{", "x", "\n  ", "  \n", "|@", "|=", "|~", "|$", "{", "é"]
FOLLOW = ["", "x", "|.f", "|&f", "|x", "||", "#", "# eof comment", "\"s\"", "`r`", "  y", "|", "|~", "_p", "\\1"]


def matcher_cases(chk):
    cases = []
    if chk.tier == "quick":
        sizes = [1, 2, 3, 4, 5, 6, 1023, 1024, 1025, 2047, 2048, 2049, 3072, 4096, 4097]
    else:
        sizes = list(range(1, 8)) + sizes_around() + [5000]
    for n in sizes:
        for _, f in SHAPES:
            for fo in FOLLOW:
                cases.append(f(n) + [(1, fo)])
    lens = [0, 1, 2, 3, 10, 100, 1000, 1023, 1024, 1025, 2046, 2047, 2048, 2049, 2050, 3000, 4096, 5000]
    if chk.tier != "quick":
        lens = sorted(set(lens + sizes_around()))
    for L in lens:
        for rest in ("", " x", "\n", "\"", "`"):
            toks = [
                [(1, '"'), (L, "a"), (1, '"')], [(1, '"'), (L, "a")], [(1, '"'), (L, "a"), (1, '\\"')],
                [(1, '"'), (L, "a"), (1, '\\"'), (L, "b"), (1, '"')], [(1, '"'), (L, "a"), (1, '\\\\"')],
                [(1, '"'), (L, "a"), (1, "\n"), (1, '"')], [(1, '"'), (L, "a"), (1, "#{")], [(1, '"'), (L, "a#"), (1, '"')],
                [(1, '"'), (L, "a"), (1, "#"), (1, '"')], [(1, '"'), (L, "\\\""), (1, "#{")],
                [(1, "`"), (L, "a"), (1, "`")], [(1, "`"), (L, "a\n"), (1, "`")], [(1, "`"), (L, "a")],
                [(1, "`"), (L, "a"), (1, "\\`")], [(1, "`"), (L, "\\`"), (1, "`")],
                [(1, "k"), (L, "a")], [(1, "k"), (L, "a"), (1, "?")], [(1, "k"), (L, "a_9")], [(1, "k"), (L, "a"), (1, "!?")],
                [(1, "_"), (L, "_"), (1, "id")], [(L + 1, "_")], [(1, "9"), (L, "a")],
                [(1, "#"), (L, "c")], [(1, "#"), (L, "c"), (1, "\n")], [(1, "#"), (L, "c"), (1, "\r\n  |.f")],
                [(1, "#"), (L, "\"")],
            ]
            for t in toks:
                cases.append(t + [(1, rest)])
    nrand = 5000 if chk.tier == "quick" else 60000
    r = chk.rng
    for _ in range(nrand):
        k = r.randint(0, 14)
        cases.append(rle("".join(r.choice(FRAGS) for _ in range(k))))
    return [norm_pieces(c) for c in cases]


# (b) lexer cases: text + schedule pattern
LEXFRAGS = ["foo", "bar_1", "x?", "_p", "__", "\"str\"", "\"a\\\"b\"", "`raw`", "`r\nw`", "\n", "\n\n", "  ", "\t", " # c\n",
            "\n  |.", "\n|&", "\n |@", "\r\n", "# c", "\"h#{", "|", "9", "\"open", "`open"]


def lexer_cases(chk):
    r = chk.rng
    cases = []
    pats = [[], [1], [2], [3], [7], [1, 5, 2], [1023], [1024], [2047], [2048], [2049], [4096]]
    n = 260 if chk.tier == "quick" else 3000
    for i in range(n):
        k = r.randint(0, 12)
        frs = [r.choice(LEXFRAGS[:20] if r.random() < 0.85 else LEXFRAGS) for _ in range(k)]
        ps = rle(" ".join(frs) if r.random() < 0.5 else "".join(frs))
        pat = pats[i % len(pats)] if r.random() < 0.8 else [r.randint(1, 40) for _ in range(r.randint(1, 5))]
        cases.append((ps, pat))
    # long ones: a token or a padding of threshold size inside a small token sequence
    big = [1000, 1023, 1024, 1025, 2047, 2048, 2049, 3000, 4096, 5000] if chk.tier == "quick" else \
        [1000, 3000, 5000] + sizes_around()[::2]
    for L in big:
        for j, mk in enumerate([
            lambda L: [(1, "foo "), (1, '"'), (L, "a"), (1, '"'), (1, " bar\n")],
            lambda L: [(1, "foo "), (1, "`"), (L // 2, "a\n"), (1, "`"), (1, " bar\n")],
            lambda L: [(1, "foo"), (1, " #"), (L, "c"), (1, "\n"), (1, "bar")],
            lambda L: [(1, "foo")] + pad_commentlines(L) + [(1, "  |.bar\n")],
            lambda L: [(1, "foo")] + pad_blanklines(L) + [(1, "bar")],
            lambda L: [(1, "k"), (L, "ab"), (1, "? x")],
            lambda L: pad_mixed(L) + [(1, "foo")],
        ]):
            for pat in ([[], [1023], [1024], [2048], [2049]] if chk.tier == "quick" else pats[6:] + [[]]):
                cases.append((mk(L), pat))
            if L <= 1025:
                cases.append((mk(L), [1]))
                cases.append((mk(L), [3, 7]))
    return [(norm_pieces(p), pat) for p, pat in cases]


# ---------------------------------------------------------------------------
def coq_option(m):
    return "None" if m < 0 else "Some %d" % m


HEADER = ("From Coq Require Import List NArith.\nImport ListNotations.\n"
          "From PanVerif Require Import Lex.Refill Lex.LayoutTok.\nLocal Open Scope N_scope.\n")


def round_robin(seq, n):
    """big cases are generated next to each other: deal them out over the shards"""
    return [x for x in (seq[k::n] for k in range(n)) if x]


def run_matcher_correspondence(chk, mcases):
    outs = harness("dumpregex", [{"mode": "match", "pieces": json_pieces(ps)} for ps in mcases], shards=NCPU)
    bodies = []
    for k, sh in enumerate(round_robin(list(enumerate(zip(mcases, outs))), NCPU)):
        rows = ["(%d, %s, [%s])" % (i, coq_pieces(ps), "; ".join(coq_option(m) for m in o["m"])) for i, (ps, o) in sh]
        bodies.append(("cases_C16_m%d" % k, HEADER + "Definition cases : list mcase := [\n" + ";\n".join(rows) +
                       "].\nDefinition M := Eval vm_compute in mismatches_m cases.\nPrint M.\n"))
    mism = []
    for (name, _), (rc, out) in zip(bodies, coq_eval_many(bodies)):
        flat = " ".join(out.split())
        if rc != 0:
            chk.fail("correspondence shard %s did not evaluate: %s" % (name, out[-600:]),
                     {"correspondence": "Lex.LayoutTok matchers vs Go regexp", "shard": name}, no_input=True)
            continue
        for m in re.finditer(r"\((\d+)(?:%N)?, (\d+)(?:%N)?, (None|Some \d+)(?:%N)?\)", flat):
            mism.append((int(m.group(1)), int(m.group(2)), m.group(3)))
    for ps, o in zip(mcases, outs):
        chk.count(("m", tuple(ps)), any(x >= 0 for x in o["m"]))
    return outs, mism


def run_lexer_correspondence(chk, lcases):
    outs = harness("lextoks", [{"pieces": json_pieces(ps), "chunks": pat} for ps, pat in lcases], shards=NCPU)
    bodies = []
    for k, sh in enumerate(round_robin(list(enumerate(zip(lcases, outs))), NCPU)):
        rows = []
        for i, ((ps, pat), o) in sh:
            ln = sum(n * len(u.encode("utf-8")) for n, u in ps)
            times = 0 if not pat else (ln + 2) // len(pat) + 1
            rows.append("(%d, %s, [%s], %d, [%s], %d)" % (
                i, coq_pieces(ps), "; ".join(str(x) for x in pat), times,
                "; ".join("(%d, %d)" % (a, b) for a, b in o["toks"]), o["end"]))
        bodies.append(("cases_C16_l%d" % k, HEADER + "Definition cases : list lcase := [\n" + ";\n".join(rows) +
                       "].\nDefinition MI := Eval vm_compute in map fst (mismatches_lex cases).\nPrint MI.\n"))
    mism = []
    for (name, _), (rc, out) in zip(bodies, coq_eval_many(bodies)):
        flat = " ".join(out.split())
        if rc != 0:
            chk.fail("correspondence shard %s did not evaluate: %s" % (name, out[-600:]),
                     {"correspondence": "Lex.Refill state machine vs simplexer.Lexer", "shard": name}, no_input=True)
            continue
        m = re.search(r"MI = \[([^\]]*)\]", flat)
        if m and m.group(1).strip():
            mism += [int(x.replace("%N", "")) for x in m.group(1).split(";")]
    for (ps, pat), o in zip(lcases, outs):
        chk.count(("l", tuple(ps), tuple(pat)), len(o["toks"]) > 1)
    return outs, mism


# ---------------------------------------------------------------------------
# (3) the direct oracle on the implementation
def variants_for(chk, i):
    vs = [{"chunk": c} for c in CHUNKS]
    if i % 5 == 0:
        vs.append({"chunk": [5, 1024, 2048][(i // 5) % 3], "eofdata": True})
    if i % 7 == 0:
        vs.append({"chunks": [chk.rng.randint(1, 3000) for _ in range(chk.rng.randint(2, 6))]})
    return vs


def vname(v):
    if "chunks" in v:
        return "chunks=%s" % v["chunks"]
    s = "whole reads" if v.get("chunk", 0) == 0 else "chunk=%d" % v["chunk"]
    return s + (" (last read returns data with EOF)" if v.get("eofdata") else "")


def load_repo_programs():
    files = sorted(glob.glob(REPO + "/native/*.pangaea") + glob.glob(REPO + "/example/*.pangaea"))
    progs = []
    for f in files:
        try:
            s = open(f, encoding="utf-8").read()
        except (OSError, UnicodeDecodeError):
            continue
        bp = break_positions(s)
        if bp:
            progs.append((os.path.relpath(f, REPO), s, bp))
    return progs


def e2e(chk):
    """returns (failures, stats); a failure is a dict with what/pieces/variant/..."""
    r = chk.rng
    reqs, meta = [], []
    # originals first
    # in the hand-written programs every "\n" is a line break of the grammar
    progs = [("base%02d" % i, s, [k for k, c in enumerate(s) if c == "\n"]) for i, s in enumerate(BASES)]
    repo_progs = load_repo_programs()
    allp = progs + repo_progs
    orig = harness("lexchunk", [{"src": s} for _, s, _ in allp], shards=NCPU)
    want = {}
    failures = []
    for (name, s, bp), o in zip(allp, orig):
        if o.get("ok"):
            want[name] = o["ast"]
        elif name.startswith("base"):
            # a base program itself does not parse on this tree: a concrete failing input
            # only if a chunked read of it differs, which the variants below decide; record it.
            failures.append({"kind": "base", "what": "base program %s does not parse: %s" % (name, o.get("err", "")[:200]),
                             "pieces": [[1, s]], "variant": {"chunk": 0}, "size": len(s), "klass": "C16:base-program"})
    small = list(range(1, 7))           # padding of 0..5 extra bytes
    around = sizes_around()
    sizes = small + around
    cnt = 0
    for name, s, bp in progs:
        if name not in want:
            continue
        for p in bp:
            for n in sizes:
                shapes = SHAPES if (chk.tier != "quick" and n in small) else [SHAPES[cnt % len(SHAPES)]]
                for sname, f in shapes:
                    ps = norm_pieces([(1, s[:p])] + f(n) + [(1, s[p + 1:])])
                    vs = variants_for(chk, cnt)
                    reqs.append({"pieces": json_pieces(ps), "variants": vs, "want": want[name]})
                    meta.append({"kind": "padding", "prog": name, "pos": p, "size": n, "shape": sname, "pieces": ps, "variants": vs})
                    cnt += 1
    # programs of the repository itself (native/, example/): sampled positions
    cand = [(name, s, p) for name, s, bp in repo_progs if name in want for p in bp]
    r.shuffle(cand)
    take = cand[:120] if chk.tier == "quick" else cand[:2500]
    for j, (name, s, p) in enumerate(take):
        for n in [small[j % len(small)], around[(j * 7) % len(around)], around[(j * 13 + 5) % len(around)]]:
            sname, f = SHAPES[cnt % len(SHAPES)]
            ps = norm_pieces([(1, s[:p])] + f(n) + [(1, s[p + 1:])])
            vs = [{"chunk": CHUNKS[(cnt + k) % len(CHUNKS)]} for k in (0, 3, 6)] + [{"chunk": 0}]
            reqs.append({"pieces": json_pieces(ps), "variants": vs, "want": want[name]})
            meta.append({"kind": "padding", "prog": name, "pos": p, "size": n, "shape": sname, "pieces": ps, "variants": vs})
            cnt += 1
    # the originals through every chunking (no padding at all)
    for name, s, bp in allp:
        if name in want:
            vs = [{"chunk": c} for c in CHUNKS] + [{"chunk": 5, "eofdata": True}]
            reqs.append({"pieces": [[1, s]], "variants": vs, "want": want[name]})
            meta.append({"kind": "chunking", "prog": name, "pos": -1, "size": len(s), "shape": "-", "pieces": [(1, s)], "variants": vs})
    # the inputs on which the defect of the original refill logic was first seen (DESIGN section 7, #16)
    corpus = [
        ("padding", "a file starting with 3 KB of comments", [(768, "# c\n"), (1, "x := 1\nx.p\n")], "(x := 1)\nx.p()", 3072),
        ("padding", "an object literal with a long comment block after `{`",
         [(1, "{\n"), (90, "  # a line of a long comment block ....\n"), (1, "  a: 1,\n}\n")], "{a: 1}", 3600),
        ("token", "string", [(1, 's := "'), (3000, "a"), (1, '"\n')], '(s := "%s")' % ("a" * 3000), 3000),
    ]
    # a multi-byte character placed at every offset around every power of two from 64 bytes to 64 KiB (sniffed heads, buffers, chunks)
    for base in (64, 128, 256, 512, 1024, 2048, 4096, 8192, 16384, 32768, 65536):
        for n in range(base - 12, base + 4):
            corpus.append(("token", "utf8 string after %d bytes of comment" % n,
                           [(1, "#"), (n - 2, "c"), (1, "\n"), (1, 'x := "日本語✓é"\n')], '(x := "日本語✓é")', n))
    for kind, what, ps, wanted, size in corpus:
        vs = [{"chunk": c} for c in CHUNKS]
        ps = norm_pieces(ps)
        reqs.append({"pieces": json_pieces(ps), "variants": vs, "want": wanted})
        meta.append({"kind": kind, "prog": what, "pos": 0, "size": size, "shape": what if kind == "padding" else "string",
                     "pieces": ps, "variants": vs})
    # long tokens
    lens = sorted(set(list(range(1, 33)) + [40, 50, 64, 100, 128, 200, 255, 256, 257, 400, 500, 512, 700, 900]
                      + list(range(1000, 1041)) + list(range(2030, 2061)) + list(range(3060, 3086)) + list(range(4085, 4111))
                      + list(range(1250, 5000, 250)) + [4999, 5000]))
    if chk.tier == "quick":
        lens = sorted(set([1, 2, 3, 5, 9, 17, 32, 64, 256, 512, 900, 1500, 2500, 3500, 4500, 5000]
                          + list(range(1000, 1041, 2)) + [1023, 1025] + list(range(2030, 2061, 2)) + [2047, 2049]
                          + list(range(3060, 3086, 3)) + [3071, 3072, 3073] + list(range(4085, 4111, 3)) + [4095, 4096, 4097]))
    # tokens far beyond every buffer size (the ~64 KiB scanner and pipe sizes)
    lens = sorted(set(lens + [65535, 65536, 65537, 70000] + ([] if chk.tier == "quick" else [131071, 131072, 131073, 200000])))
    for L in lens:
        for off in ((0, 700) if chk.tier == "quick" else (0, 333, 700, 1500)):
            pre = [(off // 4, "# p\n")] if off else []
            toks = [
                ("string", [(1, 's := "'), (L, "a"), (1, '"\ns.p\n')], '(s := "%s")\ns.p()' % ("a" * L)),
                ("string-mixed", [(1, 's := "'), (L, "b c"), (1, '"\n')], '(s := "%s")' % ("b c" * L)),
                ("raw-string", [(1, "r := `"), (L, "a"), (1, "`\nr.p\n")], "(r := `%s`)\nr.p()" % ("a" * L)),
                ("raw-string-lines", [(1, "r := `"), (L, "a\n"), (1, "`\n")], "(r := `%s`)" % ("a\n" * L)),
                ("raw-string-crlf", [(1, "r := `"), (L, "a\r\n"), (1, "`\n")], "(r := `%s`)" % ("a\r\n" * L)),
                ("comment", [(1, "x := 1 #"), (L, "c"), (1, "\nx.p\n")], "(x := 1)\nx.p()"),
                ("final-comment", [(1, "x := 1\nx.p #"), (L, "c")], "(x := 1)\nx.p()"),
                ("identifier", [(1, "k"), (L, "a"), (1, " := 1\n")], "(k%s := 1)" % ("a" * L)),
                ("identifier?", [(1, "x.k"), (L, "a9_"), (1, "?\n")], "x.k%s?()" % ("a9_" * L)),
                ("private-identifier", [(1, "x._"), (L, "a"), (1, "\n")], "x._%s()" % ("a" * L)),
                ("embedded-string", [(1, 's := "'), (L, "a"), (1, "#{1}"), (L, "b"), (1, '"\n')],
                 '(s := "%s#{ 1 }%s")' % ("a" * L, "b" * L)),
            ]
            if chk.tier == "quick" and off:
                toks = toks[:1] + toks[2:3] + toks[5:6] + toks[7:8]
            for kind, ps, wanted in toks:
                tlen = max(n * len(u) for n, u in ps if n == L)   # bytes of the repeated body of the token
                ps = norm_pieces(pre + ps)
                vs = [{"chunk": c} for c in CHUNKS]
                reqs.append({"pieces": json_pieces(ps), "variants": vs, "want": wanted})
                meta.append({"kind": "token", "prog": kind, "pos": off, "size": tlen, "shape": kind, "pieces": ps, "variants": vs})
    # seeded random tail: several breaks padded at once, any size, any schedule
    nrand = 400 if chk.tier == "quick" else 6000
    for _ in range(nrand):
        name, s, bp = progs[r.randrange(len(progs))]
        if name not in want or not bp:
            continue
        chosen = sorted(r.sample(bp, r.randint(1, min(3, len(bp)))))
        ps, last = [], 0
        tot = 0
        for p in chosen:
            n = r.choice([r.randint(1, 40), r.randint(1, 5000), r.choice(around) + r.randint(-3, 3)])
            tot += n
            ps += [(1, s[last:p])] + r.choice(SHAPES)[1](n)
            last = p + 1
        ps = norm_pieces(ps + [(1, s[last:])])
        vs = [{"chunks": [r.randint(1, 4100) for _ in range(r.randint(1, 8))]}, {"chunk": r.choice(CHUNKS)}, {"chunk": r.randint(1, 64)}]
        reqs.append({"pieces": json_pieces(ps), "variants": vs, "want": want[name]})
        meta.append({"kind": "padding", "prog": name, "pos": chosen[0], "size": tot, "shape": "random", "pieces": ps, "variants": vs})
    chk.note("implementation runs: %d texts, %d parses" % (len(reqs), sum(len(q["variants"]) for q in reqs)))
    outs = harness("lexchunk", reqs, shards=NCPU, timeout=3000)
    hist = {}
    for q, m, o in zip(reqs, meta, outs):
        key = m["kind"] if m["kind"] != "token" else "token:" + m["shape"]
        hist[key] = hist.get(key, 0) + len(q["variants"])
        for v, res in zip(q["variants"], o["results"]):
            chk.count((m["kind"], m["prog"], m["pos"], m["size"], m["shape"], vname(v)), m["size"] > 1)
            if res.get("same"):
                continue
            f = dict(m)
            f["variant"] = v
            f["got"] = res.get("ast") if res.get("ok") else "error: " + res.get("err", "")[:300]
            f["want"] = q["want"]
            failures.append(f)
    return failures, hist, len(want), len(repo_progs)


def classify(f):
    if f.get("klass"):
        return f["klass"]
    whole = f["variant"].get("chunk", 0) == 0 and "chunks" not in f["variant"]
    if f["kind"] == "chunking":
        return "C16:short-read"
    if f["kind"] == "token":
        return "C16:refill-truncation:long-token" if whole else "C16:refill-truncation:long-token+short-read"
    return "C16:refill-truncation:padding" if whole else "C16:refill-truncation:padding+short-read"


def describe(f):
    v = vname(f["variant"])
    if f["kind"] == "token":
        return ("a %s token with a body of %d bytes (preceded by %d bytes of comment lines), reader %s: result %s; expected ast %s"
                % (f["shape"], f["size"], f["pos"], v, f["got"][:120].replace("\n", "\\n"), f["want"][:60].replace("\n", "\\n")))
    if f["kind"] == "chunking":
        return "program %s unchanged, reader %s: result %s differs from the result with whole reads" % (
            f["prog"], v, f["got"][:160].replace("\n", "\\n"))
    return ("program %s, line break at offset %d replaced by %d bytes of padding (%s), reader %s: result %s; "
            "the original parses to %s" % (f["prog"], f["pos"], f["size"], f["shape"], v,
                                           f["got"][:140].replace("\n", "\\n"), f["want"][:60].replace("\n", "\\n")))


def main(chk):
    ok, broken = obligations(chk, "Props/C16.v")
    build_harness()
    dump = harness("dumpregex", [{"mode": "dump"}])[0]
    chk.cov["patterns"] = dump["patterns"]
    chk.cov["whitespace"] = dump.get("ws")
    chk.cov["token_table_size"] = len(dump["table"])
    missing = [n for n in ("RET", "MULTILINE_ADD_CHAIN", "MULTILINE_MAIN_CHAIN", "BACKQUOTE_STR", "HEAD_STR_PIECE",
                           "DOUBLEQUOTE_STR", "IDENT", "PRIVATE_IDENT") if n not in dump["patterns"]]
    want_order = ["BACKQUOTE_STR", "HEAD_STR_PIECE", "DOUBLEQUOTE_STR", "MULTILINE_ADD_CHAIN", "MULTILINE_MAIN_CHAIN",
                  "RET", "IDENT", "PRIVATE_IDENT"]
    table_changed = None
    if missing:
        table_changed = "token table no longer has the patterns %s" % missing
    elif dump["order"] != want_order:
        table_changed = "relative order of the modelled patterns changed: %s" % dump["order"]
    elif dump.get("ws") != [" ", "\t"]:
        table_changed = "whitespace type changed: %r" % (dump.get("ws"),)

    # ---- correspondence inside Coq
    mcases = matcher_cases(chk)
    lcases = lexer_cases(chk)
    chk.note("correspondence cases: %d matcher strings, %d lexer runs" % (len(mcases), len(lcases)))
    mouts, mmism = run_matcher_correspondence(chk, mcases)
    louts, lmism = run_lexer_correspondence(chk, lcases)
    chk.cov["matcher_mismatches"] = len(mmism)
    chk.cov["refill_model_mismatches"] = len(lmism)
    chk.note("matcher mismatches: %d, refill-model mismatches: %d" % (len(mmism), len(lmism)))

    # ---- the property on the implementation
    failures, hist, nprog, nrepo = e2e(chk)
    # sources handed to Str#eval in one process: layout INSIDE a raw string is text (not layout), also the second time a similar
    # source is evaluated
    raws = ["x\n\n  y", "x\n  y", "x\ny", "x\n\n\n\ny", "x\n \ty", "x\r\ny", " x\n\n", "x # c\n y"]
    eprog = "[" + ", ".join('"r := `%s`; r".eval' % r.replace("\\", "\\\\").replace("\n", "\\n").replace("\t", "\\t").replace("\r", "\\r") for r in raws) + "]"
    ewant = "[" + ", ".join('"%s"' % r for r in raws) + "]"
    eo = harness("eval", [{"src": eprog + ".{|a| a@{|s| s.len}}"}, {"src": "[" + ", ".join("`%s`" % r for r in raws) + "].{|a| a@{|s| s.len}}"}])
    chk.count(("eval-raw", eprog), True)
    # layout does not change what a program DOES either: a call wrapped over several lines, with any indentation, evaluates its
    # arguments and keyword arguments as the one-line form does
    lpre = "t := {|x| x.p; x}\nf := {|p, q, a: 0, b: 0, c: 0| [p, q, a, b, c]}\n"
    lforms = ["f(t(1), t(2), a: t(3), b: t(4), c: t(5)).p", "f(t(1), t(2),\n  a: t(3),\n  b: t(4),\n  c: t(5)).p", "f(t(1),\n        t(2),\n    a: t(3),\n  b: t(4),\nc: t(5)).p",
              "f(\n t(1),\n  t(2),\n   a: t(3),\n    b: t(4),\n     c: t(5)\n).p", "f(t(1), t(2), a: t(3),\nb: t(4), c: t(5)).p", "f(t(1), t(2), a: t(3), # note\n\n\n b: t(4),\n\t\tc: t(5)).p",
              "f(t(1), t(2),\n" + " " * 1200 + "a: t(3),\nb: t(4),\n" + "\t" * 40 + "c: t(5)).p"]
    lay_outs = harness("eval", [{"src": lpre + f_} for f_ in lforms])
    for f_, o in zip(lforms, lay_outs):
        chk.count(("layout-eval", f_), True)
        if (o["kind"], o.get("out")) != (lay_outs[0]["kind"], lay_outs[0].get("out")) or o.get("out") != "1\n2\n3\n4\n5\n[1, 2, 3, 4, 5]\n":
            chk.fail("the layout of a call changes what it does: `%s` prints %r, the one-line form prints %r" % (f_.replace("\n", "\\n")[:120], o.get("out"), lay_outs[0].get("out")),
                     {"harness": "eval", "program": lpre + f_, "got": {k: o.get(k) for k in ("kind", "out", "errk", "errmsg")}, "want": "1 2 3 4 5 [1, 2, 3, 4, 5]"},
                     klass="C16:layout-eval")
            break
    # a long token is taken with its FULL text: two names / str keys of one length that differ in a single character, at every
    # position, are two names (whatever is derived from a token — hash, table key — must depend on all of it)
    tprogs, tmeta = [], []
    for L in (33, 34, 41, 48, 64, 65, 100, 1024, 1025, 2049, 5000):
        base = "".join("nqz_"[i % 4] for i in range(L))
        for pos in (range(L) if L <= 100 else (0, 1, L // 2, L - 2, L - 1)):
            n1 = base[:pos] + "a" + base[pos + 1:]
            n2 = base[:pos] + "b" + base[pos + 1:]
            tprogs.append('%s := 1\n%s := 2\no := {%s: 3, %s: 4}\nm := %%{"%s": 5, "%s": 6}\n[%s, %s, o.%s, o.%s, m["%s"], m["%s"], o.keys(private?: true).len, m.len]'
                          % (n1, n2, n1, n2, n1, n2, n1, n2, n1, n2, n1, n2))
            tmeta.append((L, pos, n1, n2))
    # a long name is a name like any other (listed by keys, iterated, a symbol), a long str is a str like any other (repr / eval round trip)
    for L in (1023, 1024, 1025, 2048, 2049, 5000):
        nm = "".join("nqz_"[i % 4] for i in range(L))
        tprogs.append('o := {%s: 1, b: 2}\ns := "%s"\n[o.keys@len, o@{|k, v| v}, o.values, \'%s.sym?, s.sym?, s.repr.len, [s, 1].repr.len, s.repr.eval == s, [s].repr.eval[0] == s, s.len, %s := 5]'
                      % (nm, nm, nm, nm))
        tmeta.append((L, -1, "[[1, %d], [2, 1], [2, 1], true, true, %d, %d, true, true, %d, 5]" % (L, L + 2, L + 7, L), nm))
    touts = harness("eval", [{"src": t_} for t_ in tprogs], shards=NCPU)
    for prog, (L, pos, n1, n2), o in zip(tprogs, tmeta, touts):
        chk.count(("token-identity", L, pos), True)
        if pos == -1:
            if not (o["kind"] == "value" and o.get("repr") == n1):
                chk.fail("a name / str of %d characters is not treated like a short one: keys, iteration, values, sym?, repr length, repr/eval round trip, "
                         "length give %s, expected %s" % (L, (o.get("repr") or str((o.get("errk"), o.get("errmsg"))))[:200], n1),
                         {"harness": "eval", "program": prog[:300] + "…", "length": L, "got": {k: (o.get(k) or "")[:300] if isinstance(o.get(k), str) else o.get(k) for k in ("kind", "repr", "errk", "errmsg")},
                          "want": n1}, klass="C16:long-token-value")
                break
            continue
        if not (o["kind"] == "value" and o.get("repr") == "[1, 2, 3, 4, 5, 6, 2, 2]"):
            chk.fail("two tokens of %d characters that differ only in character %d are not kept apart: variables, properties and str keys "
                     "named `%s…` / `%s…` give %s, expected [1, 2, 3, 4, 5, 6, 2, 2]" % (L, pos, n1[:max(8, pos + 2)], n2[:max(8, pos + 2)],
                                                                                        o.get("repr") or (o.get("errk"), o.get("errmsg"))),
                     {"harness": "eval", "program": prog, "got": {k: o.get(k) for k in ("kind", "repr", "errk", "errmsg")},
                      "want": "[1, 2, 3, 4, 5, 6, 2, 2]"}, klass="C16:token-identity")
            break
    if eo[0]["kind"] != "value" or eo[0].get("repr") != eo[1].get("repr"):
        chk.fail("raw strings inside sources given to Str#eval one after the other do not keep their text: lengths %s, written directly %s" % (
            eo[0].get("repr") or (eo[0].get("errk"), eo[0].get("errmsg")), eo[1].get("repr")),
            {"harness": "eval", "program": eprog, "impl": {k: eo[0].get(k) for k in ("kind", "repr", "errk", "errmsg")}, "direct": eo[1].get("repr")}, klass="C16:eval-raw")
    hist["eval-raw"] = len(raws)
    chk.cov["input_distribution"] = hist
    chk.cov["rule"] = (
        "implementation: %d hand-written base programs x EVERY line break x padding of 0..5 extra bytes and of total size "
        "1020..1030, 2040..2056, 3066..3078, 4088..4104 (11 shapes rotated: newlines, spaces before/after, tabs, one long comment, "
        "comment lines, blank lines with blanks, CR LF, mixed, comment lines and a long comment whose text is `|`, `|@`, `#`, quotes) x reader chunk sizes 1,2,3,5,7,1023,1024,2047,2048,2049,4095,4096,4097,whole "
        "(+ last-read-with-EOF and random schedules on a fifth/seventh of the texts); sampled line breaks of native/*.pangaea and "
        "example/*.pangaea (%d files classified); every program unchanged through every chunking; tokens (string, raw string with, "
        "without and with CR LF line ends, comment, final comment, identifier, identifier?, private identifier, embedded string) of the lengths "
        "1..32, powers of two, 1000..1040, 2030..2060, 3060..3085, 4085..4110, every 250 up to 5000 (quick: about every second), 65535..65537, 70000 "
        "(thorough: also around 131072 and 200000) at two "
        "offsets x the %d chunkings; raw strings inside sources given to Str#eval one after the other; seeded random tail (1-3 breaks padded at once, sizes up to 5000, random schedules). "
        "Coq side: matcher strings (padding shapes x sizes x 15 followers, long-token shapes incl. unterminated/escaped, seeded fragment "
        "strings) and lexer runs (token sequences x schedules). non-trivial: padding/token larger than one byte, resp. a string on "
        "which some pattern matches, resp. a stream of more than one token; distinct by the full case key." % (len(BASES), nrepo, len(CHUNKS)))
    chk.cov["rule"] += " Also: a multi-byte character at every offset around every power of two from 64 bytes to 64 KiB; names / str keys of 33..5000 characters that differ in one character (every position up to 100 characters, five positions above), evaluated as variables, properties, map keys; names and strs of 1023..5000 characters listed by keys, iterated, symbols, repr / eval round trip; a call wrapped over several lines with any indentation does what the one-line form does."
    chk.cov["trusted_base"] += [
        "hand-written matchers coq/Lex/LayoutTok.v for RET, MULTILINE_ADD_CHAIN, MULTILINE_MAIN_CHAIN, BACKQUOTE_STR, HEAD_STR_PIECE, "
        "DOUBLEQUOTE_STR, IDENT, PRIVATE_IDENT, tied by vm_compute comparison with Go's regexp on the pattern text read from the "
        "running parser's token table (harness dumpregex, reflection on parser.NewLexer)",
        "hand-written model coq/Lex/Refill.v of third_party/simplexer/lexer.go (readBufIfNeed as repaired, skipWhitespace, Peek, Scan), "
        "tied by vm_compute comparison with simplexer.Lexer run on the reduced token table through a scripted io.Reader (harness lextoks)",
        "Go's regexp engine, io.ReadAll (request sizes abstract in the model), goyacc's yyParse: trusted, exercised by the end-to-end runs",
        "the other ~85 patterns of the token table and the grammar (where a line break is allowed) are not modelled: covered only by the "
        "end-to-end runs; `where the grammar allows a line break' is read as: where the original program has a line break outside "
        "string/char literals",
        "harness sub-commands lexchunk / lextoks / dumpregex (Go), Python generators and the line-break scanner of tools/c16.py"]
    chk.assumptions += [
        "the reader obeys the io.Reader contract (every Read returns at least one byte until the input ends) and the input is finite",
        "line breaks are taken where the original program has one (outside string and char literals); programs with embedded-string "
        "interpolation spanning constructs the scanner cannot classify are skipped for the repository files",
        "theorems speak about the eight modelled patterns in their table order; other patterns that come earlier in the real table "
        "(numbers, char literals, keywords before IDENT) are outside the model (keywords: C17)"]
    for i in (0, len(mcases) // 2, len(mcases) - 1):
        chk.sample({"matcher_case": text_of(mcases[i])[:60], "go_regexp_lengths": mouts[i]["m"]})
    for i in (0, len(lcases) - 1):
        chk.sample({"lexer_case": text_of(lcases[i][0])[:60], "schedule": lcases[i][1], "go_tokens": louts[i]["toks"][:8],
                    "end": louts[i]["end"], "reads": louts[i]["reads"]})

    # ---- decide
    if failures:
        byk = {}
        for f in failures:
            k = classify(f)
            cur = byk.get(k)
            key = (f["size"], len(text_of(f["pieces"])))
            if cur is None or key < cur[0]:
                byk[k] = (key, f)
        chk.cov["failing_variants"] = len(failures)
        chk.cov["failing_classes"] = {k: sum(1 for f in failures if classify(f) == k) for k in byk}
        for k in sorted(byk):
            f = byk[k][1]
            req = {"pieces": json_pieces(f["pieces"])}
            req.update(f["variant"])
            chk.fail(describe(f), {"harness": "lexchunk", "request": req, "want_ast": f["want"], "got": f["got"],
                                   "bytes": len(text_of(f["pieces"])),
                                   "theorem": "C16_buffered_equals_whole / C16_ret_absorbs_padding / C16_long_token_full_text_* "
                                              "instance contradicted by the implementation",
                                   "how": "build/panharness lexchunk <<< '<request as one JSON line>'"}, klass=k)
    if not failures:
        if table_changed:
            chk.fail("the token table differs from what Lex/LayoutTok.v models: " + table_changed,
                     {"correspondence": "token table", "detail": table_changed, "patterns": dump["patterns"]}, no_input=True)
        if mmism:
            i, k, mine = mmism[0]
            name = want_order[k]
            chk.fail("matcher for %s disagrees with Go's regexp %s on %r: model %s, regexp %s; no program found on which the property "
                     "itself fails" % (name, dump["patterns"].get(name), text_of(mcases[i])[:80], mine, mouts[i]["m"][k]),
                     {"correspondence": "Lex.LayoutTok.%s vs regexp" % name, "pattern": dump["patterns"].get(name),
                      "string_pieces": json_pieces(mcases[i]), "model": mine, "regexp": mouts[i]["m"][k],
                      "mismatches": len(mmism)}, no_input=True)
        if lmism:
            i = lmism[0]
            chk.fail("refill model disagrees with simplexer.Lexer on %r with schedule %s: implementation tokens %s end=%s; no program "
                     "found on which the property itself fails" % (text_of(lcases[i][0])[:80], lcases[i][1], louts[i]["toks"][:6],
                                                                   louts[i]["end"]),
                     {"correspondence": "Lex.Refill.tokens_buffered_spec vs simplexer.Lexer", "pieces": json_pieces(lcases[i][0]),
                      "schedule": lcases[i][1], "impl": louts[i], "mismatches": len(lmism)}, no_input=True)
        if not ok:
            chk.fail(broken, {"theorem_file": "coq/Props/C16.v", "detail": broken}, no_input=True)
    return chk.finish()
