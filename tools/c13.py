"""C13 — try/Either: proof obligations (Props/C13.v) + chains of k<=4 steps with a
failure of each kind injected at each step, run unwrapped and wrapped; every
accessor of the wrapped chain must report the unwrapped outcome."""
import itertools
from pv import *
import pancore

PRELUDE = '''f := {|x| "f".p; x + 100}
g := {|x| "g".p; raise ValueErr.new("fromg")}
'''

# (name, text appended to the receiver, fails?)  — int -> int steps
OK_STEPS = [
    ("op_add", ".+(3)"), ("op_mul", ".*(2)"), ("op_sub", ".-(1)"), ("op_floordiv", ".//(2)"),
    ("lit", '.{|x| "s".p; x + 1}'), ("lit2", '.{|x| "t".p; x * 3}'), ("var", ".^f"),
    ("prop_builtin", ".floor"), ("prop_native", ".clip(0, 1000)"),
]
BAD_STEPS = [
    ("zerodiv", ".//(0)", "ZeroDivisionErr"), ("zerodiv2", ".%(0)", "ZeroDivisionErr"),
    ("lit_raise", '.{|x| "r".p; raise Err.new("L" + x.S)}', "Err"),
    ("lit_value", '.{|x| ValueErr.new("lv")}', "ValueErr"),
    ("lit_name", ".{|x| nopename}", "NameErr"), ("lit_noprop", ".{|x| x.nopeprop}", "NoPropErr"),
    ("lit_type", ".{|x| [1] + x}", "TypeErr"), ("var_raise", ".^g", "ValueErr"),
    ("op_type", '.+("a")', "TypeErr"),
    ("lit_stop", ".{|x| <{|i| yield i if false}>.new(1).next}", "StopIterErr"),
    ("lit_assert", '.{|x| assertEq(x, "no")}', "AssertionErr"),
]
# the recorded finding: a non-callable / absent property through the proxy
PROXY_STEPS = [("noncallable_prop", "._name"), ("absent_prop", ".nopeprop")]

ACCESSORS = [
    ("A", ".A"), ("val", ".val"), ("err", ".err"), ("or", ".or(99)"), ("valp", ".val?"), ("errp", ".err?"),
    ("errmsg", ".err.{|e| e.msg if e != nil}"), ("errtype", ".err.{|e| e.type._name if e != nil}"),
    ("abandon", ".abandon"), ("end", ".end"),
]
KINDS = ["Err", "ValueErr", "ZeroDivisionErr", "NameErr", "NoPropErr", "TypeErr", "StopIterErr", "AssertionErr"]


def expected(acc, plain, kind_for_catch=None):
    """plain = impl result of the unwrapped chain; returns expected (kind, repr | (errk, errmsg))"""
    if plain["kind"] == "value":
        r = plain["repr"]
        return {"A": ("value", "[%s, nil]" % r), "val": ("value", r), "err": ("value", "nil"), "or": ("value", r),
                "valp": ("value", "false" if r == "nil" else "true"), "errp": ("value", "false"),
                "errmsg": ("value", "nil"), "errtype": ("value", "nil"), "abandon": ("value", r),
                "end": ("value", "[%s, nil]" % r)}[acc]
    k, m = plain["errk"], plain["errmsg"]
    w = "[%s: %s]" % (k, m)
    q = ('`%s`' % m.replace("`", "\\`")) if '"' in m else '"%s"' % m
    return {"A": ("value", "[nil, %s]" % w), "val": ("value", "nil"), "err": ("value", w), "or": ("value", "99"),
            "valp": ("value", "false"), "errp": ("value", "true"), "errmsg": ("value", q),
            "errtype": ("value", '"%s"' % k), "abandon": ("error", (k, m)), "end": ("value", "[nil, %s]" % w)}[acc]


# an Either kept in a variable is a value: extending it twice gives two independent results and leaves it as it was
REUSE = [
    ("e := 10.try\na := e.+(1)\nb := e.+(12)\n[a.val, b.val, e.val, e.A]", "[11, 22, 10, [10, nil]]"),
    ("e := 10.try.{|x| x * 2}\na := e.{|x| x + 1}\nb := e.{|x| x / 0}\n[a.val, b.err.type._name, e.val, a.val]", '[21, "ZeroDivisionErr", 20, 21]'),
    ("e := 1.try./(0)\na := e.+(1)\nb := e.or(5)\n[a.err.type._name, b, e.err.type._name, e.val]", '["ZeroDivisionErr", 5, "ZeroDivisionErr", nil]'),
    ("e := nil.try\n[e.val, e.err, e.err?, e.val?, e.A]", "[nil, nil, false, false, [nil, nil]]"),
    # a property-call step whose name the wrapped value does not have is a FAILED step (the kind of error is NoPropErr; only its
    # message is the recorded finding): err? is true, no value, `or` gives the default, later steps are skipped, abandon re-raises
    ("e := 1.try.nopeprop\n[e.err?, e.val?, e.val, e.or(9), e.err.kindOf?(NoPropErr)]", "[true, false, nil, 9, true]"),
    ("e := 1.try.nopeprop(2, k: 3)\n[e.err?, e.val, e.err.kindOf?(NoPropErr)]", "[true, nil, true]"),
    ('e := "abc".try.nosuch(1).{|x| "later".p; x}.{|x| "later2".p; x}\n[e.err?, e.err.kindOf?(NoPropErr), e.A[0]]', "[true, true, nil]"),
    ('e := "config".try.uc.trimm.len\n[e.err?, e.val, e.or(0), e.err.kindOf?(NoPropErr)]', "[true, nil, 0, true]"),
    ('e := "config".try.uc.len.nosuch\n[e.err?, e.val, e.err.kindOf?(NoPropErr)]', "[true, nil, true]"),
    ('step := {|| "abc".try.nosuchMethod(1, 2).abandon}\ne := "".try.{step()}\n[e.err?, e.err.kindOf?(NoPropErr)]', "[true, true]"),
    ('e := {a: 1}.try.b\n[e.err?, e.val]', "[true, nil]"),
    ('e := [1, 2].try.nosuch.len\n[e.err?, e.val, e.catch(NoPropErr) {|x| 7}.val]', "[true, nil, 7]"),
]


def gen(chk):
    chains = []  # (family, steps text)
    rng = chk.rng
    # systematic: failure of each kind at each position of a 3-step chain, and all-ok chains
    oks = OK_STEPS
    for bi, (bn, bt, bk) in enumerate(BAD_STEPS):
        for pos in range(3):
            steps = [oks[(bi + j) % len(oks)][1] for j in range(3)]
            steps[pos] = bt
            chains.append(("fail@%d/%s" % (pos, bn), "".join(steps)))
    for a, b in itertools.product(range(len(oks)), repeat=2):
        chains.append(("ok2", oks[a][1] + oks[b][1]))
    # a step that SUCCEEDS with an error object as its value (errors are plain data once captured)
    for st in ('.{|x| x.try./(0).err}', '.{|x| [x.try.nope.err]}.{|a| a[0]}', '.{|x| "q".try.{|s| raise ValueErr.new("v")}.A[1]}'):
        chains.append(("errvalue", st))
        chains.append(("errvalue", ".+(1)" + st))
    # a step that succeeds with an Either as its VALUE: it is wrapped like any other value (no flattening), the next step gets it
    # (only as the LAST step: a literal call on an Either is itself an fmap, so the plain chain is no reference beyond it)
    for st in ('.{|x| x.try.+(1)}', '.{|x| Either.newVal(x)}', '.+(1).{|x| x.try}', '.{|x| x.try./(0)}', '.{|x| [x.try]}.{|a| a[0].val}',
               '.{|x| [x.try.+(1)]}.{|a| a[0].A}'):
        chains.append(("eithervalue", st))
    # a step that succeeds with nil: still a success (err? false, err nil)
    for st in ('.{|x| nil}', '.+(1).{|x| nil}', '.{|x| nil}.{|y| y.nil?}'):
        chains.append(("nilvalue", st))
    # keyword arguments of a property-call step must reach the callee
    for start, st in (('"a,b,c"', '.split(sep: ",")'), ('"a b"', '.split(sep: " ").{|a| a.len}'), ('"ff"', '.I(base: 16)'),
                      ('"101"', '.I(base: 2).+(1)'), ('"abcdefgh"', '.truncate(5, end: "~")')):
        chains.append(("kwargs", st, start))
    # a property-call step by NAME: names that the value's prototype chain defines and the Either's own chain does not (built-in and
    # native props of arr / str / int) are forwarded to the value — a name added to the Either later would capture the step
    for start, st in (('[1, 2]', '.join(",")'), ('[1, 2]', '.len'), ('[1, 2]', '.rev'), ('[1, 2]', '.has?(2)'), ('"ab"', '.uc'), ('"AB"', '.lc'),
                      ('"ab"', '.len'), ('"12"', '.I'), ('"1.5"', '.F'), ('"ab"', '.sym?'), ('65', '.chr'), ('4', '.even?'), ('4', '.odd?'),
                      ('2', '.floor'), ('5', '.between?(0, 9)'), ('"a"', '.ord'), ('"abc"', '.rev'), ('3', '.sqrt'), ('3', '.-%'),
                      ('"x"', '.*(3)'), ('[1]', '.+([2])'), ('7', '.%(4)'), ('1', '.F'),
                      ('[1, 2]', '.join(",").len'), ('[1, 2]', '.rev.join("-").uc'), ('"a-b"', '.uc.lc.len'),
                      # every further built-in / native property name of arr, str, int, float, range, map that is forwarded on the unchanged tree
                      ('[3, 1, 2]', '.T'), ('[3, 1, 2]', '.grep'), ('[[7]]', '.unwrap'), ('"ab c"', '.camel'), ('"ab c"', '.camel?'), ('"ab c"', '.capital'),
                      ('"ab c"', '.dedent'), ('"ab c"', '.kebab'), ('"ab c"', '.kebab?'), ('"ab c"', '.lc?'), ('"ab c"', '.pascal'), ('"ab c"', '.pascal?'),
                      ('"ab c"', '.snake'), ('"ab c"', '.snake?'), ('"ab c"', '.split'), ('"ab c"', '.trim'), ('"ab c"', '.truncate'), ('"ab c"', '.uc?'),
                      ('6', '.prime?'), ('6', '.clip'), ('2.5', '.sqrt'), ('(1:4)', '.counter?'), ('(1:4)', '.dec?'), ('(1:4)', '.inc?'), ('(1:4)', '.start'),
                      ('(1:4)', '.step'), ('(1:4)', '.stop'), ('%{1: 2}', '.len')):
        chains.append(("named-step", st, start))
    # names that Obj itself defines (S, p, keys ...) answer for the Either, not for the wrapped value: recorded finding
    for st in ('.S(base: 2)', '.p(end: "!")', '.keys'):
        chains.append(("proxy/shadowed_prop", st))
    for pn, pt in PROXY_STEPS:
        chains.append(("proxy/" + pn, pt))
        chains.append(("proxy/" + pn, ".+(1)" + pt))
    n = 120 if chk.tier == "quick" else 2000
    for _ in range(n):
        k = rng.randint(1, 4)
        steps = []
        for _ in range(k):
            if rng.random() < 0.25:
                steps.append(rng.choice(BAD_STEPS)[1])
            else:
                steps.append(rng.choice(OK_STEPS)[1])
        chains.append(("random%d" % k, "".join(steps)))
    return chains


def main(chk):
    ok, broken = obligations(chk, "Props/C13.v")
    chains = gen(chk)
    starts = ["5", "-7"]
    cases = []  # (family, chain, acc or None, program)
    for ci, ch in enumerate(chains):
        fam, steps = ch[0], ch[1]
        st = ch[2] if len(ch) > 2 else starts[ci % 2]
        cases.append((fam, steps, None, "(%s)%s\n" % (st, steps)))
        for an, at in ACCESSORS:
            cases.append((fam, steps, an, "(%s).try%s%s\n" % (st, steps, at)))
        # catch / ignore with the matching and a non-matching type
        for K in (KINDS[ci % len(KINDS)], KINDS[(ci + 3) % len(KINDS)]):
            cases.append((fam, steps, "catch:" + K, "(%s).try%s.catch(%s) {|e| 7}.A\n" % (st, steps, K)))
            cases.append((fam, steps, "ignore:" + K, "(%s).try%s.ignore(%s).A\n" % (st, steps, K)))
    for prog, want in REUSE:
        cases.append(("reuse", prog, "reuse:" + want, prog + "\n"))
    progs = [c[3] for c in cases]
    res = pancore.run_programs(chk, progs, cmp_msg=True, prelude=PRELUDE)
    viol, model_only, hist = [], [], {}
    plain = None
    for (fam, steps, acc, prog), r in zip(cases, res):
        imp = r["impl"]
        f0 = fam.split("/")[0].split("@")[0]
        hist[f0] = hist.get(f0, 0) + 1
        chk.count(prog, True)
        if acc is None:
            plain = imp
            if r["verdict"] == "disagree":
                model_only.append(r)
            continue
        if acc.startswith("reuse:"):
            want = acc[6:]
            if not (imp["kind"] == "value" and imp.get("repr") == want and imp.get("out", "") == ""):
                viol.append(("hand-derived Either program (an Either used twice / a step naming an absent property): `%s` gives %s, expected %s" % (
                    prog.strip().replace("\n", "; "), imp.get("repr") or (imp.get("errk"), imp.get("errmsg")), want),
                    {"program": prog, "expected": want, "impl": {k: imp.get(k) for k in ("kind", "repr", "errk", "errmsg")}}, "C13:reuse"))
            elif r["verdict"] == "disagree":
                model_only.append(r)
            continue
        if plain["kind"] not in ("value", "error"):
            continue
        if acc.startswith("catch:") or acc.startswith("ignore:"):
            K = acc.split(":")[1]
            if plain["kind"] == "value":
                exp = ("value", "[%s, nil]" % plain["repr"])
            elif plain["errk"] == K:
                exp = ("value", "[7, nil]" if acc.startswith("catch") else "[nil, nil]")
            else:
                exp = ("value", "[nil, [%s: %s]]" % (plain["errk"], plain["errmsg"]))
        else:
            exp = expected(acc, plain)
        if exp[0] == "value":
            good = imp["kind"] == "value" and imp.get("repr") == exp[1]
        else:
            good = imp["kind"] == "error" and (imp.get("errk"), imp.get("errmsg")) == exp[1]
        good = good and imp.get("out") == plain.get("out")
        if not good:
            klass = "C13:try-proxy-" + fam.split("/")[1] if fam.startswith("proxy/") else "C13:" + acc.split(":")[0]
            viol.append(("`%s` reports %s (stdout %r) but the unwrapped chain `%s` gives %s (stdout %r): expected %s" % (
                prog.strip(), imp.get("repr") or (imp.get("errk"), imp.get("errmsg")), imp.get("out"), steps,
                plain.get("repr") or (plain.get("errk"), plain.get("errmsg")), plain.get("out"), exp),
                {"program": prog, "prelude": PRELUDE, "unwrapped": {k: plain.get(k) for k in ("kind", "repr", "errk", "errmsg", "out")},
                 "wrapped": {k: imp.get(k) for k in ("kind", "repr", "errk", "errmsg", "out")}, "expected": exp}, klass))
        elif r["verdict"] == "disagree":
            model_only.append(r)
    chk.cov["input_distribution"] = hist
    chk.cov["rule"] = ("chains of 1..4 steps over ints from {operator calls, built-in and native property calls, literal calls, variable "
                       "calls} with a failure of each of 8 error kinds injected at each position of a 3-step chain, all 2-step non-failing "
                       "chains, seeded random chains; each chain is run unwrapped and, wrapped with try, followed by each of A, val, err, or, "
                       "val?, err?, err.msg, err.type, abandon, end, catch/ignore with a matching and a non-matching type; steps that succeed with nil; an Either "
                       "kept in a variable and extended twice (hand-derived answers). Oracle: the accessor "
                       "must report the unwrapped outcome (value, or same error kind and message) and print exactly the unwrapped chain's "
                       "markers (steps after a failure are not called). Non-callable and absent properties through the proxy are the "
                       "recorded finding.")
    for i in (1, len(progs) // 2, len(progs) - 1):
        chk.sample({"program": progs[i], "impl": {k: res[i]["impl"].get(k) for k in ("kind", "repr", "errk", "errmsg", "out")},
                    "model_verdict": res[i]["verdict"]})
    chk.cov["rule"] += " Added after seeded round 5: steps naming an absent property (outcome independent of the recorded message finding), 54 built-in / native property names of arr / str / int / float / range / map as steps (those that the unchanged tree forwards to the value)."
    return pancore.conclude(chk, ok, broken, "Props/C13.v", res, viol, model_only, "C13",
                            "Core.Interp + native Wrappable/Either*.pangaea (from gen/World.v) vs props/either_*_props.go, evaluator/eval_proxyliteral.go")
