"""C03 — scoping and argument binding: proof obligations (Props/C03.v) + generated
nestings of function literals / call sites compared with PanCore, metamorphic
argument-binding laws checked on the implementation, and the repository's own
tests/*.pangaea scripts as a language-wide correspondence corpus."""
import itertools
from pv import *
import re
import pancore
import corpus

CLASSIC = [
    ("assign_local", 'x := 1\nf := {|| x := 2; x}\n[f(), x].p'),
    ("compound_local", 'x := 1\nf := {|| x += 10; x}\n[f(), x].p'),
    ("closure_sees_later_reassign", 'x := 1\nf := {|| x}\nx := 5\nf().p'),
    ("closure_not_caller", 'x := 1\nf := {|| x}\ng := {|| x := 99; f()}\ng().p'),
    ("recursion_safe", 'h := {|n| return 0 if n == 0; y := n; h(n - 1); y}\nh(3).p'),
    ("recursion_fact", 'fact := {|n| return 1 if n == 0; n * fact(n - 1)}\nfact(6).p'),
    ("mutual", 'ev := {|n| return true if n == 0; od(n - 1)}\nod := {|n| return false if n == 0; ev(n - 1)}\n[ev(4), od(4), ev(3)].p'),
    ("counter_closure", 'mk := {|n| {|| n := n + 1; n}}\nc := mk(5)\n[c(), c(), mk(1)()].p'),
    ("shadow_param", 'a := 1\nf := {|a| a := a + 1; a}\n[f(10), a].p'),
    ("inner_def_scope", 'f := {|a| g := {|b| a + b}; a := 100; g(1)}\nf(1).p'),
    ("sibling_reassign", 'x := 1\nmk := {|| {|| x}}\nc := mk()\nw := {|| x := 7; c()}\n[w(), c(), x].p'),
    ("method_receiver", 'o := {v: 7, m: {|self, x| [self.v, x]}}\no.m(1).p'),
    ("method_sugar", 'o := {v: 7, m: m{|x| [self.v, x]}}\no.m(2).p'),
    ("anon_chain", 'o := {v: 7}\n{|a| .v}(o).p'),
    ("anon_chain_method", '{|a| .m(3)}({m: {|self, x| x * 2}}).p'),
    ("anon_chain_undefined", '.v'),
    ("argvars", '{|a| [\\1, \\2, \\0, \\]}(1, 2, 3).p'),
    ("argvars_padding", '{|a, b, c| [\\1, \\2, \\3, \\0]}(1).p'),
    ("argvars_none", '{|| \\0}().p'),
    ("bare_argvar_undefined", '{|| \\}()'),
    ("kwargvars", '{|k: 1| [k, \\k, \\_]}(k: 5).p'),
    ("kwargvar_absent", '{|k: 1| \\k}()'),
    ("kw_default_eval_once", 'n := 0\nf := {|k: (n := n + 1)| k}\n[f(), f(), n].p'),
    ("kw_default_scope", 'd := 5\nf := {|k: d| k}\nd := 6\nf().p'),
    ("unknown_kw_ignored", '{|a, k: 1| [a, k, \\_]}(1, z: 9).p'),
    ("nested_depth4", 'a := 1\nf := {|| b := 2; {|| c := 3; {|| d := 4; {|| [a, b, c, d]}()}()}()}\nf().p'),
    ("assign_in_arg", 'x := 1\nf := {|a| a}\n[f(x := 5), x].p'),
    ("func_as_arg", 'ap := {|f, v| f(v)}\nx := 10\nap({|y| x + y}, 1).p'),
    ("return_func", 'add := {|a| {|b| a + b}}\n[add(1)(2), add(10)(2)].p'),
    ("call_non_callable", 'x := 5\nx(1)'),
    ("iter_scope", 'x := 1\nit := <{|i| yield i + x if i < 3; recur(i + 1)}>.new(0)\nx := 10\n[it.next, it.next].p'),
]

PARAMS_FN = '{|a, b, c, k1: 10, k2: 20| [a, b, c, k1, k2, \\0, \\_, \\_.keys, \\_.items, \\_@{|k, v| v}]}'


# programs with a known answer (oracle: the property's own rules, worked out by hand); also compared with PanCore
EXPECT = [
    ("argvars_beyond_9", "f := {[\\1, \\8, \\9, \\10, \\11, \\12, \\0.len]}\nf(1,2,3,4,5,6,7,8,9,10,11,12).p\nf(*((1:13).A)).p\n",
     "[1, 8, 9, 10, 11, 12, 12]\n[1, 8, 9, 10, 11, 12, 12]\n"),
    ("argvars_outer_11", 'h := {|a| {|| [\\9, \\10, \\11]}("a","b","c","d","e","f","g","h","i","j")}\nh(1,2,3,4,5,6,7,8,9,10,"outer11").p\n',
     '["i", "j", "outer11"]\n'),
    ("dstar_operands_unchanged", "show := {|x: 0, y: 0, z: 0| [x, y, z, \\_]}\na := {x: 1}\nb := {y: 2}\nc := {z: 3}\nshow(**a, **b, **c).p\n[a, b, c].p\nshow(**a).p\n"
     "f3 := {|p, q| [p, q, \\_]}\nf3(10, *[20], **a, **b).p\n[a, b].p\nshow(**b, **a).p\n[a, b].p\n",
     '[1, 2, 3, {"x": 1, "y": 2, "z": 3}]\n[{"x": 1}, {"y": 2}, {"z": 3}]\n[1, 0, 0, {"x": 1}]\n[10, 20, {"x": 1, "y": 2}]\n[{"x": 1}, {"y": 2}]\n'
     '[1, 2, 0, {"x": 1, "y": 2}]\n[{"x": 1}, {"y": 2}]\n'),
    ("explicit_nil_keyword_is_nil", "greet := {|n, to: \"P\"| [n, to, \\_]}\ngreet('T, to: nil).p\nx := nil\ngreet('T, to: x).p\ngreet('T, **{to: nil}).p\n",
     '["T", nil, {"to": nil}]\n["T", nil, {"to": nil}]\n["T", nil, {"to": nil}]\n'),
    ("parameterless_function_has_its_own_frame_per_call",
     "fib := {1 if \\1 < 2 else fib(\\1 - 1) + fib(\\1 - 2)}\nfib(10).p\nmk := {v := \\1; {|| v}}\na := mk(\"first\")\nb := mk(\"second\")\n[a(), b()].p\n"
     "g := {[\\1, \\2]}\ng(1, \"y\").p\n1.try.{|_| g(1)}.A.p\n",
     '89\n["first", "second"]\n[1, "y"]\n[nil, [NameErr: name `\\2` is not defined]]\n'),
    ("kept_scope_two_levels_sees_reassignment",
     "rate := 10\nmk := {|| {|| {|x| x * rate}}}\nf := mk()()\na := f(2)\nrate := 25\nb := f(2)\n[a, b].p\n", "[20, 50]\n"),
    ("kept_scope_in_method", "Shop := {new: m{|pct| .bear({pct: pct})}, tax: m{|x| g := {|| {|| x * .pct}}; g()()}}\ns := Shop.new(10)\n[s.tax(2), s.tax(3)].p\n", "[20, 30]\n"),
    ("iterator_without_recur_reads_outer", "lim := 1\nit := <{|| yield lim}>.new\nu := it.next\nlim := 2\n[u, it.next].p\n", "[1, 2]\n"),
    ("inner_assignment_is_local", "outer := {|k| inner := {|| {|| k}}; [inner()(), {|| k := k + 1; inner()()}(), inner()()]}\nouter(5).p\n", "[5, 5, 5]\n"),
    ("anon_chain_in_closure_of_method", "o := {v: 20, m: m{|| g := {|| .v}; g()}}\no.m.p\n", "20\n"),
    ("anon_chain_kwonly_closure", "w := {|x| {|k: 1| .v + k}(k: 10)}\nw({v: 20}).p\n", "30\n"),
    ("anon_chain_two_levels", "z := {|x| {|| {|| .v}()}()}\nz({v: 7}).p\n", "7\n"),
    ("anon_chain_own_argument", "{|x| {|y| .v}({v: 1})}({v: 2}).p\n", "1\n"),
    # keyword parameters and keywords whose names are private (leading underscore) bind like any other
    ("private_keyword_names", "_scale := 1000\nf := {|x, _scale: 10, unit: \"cm\"| [x * _scale, unit]}\n[f(2), f(2, _scale: 3), f(2, unit: \"mm\", _scale: 3)].p\n"
     "g := {|| [\\level, \\_verbose, \\_]}\ng(level: 1, _verbose: true).p\no := {m: m{|a, _k: 5| [a, _k]}}\n[o.m(1), o.m(1, _k: 2)].p\n",
     '[[20, "cm"], [6, "cm"], [6, "mm"]]\n[1, true, {"_verbose": true, "level": 1}]\n[[1, 5], [1, 2]]\n'),
    # a function literal keeps the `self` of the place where it was written, also when it is installed as a property of another object
    ("free_self_is_lexical", "counter := {name: \"counter\", reporter: m{ {|who| \"#{self.name} reports to #{who.name}\"} }}\n"
     "boss := {name: \"boss\", report: counter.reporter}\nboss.report.p\nboss['report](boss).p\nself := \"outer self\"\n"
     "holder := {name: \"holder\", show: {|x| self}}\nholder.show.p\nholder2 := {name: \"h2\", show: m{self.name}}\nholder2.show.p\n",
     "counter reports to boss\ncounter reports to boss\nouter self\nh2\n"),
    # `new` binds the arguments of the NEW iterator only (the receiver keeps its own), positional and keyword
    ("iter_new_binds_only_the_new_iterator", "counter := <{|n| yield n; recur(n + 1)}>\na := counter.new(1)\nx := [a.next, a.next]\nb := a.new(100)\n[x, b.next, a.next, a.next, b.next].p\n"
     "kw := <{|step: 1, from: 0| yield from; recur(step: step, from: from + step)}>\nc := kw.new(step: 2)\ny := [c.next, c.next]\nd := c.new(step: 10)\n[y, d.next, c.next, d.next, c.next].p\n",
     "[[1, 2], 100, 3, 4, 101]\n[[0, 2], 0, 4, 10, 6]\n"),
    # names are identified by their whole text: pairs with the same 32-bit FNV-1a hash are different variables, parameters and keys
    ("names_with_equal_short_hashes", "f := {|costarring, liquid| [costarring, liquid]}\nf(1, 2).p\ng := {|altarage| zinke := altarage * 10; [altarage, zinke]}\ng(1).p\n"
     "declinate := \"outer\"\nh := {|macallums| declinate}\nh(\"arg\").p\nk := {|a, b| [\\costarring, \\liquid]}\nk(costarring: 1, liquid: 2).p\n"
     "{costarring: 1, liquid: 2, altarage: 3, zinke: 4, declinate: 5, macallums: 6}.values.p\n%{\"costarring\": 1, \"liquid\": 2}.len.p\n",
     "[1, 2]\n[1, 10]\nouter\n[1, 2]\n[3, 1, 5, 2, 6, 4]\n2\n"),
    # a keyword argument never fills a positional parameter of the same name
    ("keyword_does_not_fill_positional", "f := {|a, b| [a, b]}\n[f(1), f(1, b: 2), f(b: 2), f(1, **{b: 3})].p\ng := {|name, opts| [name, opts, \\name]}\ng(name: \"kw\").p\n"
     "o := {show: m{|prefix| [prefix, \\0.len]}}\no.show(prefix: \">>\").p\nit := <{|i, lim| yield [i, lim] if i < 2; recur(i + 1, lim: 9)}>.new(0, lim: 5)\nit.A.p\n",
     '[[1, nil], [1, nil], [nil, nil], [1, nil]]\n[nil, nil, "kw"]\n[nil, 2]\n[[0, nil], [1, nil]]\n'),
    # an iterator literal written inside the body of another one has its OWN `recur`
    ("nested_iterators_have_their_own_recur", "table := <{|n|\n  row := <{|i| yield n * i; recur(i + 1)}>.new(1)\n  yield [n, row.next, row.next, row.next]\n  recur(n + 10)\n}>.new(1)\n"
     "[table.next, table.next, table.next].p\n", "[[1, 1, 2, 3], [11, 11, 22, 33], [21, 21, 42, 63]]\n"),
    # `new` without arguments binds like a call without arguments: missing parameters are nil, keyword parameters take their defaults
    ("iter_new_without_arguments", 'i := "outer i"\nstep := "outer step"\ngen := <{|i, step: 1| yield [i, step]}>\n[gen.new.next, gen.new(5).next].p\n'
     'mk := {|i| <{|i| yield [i]}>.new}\nmk("arg of mk").next.p\nit := <{|n| yield n; recur(n + 1)}>.new(1)\nit.next\nit.next\n'
     "[it.new.next, <{|a| yield [\\0, \\_]}>.new.next].p\n", "[[nil, 1], [5, 1]]\n[nil]\n[nil, [[nil], {}]]\n"),
    ("list_chain_builtin_three_args", '[(0:1), (0:2)]@new(10, 20, 5)@S.p\n[[1, 2], [3, 4]]@join("-").p\n["a", "b", "c"]@*(3).p\n',
     '["(10:20:5)", "(10:20:5)"]\n["1-2", "3-4"]\n["aaa", "bbb", "ccc"]\n'),
]
# every element of a list chain is called with the same arguments, whatever their number (1..8) and the chain context
for _n in range(1, 9):
    _ps = ", ".join("a%d" % i for i in range(1, _n + 1))
    _as = ", ".join(str(10 * i) for i in range(1, _n + 1))
    for _ch in ("@", "=@", "&@", "~@"):
        EXPECT.append(("list_chain_args_%d%s" % (_n, _ch),
                       "P := {f: {|self, %s| [self.n, %s]}}\n[P.bear({n: 1}), P.bear({n: 2}), P.bear({n: 3})]%sf(%s).p\n" % (_ps, _ps, _ch, _as),
                       "[%s]\n" % ", ".join("[%d, %s]" % (k, _as) for k in (1, 2, 3))))


# the same literal evaluated several times with different values of a free variable gives each time what the literal written
# out with that value gives (nothing of an earlier evaluation of the literal is remembered): templates with the free variable v
RELIT = [
    "{|k: v * 100| k}()", "{|a, k: v| [a, k]}(1)", "{|a, k: v, j: v + 1| [a, k, j]}(0, j: 9)", "{f: m{|k: v| k}}.f", "{|| v}()", "{|x| x + v}(10)",
    "<{|i, s: v| yield i * s if i < 3; recur(i + 1, s: s)}>.new(1).A", "<{|i| yield i + v if i < 2; recur(i + 1)}>.new(0).A",
    '[["id", v], ["t", v + 1]]', "[[v]]", "[v, [v, [v]]]", "{a: v}", "{a: {b: v}}", "%{v: v}", "%{[v]: v}", "(v:v + 3).A", "(1:v + 2)", "(v:nil:v)",
    "(1:10).A[-v:]", '"abcdef"[-v:]', "[1, 2, 3, 4, 5][:-v]", "[1, 2, 3, 4, 5][::-v]", "[1, 2, 3, 4, 5][-v]", '"s#{v}t#{v + 1}"', "`raw` + v.S",
    "-v", "!v", "[*[v, v]]", "{**{a: v}}", "v if v == 2 else -v", "v.try.+(1).val", "[1, 2]@{|x| x + v}", "[1, 2]$(v){|a, x| a + x}", "'sym.S + v.S",
    "{|a: v| {|b: a + 1| [a, b]}()}()", "{|| {|k: v| k}}()()", "1.try.{|_| {|k: 10 / (v - 2)| k}()}.A", "1.try.{|_| <{|i, s: 6 / (v - 2)| yield s}>.new(0).next}.A",
]


def relit_cases():
    out = []
    vals = [1, 2, 3, 1]
    for t in RELIT:
        direct = "[" + ", ".join("(" + re.sub(r"\bv\b", str(x), t) + ")" for x in vals) + "]"
        out.append(("relit/function", "F := {|v| %s}\nr := [F(1), F(2), F(3), F(1)]\nr" % t, direct))
        out.append(("relit/chain", "r := [1, 2, 3, 1]@{|v| [%s]}\nr=@{|e| e[0]}" % t, direct))
        out.append(("relit/method", "O := {f: m{|v| %s}}\nr := [O.f(1), O.f(2), O.f(3), O.f(1)]\nr" % t, direct))
    return out


def binding_cases():
    """every arity 0..5, every interleaving of <=2 keyword and <=3 positional arguments,
    `*` / `**` at every position — grouped so that members of a group must agree."""
    groups = []
    pos_vals = ["1", "2", "3", "4", "5"]
    for npos in range(0, 6):
        pos = pos_vals[:npos]
        for kws in ([], ["k1: 7"], ["k2: 8"], ["k1: 7", "k2: 8"], ["k2: 8", "k1: 7"], ["zz: 9"]):
            variants = set()
            items = [("p", p) for p in pos] + [("k", k) for k in kws]
            # all interleavings that keep positional order and keyword order
            n, m = len(pos), len(kws)
            for where in itertools.combinations(range(n + m), m):
                seq, pi, ki = [], 0, 0
                for idx in range(n + m):
                    if idx in where:
                        seq.append(kws[ki]); ki += 1
                    else:
                        seq.append(pos[pi]); pi += 1
                variants.add(", ".join(seq))
            # unpacking variants
            if npos >= 1:
                for cut in range(npos + 1):
                    for cut2 in range(cut, npos + 1):
                        if cut == cut2:
                            continue
                        seq = pos[:cut] + ["*[" + ", ".join(pos[cut:cut2]) + "]"] + pos[cut2:]
                        variants.add(", ".join(seq + kws))
            if kws and all(":" in k for k in kws):
                obj = "{" + ", ".join(kws) + "}"
                variants.add(", ".join(pos + ["**" + obj]))
                if len(kws) == 2:
                    variants.add(", ".join(pos + [kws[0], "**{" + kws[1] + "}"]))
            groups.append(sorted(variants))
    return groups


class ScopeGen:
    """random nestings of function literals with shadowing, closures and calls"""

    def __init__(self, rng):
        self.rng = rng

    def expr(self, vars_, fns, depth):
        r = self.rng
        c = r.random()
        if c < 0.3 or depth <= 0:
            return r.choice(vars_ + ["1", "2", "3"])
        if c < 0.55:
            return "%s + %s" % (self.expr(vars_, fns, depth - 1), self.expr(vars_, fns, depth - 1))
        if c < 0.85 and fns:
            f, ar = r.choice(fns)
            n = max(0, ar + r.choice([-1, 0, 0, 0, 1]))
            return "%s(%s)" % (f, ", ".join(self.expr(vars_, fns, depth - 1) for _ in range(n)))
        return "(%s := %s)" % (r.choice(["x", "y", "z"]), self.expr(vars_, fns, depth - 1))

    def body(self, vars_, fns, depth, nstmts):
        r = self.rng
        out = []
        fns = list(fns)
        vars_ = list(vars_)
        for _ in range(nstmts):
            c = r.random()
            if c < 0.3:
                v = r.choice(["x", "y", "z", "w"])
                op = r.choice([":=", ":=", "+="]) if v in vars_ else ":="
                out.append("%s %s %s" % (v, op, self.expr(vars_, fns, 2)))
                if v not in vars_:
                    vars_.append(v)
            elif c < 0.5 and depth > 0:
                name = r.choice(["f", "g", "h"]) + str(depth)
                params = r.sample(["a", "b", "x", "y"], r.randint(0, 2))
                inner = self.body(vars_ + params, fns, depth - 1, r.randint(1, 3))
                out.append("%s := {|%s| %s}" % (name, ", ".join(params), "; ".join(inner)))
                fns.append((name, len(params)))
            elif c < 0.8:
                out.append("[%s].p" % ", ".join(r.sample(vars_, min(len(vars_), r.randint(1, 3)))))
            else:
                out.append(self.expr(vars_, fns, 2) + ".p")
        out.append("[%s]" % ", ".join(vars_[:4]))
        return out


def main(chk):
    ok, broken = obligations(chk, "Props/C03.v")
    cases = []  # (family, program)
    for name, prog in CLASSIC:
        cases.append(("classic:" + name, prog + "\n"))
    expect_at = {}
    for name, prog, exp in EXPECT:
        expect_at[len(cases)] = exp
        cases.append(("expect:" + name, prog))
    relit_at = {}
    for fam_, prog, direct in relit_cases():
        relit_at[len(cases)] = len(cases) + 1
        cases.append((fam_, prog + "\n"))
        cases.append((fam_ + "/direct", direct + "\n"))
    groups = binding_cases()
    group_of = {}
    for gi, g in enumerate(groups):
        for v in g:
            prog = "f := %s\nf(%s).p\n" % (PARAMS_FN, v)
            group_of[len(cases)] = gi
            cases.append(("binding", prog))
    # method / receiver forms with the same argument lists
    for v in ["", "1", "1, 2", "1, k1: 3", "*[1, 2], k2: 4", "1, **{k1: 5}"]:
        cases.append(("method_binding", "o := {tag: 9, m: {|self, a, b, k1: 10, k2: 20| [self.tag, a, b, k1, k2, \\0, \\_, \\_.keys, \\_.values]}}\no.m(%s).p\n" % v))
    g = ScopeGen(chk.rng)
    n = 400 if chk.tier == "quick" else 12000
    for _ in range(n):
        stmts = ["x := 1", "y := 2"] + g.body(["x", "y"], [], chk.rng.randint(1, 3), chk.rng.randint(3, 7))
        cases.append(("scope_random", "\n".join(stmts) + "\n"))
    progs = [c[1] for c in cases]
    res = pancore.run_programs(chk, progs, cmp_msg=True)
    viol, model_only, fam = [], [], {}
    # metamorphic law on the implementation: every spelling of the same argument list binds alike
    by_group = {}
    for i, gi in group_of.items():
        by_group.setdefault(gi, []).append(i)
    for gi, idxs in by_group.items():
        outs = {(res[i]["impl"]["kind"], res[i]["impl"].get("out"), res[i]["impl"].get("errk")) for i in idxs}
        if len(outs) > 1:
            a = idxs[0]
            b = next(i for i in idxs if (res[i]["impl"]["kind"], res[i]["impl"].get("out"), res[i]["impl"].get("errk")) !=
                     (res[a]["impl"]["kind"], res[a]["impl"].get("out"), res[a]["impl"].get("errk")))
            viol.append(("two spellings of the same argument list bind differently: `%s` -> %r but `%s` -> %r" % (
                progs[a].split("\n")[1], res[a]["impl"].get("out"), progs[b].split("\n")[1], res[b]["impl"].get("out")),
                {"program_a": progs[a], "program_b": progs[b], "impl_a": res[a]["impl"], "impl_b": res[b]["impl"]}, "C03:binding-law"))
    for i, j in relit_at.items():
        a, b = res[i]["impl"], res[j]["impl"]
        if a["kind"] == "fuel" or b["kind"] == "fuel":
            continue
        if (a["kind"], a.get("repr"), a.get("errk")) != (b["kind"], b.get("repr"), b.get("errk")):
            viol.append(("a literal evaluated several times remembers an earlier evaluation (%s): `%s` gives %s, the literals written out give %s" % (
                cases[i][0], cases[i][1].strip().replace("\n", "; "), a.get("repr") or (a.get("errk"), a.get("errmsg")), b.get("repr") or (b.get("errk"), b.get("errmsg"))),
                {"program": cases[i][1], "written_out": cases[j][1], "impl": a, "impl_written_out": b}, "C03:relit"))
            break
    for i, exp in expect_at.items():
        imp = res[i]["impl"]
        if not (imp["kind"] == "value" and norm_err_msgs(imp.get("out")) == norm_err_msgs(exp)):
            viol.append(("binding rule violated (%s): expected output %r, implementation gave %r %s" % (
                cases[i][0], exp, imp.get("out"), (imp.get("errk"), imp.get("errmsg")) if imp["kind"] == "error" else ""),
                {"program": cases[i][1], "expected_out": exp, "impl": imp}, "C03:" + cases[i][0]))
    for (f, prog), r in zip(cases, res):
        fam[f.split(":")[0]] = fam.get(f.split(":")[0], 0) + 1
        chk.count(prog, True)
        if r["verdict"] == "disagree":
            imp = r["impl"]
            viol.append(("scoping/binding result differs from the reference evaluator (%s): model %s, implementation %s" % (
                f, r.get("model"), {k: imp.get(k) for k in ("kind", "repr", "errk", "errmsg", "out")}),
                {"program": prog, "model": r.get("model"), "impl": imp, "family": f}, "C03:" + f.split(":")[0]))
    # language-wide corpus: the repository's own scripts
    cres = corpus.run_corpus(chk, tag="C03corpus")
    chist = pancore.summarize(chk, cres)
    chk.cov["corpus_tests_pangaea"] = chist
    for r in cres:
        chk.count(r["file"], r["verdict"] == "agree")
        if r["verdict"] == "disagree":
            viol.append(("tests/%s: PanCore and the implementation disagree" % r["file"],
                         {"file": r["file"], "model": r.get("model"), "impl": {k: r["impl"].get(k) for k in ("kind", "repr", "errk", "errmsg", "out")}},
                         "C03:corpus"))
    chk.cov["input_distribution"] = fam
    chk.cov["binding_groups"] = len(groups)
    chk.cov["rule"] = ("%d literal templates with a free variable evaluated 4 times through a function, a chain and a method vs the literals written out (nothing of "
                       "an earlier evaluation of a literal may be remembered: keyword defaults, nested literals, ranges with computed bounds, interpolations); "
                       "%d programs with hand-derived answers (argvars beyond \\9, `**` operands left unchanged and reusable, receiver-less chains in "
                       "closures without positional arguments); 31 classic scoping programs (shadowing, closures over later reassignment, caller vs definition scope, recursion, "
                       "mutual recursion, counters, argvars, kwargvars, defaults, method receiver, anonymous chain); every arity 0..5 x keyword "
                       "sets x ALL interleavings of keyword and positional arguments x `*` at every cut x `**` (grouped: all spellings of one "
                       "argument list must bind alike - checked on the implementation - and equal PanCore); method calls; seeded random "
                       "nestings of function literals (depth<=3) with assignments, compound assignments, inner definitions, calls with arity "
                       "mismatch; plus the repository's tests/*.pangaea corpus. All compared on stdout, value, error kind+message." % (len(RELIT), len(EXPECT)))
    for i in (0, len(CLASSIC) + 5, len(progs) - 1):
        chk.sample({"program": progs[i], "impl": {k: res[i]["impl"].get(k) for k in ("kind", "repr", "errk", "out")},
                    "model_verdict": res[i]["verdict"]})
    chk.cov["rule"] += " Added after seeded round 5: keyword parameters / keyword variables with private names, a closure with a free `self` installed on another object, list chains whose property call has 1..8 arguments in the four list contexts."
    chk.cov["rule"] += " Added after seeded round 6: `new` on a started iterator binds only the new one, names with equal 32-bit hashes, a keyword never fills a positional parameter."
    # functions of an imported module never see the scope of the function that imports or calls them (files: harness runtest)
    mdir = os.path.join(BUILD, "c03_modules_%d" % os.getpid())
    mfiles = [["main.pangaea", 'prefix := "top"\nf := import("./lib")[\'label]\nassertEq(f(1), "top: 1")\n'
               'run := {|prefix|\n  sep := " / "\n  g := import("./lib")[\'label]\n  g(2)\n}\nassertEq(run("local"), "top: 2")\n'
               'assertEq({|prefix| import("./lib")}("inner")[\'label](3), "top: 3")\n"modules done".p\n'],
              ["lib.pangaea", 'sep := ": "\nlabel := {|x| prefix + sep + x.S}\n']]
    mo = harness("runtest", [{"files": mfiles, "dir": mdir, "mode": "file"}])[0]
    chk.count(("module-scope", "runtest"), True)
    if not (mo["code"] == 0 and "modules done" in mo["out"]):
        viol.append(("a function of an imported module sees the scope of the function that imported it: exit %s, stderr %r" % (mo["code"], mo["err"][:300]),
                     {"harness": "runtest", "files": mfiles, "got": mo, "want": "exit 0"}, "C03:module-scope"))

    chk.cov["rule"] += " Added after seeded round 7: an iterator literal nested in another one, `new` without arguments, functions of an imported module called from inside functions (files, harness runtest in file mode)."
    return pancore.conclude(chk, ok, broken, "Props/C03.v", res, viol, model_only, "C03",
                            "Core.Interp vs evaluator/{eval_funccall,eval_func,eval_assign,eval_ident,eval_args,eval_kwargs}.go, object/env.go")
