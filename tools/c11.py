"""C11 — indexing and slicing: proof obligations (Props/C11.v) + correspondence of
Slice/SliceModel.v with evaluator/index.go (Arr#at / Str#at called directly and through
`s[a:b:c]` source) on every (length, start, stop, step) of a window, for arrays, ASCII
and multi-byte strings.  Python's own list[slice] is the direct oracle of the property."""
from pv import *

MIN, MAX = -2 ** 63, 2 ** 63 - 1
EXTREMES = [2 ** 62, -2 ** 62, MAX, -MAX, MIN]
SRC_LIMIT = 10 ** 6

# one alphabet per sequence kind; a sequence of length n is its first n items
ALPHABETS = [
    ("arr", "arr", list(range(10, 10 + 64))),
    ("ascii", "str", "abcdefghijklmnopqrstuvwxyzABCDEFGHIJKLMNOPQRSTUVWXYZ0123456789-_"),
    ("utf8-2byte", "str", "éüñöäåçø" * 8),
    ("utf8-3byte", "str", "あいうえおかき€" * 8),
    ("utf8-4byte", "str", "\U0001F600\U0001F601\U0001F602\U0001D11E\U0001F604\U00020000\U0001F606\U0001F607" * 8),
    ("utf8-mixed", "str", "aé\U0001F600あb€\U0001D11Ez" * 8),
]

PRIORITY = ["C11:neg-step-clamp", "C11:panic-strRange", "C11:step-overflow", "C11:zero-step",
            "C11:pos-step-clamp", "C11:index", "C11:direct-vs-source"]


def seq_of(alpha, n):
    return alpha[:n]


def as_list(kind, seq):
    return list(seq) if kind == "arr" else [ord(c) for c in seq]


def oracle(items, sel):
    """What the property demands (Python's indexing / slicing on the list of items)."""
    if sel[0] == "idx":
        i, n = sel[1], len(items)
        return [items[i]] if -n <= i < n else "nil"
    _, a, b, c = sel
    if c == 0:
        return "e:ValueErr"
    return items[slice(a, b, c)]


def gen_cases(chk):
    """cases: (alphabet name, kind, seq, sel).  The systematic part (seed independent) comes first; its
    ranges are laid out in groups (base, kind, seq, start) covering stop x step over vals, stop outermost,
    which the Coq side enumerates by itself.  explicit: indexes of the cases spelled out row by row."""
    N = 4 if chk.tier == "quick" else 7
    window = list(range(-N - 2, N + 3))
    vals = window + [None] + EXTREMES
    cases, groups, seen = [], [], set()
    # the defects of the unrepaired tree, kept as a corpus that runs first
    cases += [("arr", "arr", [1, 2, 3], ("rng", 10, None, -1)), ("arr", "arr", [1, 2, 3], ("rng", None, -5, -1)),
              ("ascii", "str", "abc", ("rng", None, None, 0)), ("ascii", "str", "abc", ("rng", 10, None, -1)),
              ("arr", "arr", [1, 2, 3], ("rng", 1, None, MAX)), ("arr", "arr", [1, 2, 3], ("rng", None, None, 0)),
              ("utf8-mixed", "str", "a\u00e9\U0001F600\u3042", ("rng", None, -9, -2))]
    for name, kind, alpha in ALPHABETS:
        for n in range(0, N + 1):
            seq = seq_of(alpha, n)
            key = (kind, tuple(as_list(kind, seq)))
            if key in seen:      # the empty string of every alphabet
                continue
            seen.add(key)
            for i in list(range(-N - 3, N + 4)) + EXTREMES:
                cases.append((name, kind, seq, ("idx", i)))
    explicit = list(range(len(cases)))
    seen = set()
    for name, kind, alpha in ALPHABETS:
        for n in range(0, N + 1):
            seq = seq_of(alpha, n)
            key = (kind, tuple(as_list(kind, seq)))
            if key in seen:
                continue
            seen.add(key)
            for a in vals:
                groups.append((len(cases), kind, seq, a))
                for b in vals:
                    for c in vals:
                        cases.append((name, kind, seq, ("rng", a, b, c)))
    nsys = len(cases)
    # random tail: longer sequences, bounds near the ends, random 64-bit bounds and steps
    r = chk.rng
    ntail = 6000 if chk.tier == "quick" else 60000
    for _ in range(ntail):
        name, kind, alpha = r.choice(ALPHABETS)
        n = r.randint(0, 40)
        seq = seq_of(alpha, n)

        def draw():
            k = r.random()
            if k < 0.15:
                return None
            if k < 0.65:
                return r.randint(-n - 3, n + 3)
            if k < 0.8:
                return r.choice(EXTREMES + [0, 1, -1, n, -n, n + 1, -n - 1])
            bits = r.randint(1, 63)
            return r.randint(-(2 ** bits), 2 ** bits - 1)
        if r.random() < 0.1:
            v = draw()
            cases.append((name, kind, seq, ("idx", r.randint(MIN, MAX) if v is None else v)))
        else:
            cases.append((name, kind, seq, ("rng", draw(), draw(), draw())))
    explicit += list(range(nsys, len(cases)))
    return N, vals, nsys, cases, groups, explicit


def request(kind, seq, sel, src):
    q = {"kind": kind, "seq": seq}
    if sel[0] == "idx":
        q["idx"] = str(sel[1])
    else:
        for k, v in zip(("start", "stop", "step"), sel[1:]):
            q[k] = None if v is None else str(v)
    if src:
        q["src"] = True
    return q


def small(sel):
    return all(v is None or abs(v) <= SRC_LIMIT for v in sel[1:])


def source_text(kind, seq, sel):
    recv = "[" + ", ".join(str(x) for x in seq) + "]" if kind == "arr" else '"' + seq + '"'
    if sel[0] == "idx":
        return "%s[%d]" % (recv, sel[1])
    a, b, c = ["" if v is None else str(v) for v in sel[1:]]
    return "%s[%s:%s%s]" % (recv, a, b, (":" + c) if c else "")


def go2z(go):
    if isinstance(go, list):
        if all(x is None or isinstance(x, int) for x in go):
            return [0] + [(-1 if x is None else x) for x in go]
        return [5]
    if go == "nil":
        return [1]
    if go == "e:ValueErr":
        return [2]
    if isinstance(go, str) and go.startswith("p:"):
        return [3]
    return [5]


def coq_opt(v):
    return "N" if v is None else "(S %s)" % zlit(v)


def coq_sel(sel):
    if sel[0] == "idx":
        return "(SIdx %s)" % zlit(sel[1])
    return "(R %s %s %s)" % tuple(coq_opt(v) for v in sel[1:])


def show_model(z):
    if not z:
        return "?"
    return {0: lambda: "value %s" % [None if x == -1 else x for x in z[1:]], 1: lambda: "nil", 2: lambda: "ValueErr",
            3: lambda: "Panic", 4: lambda: "OutOfFuel"}.get(z[0], lambda: str(z))()


def main(chk):
    ok, broken = obligations(chk, "Props/C11.v")
    N, vals, nsys, cases, groups, explicit = gen_cases(chk)
    chk.note("cases:", len(cases), "(systematic %d, N=%d)" % (nsys, N))
    nsrc = 6 if chk.tier == "quick" else 3
    # (i // NCPU + i): harness() deals the requests round-robin, keep the slow source path spread over all shards
    reqs = [request(kind, seq, sel, src=((i // NCPU + i) % nsrc == 0 and small(sel)))
            for i, (name, kind, seq, sel) in enumerate(cases)]
    genv = dict(os.environ, GOMAXPROCS="2")
    outs = harness("slice", reqs, shards=NCPU, timeout=1800, env=genv)
    chk.note("harness done")
    # 1. the direct oracle of the property against the implementation
    hist, failing = {}, []        # failing: (case index, via, got, want)
    for i, ((name, kind, seq, sel), o) in enumerate(zip(cases, outs)):
        items = as_list(kind, seq)
        want = oracle(items, sel)
        hk = "%s/%s" % (name, "index" if sel[0] == "idx" else
                        "zero-step" if sel[3] == 0 else "step>0" if (sel[3] is None or sel[3] > 0) else "step<0")
        hist[hk] = hist.get(hk, 0) + 1
        chk.count((kind, seq if kind == "str" else tuple(seq), sel),
                  len(items) >= 2 and (sel[0] == "idx" or sel[1:] != (None, None, None)))
        for via in ("r", "s"):
            if via in o and o[via] != want:
                failing.append((i, "direct call of %s#at" % ("Arr" if kind == "arr" else "Str") if via == "r" else "source", o[via], want))
                break
        else:
            if "s" in o and o["r"] != o["s"]:
                failing.append((i, "direct-vs-source", [o["r"], o["s"]], want))
    # 2. correspondence with the Coq model (vm_compute inside Coq)
    table, tindex = [], {}

    def qref(kind, seq):
        items = tuple(as_list(kind, seq))
        if items not in tindex:
            tindex[items] = len(table)
            table.append(items)
        return "(q %d)" % tindex[items]

    def zl(go):
        return "[" + ";".join(zlit(z) for z in go2z(go)) + "]"
    units = []      # (weight, "row" | "group", text)
    for i in explicit:
        (name, kind, seq, sel), o = cases[i], outs[i]
        units.append((1, "row", "(%d,%s,%s,%s,%s)" % (i, "true" if kind == "str" else "false", qref(kind, seq), coq_sel(sel), zl(o["r"]))))
    per = len(vals) ** 2
    for base, kind, seq, a in groups:
        units.append((per // 3, "group", "(%d,%s,%s,%s,[\n%s])" % (base, "true" if kind == "str" else "false", qref(kind, seq), coq_opt(a),
                                                             ";".join(zl(outs[base + j]["r"]) for j in range(per)))))
    header = ("From Coq Require Import ZArith List.\nImport ListNotations.\n"
              "From PanVerif Require Import Slice.SliceModel.\nOpen Scope Z_scope.\n"
              "Definition S := @Some Z.\nDefinition N := @None Z.\n"
              "Definition R (a b c : option Z) := SRange (mkRange a b c).\n"
              "Definition vals : list (option Z) := [" + ";".join(coq_opt(v) for v in vals) + "].\n"
              "Definition seqs : list (list Z) := [\n" +
              ";\n".join("[" + ";".join(str(z) for z in t) + "]" for t in table) + "].\n"
              "Definition q (k : nat) : list Z := nth k seqs [].\n")
    # balance the shards by weight (a group costs about a third of a row per case)
    bins = [[0, [], []] for _ in range(NCPU)]
    for w, what, text in sorted(units, key=lambda u: -u[0]):
        b = min(bins, key=lambda x: x[0])
        b[0] += w
        b[1 if what == "row" else 2].append(text)
    bodies = []
    for k, (_, rows, grps) in enumerate(bins):
        bodies.append(("cases_C11_%d" % k, header + "Definition cases : list scase := [\n" + ";\n".join(rows) +
                       "].\nDefinition groups : list gcase := [\n" + ";\n".join(grps) +
                       "].\nDefinition M := Eval vm_compute in mismatches cases ++ group_mismatches vals groups.\nPrint M.\n"))
    results = coq_eval_many(bodies)
    chk.note("model evaluated in Coq")
    mism = []
    for (bname, _), (rc, out) in zip(bodies, results):
        flat = " ".join(out.split())
        if rc != 0 or "M = " not in flat:
            chk.fail("correspondence shard %s did not evaluate: %s" % (bname, out[-600:]),
                     {"correspondence": "Slice.SliceModel vs evaluator/index.go", "shard": bname}, no_input=True)
            continue
        for m in re.finditer(r"\((\d+),\s*\[([^\]]*)\]\)", flat):
            mism.append((int(m.group(1)), [int(x) for x in m.group(2).split(";") if x.strip()]))
    chk.cov["model_mismatches"] = len(mism)
    chk.cov["input_distribution"] = hist
    chk.cov["exhaustive_part"] = ("lengths 0..%d x start,stop,step in [-%d,%d] + {nil, +-2^62, +-(2^63-1), -2^63} (step incl. 0) "
                             "x {array, ASCII, 2-, 3-, 4-byte, mixed-width strings}; single indexes [-%d,%d] + the same extremes"
                             % (N, N + 2, N + 2, N + 3, N + 3))
    chk.cov["rule"] = ("every (sequence, index-or-range) is answered by Arr#at / Str#at called directly with PanInt / PanRange / PanNil "
                       "objects; every %dth case with bounds within +-10^6 additionally through parsed source `s[a:b:c]`. Each answer is "
                       "compared with (a) Python's own list[slice] / list[i] on the list of elements or code points (the property's oracle) "
                       "and (b) the Coq model evaluated by vm_compute. Seeded random tail: lengths 0..40, bounds near the ends and random "
                       "64-bit values; a range held in a variable used on a short then a long sequence; a sequence held in a variable sliced and then indexed / "
                       "sliced again vs fresh literals; functions slicing with computed negative bounds called several times. non-trivial: length >= 2 and not the all-nil range; distinct by (sequence, index-or-range)." % nsrc)
    for i in (0, 1, len(cases) // 3, len(cases) // 2, nsys - 1, len(cases) - 1):
        (name, kind, seq, sel), o = cases[i], outs[i]
        chk.sample({"source": source_text(kind, seq, sel), "impl_direct": o["r"], "impl_source": o.get("s"),
                    "oracle": oracle(as_list(kind, seq), sel)})
    chk.cov["trusted_base"] += [
        "hand-written model coq/Slice/SliceModel.v of evaluator/index.go (arrIndex, strIndex, arrRange, strRange, valRange, fixRange), tied by vm_compute correspondence on every case",
        "harness sub-command slice (Go); Go's []rune(string) UTF-8 decoding (strings enter the model as code-point lists)",
        "Python list[slice] semantics, used only to decide whether a disagreement is a failing input of the property"]
    chk.assumptions += ["receivers are Arr / Str values, the index is an Int or a range whose parts are Int or nil (other part types give [] and are outside C11)",
                        "len(s) < 2^62 (the proofs need in64 (2*len+2); Go cannot allocate more)",
                        "Int#at (bit indexing through the same valRange) is not part of C11"]
    # 3. a range held in a variable and used twice selects what a fresh range selects (and is itself unchanged)
    def rsrc(a, b, c):
        f = lambda v: "nil" if v is None else ("(%d)" % v if v < 0 else "%d" % v)
        return "(%s:%s:%s)" % (f(a), f(b), f(c)) if c is not None else "(%s:%s)" % (f(a), f(b))
    short_long = [("[1, 2, 3]", list(range(12)), "arr"), ('"ab"', "abcdefghijklmnop", "str"), ("[]", [7, 8, 9, 10, 11], "arr"),
                  ('""', "xyz", "str"), ("[0, 1, 2, 3, 4, 5, 6, 7, 8, 9, 10, 11]", [1, 2], "arr")]
    reuse, rmeta = [], []
    for a, b, c in [(None, None, 5), (None, None, -7), (None, None, 2), (1, None, 4), (None, 9, 3), (-1, None, -3), (2, 30, 6), (None, None, None),
                    (10, None, -1), (None, -20, -2), (0, 100, 1), (None, None, 11), (None, None, -12)]:
        for first, second, kind in short_long:
            sec = ("[" + ", ".join(str(v) for v in second) + "]") if kind == "arr" else '"%s"' % second
            want = oracle(list(second), ("rng", a, b, c))
            want = ('"%s"' % "".join(want)) if kind == "str" else ("[" + ", ".join(str(v) for v in want) + "]")
            reuse.append("r := %s\nx := %s[r]\ny := %s[r]\n[y, r == %s]" % (rsrc(a, b, c), first, sec, rsrc(a, b, c)))
            rmeta.append((a, b, c, first, sec, "[%s, true]" % want))
    routs = harness("eval", [{"src": p_} for p_ in reuse], shards=NCPU)
    for prog, (a, b, c, first, sec, want), r in zip(reuse, rmeta, routs):
        chk.count(("reuse", prog), True)
        if not (r["kind"] == "value" and r.get("repr") == want):
            failing.append((-1, "a range used twice (first on %s, then on %s)" % (first, sec), r.get("repr") or (r.get("errk"), r.get("errmsg")), want))
            reuse_fail = {"program": prog, "expected": want, "impl": {k: r.get(k) for k in ("kind", "repr", "errk", "errmsg")}}
            chk.fail("a range held in a variable does not select the same elements the second time: `%s` gives %s, expected %s" % (
                prog.replace("\n", "; "), r.get("repr") or (r.get("errk"), r.get("errmsg")), want), reuse_fail, klass="C11:range-reuse")
            break
    # 4. a SEQUENCE held in a variable is not changed by slicing it (whatever a slice caches): later indexes and slices of the same
    #    variable give what they give on a fresh literal; a function that slices with a computed bound is called several times
    seqs = ['"abcde"', '"a\u00e9\u3042z"', "[1, 2, 3, 4, 5]", '"ab"']
    firsts = ["[::-1]", "[::2]", "[1:]", "[-2:]", "[::-2]", "[0]", "[-1]", "[1:3]"]
    seconds = ["[0]", "[1:3]", "[::-1]", "[-1]", "[::2]", "[:]"]
    sprogs, smeta = [], []
    for sq in seqs:
        for f1 in firsts:
            after = "s := %s\nx := s%s\n[%s, s]" % (sq, f1, ", ".join("s" + g for g in seconds))
            fresh = "[%s, %s]" % (", ".join("(%s)%s" % (sq, g) for g in seconds), sq)
            sprogs += [after, fresh]
            smeta.append((sq, f1))
    sprogs.append('tail := {|s, n| s[-n:]}\nhead := {|s, n| s[:-n]}\nrev := {|s, k| s[::-k]}\n'
                  '[tail("abcdef", 1), tail("abcdef", 3), tail("abcdef", 2), tail([1, 2, 3, 4], 3), tail([1, 2, 3, 4], 1), head("abcdef", 2), head("abcdef", 4), rev("abcdef", 1), rev("abcdef", 2), rev("abcdef", 1)]')
    sprogs.append('["abcdef"[-1:], "abcdef"[-3:], "abcdef"[-2:], [1, 2, 3, 4][-3:], [1, 2, 3, 4][-1:], "abcdef"[:-2], "abcdef"[:-4], "abcdef"[::-1], "abcdef"[::-2], "abcdef"[::-1]]')
    souts = harness("eval", [{"src": p_} for p_ in sprogs], shards=NCPU)
    for k in range(0, len(souts), 2):
        a, b = souts[k], souts[k + 1]
        chk.count(("seq-reuse", sprogs[k]), True)
        if (a["kind"], a.get("repr")) != (b["kind"], b.get("repr")):
            chk.fail("slicing a sequence held in a variable changes what later slices of it give: `%s` gives %s, on fresh literals %s" % (
                sprogs[k].replace("\n", "; "), a.get("repr") or (a.get("errk"), a.get("errmsg")), b.get("repr") or (b.get("errk"), b.get("errmsg"))),
                {"program": sprogs[k], "fresh": sprogs[k + 1], "impl": {x: a.get(x) for x in ("kind", "repr", "errk", "errmsg")},
                 "impl_fresh": {x: b.get(x) for x in ("kind", "repr", "errk", "errmsg")}}, klass="C11:sequence-reuse")
            break
    # 5. elements of any kind: a slice selects positions, whatever the elements are (nil, nested arrays, strs, objects)
    mixed = ["1", "nil", '"s"', "nil", "[2, nil]", "{a: 1}", "nil"]
    mprogs, mwant = [], []
    mvals = [None, 0, 1, 2, 3, -1, -2, -3, 5, 7, -8]
    for a in mvals:
        for b in mvals:
            for c in (None, 1, 2, -1, -2, 3):
                want = oracle(mixed, ("rng", a, b, c))
                mprogs.append("[%s][%s]" % (", ".join(mixed), rsrc(a, b, c)[1:-1]))
                mwant.append("[" + ", ".join(w.replace("{a: 1}", '{"a": 1}') for w in want) + "]")
    for i in range(-9, 9):
        w = oracle(mixed, ("idx", i))
        mprogs.append("[%s][%d]" % (", ".join(mixed), i) if i >= 0 else "[%s][(%d)]" % (", ".join(mixed), i))
        mwant.append(w if w == "nil" else w[0].replace("{a: 1}", '{"a": 1}'))
    mouts = harness("eval", [{"src": p_} for p_ in mprogs], shards=NCPU)
    for prog, want, r in zip(mprogs, mwant, mouts):
        chk.count(("mixed-elements", prog), True)
        if not (r["kind"] == "value" and r.get("repr") == want):
            chk.fail("indexing / slicing an array of mixed elements: `%s` gives %s, expected %s" % (prog, r.get("repr") or (r.get("errk"), r.get("errmsg")), want),
                     {"program": prog, "expected": want, "impl": {k: r.get(k) for k in ("kind", "repr", "errk", "errmsg")}}, klass="C11:mixed-elements")
            break
    hist["mixed-elements"] = len(mprogs)
    hist["sequence-reuse"] = len(souts) // 2
    hist["range-reuse"] = len(reuse)
    failing = [f for f in failing if f[0] != -1]
    # decide -------------------------------------------------------------
    if failing:
        # is a failure with a step beyond the size explained by overflow alone?  re-ask with the step clipped
        reask = []
        for (i, via, got, want) in failing:
            name, kind, seq, sel = cases[i]
            n = len(seq)
            if sel[0] == "rng" and sel[3] is not None and abs(sel[3]) > n + 1 and not (isinstance(got, str) and got.startswith("p:")):
                reask.append((i, ("rng", sel[1], sel[2], (n + 1) if sel[3] > 0 else -(n + 1))))
        clipped_ok = set()
        if reask:
            ro = harness("slice", [request(cases[i][1], cases[i][2], s2, False) for i, s2 in reask], shards=NCPU, timeout=900, env=genv)
            for (i, s2), o in zip(reask, ro):
                if o["r"] == oracle(as_list(cases[i][1], cases[i][2]), s2):
                    clipped_ok.add(i)
        best = {}
        for (i, via, got, want) in failing:
            name, kind, seq, sel = cases[i]
            if via == "direct-vs-source":
                klass = "C11:direct-vs-source"
            elif isinstance(got, str) and got.startswith("p:"):
                klass = "C11:panic-" + got[2:].split(".")[-1]
            elif sel[0] == "idx":
                klass = "C11:index"
            elif sel[3] == 0:
                klass = "C11:zero-step"
            elif i in clipped_ok:
                klass = "C11:step-overflow"
            elif sel[3] is not None and sel[3] < 0:
                klass = "C11:neg-step-clamp"
            else:
                klass = "C11:pos-step-clamp"
            size = (len(seq), sum(abs(v) for v in sel[1:] if v is not None), i)
            if klass not in best or size < best[klass][0]:
                best[klass] = (size, i, via, got, want)
        chk.cov["failing_inputs"] = len(failing)
        order = sorted(best, key=lambda k: (PRIORITY.index(k) if k in PRIORITY else len(PRIORITY), k))
        for klass in order:
            _, i, via, got, want = best[klass]
            name, kind, seq, sel = cases[i]
            text = source_text(kind, seq, sel)
            chk.fail("`%s` gives %s via %s; the property demands %s" % (text, json.dumps(got, ensure_ascii=False), via, json.dumps(want)),
                     {"harness": "slice", "request": request(kind, seq, sel, small(sel)), "source": text, "sequence": seq,
                      "range": list(sel), "got": got, "want": want,
                      "theorem": "C11_slice_refines_spec / C11_index_spec / C11_zero_step / C11_slice_no_panic instance contradicted by the implementation"},
                     klass=klass)
    if mism and not failing:
        i, m = min(mism, key=lambda im: (len(cases[im[0]][2]), im[0]))
        (name, kind, seq, sel), o = cases[i], outs[i]
        chk.fail("model/implementation disagree on `%s`: model %s, implementation %s; the implementation agrees with the property's oracle on every case, "
                 "so no input was found on which the property itself fails (%d disagreements)"
                 % (source_text(kind, seq, sel), show_model(m), json.dumps(o["r"]), len(mism)),
                 {"correspondence": "Slice.SliceModel.run_case vs evaluator/index.go", "source": source_text(kind, seq, sel),
                  "model": m, "impl": o["r"]}, no_input=True)
    if not ok and not failing:
        chk.fail(broken, {"theorem_file": "coq/Props/C11.v", "detail": broken}, no_input=True)
    return chk.finish()
