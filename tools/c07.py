"""C07 — fail-stop: proof obligations (Props/C07.v) + fault-injection enumeration:
a raise injected at every evaluation position of every construct, with markers."""
from pv import *
import pancore

PRELUDE = '''t := {|i| i.p; i}
tz := {|i| i.p; 0}
ts := {|i| i.p; "k" + i.S}
boom := {|i| i.p; raise Err.new("E" + i.S)}
boomz := {|i| i.p; 1 / 0}
boomn := {|i| i.p; nopename}
boomp := {|i| i.p; 1.nopeprop}
booms := {|i| i.p; raise StopIterErr.new("S" + i.S)}
boomx := {|i| i.p; []._iter.next}
f3 := {|a, b, c| [a, b, c]}
fk := {|a, k1: 0, k2: 0| [a, k1, k2]}
idf := {|x| x}
to := {|i| i.p; {k1: i}}
ta := {|i| i.p; [i, i]}
tm := {|i| i.p; %{i: i}}
tf := {|i| i.p; {|x| x}}
f2 := {|a, x| a}
f2p := {|a, x| x.p; a}
'''
BOOMS = {"boom": ("Err", "E%d"), "boomz": ("ZeroDivisionErr", "cannot be divided by 0"),
         "boomn": ("NameErr", "name `nopename` is not defined"),
         "boomp": ("NoPropErr", "property `nopeprop` is not defined."),
         # StopIterErr is the kind the evaluator's own loops watch for: raised by a step it must stop the program like any other
         "booms": ("StopIterErr", "S%d"), "boomx": ("StopIterErr", "iter stopped")}

# (name, format, evaluation order of the holes, which helper each hole uses by default)
TEMPLATES = [
    ("infix", "{0} + {1}", [0, 1], "tt"),
    ("infix3", "{0} * {1} - {2}", [0, 1, 2], "ttt"),
    ("compare", "{0} < {1}", [0, 1], "tt"),
    ("arr", "[{0}, {1}, {2}]", [0, 1, 2], "ttt"),
    ("arr_unpack", "[{0}, *[{1}], {2}]", [0, 1, 2], "ttt"),
    ("obj_values", "{{a: {0}, b: {1}, c: {2}}}", [0, 1, 2], "ttt"),
    ("obj_keys", "{{({0}): 1, ({1}): 2}}", [0, 1], "ss"),
    ("map_values", "%{{1: {0}, 2: {1}}}", [0, 1], "tt"),
    ("map_keys", "%{{{0}: 1, {1}: 2}}", [0, 1], "tt"),
    ("range", "({0}:{1}:{2})", [0, 1, 2], "ttt"),
    ("args", "f3({0}, {1}, {2})", [0, 1, 2], "ttt"),
    ("args_unpack", "f3({0}, *[{1}, {2}])", [0, 1, 2], "ttt"),
    ("kwargs", "fk({0}, k1: {1}, k2: {2})", [0, 1, 2], "ttt"),
    ("kwargs_dup", "fk({0}, k1: {1}, k1: {2})", [0, 1, 2], "ttt"),
    ("kwargs_dup3", "fk(1, k2: {0}, k1: {1}, k2: {2})", [0, 1, 2], "ttt"),
    ("obj_dup", "{{a: {0}, a: {1}, b: {2}}}", [0, 1, 2], "ttt"),
    ("map_dup", "%{{1: {0}, 1: {1}, 2: {2}}}", [0, 1, 2], "ttt"),
    ("recv_arg", "[{0}].has?({1})", [0, 1], "tt"),
    ("recv_chainarg_arg", "[{0}]@([{1}])+({2})", [0, 1, 2], "ttt"),
    ("if_then", "{1} if {0} else {2}", [0, 1], "ttt"),
    ("if_else", "{1} if {0} else {2}", [0, 2], "ztt"),
    ("and", "{0} && {1}", [0, 1], "tt"),
    ("or", "{0} || {1}", [0, 1], "zt"),
    ("embstr", '"a#{{ {0} }}b#{{ {1} }}c#{{ {2} }}"', [0, 1, 2], "TTT"),
    ("stmts", "{{|| {0}; {1}; {2}}}()", [0, 1, 2], "ttt"),
    ("assign", "{{|| x := {0}; y := {1}; x + y}}()", [0, 1], "tt"),
    ("slice", "[1, 2, 3, 4][{0}:{1}]", [0, 1], "tt"),
    ("prefix", "-{0}", [0], "t"),
    ("prefix_arg", "idf(!{0})", [0], "t"),
    ("prefix_args", "f3(-{0}, !{1}, -{2})", [0, 1, 2], "ttt"),
    ("prefix_recv_arg", "[{0}].has?(-{1})", [0, 1], "tt"),
    ("prefix_kwarg", "fk(!{0}, k1: -{1})", [0, 1], "tt"),
    ("prefix_infix_arg", "idf(!({0} || {1}))", [0, 1], "zt"),
    ("return", "{{|| return {0}; {1}}}()", [0], "tt"),
    ("litcall_recv", "{0}.{{|x| x + {1}}}", [0, 1], "tt"),
    ("varcall_recv", "{0}.^idf", [0], "t"),
    ("yield_then_stmt", "{{|| yield {0}; {1}}}()", [0, 1], "tt"),
    ("yield_then_stmt3", "{{|| {0}; yield {1}; {2}}}()", [0, 1, 2], "ttt"),
    ("iter_yield_then", "<{{|| yield {0}; {1}}}>.new.next", [0, 1], "tt"),
    ("args_dstar", "fk({0}, **{1}, **{2})", [0, 1, 2], "too"),
    ("args_star", "f3(*{0}, {1})", [0, 1], "at"),
    ("arr_star", "[{0}, *{1}, {2}]", [0, 1, 2], "tat"),
    ("obj_dstar", "{{a: {0}, **{1}, **{2}}}", [0, 1, 2], "too"),
    ("map_dstar", "%{{1: {0}, **{1}, **{2}}}", [0, 1, 2], "tmo"),
    ("varcall_chainarg", "[{0}]@([{1}])^idf", [0, 1], "tt"),
    ("litcall_chainarg", "[{0}]@([{1}]){{|x| x}}", [0, 1], "tt"),
    ("scalar_litcall_chainarg", "{0}.({1}){{|x| x}}", [0, 1], "tt"),
    ("scalar_propcall_chainarg", "{0}.({1})S", [0, 1], "tt"),
    ("propcall_reduce_init", "[{0}]$({1})+", [0, 1], "tt"),
    ("varcall_reduce_init", "[{0}]$({1})^f2", [0, 1], "tt"),
    ("litcall_reduce_init", "[{0}]$({1}){{|a, x| a}}", [0, 1], "tt"),
    ("scalar_varcall_arg", "{0}.^idf", [0], "t"),
    ("callee", "{0}({1})", [0, 1], "ft"),
    ("index", "[1, 2, 3][{0}]", [0], "t"),
    ("index_recv", "[{0}, 2][{1}]", [0, 1], "tz"),
    ("kwarg_default", "{{|k: {0}, j: {1}| k}}()", [0, 1], "tt"),
    ("raise_stmt", "{{|| raise {0}; {1}}}()", [0], "tt"),
    ("if_guard_stmt", "{{|| return {1} if {0}; {2}}}()", [0, 1], "ttt"),
]


# templates whose callee prints: used with an injected raise only (the callee must NOT run)
TEMPLATES_FAILONLY = [
    ("varcall_chainarg_called", "[{0}]@([{1}])^t", [0, 1], "tt"),
    ("litcall_chainarg_called", "[{0}]@([{1}]){{|x| t(x)}}", [0, 1], "tt"),
    ("propcall_chainarg_called", "[{0}]@([{1}])p", [0, 1], "tt"),
    ("varcall_reduce_init_called", "[{0}]$({1})^f2p", [0, 1], "tt"),
    ("litcall_reduce_init_called", "[{0}]$({1}){{|a, x| t(x)}}", [0, 1], "tt"),
    ("scalar_varcall_chainarg", "{0}.({1})^t", [0, 1], "tt"),
]


class Counter:
    def __init__(self):
        self.n = 0

    def next(self):
        self.n += 1
        return self.n


def build(rng, depth, ctr, want=None):
    """returns (text, holes) where holes is the list of (index, helper) in EVALUATION order;
    text contains placeholders <<i>> to be replaced by helper(i)."""
    tpl = want or rng.choice(TEMPLATES)
    name, fmt, order, kinds = tpl
    nh = len(kinds)
    texts, sub = [None] * nh, [None] * nh
    for j in range(nh):
        if depth > 0 and kinds[j] == "t" and rng.random() < 0.35:
            txt, holes = build(rng, depth - 1, ctr)
            texts[j] = "(" + txt + ").{|_| 1}"
            sub[j] = holes
        else:
            i = ctr.next()
            texts[j] = "<<%d>>" % i
            sub[j] = [(i, {"t": "t", "T": "t", "z": "tz", "s": "ts", "o": "to", "a": "ta", "m": "tm", "f": "tf"}[kinds[j]])]
    holes = []
    for j in order:
        holes += sub[j]
    # holes not in `order` are never evaluated: they get a plain helper
    dead = []
    for j in range(nh):
        if j not in order:
            dead += sub[j]
    text = fmt.format(*texts)
    for (i, h) in dead:
        text = text.replace("<<%d>>" % i, "%s(%d)" % (h, 900 + i))
    return text, holes


def instantiate(text, holes, fail_pos, boom):
    """fail_pos: position in evaluation order that raises (None = none)."""
    markers = []
    for pos, (i, h) in enumerate(holes):
        if fail_pos is not None and pos == fail_pos:
            text = text.replace("<<%d>>" % i, "%s(%d)" % (boom, i))
        else:
            text = text.replace("<<%d>>" % i, "%s(%d)" % (h, i))
        if fail_pos is None or pos <= fail_pos:
            markers.append(i)
    return text, markers


WRAPPERS = ["plain", "try", "thoughtful", "fn", "nested_fn"]

CHAIN_FORMS = [
    ("lit_list", "[1, 2, 3, 4]@{{|x| {b}(x) if x == {k} else t(x)}}"),
    ("lit_strict", "[1, 2, 3, 4]=@{{|x| {b}(x) if x == {k} else t(x)}}"),
    ("lit_lonely", "[1, 2, 3, 4]&@{{|x| {b}(x) if x == {k} else t(x)}}"),
    ("lit_reduce", "[1, 2, 3, 4]$(0){{|acc, x| ({b}(x) if x == {k} else t(x)) + acc}}"),
    ("lit_lonely_reduce", "[1, 2, 3, 4]&$(0){{|acc, x| ({b}(x) if x == {k} else t(x)) + acc}}"),
    ("var_list", "h := {{|x| {b}(x) if x == {k} else t(x)}};; [1, 2, 3, 4]@^h"),
    ("var_strict", "h := {{|x| {b}(x) if x == {k} else t(x)}};; [1, 2, 3, 4]=@^h"),
    ("var_lonely", "h := {{|x| {b}(x) if x == {k} else t(x)}};; [1, 2, 3, 4]&@^h"),
    ("var_reduce", "h := {{|acc, x| ({b}(x) if x == {k} else t(x)) + acc}};; [1, 2, 3, 4]$(0)^h"),
    ("str_list", '"abcd"@{{|c| {b}(c.ord - 96) if c.ord - 96 == {k} else t(c.ord - 96)}}'),
    ("lit_list_arg", "[1, 2, 3, 4]@([9, 9, 9, 9]){{|x, y| {b}(x) if x == {k} else t(x)}}"),
    ("prop_lonely", "mk := {{|i| {{i: i, m: {{|self| {b}(self.i) if self.i == {k} else t(self.i)}}}}}};; [mk(1), mk(2), mk(3), mk(4)]&@m"),
    ("prop_reduce", "mk := {{|i| {{i: i, '+: {{|self, o| {b}(self.i) if self.i == {k} else t(self.i); o}}}}}};; [mk(2), mk(3), mk(4), mk(5)]$(mk(1))+"),
    ("prop_list", "mk := {{|i| {{i: i, m: {{|self| {b}(self.i) if self.i == {k} else t(self.i)}}}}}};; [mk(1), mk(2), mk(3), mk(4)]@m"),
    ("prop_strict", "mk := {{|i| {{i: i, m: {{|self| {b}(self.i) if self.i == {k} else t(self.i)}}}}}};; [mk(1), mk(2), mk(3), mk(4)]=@m"),
    ("range_list", "(1:5)@{{|x| {b}(x) if x == {k} else t(x)}}"),
    ("int_list", "4@{{|x| {b}(x) if x == {k} else t(x)}}"),
    ("iter_list", "<{{|i| yield i if i < 5; recur(i + 1)}}>.new(1)@{{|x| {b}(x) if x == {k} else t(x)}}"),
    ("map_iter", "%{{1: 1, 2: 2, 3: 3, 4: 4}}@{{|k, v| {b}(k) if k == {k} else t(k)}}"),
]


def wrap(kind, expr):
    if kind == "plain":
        return expr
    if kind == "try":
        return '1.try.{|_| %s}.err.msg.p' % expr
    if kind == "thoughtful":
        return '[7]~@{|_| %s}.p' % expr
    if kind == "fn":
        return '{|| "in".p; %s; "unreached".p}()' % expr
    if kind == "nested_fn":
        return '{|| {|| %s; "unreached1".p}(); "unreached2".p}()' % expr
    raise ValueError(kind)


def expect(kind, markers, boom, fail_i):
    ek, em = BOOMS[boom]
    em = em % fail_i if "%d" in em else em
    out = ["before"]
    if kind in ("fn",):
        out.append("in")
    out += [str(m) for m in markers]
    if kind == "try":
        return {"kind": "value", "out": "\n".join(out + [em, "after"]) + "\n"}
    if kind == "thoughtful":
        return {"kind": "value", "out": "\n".join(out + ["[7]", "after"]) + "\n"}
    return {"kind": "error", "errk": ek, "errmsg": em, "out": "\n".join(out) + "\n"}


def gen(chk):
    cases = []  # (program, expected, family)
    rng = chk.rng
    st = rng.getstate()
    rng.seed(777)
    booms = list(BOOMS)
    # systematic: every template x every position x every wrapper (seed-independent)
    for tpl in TEMPLATES + TEMPLATES_FAILONLY:
        ctr = Counter()
        text, holes = build(rng, 0, ctr, want=tpl)
        for pos in range(len(holes)):
            if tpl in TEMPLATES_FAILONLY and pos == 0:
                continue
            for wi, w in enumerate(WRAPPERS):
                b = booms[(pos + wi) % len(booms)] if w in ("plain", "fn") else "boom"
                body, markers = instantiate(text, holes, pos, b)
                prog = '"before".p\n' + wrap(w, body) + '\n"after".p\n'
                cases.append((prog, expect(w, markers, b, holes[pos][0]), tpl[0] + "/" + w))
    # chain element k of n
    for name, fmt in CHAIN_FORMS:
      for special in (None, "booms", "boomx"):
        for k in (1, 2, 3, 4):
            for w in ("plain", "try", "fn"):
                b = booms[k % len(booms)] if w != "try" else "boom"
                if special:
                    if w == "fn" or (w == "try" and special == "boomx"):
                        continue
                    b = special
                body = fmt.format(b=b, k=k)
                if ";;" in body and w != "plain":
                    pre, body = body.rsplit(";; ", 1)
                    prog = pre + '\n"before".p\n' + wrap(w, body) + '\n"after".p\n'
                elif ";;" in body:
                    pre, body = body.rsplit(";; ", 1)
                    prog = pre + '\n"before".p\n' + body + '\n"after".p\n'
                else:
                    prog = '"before".p\n' + wrap(w, body) + '\n"after".p\n'
                cases.append((prog, expect(w, list(range(1, k + 1)), b, k), "chain:" + name + "/" + w))
    # a raise inside a predicate handed to a library method stops the program like any other (kinds other than StopIterErr: inside
    # the iterator-based natives that kind is, by design, the end-of-iteration signal)
    for pname, pexpr in (("grep", "[1, 2].grep({|x| %s(x)})"), ("indices", "[1, 2].indices({|x| %s(x)})"), ("find", "[1, 2].find {|x| %s(x)}"),
                         ("select", "[1, 2].select {|x| %s(x)}"), ("any", "[1, 2].any? {|x| %s(x)}"), ("all", "[1, 2].all? {|x| %s(x)}"),
                         ("map", "[1, 2].map {|x| %s(x)}"), ("exclude", "[1, 2].exclude {|x| %s(x)}")):
        for w in ("plain", "try", "fn"):
            for b in ("boom", "boomz", "boomn") if w != "try" else ("boom",):
                prog = '"before".p\n' + wrap(w, pexpr % b) + '\n"after".p\n'
                cases.append((prog, expect(w, [1], b, 1), "predicate:" + pname + "/" + w))
    # a raise inside a deferred call replaces the outcome; a defer still runs when the body raises
    for w in ("plain", "try", "fn"):
        for b in ("boom", "boomz") if w != "try" else ("boom",):
            prog = '"before".p\n' + wrap(w, "{|| defer %s(1); t(2)}()" % b) + '\n"after".p\n'
            cases.append((prog, expect(w, [2, 1], b, 1), "defer:raising/" + w))
            prog = '"before".p\n' + wrap(w, "{|| defer t(9); %s(2)}()" % b) + '\n"after".p\n'
            e = expect(w, [2], b, 2)
            e["out"] = e["out"].replace("2\n", "2\n9\n", 1)
            cases.append((prog, e, "defer:body-raises/" + w))
    # the nearest handler is an Either whose failing step is a PROPERTY call (through the proxy): a step that raises, a step naming
    # a property the value does not have, arguments of such a step; the later steps are skipped and the Either holds the error
    L = lambda ms: "".join("%s\n" % m for m in ms)
    for body, ms in [('{m: m{boom(1)}}.try.m.{|x| "later".p; x}', [1, "true"]), ('"abc".try.nosuch(t(1)).{|x| "later".p; x}', [1, "true"]),
                     ('"abc".try.uc.nosuch.{|x| "later".p; x}.len', ["true"]), ('5.try.+(t(1)).nosuch(t(2)).+(3)', [1, 2, "true"]),
                     ('{a: m{ {b: 1} }}.try.a.c.d', ["true"]), ('[1, 2].try.len.nosuch.{|x| "later".p; x}', ["true"]),
                     ('5.try./(tz(1)).nosuch', [1, "true"])]:
        prog = '"before".p\nr := ' + body + '\nr.err?.p\n"after".p\n'
        cases.append((prog, {"kind": "value", "out": L(["before"] + ms + ["after"])}, "either-prop-step/try"))
    # library code written in Pangaea must not swallow a raise either: indexing an iterator whose 3rd element raises, a `catch`
    # handler that raises itself
    cases.append(('readings := <{|i| raise ValueErr.new("E" + i.S) if i == 2; t(i); yield i * 10 if i < 9; recur(i + 1)}>.new(0)\n"before".p\nx := readings[4]\n"unreached".p\n',
                  {"kind": "error", "errk": "ValueErr", "errmsg": "E2", "out": "before\n0\n1\n"}, "native:iter-at/plain"))
    cases.append(('"before".p\nr := [<{|i| yield i if i < 6; recur(i + 1)}>.new(0)[3], (1:10)[2], [5, 6, 7]._iter[1]]\nr.p\n"after".p\n',
                  {"kind": "value", "out": "before\n[3, 3, 6]\nafter\n"}, "native:iter-at/plain"))
    cases.append(('"before".p\nr := 7.try.{|x| boom(1)}.catch(Err) {|e| boom(2)}.or(-1)\n"unreached".p\n',
                  {"kind": "error", "errk": "Err", "errmsg": "E2", "out": "before\n1\n2\n"}, "native:catch-handler-raises/plain"))
    cases.append(('"before".p\nr := 7.try.{|x| boom(1)}.catch(Err) {|e| t(2)}.or(-1)\nr.p\n"after".p\n',
                  {"kind": "value", "out": "before\n1\n2\n2\nafter\n"}, "native:catch-handler-raises/plain"))
    # Iterable methods on a lazily produced receiver whose first element raises: the error reaches the caller
    for meth in (".empty?", ".A", ".any? {|x| true}"):
        cases.append(('"before".p\nx := [0, 1].lazyMap {|x| boomz(x)}%s\n"unreached".p\n' % meth,
                      {"kind": "error", "errk": "ZeroDivisionErr", "errmsg": "cannot be divided by 0", "out": "before\n0\n"}, "native:lazy-first-raises/plain"))
    cases.append(('"before".p\nr := [(0:0).empty?, "a".empty?, [].empty?, [1].lazyMap {|x| t(x)}.empty?]\nr.p\n"after".p\n',
                  {"kind": "value", "out": "before\n1\n[true, false, true, false]\nafter\n"}, "native:lazy-first-raises/plain"))
    # a zero step is an error for every kind of receiver (str included), literal or computed
    for recv in ('"pangaea"', "[1, 2, 3]", "5"):
        cases.append(('"before".p\nn := tz(1)\nx := %s[::n]\n"unreached".p\n' % recv,
                      {"kind": "error", "errk": "ValueErr", "errmsg": "cannot use 0 for range step", "out": "before\n1\n"}, "zero-step/plain"))
    rng.setstate(st)
    # nested, random
    n = 500 if chk.tier == "quick" else 15000
    for _ in range(n):
        ctr = Counter()
        text, holes = build(rng, rng.randint(1, 3), ctr)
        pos = rng.randrange(len(holes))
        w = rng.choice(WRAPPERS)
        b = rng.choice(booms) if w in ("plain", "fn", "nested_fn") else "boom"
        body, markers = instantiate(text, holes, pos, b)
        prog = '"before".p\n' + wrap(w, body) + '\n"after".p\n'
        cases.append((prog, expect(w, markers, b, holes[pos][0]), "nested/" + w))
    return cases


def main(chk):
    ok, broken = obligations(chk, "Props/C07.v")
    cases = gen(chk)
    progs = [c[0] for c in cases]
    res = pancore.run_programs(chk, progs, cmp_msg=True, prelude=PRELUDE)
    viol, model_only, fam = [], [], {}
    for (prog, exp, family), r in zip(cases, res):
        fam[family.split("/")[0]] = fam.get(family.split("/")[0], 0) + 1
        chk.count(prog, True)
        imp = r["impl"]
        good = imp["kind"] == exp["kind"] and imp.get("out", "") == exp["out"] and (
            exp["kind"] != "error" or (imp.get("errk") == exp["errk"] and (imp.get("errmsg") == exp["errmsg"] or exp["errk"] not in ("Err",))))
        if not good:
            viol.append(("fail-stop violated in %s: expected %s, implementation gave %s" % (
                family, exp, {k: imp.get(k) for k in ("kind", "errk", "errmsg", "out", "repr")}),
                {"program": prog, "expected": exp, "impl": imp, "family": family,
                 "theorem": "C07 position theorem instance"}, "C07:" + family.split("/")[0]))
        elif r["verdict"] == "disagree":
            model_only.append(r)
    # a module that fails while it is loaded raises again when it is imported again (files: harness runtest, file mode)
    mdir = os.path.join(BUILD, "c07_modules_%d" % os.getpid())
    mfiles = [["main.pangaea", 'r := "".try.{|_| import("./badmod")}\nassertEq(r.err.type._name, "ZeroDivisionErr")\nr2 := "".try.{|_| import("./badmod")}\n'
               'assertEq(r2.err?, true)\nassertEq(r2.err.type._name, "ZeroDivisionErr")\n"imports done".p\nm := import("./badmod")\n"unreached".p\n'],
              ["badmod.pangaea", 'ready := 1\n"loading badmod".p\nbroken := [1, 2].at(0) / 0\n"badmod loaded".p\ndone := 2\n']]
    mo = harness("runtest", [{"files": mfiles, "dir": mdir, "mode": "file"}])[0]
    chk.count(("failing-module", "runtest"), True)
    if not (mo["code"] != 0 and "imports done" in mo["out"] and "unreached" not in mo["out"] and "ZeroDivisionErr" in mo["err"]):
        viol.append(("a module that raised while loading does not raise when it is imported again: exit %s, stdout %r, stderr %r" % (mo["code"], mo["out"][-200:], mo["err"][:200]),
                     {"program": mfiles[0][1], "files": mfiles, "got": mo, "expected": "prints `imports done`, then ends with ZeroDivisionErr", "family": "failing-module"}, "C07:failing-module"))
    chk.cov["input_distribution"] = fam
    chk.cov["rule"] = ("fault injection: %d construct templates (+%d used only with a raise: forms whose value the marker oracle cannot print) (operands, elements, `*` unpacking, pair keys/values, range bounds, "
                       "positional/keyword/unpacked arguments, receiver, chain argument, condition/branches, &&/||, embedded-string parts, "
                       "statements, assignment, slice bounds, literal/variable call receivers) x every evaluation position x 5 wrappers "
                       "(plain, try/Either, thoughtful chain, inside a function, nested functions) x %d raise kinds (raise Err, 1/0, unknown name, "
                       "missing property, raise StopIterErr, next on an exhausted iterator); element k of 4 for %d chain forms over arr/range/int/str/"
                       "iterator/map receivers in literal, variable and property form (each also with the two StopIterErr kinds); a raise inside a "
                       "predicate handed to 8 library methods; duplicated keywords / keys; prefix operators in argument position; seeded random "
                       "nestings to depth 3. Every hole prints a marker; expected: markers up to the raise, nothing after, same kind and "
                       "message at the handler or at top level. All cases are non-trivial (a raise is always reached); distinct by text."
                       % (len(TEMPLATES), len(TEMPLATES_FAILONLY), len(BOOMS), len(CHAIN_FORMS)))
    for i in (0, len(progs) // 2, len(progs) - 1):
        chk.sample({"prelude": PRELUDE, "program": progs[i], "expected": cases[i][1],
                    "impl": {k: res[i]["impl"].get(k) for k in ("kind", "errk", "errmsg", "out")}, "model_verdict": res[i]["verdict"]})
    chk.cov["rule"] += " Added after seeded round 5: Either steps that are property calls (a raising method, an absent property, arguments of such a step)."
    chk.cov["rule"] += " Added after seeded round 6: library code in Pangaea (indexing an iterator whose element raises, a `catch` handler that raises), a zero step for str / arr / int receivers."
    chk.cov["rule"] += " Added after seeded round 7: Iterable methods on a lazily produced receiver whose first element raises, a module that fails while loading imported twice (files)."
    return pancore.conclude(chk, ok, broken, "Props/C07.v", res, viol, model_only, "C07",
                            "Core.Interp vs evaluator/*.go on fault-injected programs")
