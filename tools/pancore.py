"""Correspondence of PanCore (coq/Core) with the implementation: evaluate programs
with the harness (which also emits the parsed AST as a PanCore term), evaluate the
same terms inside Coq by vm_compute, compare projected observables."""
import re
import pv
import world

PRELUDE = ("From Coq Require Import ZArith String List.\nImport ListNotations.\n"
           "From PanVerif Require Import Core.Syntax Core.Values Core.Interp Core.Run gen.World.\n"
           "Local Open Scope string_scope.\n")


def coqstr(s):
    b = s.encode()
    if all(32 <= c <= 126 for c in b):
        return '"' + s.replace('"', '""') + '"'
    return "(sb [" + ";".join(str(c) for c in b) + "])"


def impl_obs(rep):
    if rep["kind"] == "value":
        return '{| i_kind := "value"; i_a := %s; i_b := ""; i_out := %s |}' % (coqstr(rep.get("repr", "")), coqstr(rep.get("out", "")))
    return '{| i_kind := "error"; i_a := %s; i_b := %s; i_out := %s |}' % (
        coqstr(rep.get("errk", "")), coqstr(rep.get("errmsg", "")), coqstr(rep.get("out", "")))


def run_programs(chk, programs, cmp_msg=False, repeat=2, fuel=None, tag=None, stdin="", prelude=""):
    """programs: list of source strings. Returns list of dicts:
       {src, impl, verdict}, verdict in agree|disagree|fuel|unsup|syntax|panic|nocoq (+ model on disagree)."""
    tag = tag or chk.pid
    ok, log, info = world.build_world(chk)
    if not ok:
        raise pv.BuildError("gen/World.v does not compile (world translator output rejected by Coq):\n" + log[-3000:])
    chk.cov["world"] = info
    reqs = [{"src": s, "coq": True, "repeat": repeat, "stdin": stdin, "prelude": prelude} for s in programs]
    chk.note("world ready; evaluating %d programs with the implementation" % len(programs))
    reps = pv.harness("eval", reqs, shards=pv.NCPU)
    chk.note("implementation done; evaluating the model inside Coq")
    results = []
    todo = []
    for i, (s, r) in enumerate(zip(programs, reps)):
        d = {"src": s, "impl": r}
        if r["kind"] == "syntax":
            d["verdict"] = "syntax"
        elif r["kind"] == "panic":
            d["verdict"] = "panic"
        elif r["kind"] == "fuel":
            d["verdict"] = "fuel"
        elif not r.get("coq"):
            d["verdict"] = "nocoq"
        else:
            d["verdict"] = None
            todo.append(i)
        results.append(d)
    fuel_t = "default_fuel" if fuel is None else "%d" % fuel
    precoq = "[]"
    for r in reps:
        if r.get("precoq"):
            precoq = r["precoq"]
            break
    base_def = ("Definition base := run_prelude W init0 %s %s.\n" % (fuel_t, precoq))
    cm = "true" if cmp_msg else "false"
    # at most 400 cases per file: a coqc process holds the whole file (terms + results), ~3 MB per case for deep programs;
    # 16 processes x 400 cases stay far below the machine's memory, larger files were killed by the OOM killer
    shards = pv.shard(todo, max(pv.NCPU, (len(todo) + 399) // 400))
    bodies = []
    for k, sh in enumerate(shards):
        rows = ["(%d, %s, %s)" % (i, results[i]["impl"]["coq"], impl_obs(results[i]["impl"])) for i in sh]
        body = (PRELUDE + base_def + "Definition cases : list case := [\n" + ";\n".join(rows) + "].\n"
                "Definition J := Eval vm_compute in judge W base %s %s cases.\nPrint J.\n" % (fuel_t, cm))
        bodies.append(("cases_%s_%d" % (tag, k), body))
    outs = pv.coq_eval_many(bodies, timeout=1200)
    chk.note("model done")
    names = {0: "agree", 1: "disagree", 2: "fuel", 3: "unsup"}
    for (name, body), (rc, out) in zip(bodies, outs):
        if rc != 0:
            raise pv.BuildError("correspondence shard %s failed to evaluate:\n%s" % (name, out[-3000:]))
        flat = " ".join(out.split())
        for m in re.finditer(r"\(\s*(\d+),\s*(\d+)\)", flat):
            results[int(m.group(1))]["verdict"] = names[int(m.group(2))]
    bad = [i for i in todo if results[i]["verdict"] == "disagree"]
    missing = [i for i in todo if results[i]["verdict"] is None]
    if missing:
        raise pv.BuildError("no verdict for cases %s" % missing[:5])
    if bad:
        sel = bad[:40]
        rows = ["(%d, %s, %s)" % (i, results[i]["impl"]["coq"], impl_obs(results[i]["impl"])) for i in sel]
        body = (PRELUDE + base_def + "Definition cases : list case := [\n" + ";\n".join(rows) + "].\n"
                "Definition D := Eval vm_compute in details W base %s %s cases.\nPrint D.\n" % (fuel_t, cm))
        rc, out = pv.coq_eval("cases_%s_details" % tag, body, timeout=1200)
        flat = " ".join(out.split())
        # (idx, (ObsVal "..", "out")) ...
        for m in re.finditer(r"\((\d+), \((Obs\w+(?: \"(?:[^\"]|\"\")*\")*), (\"(?:[^\"]|\"\")*\")\)\)", flat):
            results[int(m.group(1))]["model"] = m.group(2) + " | out=" + m.group(3)
    return results


def summarize(chk, results):
    hist = {}
    for r in results:
        hist[r["verdict"]] = hist.get(r["verdict"], 0) + 1
    return hist


def debug(progs, fuel="default_fuel"):
    """Development helper: print what the model and the implementation do on progs."""
    world.build_world()
    reps = pv.harness("eval", [{"src": s, "coq": True} for s in progs])
    rows = ["(%d, %s, %s)" % (i, r["coq"], impl_obs(r)) for i, r in enumerate(reps) if r.get("coq")]
    body = (PRELUDE + "Definition cases : list case := [\n" + ";\n".join(rows) + "].\n"
            "Definition D := Eval vm_compute in map (fun c => match c with (i,p,io) => (i, run_obs_from W (run_prelude W init0 %s []) %s p) end) cases.\nPrint D.\n" % (fuel, fuel))
    rc, out = pv.coq_eval("dbg", body)
    print(out[-6000:])
    for i, r in enumerate(reps):
        print(i, r["kind"], r.get("repr"), r.get("errk"), r.get("errmsg"), repr(r.get("out")))


TRUSTED = [
    "PanCore (coq/Core/Interp.v), hand-written model of evaluator/*.go and the Go built-ins of props/*.go it needs, tied by "
    "vm_compute correspondence on every generated program (and on the repository's tests/*.pangaea corpus in C03)",
    "translator ast2coq: the AST built by the real parser (parser.Parse) printed as a PanCore term; keyword arguments ordered by "
    "their recorded source position",
    "translator dumpworld -> gen/World.v, regenerated on every run from the running implementation: built-in objects, prototype "
    "links, zero values, Go built-ins by name, native *.pangaea functions as PanCore syntax, global scope",
    "harness eval (in-process parser.Parse + evaluator.Eval under recover), Python generators and search oracles"]
ASSUME = ["the parser is trusted to produce the AST (C02/C16/C17 cover it)",
          "programs that reach an unmodelled built-in or exhaust the model's fuel are discarded and counted under verdicts",
          "FNV-64 symbol hash collisions are assumed away"]


def conclude(chk, ok, broken, props_file, res, viol, model_only, prefix, corr):
    """viol: list of (what, replay dict, klass) concrete failing inputs found by the direct oracle;
    model_only: list of result dicts where only the model disagrees."""
    chk.cov["verdicts"] = summarize(chk, res)
    for t in TRUSTED:
        if t not in chk.cov["trusted_base"]:
            chk.cov["trusted_base"].append(t)
    for a in ASSUME:
        if a not in chk.assumptions:
            chk.assumptions.append(a)
    # every program is evaluated twice in one interpreter (fresh scope each time): the two evaluations must agree
    nd = [r for r in res if r.get("impl", {}).get("nondet")]
    if nd and not viol:
        r = nd[0]
        viol = list(viol) + [("the same program gives a different result the second time it is evaluated in one interpreter: `%s` first %s, then %s"
                              % (r["src"].strip().replace("\n", "; ")[:300], {k: r["impl"].get(k) for k in ("kind", "repr", "errk", "out")}, r["impl"]["nondet"][:1]),
                              {"program": r["src"], "first": {k: r["impl"].get(k) for k in ("kind", "repr", "errk", "errmsg", "out")},
                               "second": r["impl"]["nondet"][:2], "cases": len(nd)}, prefix + ":second-evaluation")]
    seen = set()
    for what, replay, klass in viol:
        if klass in seen:
            continue
        seen.add(klass)
        chk.fail(what, replay, klass=klass)
    if not viol and model_only:
        r = model_only[0]
        chk.fail("PanCore and the implementation disagree (%s) although the property's direct oracle accepts the implementation: %s"
                 % (corr, r["src"][:200]),
                 {"correspondence": corr, "program": r["src"], "model": r.get("model"),
                  "impl": {k: r["impl"].get(k) for k in ("kind", "repr", "errk", "errmsg", "out")},
                  "disagreeing_cases": len(model_only)}, no_input=True)
    other = [r for r in res if r["verdict"] in ("panic", "nocoq")]
    if other and not viol:
        r = other[0]
        chk.fail("generated program made the interpreter panic" if r["verdict"] == "panic" else "AST could not be translated",
                 {"program": r["src"], "impl": r["impl"]}, klass=prefix + ":" + r["verdict"])
    # the correspondence must actually exercise the model: when it discards most of the generated programs (a prelude or
    # generator that reaches an unmodelled built-in, too little fuel) the tie is vacuous — that is a broken check, reported as such
    disc = [r for r in res if r["verdict"] in ("unsup", "fuel")]
    chk.cov["model_discarded"] = {"unsup_or_fuel": len(disc), "of": len(res)}
    if len(res) >= 20 and len(disc) * 2 > len(res) and not viol:
        chk.fail("the model discards %d of %d generated programs (unmodelled built-in or out of fuel): the correspondence %s is not exercised"
                 % (len(disc), len(res), corr), {"correspondence": corr, "first_discarded_program": disc[0]["src"][:400]}, no_input=True)
    if not ok and not viol:
        chk.fail(broken, {"theorem_file": "coq/" + props_file, "detail": broken}, no_input=True)
    return chk.finish()
