"""C18 — equality and ordering laws: proof obligations (Props/C18.v) + a pool of values
of every built-in data type, nested containers and typed descendants: all ordered
pairs for == / !=, all same-kind pairs and triples for the order operators, checked
against the laws themselves (direct oracle on the implementation) and against PanCore."""
import itertools
from pv import *
import pancore

PRELUDE = '''MyInt := Int.bear({tag: 'mi})
MyStr := Str.bear({tag: 'ms})
MyArr := Arr.bear({tag: 'ma})
f1 := {|x| x}
f2 := {|x| x + 1}
o1 := {a: 1}
c1 := o1.bear({b: 2})
e1 := 1.try./(0)
e2 := 1.try.nopeprop
ev := 3.try
s0 := "ab"
h0 := [s0 == "ab", %{s0: 1}]
sd := s0 + "c"
sm := s0 * 2
'''

# (expression, kind) — kind decides which order laws apply
POOL = [
    ("0", "int"), ("1", "int"), ("-1", "int"), ("2", "int"), ("9223372036854775807", "int"), ("-9223372036854775807", "int"),
    # neighbours that round to the same float64
    ("9007199254740992", "int"), ("9007199254740993", "int"), ("9223372036854775806", "int"),
    ("true", "bool"), ("false", "bool"),
    ("MyInt.new(1)", "myint"), ("MyInt.new(2)", "myint"), ("MyInt.new(-3)", "myint"),
    ("0.0", "float"), ("1.5", "float"), ("-1.5", "float"), ("2.0", "float"), ("-0.0", "float"), ("1.0e300", "float"),
    ('""', "str"), ('"a"', "str"), ('"b"', "str"), ('"ab"', "str"), ('"B"', "str"), ('"1"', "str"),
    # strings whose code points agree modulo 256 with an ASCII string (U+3042 U+3044 ~ "BD", U+0142 ~ "B"): equality is by characters
    ('"abc"', "str"), ("sd", "str"), ("sm", "str"), ('"BD"', "str"), ('"\u3042\u3044"', "str"), ('"\u0142"', "str"), ('"\u00e9"', "str"), ('"e\u0301"', "str"),
    ('MyStr.new("a")', "mystr"), ('MyStr.new("b")', "mystr"),
    ("[]", "arr"), ("[1]", "arr"), ("[1, 2]", "arr"), ("[[1], [2]]", "arr"), ('["a", nil]', "arr"), ("[1.5]", "arr"),
    # containers whose elements are == across kinds (1 == true, 0 == false, 2 == 2.0?): symmetry must survive the nesting
    ("[true]", "arr"), ("[0]", "arr"), ("[false]", "arr"), ("[[0, 2]]", "arr"), ("[[false, 2]]", "arr"), ("[2.0]", "arr"), ("[2]", "arr"), ('["1"]', "arr"),
    ("{a: true}", "obj"), ("{a: 1.0}", "obj"), ("%{1: true}", "map"), ("%{1: 1}", "map"), ("%{true: 2}", "map"),
    ("MyArr.new([1])", "myarr"),
    ("{}", "obj"), ("{a: 1}", "obj"), ("{a: 1, b: [2]}", "obj"), ("{a: {b: 1}}", "obj"), ("o1", "obj"), ("c1", "obj"),
    ("%{}", "map"), ("%{1: 2}", "map"), ('%{"a": [1], 2: nil}', "map"), ("%{[1]: 1}", "map"), ("%{[1]: 1, {a: 1}: 2}", "map"),
    ("(1:3)", "range"), ("(1:3:2)", "range"), ("(nil:nil)", "range"), ('("a":"c")', "range"),
    # ranges whose step is not a plain int are values too: equal to themselves and to an equal copy
    ("(1.0:2.0:0.5)", "range"), ("('a:'z:'b)", "range"), ("(10:1:0)", "range"), ("(1:3:nil)", "range"), ("(1:3:1)", "range"), ("([1]:[2]:{a: 1})", "range"),
    ("nil", "nil"),
    ("f1", "func"), ("f2", "func"), ("{|x| x}", "func"),
    ("e1", "either"), ("e2", "either"), ("ev", "either"), ("3.try", "either"),
    ("e1.err", "err"), ("e2.err", "err"), ("1.try./(0).err", "err"),
]
# order laws are checked among values of the same kind (same prototype): the suite itself pins that a typed
# descendant such as MyInt.new(1) is not == to the plain 1 ("Child.new(1) is NOT 1's proto"), so mixed pairs
# are outside the reading taken here (DESIGN section C18)
ORDERED = {"int": "int", "bool": "int", "myint": "myint", "float": "float", "str": "str", "mystr": "mystr"}


def main(chk):
    ok, broken = obligations(chk, "Props/C18.v")
    n = len(POOL)
    progs, meta = [], []
    # all ordered pairs: ==, != in both directions in ONE program each
    for i in range(n):
        for j in range(i, n):
            a, b = POOL[i][0], POOL[j][0]
            progs.append("x := %s\ny := %s\n[x == y, y == x, x != y, y != x]\n" % (a, b))
            meta.append(("eq", i, j))
    # same-kind pairs: the six order operators + <=> both ways
    groups = {}
    for i, (e, k) in enumerate(POOL):
        if k in ORDERED:
            groups.setdefault(ORDERED[k], []).append(i)
    for g, idxs in groups.items():
        for i in idxs:
            for j in idxs:
                a, b = POOL[i][0], POOL[j][0]
                progs.append("x := %s\ny := %s\n[x < y, x == y, x > y, x <= y, x >= y, x <=> y, y <=> x, "
                             "[x, y].max >= x, [x, y].max >= y, [x, y].min <= x, [x, y].min <= y, [y, x].max == [x, y].max, [y, x].min == [x, y].min]\n" % (a, b))
                meta.append(("ord", i, j))
        # triples: transitivity and max/min/between?/clip
        trip = list(itertools.product(idxs, repeat=3))
        if chk.tier == "quick" and len(trip) > 150:
            chk.rng.shuffle(trip)
            trip = trip[:150]
        for i, j, k in trip:
            a, b, c = POOL[i][0], POOL[j][0], POOL[k][0]
            progs.append("x := %s\ny := %s\nz := %s\n[x < y, y < z, x < z, [x, y, z].max, [x, y, z].min, y.between?(x, z), y.clip(x, z), x <= y, y <= z, "
                         "[x, y, z].max.{|m| m >= x && m >= y && m >= z}, [x, y, z].min.{|m| m <= x && m <= y && m <= z}, "
                         "(y.clip(x, z) == (x if y < x else (z if y > z else y))) if x <= z else (y.clip(x, z) == [[y, x].max, z].min)]\n" % (a, b, c))
            meta.append(("tri", i, j, k))
    res = pancore.run_programs(chk, progs, cmp_msg=False, prelude=PRELUDE)
    viol, model_only, hist = [], [], {}

    def vals(r):
        rep = r["impl"].get("repr")
        if r["impl"]["kind"] != "value" or not rep or not rep.startswith("["):
            return None
        return rep

    for prog, m, r in zip(progs, meta, res):
        hist[m[0]] = hist.get(m[0], 0) + 1
        chk.count(prog, True)
        imp = r["impl"]
        if imp["kind"] == "fuel":
            continue
        rep = vals(r)
        names = [POOL[t][0] for t in m[1:]]
        if rep is None:
            viol.append(("comparison of %s does not produce values: %s" % (names, (imp.get("errk"), imp.get("errmsg"))),
                         {"program": prog, "prelude": PRELUDE, "impl": imp}, "C18:" + m[0] + "-error"))
            continue
        items = split_top(rep[1:-1])
        if m[0] == "eq":
            xy, yx, nxy, nyx = items
            bad = None
            if xy != yx:
                bad = "`x == y` is %s but `y == x` is %s" % (xy, yx)
            elif nxy != ("false" if xy == "true" else "true") or nyx != ("false" if yx == "true" else "true"):
                bad = "`!=` is not the negation of `==` (%s)" % rep
            elif m[1] == m[2] and xy != "true":
                bad = "`x == x` is %s" % xy
            if bad:
                viol.append(("equality law broken for x = %s, y = %s: %s" % (names[0], names[1], bad),
                             {"program": prog, "prelude": PRELUDE, "result": rep}, "C18:eq-" + POOL[m[1]][1]))
                continue
        elif m[0] == "ord":
            lt, eq, gt, le, ge, c1, c2 = items[:7]
            mlaws = items[7:]
            bad = None
            if [lt, eq, gt].count("true") != 1:
                bad = "not exactly one of <, ==, > holds: %s" % [lt, eq, gt]
            elif le != ("true" if "true" in (lt, eq) else "false") or ge != ("true" if "true" in (gt, eq) else "false"):
                bad = "<= / >= are not the unions: %s" % rep
            elif int(c1) != -int(c2) or c1 not in ("-1", "0", "1"):
                bad = "x <=> y = %s but y <=> x = %s" % (c1, c2)
            elif (c1 == "-1") != (lt == "true") or (c1 == "0") != (eq == "true"):
                bad = "<=> disagrees with < / ==: %s" % rep
            elif mlaws != ["true"] * 6:
                bad = "max / min of [x, y] disagree with the order (max >= both, min <= both, independent of the order of the elements): %s" % mlaws
            if bad:
                viol.append(("order law broken for x = %s, y = %s: %s" % (names[0], names[1], bad),
                             {"program": prog, "prelude": PRELUDE, "result": rep}, "C18:trichotomy"))
                continue
        else:
            xy, yz, xz, mx, mn, btw, clp, le1, le2, lmax, lmin, lclip = items
            bad = None
            if xy == "true" and yz == "true" and xz != "true":
                bad = "x < y and y < z but not x < z"
            elif btw != ("true" if (le1 == "true" and le2 == "true") else "false"):
                bad = "between? disagrees with <=: %s" % rep
            elif lmax not in ("true",) or lmin not in ("true",):
                bad = "max / min is not an upper / lower bound of the three values: max %s min %s (%s)" % (mx, mn, rep)
            elif lclip != "true":
                bad = "clip disagrees with the order: y.clip(x, z) = %s" % clp
            if bad:
                viol.append(("order law broken for %s: %s" % (names, bad), {"program": prog, "prelude": PRELUDE, "result": rep}, "C18:transitivity"))
                continue
        if r["verdict"] == "disagree":
            viol.append(("comparison result differs from the reference evaluator for %s: model %s, implementation %s" % (
                names, r.get("model"), rep), {"program": prog, "prelude": PRELUDE, "model": r.get("model"), "impl": imp}, "C18:model-" + m[0]))
    chk.cov["input_distribution"] = hist
    chk.cov["pool"] = [p[0] for p in POOL]
    chk.cov["rule"] = ("pool of %d values: ints incl. extremes, booleans, typed descendants made with Proto.bear(...).new, floats incl. -0.0 and "
                       "1e300, strs, arrays (nested, with nil, typed), objects and bear children, maps with scalar and non-scalar keys, ranges, nil, "
                       "functions, Either values/errors, error values; ALL ordered pairs for == and != in both directions (reflexive, symmetric, "
                       "negation), ALL same-kind pairs for < == > <= >= <=> (trichotomy, unions, antisymmetry, agreement), same-kind triples for "
                       "transitivity and max/min/between?/clip. NaN is outside the order laws. Oracle: the laws themselves on the implementation's "
                       "answers, and PanCore." % len(POOL))
    for i in (0, len(progs) // 2, len(progs) - 1):
        chk.sample({"program": progs[i], "impl": res[i]["impl"].get("repr"), "model_verdict": res[i]["verdict"]})
    return pancore.conclude(chk, ok, broken, "Props/C18.v", res, viol, model_only, "C18",
                            "Core.Interp (==, <=>, Comparable natives) vs props/*_props.go, native/Comparable.pangaea")


def split_top(s):
    out, depth, cur, q = [], 0, "", None
    for ch in s:
        if q:
            cur += ch
            if ch == q:
                q = None
            continue
        if ch in "\"`":
            q = ch
            cur += ch
        elif ch in "[{(":
            depth += 1
            cur += ch
        elif ch in "]})":
            depth -= 1
            cur += ch
        elif ch == "," and depth == 0:
            out.append(cur.strip())
            cur = ""
        else:
            cur += ch
    if cur.strip():
        out.append(cur.strip())
    return out
