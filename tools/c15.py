"""C15 — defer: proof obligations (Props/C15.v) + correspondence of PanCore's
statement-list evaluator with the implementation on generated function bodies,
with an independent trace simulator as the property's direct oracle."""
import itertools
from pv import *
import pancore

TRUTHY = ["true", "1", '"x"', "[0]"]
FALSY = ["false", "0", '""', "[]", "nil"]


class Gen:
    """A function body is a list of statement descriptors; simulate() is the
    property's own reading: statements in order up to the exit; defers reached are
    queued; after the body the queue runs in order until one raises."""

    def __init__(self, rng):
        self.rng = rng
        self.n = 0

    def fresh(self):
        self.n += 1
        return self.n

    def stmt(self, kind, depth):
        i = self.fresh()
        if kind == "M":
            return ("M", i)
        if kind == "D":
            return ("D", i)
        if kind == "DT":
            return ("DG", i, self.rng.choice(TRUTHY), True)
        if kind == "DF":
            return ("DG", i, self.rng.choice(FALSY), False)
        if kind == "DR":
            return ("DR", i)
        if kind == "N":
            return ("N", i, self.body(depth - 1, self.rng.randint(1, 3)))
        if kind == "RET":
            return ("RET", i)
        if kind == "RETG":
            t = self.rng.random() < 0.5
            return ("RETG", i, self.rng.choice(TRUTHY if t else FALSY), t)
        if kind == "RAISE":
            return ("RAISE", i)
        if kind == "RAISEK":
            return ("RAISEK", i, self.rng.choice(["StopIterErr", "TypeErr", "NameErr", "NoPropErr", "ZeroDivisionErr", "AssertionErr", "SyntaxErr", "NotImplementedErr"]))
        if kind == "YSTOP":
            return ("YSTOP", i)
        if kind == "RAISEG":
            t = self.rng.random() < 0.5
            return ("RAISEG", i, self.rng.choice(TRUTHY if t else FALSY), t)
        if kind == "ERR":
            return ("ERR", i)
        raise ValueError(kind)

    def body(self, depth, n):
        kinds = ["M", "M", "D", "D", "DT", "DF", "DR", "RET", "RETG", "RAISE", "RAISEG", "ERR", "RAISEK", "YSTOP"]
        if depth > 0:
            kinds += ["N", "N"]
        return [self.stmt(self.rng.choice(kinds), depth) for _ in range(n)]


def render_body(body, indent="  "):
    lines = []
    for s in body:
        k, i = s[0], s[1]
        if k == "M":
            lines.append('"m%d".p' % i)
        elif k == "D":
            lines.append('defer "d%d".p' % i)
        elif k == "DG":
            lines.append('defer "d%d".p if %s' % (i, s[2]))
        elif k == "DR":
            lines.append('defer Err.new("de%d")' % i)
        elif k == "N":
            lines.append('"n%d".p' % i)
            lines.append("{||\n" + render_body(s[2], indent + "  ") + "\n" + indent + "}()")
        elif k == "RET":
            lines.append("return %d" % i)
        elif k == "RETG":
            lines.append("return %d if %s" % (i, s[2]))
        elif k == "RAISE":
            lines.append('raise Err.new("r%d")' % i)
        elif k == "RAISEG":
            lines.append('raise ValueErr.new("r%d") if %s' % (i, s[2]))
        elif k == "ERR":
            lines.append("1 / 0")
        elif k == "RAISEK":
            lines.append('raise %s.new("k%d")' % (s[2], i))
        elif k == "YSTOP":
            lines.append("yield %d if false" % i)
    return "\n".join(indent + l for l in lines)


def simulate(body, trace):
    """returns ('val', None) | ('ret', i) | ('err', kind, msg) after running defers."""
    queue = []
    out = ("val", None)
    for s in body:
        k, i = s[0], s[1]
        if k == "M":
            trace.append("m%d" % i)
        elif k == "D":
            queue.append(("p", "d%d" % i))
        elif k == "DG":
            if s[3]:
                queue.append(("p", "d%d" % i))
        elif k == "DR":
            queue.append(("e", "de%d" % i))
        elif k == "N":
            trace.append("n%d" % i)
            r = simulate(s[2], trace)
            if r[0] == "err":
                out = r
                break
        elif k == "RET":
            out = ("ret", i)
            break
        elif k == "RETG":
            if s[3]:
                out = ("ret", i)
                break
        elif k == "RAISE":
            out = ("err", "Err", "r%d" % i)
            break
        elif k == "RAISEG":
            if s[3]:
                out = ("err", "ValueErr", "r%d" % i)
                break
        elif k == "ERR":
            out = ("err", "ZeroDivisionErr", "cannot be divided by 0")
            break
        elif k == "RAISEK":
            out = ("err", s[2], "k%d" % i)
            break
        elif k == "YSTOP":
            out = ("err", "StopIterErr", "iter stopped")
            break
    for q in queue:
        if q[0] == "p":
            trace.append(q[1])
        else:
            return ("err", "Err", q[1])
    return out


def program(body):
    return "f := {||\n" + render_body(body) + "\n}\nr := f()\n\"end\".p\n\"done\"\n"


def expected(body):
    trace = []
    r = simulate(body, trace)
    if r[0] == "err":
        return {"kind": "error", "errk": r[1], "errmsg": r[2], "out": "".join(t + "\n" for t in trace)}
    return {"kind": "value", "out": "".join(t + "\n" for t in trace + ["end"])}


def gen_bodies(chk):
    g = Gen(chk.rng)
    bodies = []
    base = ["M", "D", "DT", "DF", "DR", "RET", "RAISE", "ERR", "RETG", "RAISEG", "RAISEK", "YSTOP"]
    # systematic: every kind pair / triple (seed-independent in structure)
    sysrng_state = chk.rng.getstate()
    chk.rng.seed(12345)
    for n in (1, 2, 3):
        for ks in itertools.product(base, repeat=n):
            if n == 3 and chk.tier == "quick" and (dhash(ks) % 3) != 0:
                continue
            bodies.append([g.stmt(k, 0) for k in ks])
    # exit injected at every index of a fixed defer-rich skeleton, nested once and twice
    skel = ["M", "D", "M", "DT", "DF", "M", "D"]
    for ex in ("RET", "RAISE", "ERR", "DR", "RAISEK", "YSTOP", None):
        for pos in range(len(skel) + 1):
            ks = list(skel)
            if ex:
                ks.insert(pos, ex)
            inner = [g.stmt(k, 0) for k in ks]
            bodies.append(inner)
            bodies.append([g.stmt("M", 0), g.stmt("D", 0), ("N", g.fresh(), inner), g.stmt("M", 0), g.stmt("D", 0)])
            bodies.append([g.stmt("D", 0), ("N", g.fresh(), [g.stmt("D", 0), ("N", g.fresh(), inner), g.stmt("M", 0)]), g.stmt("M", 0)])
    chk.rng.setstate(sysrng_state)
    n_rand = 600 if chk.tier == "quick" else 12000
    for _ in range(n_rand):
        bodies.append(g.body(chk.rng.randint(0, 3), chk.rng.randint(1, 6 if chk.tier == "quick" else 10)))
    return bodies


def has(body, kinds):
    for s in body:
        if s[0] in kinds:
            return True
        if s[0] == "N" and has(s[2], kinds):
            return True
    return False


# programs with a hand-derived trace: defers of a function called FROM a deferred expression, defers in a method, and defers in an
# iterator body (run after every step, also the step that ends with StopIterErr)
EXPECT = [
    # a deferred expression is evaluated at exit and its VALUE is dropped (a function value is not called)
    ("deferred_value_is_not_called", 'undo := {|x| "undo #{x}".p; {"redo #{x}".p}}\nf := {|x|\n  defer undo(1)\n  defer "d2".p\n  return x * 2 if x > 0\n  defer undo(3)\n  \'neg\n}\nf(5).p\nf(-1).p\n'
     'divider := {|n| "divider #{n}".p; {|m| raise ValueErr.new("nothing to divide") if m.nil?; m / n}}\ng := {defer divider(1); defer "last".p; \'ok}\ng().p\n',
     "undo 1\nd2\n10\nundo 1\nd2\nundo 3\nneg\ndivider 1\nlast\nok\n"),
    # the guard of a defer uses the one truthiness rule: an object literal whose own B answers false is false
    ("guard_object_with_own_B", 'off := {name: "verbose", B: m{false}}\non := {name: "verbose", B: m{true}}\nh := {|flag|\n  defer "d1".p\n  defer "d2 (guarded)".p if flag\n  defer "d3".p\n  "body".p\n  \'done\n}\n'
     "[h(off), h(on), h(false), h({}), h({a: 1})].p\n",
     "body\nd1\nd3\nbody\nd1\nd2 (guarded)\nd3\nbody\nd1\nd3\nbody\nd1\nd3\nbody\nd1\nd2 (guarded)\nd3\n"
     '["done", "done", "done", "done", "done"]\n'),
    # the guard of `defer e if c` is evaluated when the statement is reached (it sees the state of that moment, its effects are
    # in statement order, a raise aborts the body there); only e waits for the exit
    ("guard_of_defer_is_evaluated_when_reached",
     'chk := {|name, v| "guard #{name}".p; v}\nf := {|x|\n  "s1".p\n  defer "d1".p if chk("g1", true)\n  "s2".p\n  defer "d2".p if chk("g2", false)\n  "s3".p\n  x\n}\nf(1).p\n'
     'g := {|x|\n  opened := true\n  defer "closing".p if opened\n  opened := false\n  defer "never".p if opened\n  x\n}\ng(2).p\n'
     'h := {|x| defer "d".p if nosuchname; "after".p; x}\nh.try.{|fn| fn(3)}.A.p\n',
     "s1\nguard g1\ns2\nguard g2\ns3\nd1\n1\nclosing\n2\n[nil, [NameErr: name `nosuchname` is not defined]]\n"),
    ("defer_calls_function_with_defers",
     'cleanup := {|| defer "cleanup defer 1".p; defer "cleanup defer 2".p; 0}\nf := {|| defer cleanup(); defer "f defer 2".p; defer "f defer 3".p; "body".p}\nf()\n',
     "body\ncleanup defer 1\ncleanup defer 2\nf defer 2\nf defer 3\n"),
    ("second_defer_calls_function_with_three",
     'three := {|| defer "t1".p; defer "t2".p; defer "t3".p; 0}\ng := {|| defer "g1".p; defer three(); defer "g3".p; "gbody".p}\ng()\n',
     "gbody\ng1\nt1\nt2\nt3\ng3\n"),
    ("defer_in_iterator_body",
     'gen := <{|i| defer ("leave step " + i.S).p; yield i if i < 2; recur(i + 1)}>\ngen.new(0)@{|x| x}.p\nit := gen.new(0)\nit.next.p\nit.next.p\n1.try.{|_| it.next}.A.p\n',
     "leave step 0\nleave step 1\nleave step 2\n[0, 1]\nleave step 0\n0\nleave step 1\n1\nleave step 2\n[nil, [StopIterErr: iter stopped]]\n"),
    ("defer_in_method",
     'cleanup := {|| defer "cleanup defer 1".p; defer "cleanup defer 2".p; 0}\nm := {run: m{|| defer "m defer".p; defer cleanup(); "mbody".p}}\nm.run\n',
     "mbody\nm defer\ncleanup defer 1\ncleanup defer 2\n"),
]


def main(chk):
    ok, broken = obligations(chk, "Props/C15.v")
    eres = pancore.run_programs(chk, [e[1] for e in EXPECT], cmp_msg=True, tag="C15x")
    for (name, prog, exp), r in zip(EXPECT, eres):
        chk.count(prog, True)
        if norm_err_msgs(r["impl"].get("out")) != norm_err_msgs(exp):
            chk.fail("defer semantics violated (%s): expected trace %r, implementation printed %r (%s)" % (
                name, exp, r["impl"].get("out"), r["impl"].get("errk")),
                {"program": prog, "expected_out": exp, "impl": r["impl"]}, klass="C15:" + name)
        elif r["verdict"] == "disagree":
            chk.fail("PanCore and the implementation disagree on `%s` although the hand-derived trace accepts the implementation" % name,
                     {"correspondence": "Core.Interp.eval_body vs evaluator/eval_program.go", "program": prog, "model": r.get("model"), "impl": r["impl"]},
                     no_input=True)
    bodies = gen_bodies(chk)
    progs = [program(b) for b in bodies]
    res = pancore.run_programs(chk, progs, cmp_msg=True)
    hist = pancore.summarize(chk, res)
    kinds_hist = {}
    viol, model_only = [], []
    for b, r in zip(bodies, res):
        for s in b:
            kinds_hist[s[0]] = kinds_hist.get(s[0], 0) + 1
        nontriv = has(b, {"D", "DG", "DR"}) and has(b, {"RET", "RETG", "RAISE", "RAISEG", "ERR", "N", "DR", "RAISEK", "YSTOP"})
        chk.count(r["src"], nontriv)
        exp = expected(b)
        imp = r["impl"]
        good = (imp["kind"] == exp["kind"] and imp.get("out", "") == exp["out"] and
                (exp["kind"] != "error" or (imp.get("errk") == exp["errk"] and (imp.get("errmsg") == exp["errmsg"] or exp["errk"] != "Err"))))
        if not good:
            viol.append((b, r, exp))
        elif r["verdict"] == "disagree":
            model_only.append((b, r))
    chk.cov["verdicts"] = hist
    chk.cov["input_distribution"] = kinds_hist
    chk.cov["rule"] = ("%d programs with hand-derived traces (a deferred expression that calls functions with more defers than remain in the caller, "
                       "defers in a method, defers in an iterator body incl. the step that ends with StopIterErr); " % len(EXPECT) +
                       "function bodies from {marker, defer, guarded defer (true/false guard of every built-in type), raising defer, "
                       "return, guarded return, raise, guarded raise, raise of each built-in error kind, a yield that stops an iterator body, failing expression, nested call}: all 1-/2-statement bodies, "
                       "(a third of) 3-statement bodies, an exit injected at every index of a defer-rich skeleton at nesting 0/1/2, "
                       "seeded random bodies of length<=6 (10 thorough), nesting<=3. non-trivial: a defer and an exit/nested call/raising "
                       "defer both occur; distinct by program text. Compared: stdout trace, outcome kind, error kind+message; "
                       "three-way: implementation vs PanCore (vm_compute) vs an independent trace simulator.")
    chk.cov["rule"] = str(chk.cov.get("rule", "")) + " Hand-derived programs include the guard of a guarded defer (evaluated when reached: marker, re-bound variable, raising guard)."
    for i in (0, len(progs) // 2, len(progs) - 1):
        chk.sample({"program": progs[i], "impl": {k: res[i]["impl"].get(k) for k in ("kind", "repr", "errk", "errmsg", "out")},
                    "model_verdict": res[i]["verdict"]})
    chk.cov["trusted_base"] += [
        "PanCore (coq/Core/Interp.v), hand-written model of evaluator/*.go, tied by vm_compute correspondence on every generated program "
        "and on the repository's tests/*.pangaea corpus; AST terms emitted by harness ast2coq from parser.Parse output",
        "gen/World.v regenerated from the running implementation (dumpworld): built-in objects, native sources as syntax",
        "harness eval; Python trace simulator (search oracle only)"]
    chk.assumptions += ["parser is trusted to produce the AST (C02/C16/C17 cover it)",
                        "programs that hit an unmodelled built-in or run out of model fuel are discarded (counted in verdicts)"]
    if viol:
        b, r, exp = viol[0]
        chk.fail("defer semantics violated: expected %s, implementation gave %s" % (
            exp, {k: r["impl"].get(k) for k in ("kind", "errk", "errmsg", "out")}),
            {"program": r["src"], "expected": exp, "impl": r["impl"], "theorem": "C15_defer_spec instance"},
            klass="C15:trace")
    elif model_only:
        b, r = model_only[0]
        chk.fail("PanCore and the implementation disagree on a defer program although the trace oracle accepts the implementation",
                 {"correspondence": "Core.Interp.eval_body vs evaluator/eval_program.go", "program": r["src"],
                  "model": r.get("model"), "impl": r["impl"]}, no_input=True)
    nd = [r for r in res if r["impl"].get("nondet")]
    if nd and not viol:
        r = nd[0]
        chk.fail("the same defer program gives a different result the second time it is evaluated in one interpreter: first %s, then %s" % (
            {k: r["impl"].get(k) for k in ("kind", "errk", "out")}, r["impl"]["nondet"][:1]),
            {"program": r["src"], "first": r["impl"], "second": r["impl"]["nondet"][:2]}, klass="C15:second-evaluation")
    bad_other = [r for r in res if r["verdict"] in ("panic", "nocoq", "syntax")]
    if bad_other and not viol:
        r = bad_other[0]
        chk.fail("generated defer program did not evaluate normally: %s" % r["verdict"],
                 {"program": r["src"], "impl": r["impl"]}, klass="C15:" + r["verdict"])
    # the correspondence must exercise the model (same guard as pancore.conclude)
    disc = [r for r in list(res) + list(eres) if r["verdict"] in ("unsup", "fuel")]
    chk.cov["model_discarded"] = {"unsup_or_fuel": len(disc), "of": len(res) + len(eres)}
    if len(disc) * 2 > len(res) + len(eres) and not viol:
        chk.fail("the model discards %d of %d generated programs (unmodelled built-in or out of fuel): the correspondence with PanCore is not exercised"
                 % (len(disc), len(res) + len(eres)), {"correspondence": "Core.Interp.eval_body vs evaluator/eval_program.go",
                                                        "first_discarded_program": disc[0]["src"][:400]}, no_input=True)
    if not ok and not viol:
        chk.fail(broken, {"theorem_file": "coq/Props/C15.v", "detail": broken}, no_input=True)
    return chk.finish()
