#!/usr/bin/env python3
"""Confirm a seeded change (patch.diff + demonstration made by an independent sub-agent)
and run the checks against it:  tools/seedeval.py /tmp/seedout/c11-1 [C11 ...]
- applies the patch to a scratch worktree of /repo (never to /repo itself),
- confirms: builds, Go tests pass (TestServeBackground ignored), 336 scripts pass, demo output differs,
- runs ./check <id> with VERIF_REPO=<scratch> for the property (and any extra ids given),
- stores everything under /verif/seeded/<name>/ (patch.diff, demo, meta.json)."""
import json, os, shutil, subprocess, sys, glob, re
ROOT = os.path.dirname(os.path.dirname(os.path.abspath(__file__)))
ENV = dict(os.environ, GOFLAGS="-mod=mod", GOPROXY="off", GOSUMDB="off", GOTOOLCHAIN="local")


def sh(cmd, cwd=None, env=None, timeout=3000):
    p = subprocess.run(cmd, shell=True, cwd=cwd, env=env or ENV, stdout=subprocess.PIPE, stderr=subprocess.STDOUT,
                       universal_newlines=True, timeout=timeout)
    return p.returncode, p.stdout


def main():
    src = sys.argv[1].rstrip("/")
    name = os.path.basename(src)
    meta = json.load(open(os.path.join(src, "meta.json")))
    pid = meta.get("property") or name.split("-")[0].upper()
    ids = [pid] + [a for a in sys.argv[2:] if a != pid]
    wt = "/tmp/seedeval-" + name
    sh("git -C /repo worktree remove --force %s" % wt)
    rc, out = sh("git -C /repo worktree add -q --detach %s" % wt)
    res = {"name": name, "property": pid}
    try:
        # baseline demo output
        demo = meta.get("demo_cmd", "")
        demos = [f for f in os.listdir(src) if f not in ("patch.diff", "meta.json") and not f.startswith("out_")
                 and not (f.endswith(".go") and not f.endswith("_test.go")) and not f.endswith((".txt", ".sh", ".out", ".md5"))]
        gotests = []
        for f in demos:
            if f.endswith("_test.go"):
                # place the Go test where the demo command says (cp <file> <repo>/<dir>/)
                m = re.search(r"cp\s+\S*%s\s+(\S+)" % re.escape(f), demo)
                sub = ""
                if m:
                    sub = re.sub(r"^/tmp/seedwt[0-9]?-[a-z0-9]+/?", "", m.group(1)).strip("/")
                    if sub.startswith("."):
                        sub = sub.lstrip("./")
                os.makedirs(os.path.join(wt, sub), exist_ok=True)
                shutil.copy(os.path.join(src, f), os.path.join(wt, sub))
                gotests.append((sub or ".", f))
            elif os.path.isdir(os.path.join(src, f)):
                shutil.copytree(os.path.join(src, f), os.path.join(wt, f), dirs_exist_ok=True)
            else:
                shutil.copy(os.path.join(src, f), wt)
        def run_demo():
            outs = []
            d = next((f for f in demos if f.endswith(".pangaea")), None)
            mt = re.search(r"go run \. test (\S+)", demo)
            if mt and os.path.isdir(os.path.join(wt, os.path.basename(mt.group(1).rstrip("/")))):
                # a directory of scripts run with `pangaea test`
                outs.append(sh("go run . test %s 2>&1 | head -80" % os.path.basename(mt.group(1).rstrip("/")), cwd=wt, timeout=600)[1][-2000:])
            elif d:
                # stdin: `printf '...' | go run ...`  or  `go run ... < file` in the demo command, else empty
                pre, red = "", "< /dev/null"
                m = re.search(r"(printf\s+'[^']*'\s*\|)", demo)
                if m:
                    pre, red = m.group(1) + " ", ""
                m = re.search(r"<\s*(\S+)", demo)
                if m and os.path.exists(os.path.join(wt, os.path.basename(m.group(1)))):
                    red = "< " + os.path.basename(m.group(1))
                outs.append(sh("%sgo run . %s %s 2>&1 | head -60" % (pre, d, red), cwd=wt, timeout=600)[1][-1200:])
            for sub, f in gotests:
                m = re.search(r"-run\s+(\S+)", demo)
                race = "-race" if "-race" in demo else ""
                env2 = dict(ENV, CGO_ENABLED="1") if race else ENV
                o = sh("go test %s -vet=off -count=1 -v -run '%s' ./%s/ 2>&1 | grep -v '^\s*/\|^goroutine\|^$' | head -120" % (
                    race, m.group(1).strip("'\"") if m else ".", sub), cwd=wt, env=env2, timeout=900)[1]
                o = re.sub(r"\d+\.\d+s", "Xs", o)
                o = re.sub(r"0x[0-9a-f]+", "0x..", o)
                outs.append(o[-6000:])
            return "\n".join(outs) if outs else "(no runnable demo found)"
        base = run_demo()
        rc, out = sh("git apply %s" % os.path.join(src, "patch.diff"), cwd=wt)
        res["patch_applies"] = rc == 0
        if rc != 0:
            res["error"] = out[-500:]
            print(json.dumps(res, indent=1)); return 1
        rc, out = sh("go build ./... 2>&1 | tail -5", cwd=wt)
        res["builds"] = "error" not in out.lower() and rc == 0
        for sub, f in gotests:   # the demonstration test itself is expected to fail with the change
            os.rename(os.path.join(wt, sub, f), os.path.join(wt, sub, f + ".off"))
        rc, out = sh("go test -vet=off -count=1 ./... 2>&1 | grep -v 'no test files' | tail -15", cwd=wt, timeout=1500)
        fails = [l for l in out.splitlines() if l.startswith("FAIL") or l.startswith("--- FAIL")]
        real = [l for l in fails if "TestServeBackground" not in l and "TestStop" not in l and "TestServe" not in l and not re.match(r"FAIL\s+github.com/Syuparn/pangaea/props/modules/http/builtin", l) and l.strip() != "FAIL"]
        res["go_tests_pass"] = not real
        if real:
            res["go_test_failures"] = real[:5]
        rc, out = sh("go run . test tests 2>&1 | tail -1", cwd=wt, timeout=900)
        res["scripts_pass"] = out.strip().startswith("pass:")
        for sub, f in gotests:
            os.rename(os.path.join(wt, sub, f + ".off"), os.path.join(wt, sub, f))
        changed = run_demo()
        res["demo_differs"] = base != changed
        res["demo_unmodified"] = base[-600:]
        res["demo_with_change"] = changed[-600:]
        # the checks
        res["checks"] = {}
        for i in ids:
            env = dict(ENV, VERIF_REPO=wt)
            rc, out = sh("./check %s --tier quick 2>&1" % i, cwd=ROOT, env=env, timeout=3000)
            out = "\n".join(l for l in out.splitlines() if not l.startswith("["))
            lines = [l for l in out.splitlines() if l.startswith("VIOLATION") or l.startswith("OK ") or l.startswith("KNOWN")]
            res["checks"][i] = {"exit": "violation" if any(l.startswith("VIOLATION") for l in lines) else "ok",
                                "lines": [l[:300] for l in lines][:6], "detail": out[-800:]}
        # the per-scratch harness binaries are of no use once the checks have run
        for f in os.listdir(os.path.join(ROOT, "build")) if os.path.isdir(os.path.join(ROOT, "build")) else []:
            if f.startswith("panharness-tmp_seedeval_" + name.replace("-", "_")):
                os.remove(os.path.join(ROOT, "build", f))
        dst = os.path.join(ROOT, "seeded", name)
        os.makedirs(dst, exist_ok=True)
        for f in os.listdir(src):
            if os.path.isdir(os.path.join(src, f)):
                shutil.copytree(os.path.join(src, f), os.path.join(dst, f), dirs_exist_ok=True)
            else:
                shutil.copy(os.path.join(src, f), dst)
        meta.update({"confirmed": {k: res.get(k) for k in ("patch_applies", "builds", "go_tests_pass", "scripts_pass", "demo_differs")},
                     "what_i_ran": "tools/seedeval.py: patch applied to a scratch worktree of /repo; go build ./...; go test -vet=off -count=1 ./... "
                                   "(TestServeBackground/http port tests ignored); go run . test tests; demo before/after; VERIF_REPO=<scratch> ./check <id> --tier quick",
                     "checks": {i: {"result": c["exit"], "lines": c["lines"]} for i, c in res["checks"].items()}})
        json.dump(meta, open(os.path.join(dst, "meta.json"), "w"), indent=1)
        print(json.dumps({k: v for k, v in res.items() if k not in ("demo_unmodified", "demo_with_change")}, indent=1)[:3000])
    finally:
        sh("git -C /repo worktree remove --force %s" % wt)
        sh("git -C /verif checkout -- evidence 2>/dev/null")
    return 0


if __name__ == "__main__":
    sys.exit(main())
