"""C17 — literals and names: proof obligations (Props/C17.v) + correspondence of
Lex/Literals.v and Lex/Idents.v with parser/parser.go.y on generated spellings.

Every case carries the answer the property demands, computed by a direct Python
oracle from the *parts* the spelling was built from (int(), fractions.Fraction,
struct for float bits, an independent escape decoder).  A disagreement between the
implementation and that oracle is a failing input of the property (VIOLATION with
the spelling); a disagreement between the Coq model and the implementation on a
case where the implementation satisfies the oracle is reported as a divergence
without a failing input."""
import random
import struct
from fractions import Fraction

from pv import *

MAX64 = 2 ** 63 - 1
KEYWORDS = ["if", "else", "return", "raise", "yield", "defer"]
DIG = "0123456789abcdefghijklmnopqrstuvwxyz"
PREFIXES = [(10, ""), (16, "0x"), (16, "0X"), (8, "0o"), (8, "0O"), (2, "0b"), (2, "0B")]


# ---------------------------------------------------------------- oracles
def want_int(v):
    return "i:%d" % v if 0 <= v <= MAX64 else "x"


def want_float(fr):
    """binary64 nearest-even to the rational fr (CPython's int/int true division is
    correctly rounded); beyond the finite range the literal must be refused."""
    try:
        f = fr.numerator / fr.denominator
    except OverflowError:
        return "x"
    if f == float("inf"):
        return "x"
    return "f:%016x" % struct.unpack(">Q", struct.pack(">d", f))[0]


SIMPLE = {"a": 7, "b": 8, "f": 12, "n": 10, "r": 13, "t": 9, "v": 11, "\\": 92, '"': 34}


def py_unquote(body):
    """Go's escape table for a double-quoted string, written independently of the model."""
    out, i, n = bytearray(), 0, len(body)
    hexd = b"0123456789abcdefABCDEF"
    while i < n:
        c = body[i]
        if c == 0x5C:
            if i + 1 >= n:
                return None
            e = chr(body[i + 1])
            if e in SIMPLE:
                out.append(SIMPLE[e])
                i += 2
            elif e in "xuU":
                k = {"x": 2, "u": 4, "U": 8}[e]
                h = body[i + 2:i + 2 + k]
                if len(h) != k or any(b not in hexd for b in h):
                    return None
                v = int(h.decode(), 16)
                if e == "x":
                    out.append(v)
                else:
                    if v > 0x10FFFF or 0xD800 <= v <= 0xDFFF:
                        return None
                    out += chr(v).encode("utf-8")
                i += 2 + k
            elif e in "01234567":
                h = body[i + 1:i + 4]
                if len(h) != 3 or any(b not in b"01234567" for b in h):
                    return None
                v = int(h.decode(), 8)
                if v > 255:
                    return None
                out.append(v)
                i += 4
            else:
                return None
        elif c in (0x22, 0x0A):
            return None
        else:
            out.append(c)
            i += 1
    return bytes(out)


EMBED = re.compile(r'^"(\\"|[^"\n\r#])*#\{')


def want_str(body):
    b = body.encode("utf-8")
    if EMBED.match('"' + body):
        return None                       # an embedded string, another form
    r = py_unquote(b)
    return "x" if r is None else "s:" + r.hex()


# ---------------------------------------------------------------- generators
def with_seps(d):
    """d plus: one '_' at every legal place, '_' at all places, one double '__'."""
    out = [d]
    for i in range(1, len(d)):
        out.append(d[:i] + "_" + d[i:])
    if len(d) > 2:
        out.append("_".join(d))
        out.append(d[:1] + "__" + d[1:])
    return out


def rand_seps(r, d):
    s = d[0]
    for ch in d[1:]:
        if r.random() < 0.25:
            s += "_" * r.choice([1, 1, 1, 2, 3])
        s += ch
    return s


def digits(r, base, n, lead_nonzero=False):
    s = "".join(r.choice(DIG[:base]) for _ in range(n))
    if lead_nonzero and s[0] == "0":
        s = "1" + s[1:]
    if base == 16 and r.random() < 0.5:
        s = s.upper()
    return s


def to_base(v, base):
    if v == 0:
        return "0"
    s = ""
    while v:
        s = DIG[v % base] + s
        v //= base
    return s


class Cases:
    def __init__(self):
        self.lits = []       # (kind, src, want, klass_if_wrong)
        self.names = []      # (name, should_work, klass)
        self.embs = []       # (source, want) interpolated strings: implementation vs oracle only
        self.seen = set()

    def lit(self, kind, src, want, klass):
        if src in self.seen or want is None:
            return
        self.seen.add(src)
        self.lits.append((kind, src, want, klass))

    def int_case(self, base, prefix, body):
        v = int(body.replace("_", ""), base)
        self.lit("int%d" % base, prefix + body, want_int(v), "C17:int-overflow" if v > MAX64 else "C17:int-value")

    def expint_case(self, mant, e, k):
        m = int(mant.replace("_", ""))
        fr = Fraction(m) * Fraction(10) ** k
        if fr.denominator == 1:
            self.lit("expint", mant + e + str(k), want_int(fr.numerator), "C17:exp-inexact")
        else:
            # the form denotes no integer: it cannot be represented, the property asks for refusal
            self.lit("expint-nonint", mant + e + str(k), "x", "C17:exp-nonint")

    def float_case(self, ip, fp, e=None, k=None):
        src = ip + "." + fp
        fd = fp.replace("_", "")
        fr = Fraction(int((ip.replace("_", "") or "0") + fd), 10 ** len(fd))
        if e is not None:
            src += e + k
            fr *= Fraction(10) ** int(k)
        w = want_float(fr)
        self.lit("float" if e is None else "expfloat", src, w, "C17:float-range" if w == "x" else "C17:float-nearest")

    def str_case(self, body):
        w = want_str(body)
        self.lit("str", '"' + body + '"', w, "C17:bad-escape" if w == "x" else "C17:string-decode")

    def emb_case(self, parts):
        ws = [want_str(p) for p in parts]
        src = '"' + parts[0] + "#{1}" + parts[1] + "#{2}" + parts[2] + '"'
        if "x" in ws:
            want = "x"
        else:
            raw = bytes.fromhex(ws[0][2:]) + b"1" + bytes.fromhex(ws[1][2:]) + b"2" + bytes.fromhex(ws[2][2:])
            want = "s:" + raw.hex()
        self.embs.append((src, want))

    def name(self, n):
        if n in self.seen:
            return
        self.seen.add(n)
        ok = re.fullmatch(r"[a-zA-Z_][a-zA-Z0-9_]*[!?]?", n) is not None and n not in KEYWORDS
        if re.match(r"_+[^a-zA-Z_]", n):
            klass = "C17:underscore-nonletter"
        elif any(n.startswith(k) for k in KEYWORDS):
            klass = "C17:keyword-prefix"
        else:
            klass = "C17:name"
        self.names.append((n, ok, klass))


def dec_expansion(fr):
    """exact decimal spelling (int part, fraction digits) of a non-negative rational
    whose denominator is a power of two."""
    ip = fr.numerator // fr.denominator
    rem = fr - ip
    fd = ""
    while rem:
        rem *= 10
        d = rem.numerator // rem.denominator
        fd += str(d)
        rem -= d
    return str(ip), fd or "0"


def spell_float_forms(c, fr_digits_ip, fd, r):
    """the same decimal as a plain float and in exponent form with the point moved"""
    ip = fr_digits_ip
    c.float_case(ip, fd)
    alld = (ip + fd).lstrip("0") or "0"
    lead = len(ip + fd) - len((ip + fd).lstrip("0"))
    # d.ddd e k
    k = len(ip) - lead - 1
    mant_i, mant_f = alld[0], (alld[1:] or "0")
    c.float_case(mant_i, mant_f, r.choice("eE"), str(k))


def gen_cases(chk):
    c = Cases()
    sysr = random.Random(17)        # systematic part: independent of the seed
    r = chk.rng
    quick = chk.tier == "quick"

    # --- 0. the recorded failing inputs first
    for base, p, b in [(10, "", "99999999999999999999"), (10, "", "9223372036854775808"),
                       (16, "0x", "8000000000000000"), (16, "0x", "ffff_ffff_ffff_ffff")]:
        c.int_case(base, p, b)
    for m, k in [("1", 23), ("123456789012345678", 1), ("1", 19), ("1", 18), ("1", -3), ("15", -1), ("100", -2)]:
        c.expint_case(m, "e", k)
    c.float_case("1", "0", "e", "23")
    c.float_case("8", "5", "e", "22")
    c.float_case("1", "0", "e", "400")
    for b in ["a\\db", "a\\'b", "\\400", "\\ud800", "a\\tb", "\\", "\\x4", "a\\qb#{", "#{1}", "a#b#{1}"]:
        c.str_case(b)
    for n in ["iffy", "elsewhere", "returned", "raiser", "yields", "deferred", "if!", "_1", "_?", "__9", "if", "x"]:
        c.name(n)

    # --- 1. integers: every form x digit counts 1..25 x separators at every legal place
    for base, prefix in PREFIXES:
        for n in range(1, 26):
            d = digits(sysr, base, n, lead_nonzero=(n % 2 == 1))
            for b in with_seps(d):
                c.int_case(base, prefix, b)
        # values within +-3 of 2^63 and 2^64, zero, leading zeros
        for centre in (2 ** 63, 2 ** 64):
            for dv in range(-3, 4):
                b = to_base(centre + dv, base)
                c.int_case(base, prefix, b)
                c.int_case(base, prefix, "00" + b)
                c.int_case(base, prefix, b[:1] + "_" + b[1:])
        for b in ["0", "00", "0_0", "1", "7" if base > 2 else "1"]:
            c.int_case(base, prefix, b)
    for n in range(1, 18):                       # hex up to 17 digits, extremes
        for ch in "7f8F1":
            c.int_case(16, "0x", ch * n)
    nrand = 1500 if quick else 30000
    for _ in range(nrand):
        base, prefix = r.choice(PREFIXES)
        maxd = {10: 21, 16: 18, 8: 24, 2: 66}[base]
        c.int_case(base, prefix, rand_seps(r, digits(r, base, r.randint(1, maxd))))

    # --- 2. exponent-int: mantissa digit counts 1..25, exponents -5..25
    for n in range(1, 26):
        d = digits(sysr, 10, n, lead_nonzero=True)
        dz = d[:max(1, n - 5)] + "0" * (n - max(1, n - 5))      # trailing zeros: negative exponents stay integral
        for k in range(-5, 26):
            c.expint_case(d, "e", k)
            c.expint_case(dz, "E", k)
        for b in with_seps(d)[1:]:
            c.expint_case(b, "e", 2)
            c.expint_case(b, "e", -1)
    for dv in range(-3, 4):
        v = 2 ** 63 + dv
        c.expint_case(str(v), "e", 0)
        c.expint_case(str(v) + "0", "e", -1)
        c.expint_case(str(v) + "000", "E", -3)
        c.expint_case(str(v // 10), "e", 1)
        c.expint_case(str(v // 1000), "e", 3)
    for m, k in (("12345678901234567890", -1), ("1_000_000_000_000_000_000_000", -6), ("123456789012345678901234567890", -12), ("98765432109876543210", -2)):
        c.expint_case(m, "e", k)
    for m in ["0", "1", "9", "10", "922", "9223372036854775807", "00012"]:
        for k in [18, 19, 20, 100, 400, -1, -2, -3, -4, -19, -20, -21, -400, 0]:
            c.expint_case(m, "e", k)
    for k in ["007", "-0", "-007", "00"]:
        c.lit("expint", "12e" + k, want_int(12 * 10 ** int(k)) if int(k) >= 0 else "x", "C17:exp-nonint" if int(k) < 0 else "C17:exp-inexact")
    for _ in range(nrand // 2):
        m = digits(r, 10, r.randint(1, 20))
        k = r.randint(-8, 20)
        if r.random() < 0.5:            # make it integral
            m = m + "0" * max(0, -k)
        c.expint_case(rand_seps(r, m), r.choice("eE"), k)

    # --- 3. floats
    for ni in range(0, 26):
        for nf in range(1, 26):
            if quick and (ni * 7 + nf * 3) % 5 not in (0, 1):
                continue
            ip = digits(sysr, 10, ni, lead_nonzero=True) if ni else ""
            fp = digits(sysr, 10, nf)
            c.float_case(ip, fp)
            if (ni + nf) % 3 == 0:
                for a in (with_seps(ip) if ip else [""]):
                    c.float_case(a, fp)
                for b in with_seps(fp):
                    c.float_case(ip, b)
    for k in list(range(-5, 26)) + [307, 308, 309, 310, -307, -308, -322, -323, -324, -325, -330, 400, -400, 1000, -1000]:
        for ip, fp in [("1", "0"), ("", "5"), ("9", "999"), ("12_345", "678_9"), ("0", "000123"), ("1", "7976931348623157"),
                       ("4", "9"), ("2", "2250738585072014"), ("0", "0")]:
            c.float_case(ip, fp, "e" if k % 2 else "E", str(k))
    # extremes and famous hard cases
    for ip, fp, k in [("1", "7976931348623157", "308"), ("1", "7976931348623158", "308"), ("1", "7976931348623159", "308"),
                      ("1", "797693134862315807", "308"), ("1", "797693134862315808", "308"),
                      ("4", "9", "-324"), ("2", "4703282292062327", "-324"), ("2", "4703282292062328", "-324"),
                      ("2", "4703282292062327208", "-324"), ("2", "4703282292062327209", "-324"),
                      ("2", "2250738585072011", "-308"), ("2", "2250738585072012", "-308"), ("2", "2250738585072014", "-308"),
                      ("9007199254740993", "0", "0"), ("9007199254740992", "5", "0"), ("9007199254740993", "5", "0"),
                      ("9007199254740995", "0", "0"), ("1", "00000000000000011102230246251565404236316680908203125", "0"),
                      ("1", "00000000000000011102230246251565404236316680908203124", "0"),
                      ("1", "00000000000000011102230246251565404236316680908203126", "0"),
                      ("0", "1", "0"), ("0", "3", "0"), ("123456789012345678", "0", "0"), ("5", "0", "-324"), ("3", "0", "-324")]:
        c.float_case(ip, fp, "e", k)
        if k == "0":
            c.float_case(ip, fp)
    ip, fd = dec_expansion(Fraction(1, 2 ** 1075))          # exactly half the least subnormal: tie, to even = 0
    c.float_case(ip, fd)
    c.float_case(ip, fd + "1")
    c.float_case(ip, fd[:-1] + "4")
    ip, fd = dec_expansion(Fraction(3, 2 ** 1075))          # tie between 1 and 2 ulps of the subnormal range
    c.float_case(ip, fd)
    c.float_case(str(2 ** 1024 - 2 ** 970), "0")            # the overflow threshold: tie, to even = overflow
    c.float_case(str(2 ** 1024 - 2 ** 970 - 1), "0")
    c.float_case(str(2 ** 1024 - 2 ** 971), "0")
    c.float_case("1" + "0" * 400, "0")
    # constructed half-way cases: (2M+1) * 2^(E-1) lies exactly between M*2^E and (M+1)*2^E
    nties = 150 if quick else 1500
    for i in range(nties):
        rr = sysr if i < nties // 2 else r
        sub = rr.random() < (0.04 if quick else 0.1)      # 1075-digit spellings are slow in Coq's Z
        if sub:
            M, E = rr.randint(1, 2 ** 52 - 1), -1074
        else:
            M, E = rr.randint(2 ** 52, 2 ** 53 - 1), rr.randint(-90, 45)
        tie = Fraction(2 * M + 1) * Fraction(2) ** (E - 1)
        ip, fd = dec_expansion(tie)
        if len(fd) > 1200:
            continue
        spell_float_forms(c, ip, fd, rr)
        spell_float_forms(c, ip, fd + "1", rr)                               # just above the tie
        lo = fd.rstrip("0")
        if lo:
            spell_float_forms(c, ip, lo[:-1] + str(int(lo[-1]) - 1) + "9", rr)   # just below
    # 17..20 significant digits
    for _ in range(400 if quick else 8000):
        nd = r.randint(17, 20)
        d = digits(r, 10, nd, lead_nonzero=True)
        cut = r.randint(0, nd - 1)
        ip, fp = d[:cut], d[cut:]
        if r.random() < 0.5:
            c.float_case(rand_seps(r, ip) if ip else "", rand_seps(r, fp))
        else:
            c.float_case(rand_seps(r, ip) if ip else "", rand_seps(r, fp), r.choice("eE"), str(r.randint(-330, 310)))

    # --- 4. strings
    for code in range(0x20, 0x7F):
        ch = chr(code)
        c.str_case("a\\" + ch + "b")           # every two-character escape
        c.str_case("\\" + ch)
        c.str_case(ch)                          # the character alone
        c.str_case("a" + ch + "\\n")
        c.str_case("\\\\" + ch)                 # after an escaped backslash
    for b in ["", "\\x41", "\\x4", "\\x4g", "\\xg4", "\\x", "\\xff", "\\x80", "\\x00", "\\xFFz", "\\u00e9", "\\u00E9", "\\u12", "\\u",
              "\\ud7ff", "\\ud800", "\\udbff", "\\udfff", "\\ue000", "\\uffff", "\\u0000", "\\u007f", "\\u0080", "\\u07ff", "\\u0800",
              "\\U0001F600", "\\U0010ffff", "\\U00110000", "\\U0000d800", "\\U00010000", "\\U0000ffff", "\\Uffffffff", "\\U0001F60",
              "\\101", "\\377", "\\400", "\\777", "\\8", "\\18", "\\1", "\\12", "\\128", "\\000", "\\0", "\\08", "\\1234",
              "é", "日本語", "😀", "a\tb", "\x01", "\x7f", "tab\there\\n", "a'b", "a\\\"b", "\\\"", "say \\\"hi\\\"", "a\\\\", "\\\\\\\\",
              "a#b", "#", "a#", "##{", "a\\#b", "100%", "{}", "#}", "a\\", "a\\\\\\", "x\\ny\\tz\\\\w\\\"v", "\\a\\b\\f\\n\\r\\t\\v",
              # an escaped backslash is one backslash and what follows it is plain text, whatever it looks like
              "\\\\u{41}", "C:\\\\u{sers}\\\\u{beef}", "\\\\x41", "\\\\u0041", "\\\\U0001F600", "\\\\101", "\\\\n\\\\t", "\\\\\\\\u{41}", "a\\\\u{1F600}b",
              "\\u{41}", "\\u{1F600}", "\\x{41}", "u{41}", "\\\\#", "\\\\\\#{"]:
        c.str_case(b)
    pool = (["\\" + e for e in 'abfnrtv\\"'] + ["\\x41", "\\xfe", "\\u00e9", "\\u20ac", "\\U0001F600", "\\101", "\\007", "é", "€", "#", "'", " ", "\t"] +
            list("abcXYZ019_-+*/(){}[]<>.,:;!?@$%^&|~`"))
    bad = ["\\d", "\\'", "\\ ", "\\xg1", "\\u12g4", "\\400", "\\9", "\\ud800", "\\U00110000", "\\e", "\\0", "\\?"]
    for _ in range(1200 if quick else 30000):
        items = [r.choice(pool) for _ in range(r.randint(0, 12))]
        if r.random() < 0.3:
            items.insert(r.randint(0, len(items)), r.choice(bad))
        body = "".join(items).replace("#{", "# {")
        c.str_case(body)

    # --- 5. names
    for n in ("a_", "a__", "a__b", "if_", "max__len", "done_?", "x_!", "_a_", "_a__b", "A_", "a1_2__3", "_p_?", "z__"):
        c.name(n)
    # interpolated strings: every piece (before, between, after the interpolations) is decoded / refused alike
    # braces, hashes and quotes-like characters at the start / end of a piece are ordinary characters
    for frag in ("}", "{", "}}", "{{", "}{", "{a}", "`", "'", "|", "$"):
        for where in range(3):
            parts = ["h", "m", "t"]
            parts[where] = frag
            c.emb_case(parts)
            parts[where] = frag + "z"
            c.emb_case(parts)
            parts[where] = "z" + frag
            c.emb_case(parts)
    for ch in "nrt\\\"0dq x":
        esc = "\\" + ch
        for where in range(3):
            parts = ["h", "m", "t"]
            parts[where] = "a" + esc + "b"
            c.emb_case(parts)
    for kw in KEYWORDS:
        c.name(kw)
        for mark in "!?":
            c.name(kw + mark)
        alpha = "a0_" if kw == "if" else "aZ0_"
        room = 8 - len(kw)
        tails = [""]
        for _ in range(room):
            tails = [t + ch for t in tails for ch in alpha]
            for t in tails:
                c.name(kw + t)                                   # keyword-prefixed
                if len(kw + t) < 8:
                    c.name(kw + t + "!")
                    c.name(kw + t + "?")
                pre = ("x" + t[1:]) if t[0] == "0" else t
                c.name(pre + kw)                                 # keyword-suffixed
                if len(pre + kw) < 8:
                    c.name(pre + kw + "?")
        for other in KEYWORDS:
            c.name(kw + other)
            c.name(kw + "_" + other)
    for n in ["_", "__", "___", "_a", "__a", "_a_", "_A1", "_a?", "__b!", "_if", "_if?", "__else", "_return_", "a", "Z", "a_", "a1", "a_1?", "A!",
              "m", "mm", "m1", "m_", "e", "e5", "E", "x0b1", "b", "o", "nil", "true", "self", "Int", "p",
              "_1", "_9a", "__0", "_?", "__!", "_1?", "_0_", "___7x"]:
        c.name(n)
    first = "abcdefghijklmnopqrstuvwxyzABCDEFGHIJKLMNOPQRSTUVWXYZ_"
    word = first + "0123456789"
    for _ in range(1500 if quick else 30000):
        n = r.choice(first) + "".join(r.choice(word) for _ in range(r.randint(0, 9))) + r.choice(["", "", "!", "?"])
        c.name(n)
    return c


# ---------------------------------------------------------------- Coq rendering
def quick_tier(chk):
    return chk.tier == "quick"


def coq_spelling(s):
    b = s.encode("utf-8")
    if all(0x20 <= x <= 0x7E for x in b):
        return "SpS " + coq_string(s)
    return "SpL [" + "; ".join(str(x) for x in b) + "]"


def go2coq(g):
    if g.startswith("i:"):
        return "LInt " + zlit(g[2:])
    if g.startswith("f:"):
        return "LFloat %d" % int(g[2:], 16)
    if g.startswith("s:"):
        return "LStr [" + "; ".join(str(x) for x in bytes.fromhex(g[2:])) + "]"
    if g == "x":
        return "LReject"
    return "LNotLit"


def cb(x):
    return "true" if x else "false"


def main(chk):
    ok, broken = obligations(chk, "Props/C17.v")
    c = gen_cases(chk)
    lits, names = c.lits, c.names
    chk.note("cases: %d literal spellings, %d names" % (len(lits), len(names)))
    louts = harness("litval", [{"src": s} for _, s, _, _ in lits], shards=NCPU)
    nouts = harness("litval", [{"name": n} for n, _, _ in names], shards=NCPU)
    chk.note("harness done")

    # 1. the direct oracle of the property against the implementation
    failing = []          # (klass, what, replay)
    hist = {}
    for (kind, src, want, klass), o in zip(lits, louts):
        hist[kind] = hist.get(kind, 0) + 1
        chk.count(("lit", src), len(src) > 1)
        if o["r"] != want:
            failing.append((klass, "literal `%s` evaluates to %s, the written value demands %s" % (src, o["r"], want),
                            {"harness": "litval", "src": src, "got": o["r"], "want": want, "form": kind}))
    eouts = harness("litval", [{"src": s} for s, _ in c.embs], shards=NCPU)
    for (src, want), o in zip(c.embs, eouts):
        hist["embedded-str"] = hist.get("embedded-str", 0) + 1
        chk.count(("emb", src), True)
        if o["r"] != want:
            failing.append(("C17:bad-escape" if want == "x" else "C17:string-decode",
                            "interpolated string `%s` evaluates to %s, the written text demands %s" % (src, o["r"], want),
                            {"harness": "litval", "src": src, "got": o["r"], "want": want, "form": "embedded-str"}))
    for (n, should, klass), o in zip(names, nouts):
        hist["name"] = hist.get("name", 0) + 1
        chk.count(("name", n), True)
        if should and not (o["var"] and o["prop"] and o["sym"]):
            what = [k for k in ("var", "prop", "sym") if not o[k]]
            failing.append((klass, "name `%s` matches [a-zA-Z_][a-zA-Z0-9_]*[!?]? and is not reserved, but does not work as %s (`%s := 1; %s` -> %s, `{%s: 1}.%s` -> %s, `'%s` -> %s)"
                            % (n, "/".join(what), n, n, o["raw"][0], n, n, o["raw"][1], n, o["raw"][2]),
                            {"harness": "litval", "name": n, "got": o, "want": "var, prop and sym all work"}))
        if should and klass != "C17:underscore-nonletter":
            private = n.startswith("_")
            # `sym?` follows object/str.go's own patterns, which know one leading underscore only
            need_symp = not n.startswith("__") and n != "_"
            okl = o.get("listed") and (o.get("symp") or not need_symp) and (o.get("public") == (not private))
            if not okl:
                failing.append(("C17:name-listing", "name `%s` is accepted but is not treated as a %s property name / symbol "
                                "(`{%s: 1}.keys(private?: true).has?`, `.keys.has?`, `'%s.sym?` -> %s)" % (
                                    n, "private" if private else "public", n, n, o.get("rawlist")),
                                {"harness": "litval", "name": n, "got": o, "want": "listed by keys, public iff no leading `_`, sym? true"}))
        if n in KEYWORDS and (o["var"] or o["prop"]):
            failing.append(("C17:reserved", "reserved word `%s` is accepted as a name" % n, {"harness": "litval", "name": n, "got": o}))

    # names are identified by their WHOLE text: two long names sharing a long prefix (or suffix) are two names
    pair_progs, pair_meta = [], []
    for L in (1, 7, 15, 16, 31, 32, 33, 63, 64, 65, 127, 128, 255, 256, 1000):
        for mk in (lambda p, t: p + t, lambda p, t: t + p, lambda p, t: "_" + p + t, lambda p, t: p + t + "?"):
            body = ("ab0_"[i % 4] for i in range(L))
            pfx = "k" + "".join(body)
            n1, n2 = mk(pfx, "x"), mk(pfx, "y")
            s1, s2 = (n1, n2) if not n1.endswith("?") else ("'" + n1, "'" + n2)
            prog = ("v%s := 1\nv%s := 2\no := {%s: 3, %s: 4}\n[v%s, v%s, o.keys(private?: true).len, o['%s], o['%s], '%s == '%s, %%{'%s: 1, '%s: 2}.len]"
                    % (n1.rstrip("?"), n2.rstrip("?"), s1, s2, n1.rstrip("?"), n2.rstrip("?"), n1, n2, n1, n2, n1, n2))
            pair_progs.append(prog)
            pair_meta.append((n1, n2))
            if not n1.endswith("?"):
                # the same two names as top-level variables of a source evaluated with evalEnv: both are in the result
                pair_progs.append('e := "%s := 1\\n%s := 2".evalEnv\n[e[\'%s], e[\'%s], e.keys(private?: true).len, e[\'%s] + 2, e[\'%s] + 2, false, 2]' % (n1, n2, n1, n2, n1, n2))
                pair_meta.append((n1 + " (evalEnv)", n2))
    pouts = harness("eval", [{"src": p_} for p_ in pair_progs], shards=NCPU)
    for prog, (n1, n2), o in zip(pair_progs, pair_meta, pouts):
        hist["name-pair"] = hist.get("name-pair", 0) + 1
        chk.count(("name-pair", n1, n2), True)
        if not (o["kind"] == "value" and o.get("repr") == "[1, 2, 2, 3, 4, false, 2]"):
            failing.append(("C17:name-identity", "the names `%s…%s` and `…%s` (%d characters, differing in one) are not two different names: "
                            "variables, properties, symbols, map keys give %s, expected [1, 2, 2, 3, 4, false, 2]" % (
                                n1[:12], n1[-3:], n2[-3:], len(n1), o.get("repr") or (o.get("errk"), o.get("errmsg"))),
                            {"harness": "eval", "program": prog, "got": {k: o.get(k) for k in ("kind", "repr", "errk", "errmsg")},
                             "want": "[1, 2, 2, 3, 4, false, 2]"}))
            break

    # literals in script FILES (read by runscript.ReadFile / the test driver, not handed over as text): the bytes of the file
    # are the source — a CR LF pair inside a raw str is part of the str, a quoted str with escapes denotes the same value
    fdir = os.path.join(BUILD, "c17_files_%d" % os.getpid())
    body = 's := `ab\r\ncd`\r\nassertEq(s.len, 6)\r\nassertEq(s == "ab\\r\\ncd", true)\r\nassertEq(s@ord, [97, 98, 13, 10, 99, 100])\r\n' \
           't := `x\ny`\r\nassertEq(t.len, 3)\r\nu := "tab\\there"\r\nassertEq(u.len, 8)\r\nassertEq(`\t`.len, 1)\r\n"file done".p\r\n'
    fouts = harness("runtest", [{"files": [["a_test.pangaea", body]], "dir": fdir + "a"},
                                {"files": [["main.pangaea", body]], "dir": fdir + "b", "mode": "file"}])
    for how, o in zip(("pangaea test <dir>", "pangaea <file>"), fouts):
        hist["script-file"] = hist.get("script-file", 0) + 1
        chk.count(("script-file", how), True)
        if not (o["code"] == 0 and "file done" in o["out"]):
            failing.append(("C17:script-file", "a script file with CR LF line ends and a raw str spanning lines does not keep the bytes of its literals when run "
                            "with `%s`: exit %s, stderr %r" % (how, o["code"], o["err"][:300]),
                            {"harness": "runtest", "how": how, "file_bytes": body, "got": o, "want": "exit 0, prints `file done`"}))

    # 2. correspondence with the Coq models (vm_compute inside Coq)
    lrows = ["(%d, %s, %s)" % (i, coq_spelling(src), go2coq(o["r"])) for i, ((_, src, _, _), o) in enumerate(zip(lits, louts))]
    nrows = ["(%d, %s, %s, %s, %s, %s)" % (i, coq_spelling(n), cb(o["var"]), cb(o["prop"]), cb(o["sym"]), cb(o["tok"]))
             for i, ((n, _, _), o) in enumerate(zip(names, nouts))]
    lsh = [lrows[k::NCPU] for k in range(NCPU)]      # round-robin: long spellings are spread evenly
    nsh = [nrows[k::NCPU] for k in range(NCPU)]
    bodies = []
    for k in range(max(len(lsh), len(nsh))):
        lr = lsh[k] if k < len(lsh) else []
        nr = nsh[k] if k < len(nsh) else []
        body = ("From Coq Require Import ZArith List String.\nImport ListNotations.\n"
                "From PanVerif Require Import Lex.Literals Lex.Idents.\nOpen Scope string_scope.\nOpen Scope Z_scope.\n"
                "Definition lcases : list lcase := [\n" + ";\n".join(lr) + "].\n"
                "Definition ncases : list ncase := [\n" + ";\n".join(nr) + "].\n"
                "Definition ML := Eval vm_compute in lit_report lcases.\nPrint ML.\n"
                "Definition MN := Eval vm_compute in name_mismatches ncases.\nPrint MN.\n")
        bodies.append(("cases_C17_%d" % k, body))
    results = coq_eval_many(bodies, timeout=900 if quick_tier(chk) else 3000)
    chk.note("model evaluated inside Coq (%d shards)" % len(bodies))
    lmism, nmism, notlit = [], [], 0
    for (name, _), (rc, out) in zip(bodies, results):
        flat = " ".join(out.split())
        if rc != 0:
            chk.fail("correspondence shard %s did not evaluate: %s" % (name, out[-600:]),
                     {"correspondence": "Lex.Literals / Lex.Idents vs parser/parser.go.y", "shard": name}, no_input=True)
            continue
        ml = re.search(r"ML = \((.*), (\d+)\) : list", flat)
        mn = re.search(r"MN = (.*?) : list", flat)
        if not ml or not mn:
            chk.fail("correspondence shard %s printed no result: %s" % (name, out[-400:]),
                     {"correspondence": "Lex.Literals / Lex.Idents vs parser/parser.go.y", "shard": name}, no_input=True)
            continue
        notlit += int(ml.group(2))
        for m in re.finditer(r"\((\d+), ([^()]*)\)", ml.group(1) if ml else ""):
            lmism.append((int(m.group(1)), m.group(2)))
        for m in re.finditer(r"\((\d+), (true|false), (true|false)\)", mn.group(1) if mn else ""):
            nmism.append((int(m.group(1)), m.group(2), m.group(3)))
    chk.cov["model_mismatches"] = len(lmism) + len(nmism)
    chk.cov["model_says_not_a_literal"] = notlit
    chk.cov["input_distribution"] = hist
    chk.cov["rule"] = ("systematic (seed-independent): every int form (dec 0x 0X 0o 0O 0b 0B) x 1..25 digits x one `_` at every legal place, "
                       "all places, a double `__`; values 2^63+-3 and 2^64+-3 in every base (also with leading zeros); hex runs up to 17 digits; "
                       "exponent-int: mantissas of 1..25 digits x exponents -5..25 (plus 18 19 20 100 +-400 and the int64 edge); floats: "
                       "0..25 integer digits x 1..25 fraction digits with separators, exponents -5..25 and the range edges "
                       "(1.797...e308, 4.9e-324, 2^-1075 in full, 2^1024-2^970 in full), constructed half-way cases (2M+1)*2^(E-1) "
                       "spelled exactly and one digit above/below, plain and in exponent form, normal and subnormal; strings: every `\\c` "
                       "for printable c in four contexts, \\x \\u \\U octal boundary cases, UTF-8 text; names: every keyword-prefixed / "
                       "keyword-suffixed name up to length 8 over a small alphabet, with ! and ?, private names; pairs of names of 2..1001 characters that "
                       "differ in their last / first character only (as variables, properties, symbols, map keys). Seeded random tail: random "
                       "spellings of every form, 17..20 significant digits, escape sequences, names from the documented pattern. "
                       "distinct by spelling; non-trivial: more than one character.")
    chk.cov["rule"] += " Also: str literals in which an escaped backslash is followed by text that looks like an escape."
    step = max(1, len(lits) // 9)
    for i in range(0, len(lits), step):
        chk.sample({"src": lits[i][1], "form": lits[i][0], "impl": louts[i]["r"], "written_value": lits[i][2]})
    for i in (0, len(names) // 2, len(names) - 1):
        chk.sample({"name": names[i][0], "impl": {k: nouts[i][k] for k in ("var", "prop", "sym", "tok")}})
    chk.cov["trusted_base"] += [
        "hand-written models coq/Lex/Literals.v, coq/Lex/Idents.v of the grammar actions and token table of parser/parser.go.y, tied by vm_compute correspondence on every case",
        "Go's regexp (token matching: the models test well-formedness of a whole spelling, they do not model regex search), strconv.ParseInt / ParseFloat / Unquote, math/big",
        "Flocq 4 division core (SFdiv_core_binary + binary_round_aux, Bdiv_correct_aux) for floats; bits compared bit for bit",
        "harness sub-command litval (Go), Python oracle (int, fractions.Fraction, int/int correctly rounded division, struct) used to decide whether a disagreement is a failing input"]
    chk.assumptions += ["source text is valid UTF-8 (strconv.Unquote replaces invalid bytes by U+FFFD)",
                        "one-literal programs; a literal directly followed by more text on the same line is cut by the regex table (C16/C02 territory)",
                        "literals are unsigned: `-` is a prefix operator, so -9223372036854775808 cannot be spelled"]
    chk.cov["explanation"] = ("Every case carries the value the property demands, computed from the parts the spelling was built from. "
                              "implementation != demanded value -> failing input (VIOLATION / KNOWN-FINDING by class); "
                              "model != implementation where the implementation is right -> divergence without failing input.")
    # decide
    seenk = {}
    for klass, what, replay in failing:
        seenk.setdefault(klass, []).append((what, replay))
    order = ["C17:keyword-prefix", "C17:bad-escape", "C17:int-overflow", "C17:exp-inexact", "C17:float-nearest", "C17:float-range"]
    for klass in sorted(seenk, key=lambda k: order.index(k) if k in order else len(order)):
        lst = sorted(seenk[klass], key=lambda wr: wr[1].get("want") == "x")     # a wrong value before a missing refusal
        what, replay = lst[0]
        replay["theorem"] = "C17_* instance contradicted by the implementation"
        replay["more_of_this_class"] = [w for w, _ in lst[1:6]]
        chk.fail("%s  [%d inputs of class %s]" % (what, len(lst), klass), replay, klass=klass)
    bad_l = {i for i, _ in lmism}
    bad_n = {i for i, _, _ in nmism}
    fail_srcs = {rp.get("src") for _, _, rp in failing} | {rp.get("name") for _, _, rp in failing}
    div = [(i, m) for i, m in lmism if lits[i][1] not in fail_srcs]
    divn = [(i, a, b) for i, a, b in nmism if names[i][0] not in fail_srcs]
    if div:
        i, m = div[0]
        chk.fail("model/implementation disagree on literal `%s`: model %s, implementation %s (which is what the written value demands); %d such cases"
                 % (lits[i][1], m, louts[i]["r"], len(div)),
                 {"correspondence": "Lex.Literals.lit_denote_codes vs parser/parser.go.y", "src": lits[i][1], "model": m, "impl": louts[i]["r"]},
                 no_input=True)
    if divn:
        i, a, b = divn[0]
        chk.fail("model/implementation disagree on name `%s`: model one-token=%s symbol-whole=%s, implementation %s; %d such cases"
                 % (names[i][0], a, b, {k: nouts[i][k] for k in ("var", "prop", "sym", "tok")}, len(divn)),
                 {"correspondence": "Lex.Idents.scan vs parser/parser.go.y", "name": names[i][0], "impl": nouts[i]}, no_input=True)
    if not ok and not failing:
        chk.fail(broken, {"theorem_file": "coq/Props/C17.v", "detail": broken}, no_input=True)
    elif not ok:
        chk.note("proof obligations broken: " + str(broken)[:300])
        chk.fail(broken, {"theorem_file": "coq/Props/C17.v", "detail": broken}, no_input=True)
    return chk.finish()
