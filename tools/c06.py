"""C06 — immutability of values.
 1. proof obligations: coq/Props/C06.v (frame theorems over Heap/GoSlices.v);
 2. tie T: harness `dumpwrites` lists every slice/map/pointer write of the interpreter with
    the root of its destination -> coq/gen/WriteSites.v + Lemma writes_fresh (vm_compute);
 3. tie C: harness `history` — enumerated + seeded random histories over all value-returning
    props; oracle = the property itself (a variable's deep fingerprint never changes);
    failing histories are shrunk; the modelled subset is also run inside Coq and compared."""
import copy
from pv import *

ALLOW_PATH = os.path.join(ROOT, "tools", "c06_allow.json")
TYPES = ["Arr", "Str", "Obj", "Map", "Range", "Int"]
TYPEMAP = {"ArrType": "Arr", "StrType": "Str", "ObjType": "Obj", "MapType": "Map", "RangeType": "Range",
           "IntType": "Int", "FuncType": "Func", "NilType": "Nil", "BoolType": "Bool", "FloatType": "Float"}
IDENT = re.compile(r"^[A-Za-z_][A-Za-z0-9_]*[?!]?$")
INFIX = {"+", "-", "*", "/", "//", "%", "**", "==", "!=", "<=>", "<", "<=", ">", ">=", "===", "!==", "/~"}
PREFIX = {"!": "!", "-%": "-", "+%": "+"}
# IO, code evaluation and props that loop until a caller-supplied predicate holds
BLACKLIST = {"p", "puts", "print", "eval", "evalEnv", "import", "invite!", "exit", "doUntil", "doWhile",
             "until", "while", "callProp", "_name", "_iter", "assert", "assertEq", "assertRaises", "decJSON"}


# ----------------------------------------------------------------------------- tie T
def ascii_coq(s):
    s = "".join(ch if 32 <= ord(ch) < 127 else "?" for ch in s)
    return '"' + s.replace('"', '""') + '"'


def dumpwrites(repo, allow, dirs=None):
    req = {"repo": repo, "dirs": dirs or allow["dirs"], "constructors": allow["constructors"],
           "wrappers": allow["wrappers"], "startup": allow["startup_functions"], "mutators": allow["mutators"]}
    return harness("dumpwrites", [req])[0]


def _lhs_suffix(stmt):
    """`traced.StackTrace = out.String()` -> `.StackTrace`: what is written, without the name of the local it is written through"""
    lhs = re.split(r"\s*(?::=|[-+*/|&^]?=)\s*", stmt, 1)[0].strip()
    m = re.match(r"^[A-Za-z_]\w*((?:\.[A-Za-z_]\w*|\[[^\]]*\])+)$", lhs)
    return m.group(1) if m else ""


def classify_sites(sites, allow):
    used = set()
    out = []
    for s in sites:
        # "parameter": the write goes through a parameter of an unexported function that is only ever called by name; like a
        # method's receiver, every call site is listed as a write site of its own (with the argument as destination)
        cls = {"fresh": "Fresh", "startup": "Startup", "env": "EnvStore", "receiver": "Receiver", "parameter": "Receiver"}.get(s["class"])
        reason = s["why"]
        if cls is None:
            cls = "Shared"
            for k, a in enumerate(allow["allow"]):
                # same function and same statement; or, after a renaming of locals, same function and same written field / element
                # ... or same function and the call of the same listed mutator / parameter-writing function
                if a["func"] == s["func"] and (a["stmt"] == s["stmt"] or (_lhs_suffix(a["stmt"]) != "" and _lhs_suffix(a["stmt"]) == _lhs_suffix(s["stmt"]))
                                               or (a.get("kind", "").startswith("call:") and a["kind"] == s["kind"])) \
                        or (a.get("root") and a["root"] == s["root"] and a.get("file") == s["file"]):
                    # (last form: a package-level table identified by its name and file, whatever the function that fills it is called)
                    cls, reason = "Allowed", a["reason"]
                    used.add(k)
                    break
        out.append(dict(s, coq=cls, reason=reason))
    stale = [a for k, a in enumerate(allow["allow"]) if k not in used]
    return out, stale


SELFTEST_GO = '''package x

import "sort"

func sortInPlace(self *PanArr) { sort.Slice(self.Elems, func(i, j int) bool { return true }) }
func sortCopy(self *PanArr) {
	elems := make([]PanObject, len(self.Elems))
	copy(elems, self.Elems)
	sort.Slice(elems, func(i, j int) bool { return true })
}
func unpackOnto(arr *PanArr, x PanObject) []PanObject {
	elems := arr.Elems
	elems = append(elems, x)
	return elems
}
func unpackFresh(arr *PanArr, x PanObject) []PanObject {
	elems := []PanObject{}
	elems = append(elems, arr.Elems...)
	elems = append(elems, x)
	return elems
}
func bearBad(proto PanObject, src *PanObj, p *map[SymHash]Pair) {
	child := ChildPanObjPtr(proto, src)
	child.AddPairs(p)
}
func bearBad2(parent *PanObj, p *map[SymHash]Pair) { parent.AddPairs(p) }
func kwFresh(p *map[SymHash]Pair) { o := EmptyPanObjPtr(); o.AddPairs(p) }
func litShared(src *PanObj, k SymHash, v Pair) { o := &PanObj{Pairs: src.Pairs}; (*o.Pairs)[k] = v }
func litFresh(k SymHash, v Pair) { m := map[SymHash]Pair{}; o := &PanObj{Pairs: &m}; (*o.Pairs)[k] = v }
func rev(self *PanArr) {
	for i, j := 0, len(self.Elems)-1; i < j; i, j = i+1, j-1 {
		self.Elems[i], self.Elems[j] = self.Elems[j], self.Elems[i]
	}
}
func elemWrite(self *PanArr) { e := self.Elems[0].(*PanArr); e.Elems[0] = nil }
func rebind(self *PanArr, x PanObject) {
	elems := []PanObject{}
	if x != nil {
		elems = self.Elems
	}
	elems = append(elems, x)
}
func (o *PanObj) AddPairs(p *map[SymHash]Pair) { (*o.Pairs)[1] = Pair{} }
func putIfAbsent(m map[SymHash]Pair, k SymHash, v Pair) {
	if _, ok := m[k]; !ok {
		m[k] = v
	}
}
func helperFresh(k SymHash, v Pair) *PanObj { m := map[SymHash]Pair{}; putIfAbsent(m, k, v); return &PanObj{Pairs: &m} }
func helperShared(src *PanObj, k SymHash, v Pair) { putIfAbsent(*src.Pairs, k, v) }
func putVia(m map[SymHash]Pair, k SymHash, v Pair) { putIfAbsent(m, k, v) }
func viaFresh(k SymHash, v Pair) { m := map[SymHash]Pair{}; putVia(m, k, v) }
func viaShared(src *PanObj, k SymHash, v Pair) { putVia(*src.Pairs, k, v) }
func escaping(m map[SymHash]Pair, k SymHash, v Pair) { m[k] = v }
var hook = escaping
func Exported(m map[SymHash]Pair, k SymHash, v Pair) { m[k] = v }
func throughElem(arrs []*PanArr) { arrs[0].Elems[0] = nil }
func appendIfNew(pairs []Pair, seen []Pair, p Pair) ([]Pair, []Pair) {
	if len(seen) > 3 {
		return pairs, seen
	}
	return append(pairs, p), append(seen, p)
}
func passFresh(p Pair) []Pair {
	pairs := []Pair{}
	seen := []Pair{}
	pairs, seen = appendIfNew(pairs, seen, p)
	pairs = append(pairs, p)
	return pairs
}
func passShared(src *PanArr, p Pair) {
	pairs := src.Pairs
	seen := []Pair{}
	pairs, seen = appendIfNew(pairs, seen, p)
	pairs = append(pairs, p)
}
func swapped(a []Pair, b []Pair) ([]Pair, []Pair) { return b, a }
func passSwapped(src *PanArr, p Pair) {
	mine := []Pair{}
	theirs := src.Pairs
	mine, theirs = swapped(mine, theirs)
	mine = append(mine, p)
}
'''
SELFTEST_EXPECT = {"sortInPlace": {"shared"}, "sortCopy": {"fresh"}, "unpackOnto": {"shared"}, "unpackFresh": {"fresh"},
                   "bearBad": {"shared"}, "bearBad2": {"shared"}, "kwFresh": {"fresh"}, "litShared": {"shared"},
                   "litFresh": {"fresh"}, "rev": {"shared"}, "elemWrite": {"shared"}, "rebind": {"shared"},
                   "PanObj.AddPairs": {"receiver"},
                   # a helper that writes through a parameter: its call sites carry the obligation (also through a second helper);
                   # not when the function is used as a value, is exported (callers outside the scanned packages), or reaches
                   # the destination through an element or field of the parameter
                   "putIfAbsent": {"parameter"}, "helperFresh": {"fresh"}, "helperShared": {"shared"}, "putVia": {"parameter"},
                   "viaFresh": {"fresh"}, "viaShared": {"shared"}, "escaping": {"shared"}, "Exported": {"shared"},
                   "throughElem": {"shared"},
                   # results that pass a parameter through (itself or appended to) are as fresh as the argument
                   "appendIfNew": {"parameter"}, "passFresh": {"fresh"}, "passShared": {"shared", "fresh"}, "passSwapped": {"shared"}}


def translator_selftest(allow):
    """The classifier on a synthetic package with the aliasing shapes C06 must catch."""
    d = os.path.join(BUILD, "dwtest", "x")
    os.makedirs(d, exist_ok=True)
    with open(os.path.join(d, "a.go"), "w") as f:
        f.write(SELFTEST_GO)
    rep = dumpwrites(os.path.join(BUILD, "dwtest"), allow, dirs=["x"])
    got = {}
    for s in rep["sites"]:
        got.setdefault(s["func"], set()).add(s["class"])
    bad = ["%s: classes %s, expected %s" % (fn, sorted(got.get(fn, [])), sorted(want))
           for fn, want in SELFTEST_EXPECT.items() if got.get(fn) != want]
    return bad


def write_sites_v(sites):
    rows = ["  mkSite %s %s %s %s %s" % (ascii_coq(s["file"]), ascii_coq(s["func"]), ascii_coq(s["kind"]),
                                           ascii_coq(s["stmt"][:120]), s["coq"]) for s in sites]
    return ("(* generated by tools/c06.py from `panharness dumpwrites` over %s — do not edit *)\n" % REPO +
            "From Coq Require Import List String Bool.\nImport ListNotations.\n"
            "From PanVerif Require Import Heap.GoSlices.\nOpen Scope string_scope.\n"
            "Inductive rclass := Fresh | Startup | EnvStore | Receiver | Allowed | Shared.\n"
            "Record site := mkSite { w_file : string; w_func : string; w_kind : string; w_stmt : string; w_class : rclass }.\n"
            "(* the model's own write permission ([check true] of Heap/GoSlices.v): only an Owned root may be written;\n"
            "   Startup / EnvStore / Receiver / Allowed are the declared exemptions (tools/c06_allow.json) *)\n"
            "Definition fresh_root (s : site) : bool :=\n"
            "  match w_class s with\n"
            "  | Fresh => can_write true Owned\n"
            "  | Shared => can_write true GoSlices.Shared\n"
            "  | _ => true\n  end.\n"
            "Definition writes : list site := [\n" + ";\n".join(rows) + "\n].\n"
            "Definition shared_sites := Eval vm_compute in map (fun s => (w_func s, w_stmt s)) (filter (fun s => negb (fresh_root s)) writes).\n"
            "Print shared_sites.\n"
            "Lemma writes_fresh : forallb fresh_root writes = true.\nProof. vm_compute. reflexivity. Qed.\n"
            "Print Assumptions writes_fresh.\n")


# ----------------------------------------------------------------------------- harness history
def run_hist(hists, final=False, keepgoing=False):
    reqs = [{"stmts": h, "final": final, "keepgoing": keepgoing} for h in hists]
    res = [None] * len(reqs)
    todo = list(range(len(reqs)))
    timeouts = []
    for _ in range(8):
        if not todo:
            break
        outs = harness("history", [reqs[i] for i in todo], shards=NCPU)
        nxt = []
        for i, o in zip(todo, outs):
            if o.get("skipped"):
                nxt.append(i)
            else:
                res[i] = o
                if o.get("stopped") == "timeout":
                    timeouts.append(o.get("timeout_stmt"))
        todo = nxt
    for i in todo:
        res[i] = {"steps": [], "stopped": "skipped"}
    return res, timeouts


def call_text(recv, prop, args):
    if prop in PREFIX and not args:
        return PREFIX[prop] + "(" + recv + ")"
    if prop in INFIX and len(args) == 1:
        return "%s %s %s" % (recv, prop, args[0])
    if IDENT.match(prop):
        return "%s.%s" % (recv, prop) + ("(" + ", ".join(args) + ")" if args else "")
    return None


SAMPLES = {"Arr": "[1, 2, 3]", "Str": '"abc"', "Obj": "{a: 1, b: 2}", "Map": "%{1: 2, 3: 4}", "Range": "(1:4)", "Int": "3"}
POOL = {"Int": ["0", "1", "2", "-1", "3"], "Str": ['"a"', '"bc"', '","', '"b"'],
        "Arr": ["[1, 2]", "[4]", "[]", '[["k", 1]]', "[3, 1, 2]"], "Obj": ["{a: 1}", "{z: [9]}", "{}"],
        "Map": ["%{1: 2}", '%{"k": [1]}'], "Range": ["(0:2)", "(1:6:2)"],
        "F1": ["{|x| x}", "{|x| x * 2}", "{|x| [x]}", "{|x| true}", "{|x| x == 1}"],
        "F2": ["{|x, y| x}", "{|x, y| [x, y]}", "{|x, y| y}"]}
SHAPES = {"none": [], "int": ["Int"], "str": ["Str"], "arr": ["Arr"], "obj": ["Obj"], "f1": ["F1"], "f2": ["F2"],
          "same": ["SAME"], "intint": ["Int", "Int"], "map": ["Map"]}


def probe_signatures(chk, props):
    """Which (type, prop, argument shape) calls return a value, and of which type."""
    reqs, keys = [], []
    for t in TYPES:
        for e in props.get(t, []):
            p = e["name"]
            if p in BLACKLIST or (p.startswith("_") and p != "_incBy"):
                continue
            for sh, kinds in SHAPES.items():
                args = [SAMPLES[t] if k == "SAME" else POOL[k][0] for k in kinds]
                txt = call_text("r", p, args)
                if txt is None:
                    continue
                reqs.append(["r := " + SAMPLES[t], "x := " + txt])
                keys.append((t, p, sh))
    outs, touts = run_hist(reqs)
    sig = {}
    for (t, p, sh), o in zip(keys, outs):
        st = o.get("steps", [])
        if len(st) == 2 and st[1]["res"]["kind"] == "value" and "x" in st[1]["fps"]:
            rt = TYPEMAP.get(st[1]["res"].get("type"), st[1]["res"].get("type"))
            sig.setdefault(t, []).append((p, sh, rt))
    return sig, len(reqs), touts


# ----------------------------------------------------------------------------- enumerated histories
def enumerated(chk):
    """Seed-independent histories around the known aliasing shapes. Each item:
    (statements, tags) where tags[i] names the construct of statement i."""
    H = []
    bases = ["[1, 2, 3]", "[1, 2, 3, 4, 5]", "[1]", "[7, 8]", "[]", "[[1], [2], [3]]"]
    producers = [  # an array derived from a (spare capacity comes from append growth)
        ("a + [9]", "Arr#+"), ("a * 2", "Arr#*"), ("a@{|x| x * 2}", "chain@"), ("a.A", "Arr#A"), ("a[:]", "Arr#at"),
        ("a[::-1]", "Arr#at"), ("a.rev", "Arr#rev"), ("Arr.new(a)", "Arr#new"), ("a.new(a)", "Arr#new"),
        ("Arr.call(*a)", "Arr#call"), ("{|| \\0}(*a)", "\\0"), ("{|x, y| \\0}(*a)", "\\0"), ("a.{|x, y| \\0}", "\\0"),
        ("a.{|x, y, z, w, u, v| \\0}", "\\0"), ("[*a]", "literal[*]"), ("[0, *a]", "literal[*]"),
        ("a.digest([7])", "Arr#digest"), ("a.map {|x| x}", "Arr#map"), ("a.select {|x| true}", "Arr#select"),
        ("a.append(4)", "Arr#append"), ("a.prepend(0)", "Arr#prepend"), ("a", "alias"), ("(a + [])", "Arr#+"),
        ("a.exclude {|x| false}", "Arr#exclude"), ("a@{|x| x}@{|x| x}", "chain@"), ("a.zip(a)", "Arr#zip"),
        ("a.chunk(2)", "Arr#chunk"), ("a.tap {|x| x}", "Obj#tap"), ("a + nil", "Arr#+"),
    ]
    ext = [  # two different extensions of the same array p
        ("p + [4]", "p + [5]", "Arr#+"), ("p + [4, 4, 4]", "p + [5]", "Arr#+"), ("p.append(4)", "p.append(5)", "Arr#append"),
        ("[*p, 4]", "[*p, 5]", "literal[*]"), ("p.digest([4])", "p.digest([5])", "Arr#digest"),
        ("Arr.call(*p, 4)", "Arr.call(*p, 5)", "Arr#call"), ("{|| \\0}(*p, 4) + [6]", "{|| \\0}(*p, 5) + [7]", "Arr#+"),
        ("p.new(p) + [4]", "p.new(p) + [5]", "Arr#+"), ("p * 2", "p + [5]", "Arr#+"), ("p.prepend(4)", "p.prepend(5)", "Arr#prepend"),
        ("p + p", "p + [5]", "Arr#+"), ("p.{|x, y| \\0} + [4]", "p.{|x, y| \\0} + [5]", "Arr#+"),
        ("p + [[4]]", "p + [[5]]", "Arr#+"),
    ]
    for b in bases:
        for pe, ptag in producers:
            for e1, e2, etag in ext:
                st = ["a := " + b, "p := " + pe, "q := " + e1, "r := " + e2, "s := " + re.sub(r"\bp\b", "a", e1), "t := q + [0]"]
                H.append((st, ["literal", ptag, etag, etag, etag, "Arr#+"]))
    # objects: sharing of Pairs through bear / bro / Obj.new, `**` merging, kwargs
    obases = ["{a: 1, b: [1, 2, 3]}", "{}", "{a: {b: {c: 1}}, _p: 2}"]
    oprod = [("o.bear({c: 2})", "BaseObj#bear"), ("o.bear", "BaseObj#bear"), ("o.bro({c: 3})", "Obj#bro"), ("Obj.new(o)", "Obj#new"),
             ("{**o}", "literal{**}"), ("{**o, d: 4}", "literal{**}"), ("o.patch(a: 5)", "Obj#patch"), ("{|| \\_}(**o)", "kwargs"),
             ("{|| \\_}(a: 9, **o)", "kwargs"), ("o.digest([[\"k\", 1]])", "Obj#digest"), ("o", "alias"), ("Obj.bear(o)", "BaseObj#bear"),
             ("[1].bear(o)", "Arr#bear"), ("o.del('a)", "Obj#del"), ("o.tap {|x| x}", "Obj#tap")]
    ocons = [("{**p, z: 1}", "{**p, y: 2}", "literal{**}"), ("p.bear({z: 1})", "p.bear({y: 2})", "BaseObj#bear"),
             ("{|| \\_}(z: 1, **p)", "{|| \\_}(y: 2, **p)", "kwargs"), ("p.patch(z: 1)", "p.patch(a: 2)", "Obj#patch"),
             ("p.digest([[\"z\", 1]])", "p.digest([[\"a\", 2]])", "Obj#digest"), ("Obj.new(p)", "p.bro({z: 1})", "Obj#new"),
             ("p.items", "p.values + [1]", "Obj#values"), ("p.keys + [1]", "p.keys + [2]", "Obj#keys"),
             ("%{**p, 1: 2}", "%{**p, 3: 4}", "literal%{**}"), ("p.bear(p)", "p.bear(p).bear({n: 0})", "BaseObj#bear")]
    for b in obases:
        for pe, ptag in oprod:
            for e1, e2, etag in ocons:
                st = ["o := " + b, "p := " + pe, "q := " + e1, "r := " + e2, "s := " + re.sub(r"\bp\b", "o", e1)]
                H.append((st, ["literal", ptag, etag, etag, etag]))
    # maps
    mbases = ["%{1: 2, \"a\": [1, 2]}", "%{}", "%{[1]: 2, {a: 1}: 3, 4: 5}"]
    mprod = [("%{**m}", "literal%{**}"), ("%{**m, 3: 4}", "literal%{**}"), ("m.digest([[5, 6]])", "Map#digest"), ("m", "alias"),
             ("m.items.M", "Arr#M"), ("m.bear", "BaseObj#bear")]
    mcons = [("%{**p, 7: 8}", "%{**p, 9: 0}", "literal%{**}"), ("p.digest([[7, 8]])", "p.digest([[9, 0]])", "Map#digest"),
             ("p.items + [1]", "p.items + [2]", "Map#items"), ("p.keys + [1]", "p.values + [2]", "Map#keys"),
             ("p.map {|k, v| [k, v]}", "p.select {|k, v| true}", "Map#map")]
    for b in mbases:
        for pe, ptag in mprod:
            for e1, e2, etag in mcons:
                st = ["m := " + b, "p := " + pe, "q := " + e1, "r := " + e2, "s := " + re.sub(r"\bp\b", "m", e1)]
                H.append((st, ["literal", ptag, etag, etag, etag]))
    # strings, ranges, ints, functions, errors held by Either
    misc = [
        ['s := "abc"', 'p := s + "d"', 'q := p + "e"', 'r := p + "f"', "u := s * 2", "v := s[::-1]", "w := s.A", "x := w + [1]", "y := w + [2]", "z := s._incBy(1)"],
        ['s := "a,b,c"', 'p := s.split(",")', "q := p + [1]", "r := p + [2]", "u := s.uc", "v := s.sub(\",\", \";\")", "w := s.A + [0]", "x := s.A + [1]"],
        ["g := (1:5)", "p := g.A", "q := p + [9]", "r := p + [8]", "u := g.start", "v := (g.start:g.stop:2)", "w := g.map {|x| x}", "x := w + [1]", "y := w + [2]"],
        ["n := 5", "p := n.A", "q := p + [9]", "r := p + [8]", "u := n + 1", "v := n.bear", "w := v + 1", "x := [n, v, w]"],
        ["a := [1, 2, 3]", "f := {|x| a + [x]}", "p := f(4)", "q := f(5)", "g := {|| a}", "r := g() + [6]", "s := g() + [7]", "h := {|*| \\0}", "t := h(*a)", "u := t + [1]", "v := t + [2]"],
        ["a := [1, 2, 3]", "e := {|| a[0] / 0}.try", "p := e.A", "q := {|| a + [1]}.try", "r := q.val + [2]", "s := q.val + [3]", "t := e.err", "u := {|| Err.new(\"m\")}.try", "v := u.err"],
        ["a := [1, 2, 3]", "b := a + [4]", "c := [b]", "d := a + [c]", "e := b.len"],
        ["a := [3, 1, 2]", "b := a.sort", "c := a.rev", "d := a.max", "e := a.uniq", "f := a.tally", "g := a.sum", "h := b + [0]", "i := b + [9]"],
        ["a := [1, 2, 3]", "it := a._iter", "x := it.next", "b := a + [4]", "y := it.next", "c := a + [5]", "z := it.next", "w := it.A"],
        ["o := {a: 1}", "c := o.bear({b: 2})", "d := c.bear({c: 3})", "e := d.proto", "f := d.ancestors", "g := {**d}", "h := d.which('a)", "i := c.bro", "j := d.kindOf?(o)"],
    ]
    for st in misc:
        H.append((st, ["misc"] * len(st)))
    return H


# ----------------------------------------------------------------------------- random tail
BASE_STMTS = [("[1, 2, 3]", "Arr"), ("[4, 5]", "Arr"), ("[[1, 2], [3, 4]]", "Arr"), ("[]", "Arr"), ('["x", "y"]', "Arr"),
              ('"abc"', "Str"), ('"a,b"', "Str"), ("{a: 1, b: [1, 2]}", "Obj"), ("{}", "Obj"), ("{k: {j: 1}}", "Obj"),
              ("%{1: 2, 3: [4]}", "Map"), ('%{"a": 1}', "Map"), ("(1:4)", "Range"), ("(6:0:-2)", "Range"), ("3", "Int"), ("7", "Int")]


class Hist:
    def __init__(self):
        self.stmts, self.tags, self.types = [], [], {}
        self.last = None

    def var(self):
        return "v%d" % len(self.stmts)

    def add(self, expr, tag, typ):
        v = self.var()
        self.stmts.append("%s := %s" % (v, expr))
        self.tags.append(tag)
        if typ:
            self.types[v] = typ

    def of(self, typ):
        return [v for v, t in self.types.items() if t == typ]


def pick_arg(r, h, kind, recv_type):
    if kind == "SAME":
        kind = recv_type
    if kind in ("F1", "F2"):
        arrs = h.of("Arr")
        if arrs and r.random() < 0.3:
            a = r.choice(arrs)
            return "{|x| %s + [x]}" % a if kind == "F1" else "{|x, y| [x, y, %s]}" % a
        return r.choice(POOL[kind])
    vs = h.of(kind)
    if vs and r.random() < 0.7:
        return r.choice(vs)
    return r.choice(POOL[kind])


def extend(r, h, sig, n):
    """Append n statements to history h (types of the new variables are predictions)."""
    for _ in range(n):
        roll = r.random()
        arrs, objs, maps = h.of("Arr"), h.of("Obj"), h.of("Map")
        anyv = list(h.types)
        if roll < 0.25 and anyv:
            kind = r.randrange(12)
            if kind == 0 and arrs:
                parts = []
                for _k in range(r.randint(1, 3)):
                    parts.append(("*" + r.choice(arrs)) if r.random() < 0.6 else r.choice(anyv))
                h.add("[" + ", ".join(parts) + "]", "literal[*]", "Arr")
            elif kind == 1 and objs:
                srcs = ["**" + r.choice(objs) for _k in range(r.randint(1, 2))]
                h.add("{n%d: %s, %s}" % (r.randint(0, 3), r.choice(anyv), ", ".join(srcs)), "literal{**}", "Obj")
            elif kind == 2 and (maps or objs):
                h.add("%%{%d: %s, **%s}" % (r.randint(0, 5), r.choice(anyv), r.choice(maps + objs)), "literal%{**}", "Map")
            elif kind == 3 and objs:
                h.add("%s.bear(%s)" % (r.choice(objs + arrs), r.choice(objs)), "BaseObj#bear", "Obj")
            elif kind == 4 and objs:
                h.add("%s.bro(%s)" % (r.choice(objs), r.choice(objs)), "Obj#bro", "Obj")
            elif kind == 5 and objs:
                h.add("Obj.new(%s)" % r.choice(objs), "Obj#new", "Obj")
            elif kind == 6 and arrs:
                h.add("%s.new(%s)" % (r.choice(arrs + ["Arr"]), r.choice(arrs)), "Arr#new", "Arr")
            elif kind == 7 and arrs:
                h.add("%s.call(%s)" % (r.choice(arrs + ["Arr"]), ", ".join(["*" + r.choice(arrs), r.choice(anyv)])), "Arr#call", "Arr")
            elif kind == 8 and arrs:
                ps = ", ".join("abcdef"[:r.randint(0, 5)])
                h.add("{|%s| \\0}(%s)" % (ps, ", ".join(["*" + r.choice(arrs)] + ([r.choice(anyv)] if r.random() < 0.5 else []))), "\\0", "Arr")
            elif kind == 9 and arrs:
                h.add("%s.{|x, y| \\0}" % r.choice(arrs), "\\0", "Arr")
            elif kind == 10 and objs:
                h.add("{|| \\_}(k%d: %s, **%s)" % (r.randint(0, 3), r.choice(anyv), r.choice(objs)), "kwargs", "Obj")
            elif kind == 11 and arrs:
                a = r.choice(arrs)
                rng = r.choice(["%d:" % r.randint(-3, 3), ":%d" % r.randint(-3, 3), "%d:%d" % (r.randint(0, 2), r.randint(1, 4)),
                                "::%d" % r.choice([1, 2, -1, -2]), "%d" % r.randint(-4, 4)])
                h.add("%s[%s]" % (a, rng), "Arr#at", "Arr" if ":" in rng else None)
            else:
                h.add("[%s]" % r.choice(anyv), "literal", "Arr")
            continue
        cands = [v for v, t in h.types.items() if t in sig]
        if not cands:
            e, t = r.choice(BASE_STMTS)
            h.add(e, "literal", t)
            continue
        if h.last and h.last[0] in h.types and r.random() < 0.3:
            # twin statement: the same receiver and prop again with other arguments
            # (two different extensions of one value is how aliasing shows)
            v, t, p, sh, rt = h.last
        else:
            v = r.choice(cands)
            t = h.types[v]
            p, sh, rt = r.choice(sig[t])
        args = [pick_arg(r, h, k, t) for k in SHAPES[sh]]
        h.last = (v, t, p, sh, rt) if SHAPES[sh] else None
        h.add(call_text(v, p, args), "%s#%s" % (t, p), rt)


def refresh_types(h, reply):
    """Replace predicted types by what the implementation produced."""
    steps = reply.get("steps", [])
    for i in range(len(h.stmts)):
        v = "v%d" % i
        if i < len(steps) and steps[i]["res"]["kind"] == "value" and v in steps[i]["fps"]:
            t = steps[i]["res"].get("type")
            h.types[v] = TYPEMAP.get(t, t)
        else:
            h.types.pop(v, None)


# ----------------------------------------------------------------------------- oracle + shrinking
def first_change(reply):
    for i, st in enumerate(reply.get("steps", [])):
        if st.get("changed"):
            return i, st["changed"][0]
    return None


def shrink(stmts):
    """Drop statements that are not needed for SOME variable to change."""
    cur = list(stmts)
    while True:
        cands = [cur[:i] + cur[i + 1:] for i in range(len(cur) - 1, -1, -1)]
        if not cands:
            break
        outs, _ = run_hist(cands)
        nxt = None
        for c, o in zip(cands, outs):
            if first_change(o) is not None:
                nxt = c
                break
        if nxt is None:
            break
        cur = nxt
    out, _ = run_hist([cur])
    return cur, out[0]


def tag_of(stmt, tagmap):
    t = tagmap.get(stmt)
    if t in (None, "misc", "literal", "alias", "construct"):
        m = re.search(r":=\s*[^\s\[{(]+\s*(\+|\*)\s", stmt)
        if m:
            return "Arr#" + m.group(1)
        return "call" if "(" in stmt else "construct"
    return t


# ----------------------------------------------------------------------------- model correspondence
KEYS = "abcdefghij"


class MH:
    """One history in the modelled subset, rendered twice (Pangaea text, Coq term)."""

    def __init__(self):
        self.pan, self.coq, self.types, self.proto = [], [], [], []

    def n(self):
        return len(self.pan)

    def of(self, t):
        return [i for i, x in enumerate(self.types) if x == t]

    def add(self, pan, coq, typ, caps, proto=None):
        self.pan.append("v%d := %s" % (self.n(), pan))
        self.coq.append("(%s, [%s])" % (coq, "; ".join(str(c) for c in caps)))
        self.types.append(typ)
        self.proto.append(proto)


def zl(z):
    return "(%d)%%Z" % int(z)


def vr(i):
    return "(VRef %d)" % i


def optz(z):
    return "None" if z is None else "(Some %s)" % zl(z)


def gen_model_history(r, n):
    h = MH()

    def caps():
        return [r.randint(0, 9) for _ in range(r.randint(0, 4))]

    def elem():
        anyv = list(range(h.n()))
        if anyv and r.random() < 0.5:
            i = r.choice(anyv)
            return "v%d" % i, "AVal " + vr(i)
        z = r.randint(-3, 9)
        return str(z), "AVal (VInt %s)" % zl(z)

    def val():
        p, c = elem()
        return p, c[5:]

    def args(minn=0):
        ps, cs = [], []
        for _ in range(r.randint(minn, 3)):
            arrs = h.of("arr")
            if arrs and r.random() < 0.5:
                i = r.choice(arrs)
                ps.append("*v%d" % i)
                cs.append("ASplat " + vr(i))
            else:
                p, c = elem()
                ps.append(p)
                cs.append(c)
        return ps, cs

    def pairs(keyf, lo=0):
        ks = r.sample(range(10), r.randint(lo, 3))
        ps, cs = [], []
        for k in ks:
            p, c = val()
            ps.append("%s: %s" % (keyf(k), p))
            cs.append("(%d, %s)" % (k, c))
        return ps, cs

    for _ in range(n):
        arrs, objs, maps = h.of("arr"), h.of("obj"), h.of("map")
        k = r.randrange(17)
        if k == 0 or not arrs:
            ps, cs = args()
            h.add("[" + ", ".join(ps) + "]", "OpArrLit [%s]" % "; ".join(cs), "arr", caps())
        elif k == 1:
            a, b = r.choice(arrs), r.choice(arrs)
            h.add("v%d + v%d" % (a, b), "OpPlus %s %s" % (vr(a), vr(b)), "arr", caps())
        elif k == 2:
            a, m = r.choice(arrs), r.randint(0, 3)
            h.add("v%d * %d" % (a, m), "OpRepeat %s %d" % (vr(a), m), "arr", caps())
        elif k == 3:
            a = r.choice(arrs)
            step = r.choice([1, 1, 2, 3, -1, -1, -2])
            if step > 0:
                start = r.choice([None] + list(range(-7, 8)))
                stop = r.choice([None] + list(range(-7, 8)))
            else:  # bounds that every version of fixRange treats alike (DESIGN §7 #3)
                start, stop = None, None
            txt = "%s:%s:%d" % ("" if start is None else start, "" if stop is None else stop, step)
            h.add("v%d[%s]" % (a, txt), "OpSlice %s %s %s %s" % (vr(a), optz(start), optz(stop), zl(step)), "arr", caps())
        elif k == 4:
            a, i = r.choice(arrs), r.randint(-5, 5)
            h.add("v%d[%d]" % (a, i), "OpAt %s %s" % (vr(a), zl(i)), "any", [])
        elif k == 5:
            a = r.choice(arrs)
            if r.random() < 0.5:
                p = r.choice(arrs)
                h.add("v%d.new(v%d)" % (p, a), "OpArrNew %s %s" % (vr(p), vr(a)), "arr", [], proto=p)
            else:
                h.add("Arr.new(v%d)" % a, "OpArrNew VNil %s" % vr(a), "arr", [])
        elif k == 6:
            ps, cs = args()
            if r.random() < 0.5:
                p = r.choice(arrs)
                h.add("v%d.call(%s)" % (p, ", ".join(ps)), "OpArrCall %s [%s]" % (vr(p), "; ".join(cs)), "arr", caps(), proto=p)
            else:
                h.add("Arr.call(%s)" % ", ".join(ps), "OpArrCall VNil [%s]" % "; ".join(cs), "arr", caps())
        elif k == 7:
            ps, cs = args()
            np = r.randint(0, 5)
            h.add("{|%s| \\0}(%s)" % (", ".join("abcde"[:np]), ", ".join(ps)), "OpArgs0 %d [%s]" % (np, "; ".join(cs)), "arr", caps())
        elif k == 8:
            np = r.randint(0, 4)
            i = r.choice(arrs + [x for x in range(h.n()) if h.types[x] in ("obj", "map")])
            h.add("v%d.{|%s| \\0}" % (i, ", ".join("abcde"[:np])), "OpLitCall0 %d %s" % (np, vr(i)), "arr", caps())
        elif k == 9 and objs:
            src = r.choice(objs)
            pr = r.choice(objs + [None])
            if r.random() < 0.3:
                h.add(("v%d" % pr if pr is not None else "Obj") + ".bear", "OpBear %s None" % (vr(pr) if pr is not None else "VNil"), "obj", [], proto=pr)
            else:
                h.add("%s.bear(v%d)" % ("v%d" % pr if pr is not None else "Obj", src),
                      "OpBear %s (Some %s)" % (vr(pr) if pr is not None else "VNil", vr(src)), "obj", [], proto=pr)
        elif k == 10 and objs:
            x, src = r.choice(objs), r.choice(objs)
            pr = h.proto[x]
            h.add("v%d.bro(v%d)" % (x, src), "OpBear %s (Some %s)" % (vr(pr) if pr is not None else "VNil", vr(src)), "obj", [], proto=pr)
        elif k == 11 and objs:
            o = r.choice(objs)
            h.add("Obj.new(v%d)" % o, "OpObjNew %s" % vr(o), "obj", [])
        elif k in (12, 9, 10, 11):
            ps, cs = pairs(lambda q: KEYS[q])
            srcs = [r.choice(objs) for _ in range(r.randint(0, 2))] if objs else []
            h.add("{" + ", ".join(ps + ["**v%d" % s for s in srcs]) + "}",
                  "OpObjLit [%s] [%s]" % ("; ".join(cs), "; ".join(vr(s) for s in srcs)), "obj", [])
        elif k == 13:
            ps, cs = pairs(lambda q: str(q))
            srcs = [r.choice(maps) for _ in range(r.randint(0, 2))] if maps else []
            h.add("%{" + ", ".join(ps + ["**v%d" % s for s in srcs]) + "}",
                  "OpMapLit [%s] [%s]" % ("; ".join(cs), "; ".join(vr(s) for s in srcs)), "map", [])
        elif k == 14:
            ps, cs = pairs(lambda q: KEYS[q])
            srcs = [r.choice(objs) for _ in range(r.randint(0, 2))] if objs else []
            h.add("{|| \\_}(" + ", ".join(ps + ["**v%d" % s for s in srcs]) + ")",
                  "OpKwargs [%s] [%s]" % ("; ".join(cs), "; ".join(vr(s) for s in srcs)), "obj", [])
        elif k == 15 and objs:
            o = r.choice(objs)
            h.add("v%d.values" % o, "OpValues %s" % vr(o), "arr", caps())
        else:
            a, b = r.choice(arrs), r.choice(arrs)
            h.add("v%d.digest(v%d)" % (a, b), "OpDigestArr %s %s" % (vr(a), vr(b)), "arr", caps())
    return h


def coq_value(v):
    """harness `val` -> Coq [value] (proto fields name variables), or None if outside the model."""
    def proto(p):
        if p in ("Arr", "Obj", "Map"):
            return "None"
        if isinstance(p, dict) and re.match(r"^v\d+$", p.get("var", "")):
            return "(Some %d)" % int(p["var"][1:])
        return None
    if "i" in v:
        return "UInt %s" % zl(v["i"])
    if "n" in v:
        return "UNil"
    if "a" in v:
        es = [coq_value(e) for e in v["a"]]
        p = proto(v["p"])
        if p is None or any(e is None for e in es):
            return None
        return "UArr %s [%s]" % (p, "; ".join("(" + e + ")" for e in es))
    for tag, kind in (("o", "KObj"), ("m", "KMap")):
        if tag in v:
            p = proto(v["p"])
            ps = []
            for k, x in v[tag]:
                cx = coq_value(x)
                if cx is None:
                    return None
                if kind == "KObj":
                    if k not in KEYS:
                        return None
                    kk = KEYS.index(k)
                else:
                    kk = int(k)
                    if kk < 0:
                        return None
                ps.append((kk, cx))
            if p is None:
                return None
            ps.sort()
            return "UPairs %s %s [%s]" % (kind, p, "; ".join("(%d, %s)" % (k, c) for k, c in ps))
    return None


# ----------------------------------------------------------------------------- main
def main(chk):
    allow = json.load(open(ALLOW_PATH))
    quick = chk.tier == "quick"
    ok, broken = obligations(chk, "Props/C06.v")
    chk.note("obligations:", "ok" if ok else broken)

    # ---- tie T: write destinations -------------------------------------------------
    self_bad = translator_selftest(allow)
    rep = dumpwrites(REPO, allow)
    sites, stale = classify_sites(rep["sites"], allow)
    shared = [s for s in sites if s["coq"] == "Shared"]
    hist_cls = {}
    for s in sites:
        hist_cls[s["coq"]] = hist_cls.get(s["coq"], 0) + 1
    chk.note("dumpwrites: %d files, %d write sites %s, mutators %s" % (rep["files"], len(sites), hist_cls, rep["mutators"]))
    rc, out = coq_eval("WriteSites", write_sites_v(sites))
    writes_ok = rc == 0 and "Closed under the global context" in out and not shared
    chk.cov["write_sites"] = {"files": rep["files"], "sites": len(sites), "classes": hist_cls,
                              "allowed": [{"func": s["func"], "stmt": s["stmt"], "reason": s["reason"]} for s in sites if s["coq"] == "Allowed"],
                              "shared": [{"file": s["file"], "line": s["line"], "func": s["func"], "stmt": s["stmt"], "root": s["root"], "why": s["why"]} for s in shared],
                              "stale_allow_entries": stale, "lemma_writes_fresh": "checked" if writes_ok else "FAILS"}
    chk.cov["obligations"] += 1
    if writes_ok:
        chk.cov["discharged"] += 1
    # sanity of the translator itself: write sites it must list on this code base (any kind of write where the function builds
    # a slice, which can be written with append, copy or indexing); one missing name can be a rename, two mean the walk is broken
    must_see = [("ArrProps[+]", None), ("PanObj.AddPairs", "index"), ("evalArr", None), ("evalCallArgs", "call:AddPairs"),
                ("evalArgs", "call:AddPairs"), ("injectProps", "call:AddPairs"), ("Env.Set", "index")]
    missing = [m for m in must_see if not any(s["func"] == m[0] and (m[1] is None or s["kind"] == m[1]) for s in sites)]
    translator_broken = None
    if self_bad:
        translator_broken = "dumpwrites misclassifies the synthetic aliasing shapes: " + "; ".join(self_bad)
    elif len(missing) >= 2 or rep["files"] < 60 or len(sites) < 100:
        translator_broken = "dumpwrites no longer sees known write sites %s (files=%d sites=%d)" % (missing, rep["files"], len(sites))
    for s in shared:
        chk.note("SHARED root: %s:%d %s  %s  (root %s: %s)" % (s["file"], s["line"], s["func"], s["stmt"], s["root"], s["why"]))
    if stale:
        chk.note("stale allow-list entries:", [(a["func"], a["stmt"]) for a in stale])

    # ---- tie C: histories ------------------------------------------------------------
    props = harness("history", [{"listprops": TYPES}])[0]["props"]
    sig, nprobe, touts = probe_signatures(chk, props)
    nsig = sum(len(v) for v in sig.values())
    chk.note("props: %s; %d probes -> %d usable (type, prop, shape) signatures" % ({t: len(props.get(t, [])) for t in TYPES}, nprobe, nsig))
    tagmap = {}
    failing = []   # (stmts, reply)
    stats = {"histories": 0, "statements": 0, "stopped": {}, "tags": {}, "errors": 0}

    def consume(hs, outs):
        for (stmts, tags), o in zip(hs, outs):
            stats["histories"] += 1
            st = o.get("steps", [])
            stats["statements"] += len(st)
            if o.get("stopped"):
                stats["stopped"][o["stopped"]] = stats["stopped"].get(o["stopped"], 0) + 1
            for s, t, x in zip(stmts, tags, st):
                tagmap[s] = t
                if x["res"]["kind"] == "value":
                    stats["tags"][t] = stats["tags"].get(t, 0) + 1
                else:
                    stats["errors"] += 1
            nvals = sum(1 for x in st if x["res"]["kind"] == "value")
            chk.count(tuple(stmts), nvals >= 3)
            if first_change(o) is not None:
                failing.append((stmts, o))

    enum = enumerated(chk)
    if not quick:
        enum = enum + [(st + ["zz := " + st[1].split(":= ", 1)[1]], tg + [tg[1]]) for st, tg in enum[::3]]
    outs, t1 = run_hist([e[0] for e in enum])
    consume(enum, outs)
    chk.note("enumerated histories: %d, failing so far: %d" % (len(enum), len(failing)))

    # seeded random tail, built in rounds so that the types of earlier variables are known
    r = chk.rng
    nrand, total, chunk = (700, 12, 4) if quick else (3000, 40, 8)
    hs = []
    for _ in range(nrand):
        h = Hist()
        for _k in range(r.randint(2, 4)):
            e, t = r.choice(BASE_STMTS)
            h.add(e, "literal", t)
        hs.append(h)
    while hs and sig:
        for h in hs:
            extend(r, h, sig, min(chunk, total - len(h.stmts)))
        outs, t2 = run_hist([h.stmts for h in hs])
        touts += t2
        keep = []
        for h, o in zip(hs, outs):
            refresh_types(h, o)
            if o.get("stopped") or len(h.stmts) >= total:
                consume([(h.stmts, h.tags)], [o])   # final: failed, stopped or complete
            else:
                keep.append(h)
        hs = keep
    chk.note("random histories: %d of <= %d statements; statements evaluated %d (%d raised); stopped: %s; timeouts: %s"
             % (nrand, total, stats["statements"], stats["errors"], stats["stopped"], sorted(set(t for t in touts if t))[:5]))

    # ---- model correspondence (modelled subset, run inside Coq) -----------------------
    nmodel, mlen = (400, 10) if quick else (3000, 24)
    mhs = [gen_model_history(r, r.randint(3, mlen)) for _ in range(nmodel)]
    # plus the known shapes, seed-independent
    fixed = [
        [("[1, 2, 3]", "OpArrLit [AVal (VInt 1%Z); AVal (VInt 2%Z); AVal (VInt 3%Z)]", "arr"), ("[4]", "OpArrLit [AVal (VInt 4%Z)]", "arr"),
         ("v0 + v1", "OpPlus (VRef 0) (VRef 1)", "arr"), ("[5]", "OpArrLit [AVal (VInt 5%Z)]", "arr"), ("v0 + v3", "OpPlus (VRef 0) (VRef 3)", "arr"),
         ("v2 + v3", "OpPlus (VRef 2) (VRef 3)", "arr"), ("v2 + v1", "OpPlus (VRef 2) (VRef 1)", "arr")],
    ]
    for f in fixed:
        h = MH()
        for p, c, t in f:
            h.add(p, c, t, [])
        mhs.append(h)
    mouts, _ = run_hist([h.pan for h in mhs], final=True)
    cases, skipped_m = [], 0
    for idx, (h, o) in enumerate(zip(mhs, mouts)):
        if first_change(o) is not None:
            failing.append((h.pan, o))
            continue
        fin = o.get("final")
        if fin is None:
            skipped_m += 1
            continue
        exp = []
        for i in range(h.n()):
            v = fin.get("v%d" % i)
            if v is None:
                exp.append("(%d, UBad)" % i)   # the statement raised: the model must not produce a value either
                continue
            cv = coq_value(v["val"])
            if cv is not None:
                exp.append("(%d, %s)" % (i, cv))
        cases.append((idx, "(%d, [%s], [%s])" % (idx, "; ".join(h.coq), "; ".join(exp))))
        chk.count(("model", tuple(h.pan)), h.n() >= 4)
    bodies = []
    for k, sh in enumerate(shard(cases, NCPU)):
        body = ("From Coq Require Import ZArith List.\nImport ListNotations.\n"
                "From PanVerif Require Import Heap.GoSlices.\n"
                "Definition cases : list hcase := [\n" + ";\n".join(c for _, c in sh) + "].\n"
                "Definition M := Eval vm_compute in mismatches cases.\nPrint M.\n")
        bodies.append(("cases_C06_%d" % k, body))
    mism = []
    for (name, _), (rc2, out2) in zip(bodies, coq_eval_many(bodies)):
        flat = " ".join(out2.split())
        if rc2 != 0:
            chk.fail("correspondence shard %s did not evaluate: %s" % (name, out2[-600:]),
                     {"correspondence": "Heap.GoSlices vs harness history", "shard": name}, no_input=True)
            continue
        if re.search(r"M = \[\s*\]", flat):
            continue
        for m in re.finditer(r"\((\d+),\s*(\d+)\)", flat.split("M =", 1)[1]):
            mism.append((int(m.group(1)), int(m.group(2))))
    chk.note("model correspondence: %d histories compared in Coq (%d outside), %d variable mismatches" % (len(cases), skipped_m, len(mism)))
    chk.cov["model_mismatches"] = len(mism)

    # ---- evidence --------------------------------------------------------------------
    chk.cov["input_distribution"] = {"histories": stats["histories"], "statements_evaluated": stats["statements"],
                                     "statements_raising": stats["errors"], "constructs": dict(sorted(stats["tags"].items(), key=lambda kv: -kv[1])[:60]),
                                     "distinct_constructs": len(stats["tags"]), "signatures_probed": nprobe, "signatures_usable": nsig,
                                     "model_histories": len(cases), "stopped": stats["stopped"]}
    chk.cov["rule"] = ("enumerated histories: base value x producer (29 array / 15 object / 6 map producers, incl. spare-capacity arrays from + * @ A "
                       "slicing new call \\0 [*a]) x two different extensions of the same value, plus str/range/int/closure/Either/iterator scripts; "
                       "seeded random histories (every statement assigns a NEW variable; receiver, prop and argument shape drawn from all props of "
                       "Arr/Str/Obj/Map/Range/Int enumerated from the prototypes at run time and probed for not raising, plus literals with * / **, "
                       "bear/bro/new/call/\\0/kwargs/slicing). Oracle: deep fingerprint (Inspect + prototype identity chain + recursive elements) of "
                       "every variable after EACH statement equals the one taken when the variable was defined. non-trivial: >= 3 statements "
                       "produced a value; distinct by statement list. Model histories: the modelled subset rendered to Pangaea and to Coq, "
                       "final values of all variables compared inside Coq (vm_compute), random capacity oracles.")
    for h in (enum[0], enum[len(enum) // 2]):
        chk.sample({"history": h[0]})
    for h in mhs[:2]:
        chk.sample({"model_history": h.pan})
    chk.cov["trusted_base"] += [
        "hand-written model coq/Heap/GoSlices.v (Go slices/maps under arrays, objects, maps; 15 operations compiled to slice/map statements), "
        "tied by vm_compute correspondence on the modelled subset and by the write-site translator",
        "translator: harness dumpwrites (go/ast; syntactic root classification, conservative: unknown => shared) + tools/c06_allow.json "
        "(%d justified exceptions, start-up injection, *Env store); cross-checked by a synthetic self-test and by the behavioural histories" % len(allow["allow"]),
        "harness history (Go): fingerprint = Inspect + prototype identity + recursive walk; Python generators/shrinker",
        "Go's append/copy/map semantics as modelled by go_append / write_cells / add_pairs (capacity growth policy NOT trusted: universally quantified)"]
    chk.assumptions += ["values: int, nil, array, object, map in the Coq model; str, float, range, function, error, iterator values only through the behavioural tie",
                        "variables (env store) and iterators may change by definition of the property",
                        "stack traces of error values are outside `prints/contains/equals/inherits` (see tools/c06_allow.json)"]

    # ---- decide ----------------------------------------------------------------------
    reported = set()
    if failing:
        groups = {}
        for stmts, o in failing:
            step, ch = first_change(o)
            groups.setdefault(tag_of(stmts[step], tagmap), []).append((stmts, o))
        chk.cov["failing_histories"] = {k: len(v) for k, v in groups.items()}
        chk.note("histories on which a value changes: %d; by construct of the changing statement: %s"
                 % (len(failing), chk.cov["failing_histories"]))
        for pre in sorted(groups, key=lambda k: -len(groups[k])):
            if len(reported) >= 5:
                break
            stmts, o = min(groups[pre], key=lambda f: len(f[0]))
            small, so = shrink(stmts)
            fc = first_change(so)
            if fc is None:
                small, so, fc = stmts, o, first_change(o)
            step, ch = fc
            tag = tag_of(small[step], tagmap)
            klass = "C06:" + tag
            if klass in reported:
                continue
            reported.add(klass)
            extra = ""
            if shared:
                extra = " [translator: shared write root `%s` in %s]" % (shared[0]["stmt"], shared[0]["func"])
            chk.fail("value of `%s` (defined by statement %d) changed after `%s` in history %s: before %s, after %s%s"
                     % (ch["var"], ch["since"], small[step], small, ch["before"][:100], ch["after"][:100], extra),
                     {"harness": "history", "statements": small, "variable": ch["var"], "changed_by_statement": step,
                      "before": ch["before"], "after": ch["after"], "histories_failing_in_this_class": len(groups[pre]),
                      "theorem": "C06_history_named instance contradicted by the implementation"}, klass=klass)
    if mism and not failing:
        idx, var = mism[0]
        h = mhs[idx]
        chk.fail("model/implementation disagree on variable v%d of the history %s; no history found on which a value changes"
                 % (var, h.pan), {"correspondence": "Heap.GoSlices.hrun vs harness history", "statements": h.pan, "coq": h.coq,
                                  "variable": "v%d" % var, "impl_final": mouts[idx].get("final", {}).get("v%d" % var)}, no_input=True)
    if translator_broken and not failing:
        chk.fail(translator_broken, {"translator": "dumpwrites", "detail": translator_broken}, no_input=True)
    elif not writes_ok and not failing:
        what = ("Lemma writes_fresh does not check: write through a shared root: " +
                "; ".join("%s:%d %s `%s` (root %s)" % (s["file"], s["line"], s["func"], s["stmt"], s["root"]) for s in shared[:4])) if shared \
            else "gen/WriteSites.v does not compile: " + out[-500:]
        chk.fail(what, {"translator": "dumpwrites", "lemma": "writes_fresh", "shared_sites": chk.cov["write_sites"]["shared"]}, no_input=True)
    if not ok and not failing:
        chk.fail(broken, {"theorem_file": "coq/Props/C06.v", "detail": broken}, no_input=True)
    return chk.finish()
