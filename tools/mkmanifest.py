#!/usr/bin/env python3
"""Regenerates /verif/MANIFEST.json from the table below (one entry per property)."""
import json, os
ROOT = os.path.dirname(os.path.dirname(os.path.abspath(__file__)))

def load_claimed():
    d = {}
    md = os.path.join(ROOT, "tools", "manifest.d")
    for f in sorted(os.listdir(md)):
        if f.endswith(".json"):
            d[f[:-5]] = json.load(open(os.path.join(md, f)))
    return d

CLAIMED = load_claimed()

PENDING_REASON = "check not built yet in this session (claimed in DESIGN.md; being implemented)"

def main():
    props = [json.loads(l) for l in open(os.path.join(ROOT, "properties.jsonl"))]
    checks, na = [], []
    for p in props:
        pid = p["id"]
        if pid in CLAIMED:
            c = CLAIMED[pid]
            checks.append({
                "property_id": pid,
                "quick_cmd": "./check %s --tier quick" % pid,
                "thorough_cmd": "./check %s --tier thorough" % pid,
                "evidence_file": "evidence/%s.json" % pid,
                "replay_cmd_template": "./check replay {path}",
                "engine": "coq+panharness",
                "level_claimed": {"category": "proof", "text": c["text"], "design_ref": c["design"]},
                "level_note": c["note"],
                "technique": c["technique"],
            })
        else:
            na.append({"property_id": pid, "reason": PENDING_REASON})
    hooks_commits = []
    hp = os.path.join(ROOT, "hook_commits.txt")
    if os.path.exists(hp):
        hooks_commits = [l.split()[0] for l in open(hp) if l.strip()]
    m = {
        "version": 1,
        "setup_cmd": "./setup.sh",
        "hooks": {
            "guard": "verif",
            "enable": "go build -tags verif (the harness in /verif/harness is built with -tags verif against /repo through a replace directive)",
            "baseline_off_cmd": "cd /repo && GOFLAGS=-mod=mod GOPROXY=off go test -vet=off -count=1 ./...",
            "source_commits": hooks_commits,
            "add_only": True,
        },
        "engines": [
            {"name": "coq-dev", "path": "coq", "serves_properties": sorted(CLAIMED), "kind_free_text": "Coq 8.16.1 development PanVerif: executable models + theorems; Props/Cxx.v hold the property theorems"},
            {"name": "panharness", "path": "harness", "serves_properties": sorted(CLAIMED), "kind_free_text": "Go binary linked against /repo (replace directive): runs the implementation on the cases, translators from Go source/AST to Coq data"},
            {"name": "driver", "path": "tools", "serves_properties": sorted(CLAIMED), "kind_free_text": "python3: generators, Coq runner (vm_compute correspondence shards), comparators, searchers, evidence"},
        ],
        "checks": checks,
        "not_applicable": na,
        "notes": "All checks: ./check <id> [--tier quick|thorough]; cwd /verif; VERIF_SEED seeds the random tails only.",
    }
    with open(os.path.join(ROOT, "MANIFEST.json"), "w") as f:
        json.dump(m, f, indent=1)
        f.write("\n")

if __name__ == "__main__":
    main()
