"""C02 — precedence and associativity.

Obligations : coq/Props/C02.v (operator-precedence machine: yield, well-precedenced,
              unique, parenthesis fix point — all token lists, any table) and the
              kernel-checked instantiation gen/LalrInst.v of Prec/LalrCheck.v on the LALR
              tables regenerated from parser/parser.go.y on this run (tie T).
Translator  : goyacc -v (offline) into a temp dir, harness `dumptables` (go/parser over
              y.go) to compare the generated arrays with the checked-in parser/y.go, a
              reader of y.output, and the %left/%right lines of parser.go.y.
Correspond. : every enumerated expression is parsed by the real parser (harness `parse`,
              observable ast.Program.String()) and by the Coq machine inside Coq
              (gen/cases_C02_k.v, vm_compute); strings must be equal.  The metamorphic
              law parse(print(parse s)) = parse s is checked on the implementation too.
"""
import itertools
import tempfile
from pv import *

# ---------------------------------------------------------------- documented operators
INFIX = [  # (Coq constructor, source symbol, yacc token)
    ("IPlus", "+", "PLUS"), ("IMinus", "-", "MINUS"), ("IStar", "*", "STAR"), ("ISlash", "/", "SLASH"),
    ("IDoubleSlash", "//", "DOUBLE_SLASH"), ("IPercent", "%", "PERCENT"), ("IDoubleStar", "**", "DOUBLE_STAR"),
    ("IEq", "==", "EQ"), ("INeq", "!=", "NEQ"), ("ITopicEq", "===", "TOPIC_EQ"), ("ITopicNeq", "!==", "TOPIC_NEQ"),
    ("ILt", "<", "LT"), ("IGt", ">", "GT"), ("ILe", "<=", "LE"), ("IGe", ">=", "GE"), ("ISpaceship", "<=>", "SPACESHIP"),
    ("ILShift", "<<", "BIT_LSHIFT"), ("IRShift", ">>", "BIT_RSHIFT"), ("IBitAnd", "/&", "BIT_AND"),
    ("IBitOr", "/|", "BIT_OR"), ("IBitXor", "/^", "BIT_XOR"), ("IAnd", "&&", "AND"), ("IOr", "||", "OR")]
assert len(INFIX) == 23
SYM = {c: s for c, s, _ in INFIX}
TOK2INFIX = {t: c for c, _, t in INFIX}
# one representative per documented level, used for the systematic part of the triples in quick
LEVEL_REPS = ["IDoubleStar", "IStar", "IPercent", "IPlus", "IMinus", "ILShift", "IBitAnd", "IBitOr", "IBitXor",
              "ISpaceship", "IEq", "ILt", "IAnd", "IOr"]
# one operator per documented level (9 levels)
TRIPLE_REPS = ["IDoubleStar", "IDoubleSlash", "IMinus", "IRShift", "IBitAnd", "IBitXor", "ITopicNeq", "IAnd", "IOr"]
MAIN_SHAPES = ("literal", "call", "index", "grouped", "propcall", "neg", "not")
PREFIX = [("PPlus", "+"), ("PMinus", "-"), ("PStar", "*"), ("PBang", "!"), ("PBitNot", "/~")]
JUMPS = [("JReturn", "return"), ("JRaise", "raise"), ("JYield", "yield"), ("JDefer", "defer")]
# parser.go.y: compoundAssign := (<<|>>|/&|/\||/\^|\+|\-|\*|\*\*|/|//|%|&&|\|\|)=
COMPOUND = ["ILShift", "IRShift", "IBitAnd", "IBitOr", "IBitXor", "IPlus", "IMinus", "IStar", "IDoubleStar",
            "ISlash", "IDoubleSlash", "IPercent", "IAnd", "IOr"]


# ---------------------------------------------------------------- abstract tokens
# Every case is one abstract token list, rendered twice: Pangaea source and Coq term.
def A(s, show=None):
    return ("a", s, show if show is not None else s)


def N(s):
    return ("n", s)


def I(c):
    return ("i", c)


IF, ELSE, JIF, LP, RP = ("if",), ("else",), ("jif",), ("L",), ("R",)


def P(c):
    return ("p", c)


def AS(x):
    return ("as", x)


def CA(x, c):
    return ("ca", x, c)


def J(c):
    return ("j", c)


def RA(x):
    return ("ra", x)


def CH(src, show):
    return ("ch", src, show)


def MCH(src, show):
    return ("mch", src, show)


def IX(src, show):
    return ("ix", src, show)


def CALL(src, show):
    return ("call", src, show)


PSYM = dict(PREFIX)
JSYM = dict(JUMPS)


def to_src(toks):
    out = []
    prev = None
    for t in toks:
        k = t[0]
        if k == "a" or k == "n":
            out.append(t[1])
        elif k == "i":
            out.append(" " + SYM[t[1]] + " ")
        elif k in ("if", "jif"):
            out.append(" if ")
        elif k == "else":
            out.append(" else ")
        elif k == "p":
            if prev == "p":
                out.append(" ")
            out.append(PSYM[t[1]])
        elif k == "as":
            out.append(t[1] + " := ")
        elif k == "ca":
            out.append(t[1] + " " + SYM[t[2]] + "= ")
        elif k == "j":
            out.append(JSYM[t[1]] + " ")
        elif k == "ra":
            out.append(" => " + t[1])
        elif k in ("ch", "mch", "ix", "call"):
            out.append(t[1])
        elif k == "L":
            out.append("(")
        elif k == "R":
            out.append(")")
        prev = k
    return "".join(out)


def to_coq(toks):
    out = []
    q = coq_string
    for t in toks:
        k = t[0]
        if k == "a":
            out.append("a_ " + q(t[1]) if t[1] == t[2] else "t_ %s %s" % (q(t[1]), q(t[2])))
        elif k == "n":
            out.append("n_ " + q(t[1]))
        elif k == "i":
            out.append("i_ " + t[1])
        elif k == "if":
            out.append("if_")
        elif k == "jif":
            out.append("jif_")
        elif k == "else":
            out.append("else_")
        elif k == "p":
            out.append("p_ " + t[1])
        elif k == "as":
            out.append("as_ " + q(t[1]))
        elif k == "ca":
            out.append("ca_ %s %s" % (q(t[1]), t[2]))
        elif k == "j":
            out.append("j_ " + t[1])
        elif k == "ra":
            out.append("ra_ " + q(t[1]))
        elif k in ("ch", "mch", "ix", "call"):
            out.append("%s_ %s %s" % (k, q(t[1]), q(t[2])))
        elif k == "L":
            out.append("L_")
        elif k == "R":
            out.append("R_")
    return "[" + "; ".join(out) + "]"


IDS = [A("a"), A("b"), A("c"), A("d"), A("e"), A("g")]

# operand shapes: name -> function(k) giving the token list of the k-th operand
SHAPES = {
    "literal": lambda k: [N(str(k + 1))],
    "neg-literal": lambda k: [P("PMinus"), N(str(k + 1))],
    "call": lambda k: [A("f%d(x)" % k, "f%d.call(x)" % k)],
    "index": lambda k: [A("%s[i]" % "abcd"[k], "%s.at([i])" % "abcd"[k])],
    "grouped": lambda k: [LP, IDS[k], RP],
    "propcall": lambda k: [IDS[k], CH(".p", ".p()")],
    "propcall-args": lambda k: [IDS[k], CH(".p(x)", ".p(x)")],
    "neg": lambda k: [P("PMinus"), IDS[k]],
    "not": lambda k: [P("PBang"), IDS[k]],
    "postfix-index": lambda k: [IDS[k], IX("[i]", ".at([i])")],
    "postfix-call": lambda k: [IDS[k], CALL("(x)", ".call(x)")],
}


def gen_cases(chk):
    """-> list of (kind, tokens). The systematic part does not depend on the seed."""
    cs = []
    a, b, c, d = IDS[:4]
    ops = [x[0] for x in INFIX]
    # 1. all ordered pairs over identifiers
    for o1 in ops:
        for o2 in ops:
            cs.append(("pair", [a, I(o1), b, I(o2), c]))
    # 2. every pair again with each operand shape, and with explicit grouping either way
    #    (quick: the secondary shapes only over one operator per sub-level)
    for o1 in ops:
        for o2 in ops:
            full = chk.tier == "thorough" or (o1 in LEVEL_REPS and o2 in LEVEL_REPS)
            for name, f in SHAPES.items():
                if full or name in MAIN_SHAPES:
                    cs.append(("pair/" + name, f(0) + [I(o1)] + f(1) + [I(o2)] + f(2)))
            if full:
                cs.append(("pair/paren-left", [LP, a, I(o1), b, RP, I(o2), c]))
                cs.append(("pair/paren-right", [a, I(o1), LP, b, I(o2), c, RP]))
    # 3. prefix x infix, prefix x prefix, prefix x chain/index/call
    for p, _ in PREFIX:
        for o in ops:
            cs.append(("prefix-infix", [P(p), a, I(o), b]))
            cs.append(("infix-prefix", [a, I(o), P(p), b]))
            cs.append(("prefix-infix-prefix", [P(p), a, I(o), P(p), b, I(o), c]))
        for q, _ in PREFIX:
            cs.append(("prefix-prefix", [P(p), P(q), a]))
            cs.append(("prefix-prefix", [P(p), P(q), a, I("IDoubleStar"), b]))
        cs.append(("prefix-chain", [P(p), a, CH(".p", ".p()")]))
        cs.append(("prefix-chain", [P(p), a, CH(".p(x)", ".p(x)")]))
        cs.append(("prefix-chain", [P(p), a, CH("@p", "@p()")]))
        cs.append(("prefix-chain", [P(p), a, CH("&.p", "&.p()")]))
        cs.append(("prefix-chain", [P(p), a, MCH("\n  |.p", ".p()")]))
        cs.append(("prefix-chain", [P(p), a, CH(".p", ".p()"), CH(".q", ".q()")]))
        cs.append(("prefix-index", [P(p), a, IX("[i]", ".at([i])")]))
        cs.append(("prefix-call", [P(p), a, CALL("(x)", ".call(x)")]))
        cs.append(("prefix-chain-index", [P(p), a, CH(".p", ".p()"), IX("[i]", ".at([i])")]))
        cs.append(("prefix-chain-call", [P(p), a, CH(".p", ".p()"), IX("[i]", ".at([i])"), CALL("(x)", ".call(x)")]))
        cs.append(("prefix-paren-chain", [P(p), LP, a, I("IPlus"), b, RP, CH(".p", ".p()")]))
        cs.append(("prefix-literal", [P(p), N("1"), I("IDoubleStar"), N("2")]))
        cs.append(("prefix-literal", [P(p), LP, N("1"), RP]))
        cs.append(("prefix-literal", [P(p), P("PMinus"), N("1")]))
        cs.append(("prefix-literal", [P(p), N("1"), CH(".p", ".p()")]))
    # 4. chains x infix
    for o in ops:
        for ch in (CH(".p", ".p()"), CH("@p", "@p()"), CH("$p", "$p()"), CH("&.p", "&.p()"), CH("~@p", "~@p()"),
                   CH("=.p", "=.p()"), CH(".p(x, y)", ".p(x, y)"), MCH("\n|.p", ".p()"), MCH("\n  |&@p", "&@p()")):
            cs.append(("infix-chain", [a, I(o), b, ch]))
            cs.append(("chain-infix", [a, ch, I(o), b]))
        cs.append(("chain-infix-chain", [a, CH(".p", ".p()"), CH(".q", ".q()"), I(o), b, CH(".r", ".r()"),
                                         IX("[i]", ".at([i])")]))
    # 5. if / else x every operator on either side
    for o in ops:
        cs.append(("if", [a, I(o), b, IF, c]))
        cs.append(("if", [a, IF, b, I(o), c]))
        cs.append(("if", [a, I(o), b, IF, c, I(o), d]))
        cs.append(("if-else", [a, I(o), b, IF, c, ELSE, d]))
        cs.append(("if-else", [a, IF, b, I(o), c, ELSE, d]))
        cs.append(("if-else", [a, IF, b, ELSE, c, I(o), d]))
        cs.append(("if-else", [a, I(o), b, IF, b, I(o), c, ELSE, c, I(o), d]))
        cs.append(("if-else-if", [a, IF, b, ELSE, c, I(o), d, IF, IDS[4]]))
        cs.append(("if-if-else", [a, I(o), b, IF, c, IF, d, ELSE, IDS[4]]))
    cs.append(("if-if", [a, IF, b, IF, c]))
    cs.append(("if-if-else", [a, IF, b, IF, c, ELSE, d]))
    cs.append(("if-else-if", [a, IF, b, ELSE, c, IF, d]))
    cs.append(("if-else-if-else", [a, IF, b, ELSE, c, IF, d, ELSE, IDS[4]]))
    cs.append(("if-paren", [a, IF, LP, b, IF, c, ELSE, d, RP, ELSE, IDS[4]]))
    cs.append(("if-paren", [a, IF, b, ELSE, LP, c, IF, d, RP]))
    for p, _ in PREFIX:
        cs.append(("prefix-if", [P(p), a, IF, P(p), b, ELSE, P(p), c]))
        cs.append(("prefix-if", [P(p), a, IF, b]))
    for ch in (CH(".p", ".p()"), IX("[i]", ".at([i])")):
        cs.append(("chain-if", [a, ch, IF, b, ch, ELSE, c, ch]))
    # 6. the three assignment forms x every operator (and x if, x prefix, x each other)
    for o in ops:
        cs.append(("assign", [AS("x"), a, I(o), b]))
        cs.append(("assign", [a, I(o), AS("x"), b]))
        cs.append(("assign", [a, I(o), AS("x"), b, I(o), c]))
        cs.append(("assign", [AS("x"), AS("y"), a, I(o), b]))
        cs.append(("right-assign", [a, I(o), b, RA("x")]))
        cs.append(("right-assign", [a, RA("x"), I(o), b]))
        cs.append(("right-assign", [a, I(o), b, RA("x"), I(o), c]))
        cs.append(("right-assign", [a, I(o), b, RA("x"), RA("y")]))
        cs.append(("assign-right-assign", [AS("x"), a, I(o), b, RA("y")]))
        for co in COMPOUND:
            cs.append(("compound-assign", [CA("x", co), a, I(o), b]))
        cs.append(("compound-assign", [a, I(o), CA("x", "IPlus"), b, I(o), c]))
    for co in COMPOUND:
        cs.append(("compound-assign", [CA("x", co), CA("y", co), a]))
        cs.append(("compound-assign", [CA("x", co), AS("y"), a, RA("z")]))
        cs.append(("compound-assign", [CA("x", co), a, IF, b, ELSE, c]))
        cs.append(("compound-assign", [a, IF, CA("x", co), b, ELSE, CA("y", co), c]))
    cs.append(("assign-if", [AS("x"), a, IF, b]))
    cs.append(("assign-if", [AS("x"), a, IF, b, ELSE, c]))
    cs.append(("assign-if", [a, IF, AS("x"), b, ELSE, c]))
    cs.append(("assign-if", [a, IF, b, ELSE, AS("x"), c]))
    cs.append(("assign-if", [a, IF, b, ELSE, AS("x"), c, IF, d]))
    cs.append(("right-assign-if", [a, RA("x"), IF, b]))
    cs.append(("right-assign-if", [a, IF, b, RA("x")]))
    cs.append(("right-assign-if", [a, IF, b, RA("x"), ELSE, c]))
    cs.append(("right-assign-if", [a, IF, b, ELSE, c, RA("x")]))
    cs.append(("right-assign-chain", [a, RA("x"), CH(".p", ".p()")]))
    cs.append(("assign-chain", [AS("x"), a, CH(".p", ".p()"), IX("[i]", ".at([i])")]))
    for p, _ in PREFIX:
        cs.append(("prefix-assign", [P(p), AS("x"), a]))
        cs.append(("prefix-assign", [AS("x"), P(p), a]))
        cs.append(("prefix-assign", [P(p), a, RA("x")]))
        cs.append(("prefix-assign", [P(p), CA("x", "IMinus"), P(p), a, I("IPlus"), b]))
    # 7. jump statements x {operator, if, assignment, prefix, chain}
    for j, _ in JUMPS:
        for o in ops:
            cs.append(("jump-infix", [J(j), a, I(o), b]))
            cs.append(("jump-if", [J(j), a, I(o), b, JIF, c]))
            cs.append(("jump-if", [J(j), a, JIF, b, I(o), c]))
        cs.append(("jump-if", [J(j), a, JIF, b]))
        cs.append(("jump-if", [J(j), a, JIF, b, IF, c]))
        cs.append(("jump-if", [J(j), a, JIF, b, IF, c, ELSE, d]))
        cs.append(("jump-if", [J(j), LP, a, IF, b, ELSE, c, RP, JIF, d]))
        cs.append(("jump-assign", [J(j), AS("x"), a]))
        cs.append(("jump-assign", [J(j), AS("x"), a, JIF, b]))
        cs.append(("jump-assign", [J(j), a, RA("x")]))
        cs.append(("jump-assign", [J(j), a, RA("x"), JIF, b, RA("y")]))
        cs.append(("jump-assign", [J(j), CA("x", "IPlus"), a, JIF, CA("y", "IStar"), b]))
        cs.append(("jump-chain", [J(j), a, CH(".p", ".p()"), JIF, b, IX("[i]", ".at([i])")]))
        for p, _ in PREFIX:
            cs.append(("jump-prefix", [J(j), P(p), a, JIF, P(p), b]))
    # 8. triples over identifiers: all 23^3 in thorough; in quick every triple over one
    #    representative set per documented level plus a seeded sample of the others
    if chk.tier == "thorough":
        for o1, o2, o3 in itertools.product(ops, repeat=3):
            cs.append(("triple", [a, I(o1), b, I(o2), c, I(o3), d]))
    else:
        seen = set()
        for t in itertools.product(TRIPLE_REPS, repeat=3):
            seen.add(t)
            cs.append(("triple", [a, I(t[0]), b, I(t[1]), c, I(t[2]), d]))
        allt = [t for t in itertools.product(ops, repeat=3) if t not in seen]
        for t in chk.rng.sample(allt, 2000):
            cs.append(("triple", [a, I(t[0]), b, I(t[1]), c, I(t[2]), d]))
    # 9. seeded random tail: longer grammatical expressions mixing every construct
    n = 1500 if chk.tier == "quick" else 12000
    for _ in range(n):
        cs.append(("random", random_stmt(chk.rng)))
    return cs


def random_operand(r, depth):
    pre = []
    while r.random() < 0.25 and len(pre) < 2:
        pre.append(P(r.choice(PREFIX)[0]))
    k = r.random()
    if k < 0.5:
        core = [A(r.choice("abcdeg"))]
    elif k < 0.62:
        core = [N(str(r.randint(1, 9)))]
    elif k < 0.7:
        core = [A("f(x)", "f.call(x)")]
    elif k < 0.76:
        core = [A("h[i]", "h.at([i])")]
    elif depth < 2:
        core = [LP] + random_expr(r, depth + 1, r.randint(1, 3)) + [RP]
    else:
        core = [A(r.choice("abcdeg"))]
    post = []
    while r.random() < 0.22 and len(post) < 2:
        q = r.choice([CH(".p", ".p()"), CH("@q", "@q()"), CH(".p(x)", ".p(x)"), CH("&.r", "&.r()"),
                      IX("[i]", ".at([i])"), CALL("(y)", ".call(y)"), MCH("\n |.m", ".m()")])
        if q[0] == "call" and post and post[-1][0] in ("ch", "mch") and "(" not in post[-1][1]:
            continue  # `a.p(y)` is one prop call with arguments, not a call of `a.p`
        post.append(q)
    return pre + core + post


def random_expr(r, depth, nops):
    """a grammatical expression: operands joined by infix operators, with assignments
    as prefixes, right assignments as postfixes and at most one if[/else] at the end"""
    toks = []
    ops = [x[0] for x in INFIX]
    for k in range(nops + 1):
        if r.random() < 0.12:
            toks.append(AS(r.choice("xyz")) if r.random() < 0.6 else CA(r.choice("xyz"), r.choice(COMPOUND)))
        toks += random_operand(r, depth)
        if r.random() < 0.08:
            toks.append(RA(r.choice("xyz")))
        if k < nops:
            toks.append(I(r.choice(ops)))
    if r.random() < 0.3:
        toks.append(IF)
        toks += random_expr_noif(r, depth, r.randint(0, 2))
        if r.random() < 0.6:
            toks.append(ELSE)
            toks += random_expr_noif(r, depth, r.randint(0, 2))
            if r.random() < 0.2:
                toks.append(IF)
                toks += random_expr_noif(r, depth, r.randint(0, 1))
    return toks


def random_expr_noif(r, depth, nops):
    toks = []
    ops = [x[0] for x in INFIX]
    for k in range(nops + 1):
        if r.random() < 0.1:
            toks.append(AS(r.choice("xyz")))
        toks += random_operand(r, depth)
        if r.random() < 0.06:
            toks.append(RA(r.choice("xyz")))
        if k < nops:
            toks.append(I(r.choice(ops)))
    return toks


def random_stmt(r):
    if r.random() < 0.12:
        toks = [J(r.choice(JUMPS)[0])] + random_expr_noif(r, 0, r.randint(0, 3))
        if r.random() < 0.5:
            toks.append(JIF)
            toks += random_expr(r, 0, r.randint(0, 2))
        return toks
    return random_expr(r, 0, r.randint(1, 5))


# ---------------------------------------------------------------- translator (tie T)
ARRAYS = ["yyExca", "yyAct", "yyPact", "yyPgo", "yyR1", "yyR2", "yyChk", "yyDef", "yyTok1", "yyTok2", "yyTok3"]


def run_goyacc(tmp):
    """goyacc -v on the grammar of the working tree, output outside the repository"""
    ygo, yout = os.path.join(tmp, "y.go"), os.path.join(tmp, "y.output")
    rc, log = run(["go", "run", "golang.org/x/tools/cmd/goyacc", "-o", ygo, "-v", yout,
                   os.path.join("parser", "parser.go.y")], cwd=REPO, env=GOENV, timeout=600)
    return rc, log, ygo, yout


def strip_line_directives(txt):
    lines = [l for l in txt.splitlines() if not l.startswith("//line ")]
    return "\n".join(lines[1:])  # first line: "// Code generated by goyacc <args>"


def read_prec_decls(path):
    """%left / %right lines of the grammar, in order: [(token, level, assoc)]"""
    decls, level = [], 0
    for l in open(path):
        if l.strip() == "%%":
            break
        m = re.match(r"^%(left|right|nonassoc)\s+(.*)$", l)
        if m:
            level += 1
            for t in m.group(2).split():
                decls.append((t, level, m.group(1)))
    return decls


def read_youtput(path):
    """-> (states, conflicts); states[n] = {"items": [(lhs, rhs, dot, rule)], "acts": [(tok, act)], "default": act}"""
    states, conflicts, cur = [], [], None
    for l in open(path):
        l = l.rstrip("\n")
        m = re.match(r"^(\d+): shift/reduce conflict \(shift (\d+)\(\d+\), red'n (\d+)\(\d+\)\) on (\S+)", l)
        if m:
            conflicts.append((int(m.group(1)), int(m.group(2)), int(m.group(3)), m.group(4)))
            continue
        m = re.match(r"^(\d+): reduce/reduce conflict", l)
        if m:
            conflicts.append((int(m.group(1)), 0, 0, "reduce/reduce"))
            continue
        m = re.match(r"^state (\d+)$", l)
        if m:
            assert int(m.group(1)) == len(states)
            cur = {"items": [], "acts": [], "default": ("error",), "gotos": []}
            states.append(cur)
            continue
        if cur is None or not l.startswith("\t"):
            if re.match(r"^\d+ terminals", l):
                cur = None
            continue
        body = l[1:]
        m = re.match(r"^(\S+):\s(.*)$", body)
        if m:
            lhs, rest = m.group(1), m.group(2)
            rule = 0
            mr = re.search(r"\((\d+)\)\s*$", rest)
            if mr:
                rule = int(mr.group(1))
                rest = rest[:mr.start()]
            syms = rest.replace(".", " . ").split()
            dot = syms.index(".")
            syms.remove(".")
            cur["items"].append((lhs, syms, dot, rule))
            continue
        m = re.match(r"^(\S+)\s+(shift|reduce|goto)\s+(\d+)", body)
        if m:
            tok, kind, n = m.group(1), m.group(2), int(m.group(3))
            if kind == "goto":
                cur["gotos"].append((tok, n))
            elif tok == ".":
                cur["default"] = (kind, n)
            else:
                cur["acts"].append((tok, (kind, n)))
            continue
        m = re.match(r"^(\S+)\s+(accept|error)\s*$", body)
        if m:
            if m.group(1) == ".":
                cur["default"] = (m.group(2),)
            else:
                cur["acts"].append((m.group(1), (m.group(2),)))
            continue
        raise ValueError("y.output: unrecognised line %r" % l)
    return states, conflicts


def coq_action(a):
    return {"shift": "Shift %d", "reduce": "Reduce %d"}[a[0]] % a[1] if len(a) == 2 else a[0].capitalize()


def tables_to_coq(states, conflicts, decls):
    syms = {}

    def S(s):
        if s not in syms:
            syms[s] = "y%d" % len(syms)
        return syms[s]

    rows = []
    for st in states:
        items = "; ".join("mkItem %s [%s] %d %d" % (S(l), "; ".join(S(x) for x in rhs), dot, rule)
                          for l, rhs, dot, rule in st["items"])
        acts = "; ".join("(%s, %s)" % (S(t), coq_action(a)) for t, a in st["acts"])
        rows.append("  mkState [%s]\n    [%s] (%s)" % (items, acts, coq_action(st["default"])))
    prec = "; ".join("(%s, %d, %s)" % (S(t), lv, {"left": "LeftA", "right": "RightA"}.get(a, "NonA"))
                     for t, lv, a in decls)
    conf = "; ".join("mkConflict %d %d %d %s" % (s, sh, r, S(t)) for s, sh, r, t in conflicts)
    head = ("(* GENERATED by tools/c02.py from `goyacc -v` on parser/parser.go.y — do not edit, not committed. *)\n"
            "From Coq Require Import List String.\nImport ListNotations.\n"
            "From PanVerif Require Import Prec.PrecSpec Prec.LalrCheck.\nLocal Open Scope string_scope.\n")
    defs = "".join("Definition %s := %s.\n" % (v, coq_string(k)) for k, v in syms.items())
    return (head + defs + "Definition lalr_states : list state := [\n" + ";\n".join(rows) + "].\n"
            "Definition lalr_prec : list (string * nat * assoc) := [" + prec + "].\n"
            "Definition lalr_conflicts : list conflict := [" + conf + "].\n"
            "Definition lalr_tables : tables := mkTables lalr_states lalr_prec lalr_conflicts.\n")


INST = """(* GENERATED by tools/c02.py — the kernel-checked instantiation of Prec/LalrCheck.v on the
   tables of this run. *)
From PanVerif Require Import Prec.PrecSpec Prec.LalrCheck gen.LalrTables.
Lemma lalr_tables_checked : check_tables lalr_tables = true.
Proof. vm_compute. reflexivity. Qed.
Theorem C02_tables_respect_spec : tables_respect_spec lalr_tables.
Proof. exact (check_tables_sound lalr_tables lalr_tables_checked). Qed.
Print Assumptions C02_tables_respect_spec.
"""

DIAG = """From Coq Require Import List String.
Import ListNotations.
From PanVerif Require Import Prec.PrecSpec Prec.LalrCheck gen.LalrTables.
Local Open Scope string_scope.
Definition D1 := Eval vm_compute in (prec_decls_ok lalr_tables, infix_present lalr_tables, conflicts_ok lalr_tables).
Print D1.
Definition D2 := Eval vm_compute in offenders lalr_tables.
Print D2.
"""


def coqc_gen(name, timeout=900, keep_vo=False):
    rc, out = run(["timeout", str(timeout), "coqc", "-R", ".", "PanVerif", "-w", "-all",
                   os.path.join("gen", name + ".v")], cwd=COQ, timeout=timeout + 30)
    if not keep_vo:
        clean_gen(name)
    return rc, out


def clean_gen(name):
    for ext in (".vo", ".vok", ".vos", ".glob"):
        try:
            os.remove(os.path.join(GEN, name + ext))
        except OSError:
            pass
    try:
        os.remove(os.path.join(GEN, "." + name + ".aux"))
    except OSError:
        pass


def translate_and_check(chk):
    """Runs the translator and the tables lemma. Returns a dict describing what broke."""
    res = {"stale": None, "lemma": None, "offenders": [], "diag": ""}
    tmp = tempfile.mkdtemp(prefix="c02-goyacc-")
    try:
        rc, log, ygo, yout = run_goyacc(tmp)
        if rc != 0 or not os.path.exists(ygo) or not os.path.exists(yout):
            res["lemma"] = "goyacc does not accept parser/parser.go.y: " + log[-600:]
            return res
        m = re.search(r"conflicts: (\d+) shift/reduce(?:, (\d+) reduce/reduce)?", log)
        chk.cov["goyacc_conflicts"] = m.group(0) if m else "none"
        fresh, checked = harness("dumptables", [{"ygo": ygo}, {"ygo": os.path.join(REPO, "parser", "y.go")}])
        if not fresh.get("ok") or not checked.get("ok"):
            res["stale"] = "y.go cannot be read: %s / %s" % (fresh.get("err"), checked.get("err"))
        else:
            diff = [n for n in ARRAYS if fresh["arrays"].get(n) != checked["arrays"].get(n)]
            if fresh["toknames"] != checked["toknames"]:
                diff.append("yyToknames")
            if fresh["consts"] != checked["consts"]:
                diff.append("constants")
            chk.cov["ygo_tables_compared"] = {n: len(fresh["arrays"].get(n, [])) for n in ARRAYS}
            if diff:
                res["stale"] = ("checked-in parser/y.go differs from what goyacc generates from parser/parser.go.y in: "
                                + ", ".join(diff))
            a1 = strip_line_directives(open(ygo).read())
            a2 = strip_line_directives(open(os.path.join(REPO, "parser", "y.go")).read())
            chk.cov["ygo_identical_modulo_line_directives"] = (a1 == a2)
            if a1 != a2 and not diff:
                res["stale"] = ("checked-in parser/y.go has the tables but not the semantic actions goyacc generates "
                                "from parser/parser.go.y")
        states, conflicts = read_youtput(yout)
        decls = read_prec_decls(os.path.join(REPO, "parser", "parser.go.y"))
        chk.cov["lalr_states"] = len(states)
        chk.cov["lalr_conflicts"] = ["state %d on %s" % (s, t) for s, _, _, t in conflicts]
        res["states"] = states
    finally:
        shutil.rmtree(tmp, ignore_errors=True)
    os.makedirs(GEN, exist_ok=True)
    import pv as _pv
    LT, LI = "LalrTables" + _pv.SUFFIX, "LalrInst" + _pv.SUFFIX
    with open(os.path.join(GEN, LT + ".v"), "w") as f:
        f.write(tables_to_coq(states, conflicts, decls))
    with open(os.path.join(GEN, LI + ".v"), "w") as f:
        f.write(INST.replace("gen.LalrTables", "gen." + LT))
    chk.cov["obligations"] += 1
    rc, out = coqc_gen(LT, keep_vo=True)
    if rc != 0:
        res["lemma"] = "gen/LalrTables.v does not compile: " + out[-800:]
        clean_gen(LT)
        return res
    rc, out = coqc_gen(LI)
    if rc == 0 and "Closed under the global context" in out:
        chk.cov["discharged"] += 1
        chk.cov["theorems"] = chk.cov.get("theorems", []) + ["C02_tables_respect_spec (gen/LalrInst.v, regenerated)"]
    else:
        res["lemma"] = ("the regenerated LALR tables do not respect the documented precedence table "
                        "(gen/LalrInst.v: check_tables lalr_tables = true fails): " + " ".join(out.split())[-300:])
        with open(os.path.join(GEN, "LalrDiag.v"), "w") as f:
            f.write(DIAG)
        rc2, out2 = coqc_gen("LalrDiag")
        flat = " ".join(out2.split())
        res["diag"] = flat[:3000]
        for m in re.finditer(r'\((\d+),\s*"(\w+)",\s*\[([^\]]*)\],\s*\[([^\]]*)\]\)', flat):
            rhs = re.findall(r'"([^"]*)"', m.group(3))
            bad = re.findall(r'"([^"]*)"', m.group(4))
            res["offenders"].append((int(m.group(1)), m.group(2), rhs, bad))
        md = re.search(r"D1 = \((\w+), (\w+), (\w+)\)", flat)
        parts = []
        if md:
            parts = [n for n, v in zip(("the %left/%right lines do not refine the documented table (associativity, or order of two rows)", "an infix operator has no rule",
                                        "the conflicts are not the three known LPAREN ones"), md.groups()) if v == "false"]
        parts += ["state %d, %s: %s . on lookahead %s" % (n, l, " ".join(r), ", ".join(b) or "(rule unknown to the table)")
                  for n, l, r, b in res["offenders"][:4]]
        if parts:
            res["lemma"] = ("the regenerated LALR tables do not respect the documented precedence table "
                            "(gen/LalrInst.v does not check): " + "; ".join(parts))
    clean_gen("LalrTables")
    return res


# ---------------------------------------------------------------- running both sides
def run_model(cases, tag="cases_C02"):
    """cases: list of token lists. Runs Prec.PanExpr.results inside Coq (vm_compute).
    Returns (res, errors): res[i] = (the machine's print, the machine re-parses its own fully
    parenthesised form to the same print, that fully parenthesised source text)."""
    shards = shard(list(enumerate(cases)), NCPU)
    bodies = []
    for k, sh in enumerate(shards):
        names, defs, rows = {}, [], []
        for i, toks in sh:
            ids = []
            for t in toks:
                if t not in names:
                    names[t] = "k%d" % len(names)
                    defs.append("Definition %s := %s." % (names[t], to_coq([t])[1:-1]))
                ids.append(names[t])
            rows.append("(%d%%N, [%s])" % (i, "; ".join(ids)))
        body = ("From Coq Require Import List String NArith.\nImport ListNotations.\n"
                "From PanVerif Require Import Prec.OpMachine Prec.PrecSpec Prec.PanExpr.\n"
                "Local Open Scope string_scope.\n" + "\n".join(defs) + "\n"
                "Definition cases : list pcase := [\n" + ";\n".join(rows) + "].\n"
                "Definition M := Eval vm_compute in results cases.\nPrint M.\n")
        bodies.append(("%s_%d" % (tag, k), body))
    results = coq_eval_many(bodies)
    res, errors = {}, []
    for (name, _), (rc, out), sh in zip(bodies, results, shards):
        if rc != 0 or "M =" not in out:
            errors.append((name, out[-600:]))
            continue
        flat = out[out.index("M ="):]
        n = 0
        for m in re.finditer(r'\((\d+)(?:%N)?,\s*"((?:[^"]|"")*)",\s*(true|false),\s*"((?:[^"]|"")*)"\)', flat, re.S):
            res[int(m.group(1))] = (m.group(2).replace('""', '"'), m.group(3) == "true", m.group(4).replace('""', '"'))
            n += 1
        if n != len(sh):
            errors.append((name, "read %d of %d results" % (n, len(sh))))
    return res, errors


def string_is_source(toks):
    """ast String() prints index/call as `.at([i])` / `.call(x)` and a prop call without
    parentheses around a prefixed receiver; under a prefix operator that text is a
    different expression, so the print is only re-parsed when no prefix operator meets them"""
    has_pre = any(t[0] == "p" for t in toks)
    has_post = any(t[0] in ("ch", "mch", "ix", "call") or (t[0] == "a" and t[1] != t[2]) for t in toks)
    return not (has_pre and has_post)


def search_tables_break(chk, offenders):
    """A table decision differs from the specification: look for an expression on which
    the real parser and the machine disagree, in several syntactic contexts."""
    tok_infix = TOK2INFIX
    cands = []
    a, b, c = IDS[:3]

    def lookahead_forms(tok):
        if tok in tok_infix:
            return [[I(tok_infix[tok]), c]]
        if tok == "IF":
            return [[IF, c], [IF, c, ELSE, IDS[3]]]
        if tok == "ELSE":
            return []
        if tok == "RIGHT_ASSIGN":
            return [[RA("x")]]
        if tok in ("ADD_CHAIN", "MAIN_CHAIN"):
            return [[CH(".p", ".p()")], [CH("&.p", "&.p()")]]
        if tok.startswith("MULTILINE"):
            return [[MCH("\n|.p", ".p()")], [MCH("\n|&.p", "&.p()")]]
        return []

    for _, lhs, rhs, bad in offenders:
        heads = []
        if lhs == "infixExpr" and len(rhs) == 3 and rhs[1] in tok_infix:
            heads = [[a, I(tok_infix[rhs[1]]), b]]
        elif lhs == "prefixExpr":
            heads = [[P(p), a] for p, s in PREFIX if {"+": "PLUS", "-": "MINUS", "*": "STAR", "!": "BANG",
                                                     "/~": "BIT_NOT"}[s] == rhs[0]]
        elif lhs == "ifExpr" and len(rhs) == 3:
            heads = [[a, IF, b]]
        elif lhs == "ifExpr":
            heads = [[a, IF, b, ELSE, IDS[4]]]
        elif lhs == "assignExpr" and len(rhs) == 3 and rhs[1] == "ASSIGN":
            heads = [[AS("x"), a]]
        elif lhs == "assignExpr" and len(rhs) == 3 and rhs[1] == "COMPOUND_ASSIGN":
            heads = [[CA("x", "IPlus"), a]]
        elif lhs == "assignExpr":
            heads = [[a, RA("y")]]
        elif lhs == "jumpStmt":
            heads = [[J(j), a] for j, s in JUMPS if s.upper() == rhs[0]]
        elif lhs == "jumpIfStmt":
            heads = [[J("JReturn"), a, JIF, b]]
        toks = bad if bad and bad != ["*"] else [t for _, _, t in INFIX] + ["IF", "RIGHT_ASSIGN", "MAIN_CHAIN"]
        for h in heads:
            for t in toks:
                for la in lookahead_forms(t):
                    if h and h[0][0] == "j" and JIF not in h and la and la[0] == IF:
                        la = [JIF] + la[1:]
                        if ELSE in la:
                            continue
                    cands.append(h + la)
    # contexts: (source prefix, source suffix, printed prefix, printed suffix)
    ctxs = [("", "", "", ""), ("f(", ")", "f.call(", ")"), ("[", "]", "[", "]"), ("z\n", "", "z\n", ""),
            ("(", ") + z", "(", " + z)"), ("[1, ", "]", "[1, ", "]"), ("o.m(1, ", ")", "o.m(1, ", ")")]
    reqs, meta = [], []
    for toks in cands:
        for ctx in ctxs:
            if toks[0][0] == "j" and ctx[0] not in ("", "z\n"):
                continue
            reqs.append({"src": ctx[0] + to_src(toks) + ctx[1]})
            meta.append((toks, ctx))
    if not reqs:
        return None
    outs = harness("parse", reqs, shards=NCPU)
    # the machine's answer for the inner expression, wrapped by the context's print
    inner = []
    for (toks, ctx), o in zip(meta, outs):
        got = o.get("ast", "") if o.get("ok") else "<syntax error>"
        if got.startswith(ctx[2]) and (ctx[3] == "" or got.endswith(ctx[3])):
            inner.append(got[len(ctx[2]):len(got) - len(ctx[3])])
        else:
            inner.append(got)
    res, errors = run_model([t for t, _ in meta], tag="search_C02")
    for i in sorted(res):
        if res[i][0] == inner[i]:
            continue
        toks, ctx = meta[i]
        return {"src": reqs[i]["src"], "impl": outs[i].get("ast", outs[i].get("err", ""))[:300],
                "spec": ctx[2] + res[i][0] + ctx[3]}
    return None


def main(chk):
    build_harness()
    ok, broken = obligations(chk, "Props/C02.v")
    chk.note("obligations of Props/C02.v:", "ok" if ok else broken)
    tr = translate_and_check(chk)
    chk.note("translator: %d LALR states, stale=%s, tables lemma=%s" % (
        chk.cov.get("lalr_states", 0), tr["stale"], "ok" if tr["lemma"] is None else "BROKEN"))

    cases = gen_cases(chk)
    # de-duplicate by source text
    seen, uniq = set(), []
    for kind, toks in cases:
        src = to_src(toks)
        if src in seen:
            continue
        seen.add(src)
        uniq.append((kind, toks, src))
    cases = uniq
    chk.note("cases:", len(cases))
    outs = harness("parse", [{"src": s} for _, _, s in cases], shards=NCPU)
    chk.note("parsed by the implementation")
    wants = [o["ast"] if o.get("ok") else "<syntax error>" for o in outs]
    res, errors = run_model([t for _, t, _ in cases])
    mism = {i: r[0] for i, r in res.items() if r[0] != wants[i]}
    chk.note("machine evaluated inside Coq: %d disagreements" % len(mism))
    for i in sorted(mism)[:8]:
        chk.note("  disagreement [%s] `%s`: impl %s | spec %s" % (cases[i][0], cases[i][2].replace("\n", "\\n"), wants[i][:150], mism[i][:150]))
    # the machine re-parses its own fully parenthesised output to the same tree (theorem
    # C02_pangaea_paren_stable, observed here through the printer)
    model_meta = [i for i, r in res.items() if not r[1]]
    # metamorphic law on the implementation, (a): the source with all the parentheses the
    # table implies (computed by the machine) must parse to the same abstract syntax
    idx2 = [i for i in range(len(cases)) if i in res and res[i][2] != "" and outs[i].get("ok")]
    outs2 = harness("parse", [{"src": res[i][2]} for i in idx2], shards=NCPU)
    meta_fail = [(i, res[i][2], o2) for i, o2 in zip(idx2, outs2) if not o2.get("ok") or o2["ast"] != outs[i]["ast"]]
    # (b): the implementation's own print re-parses to itself, wherever String() is valid
    # source for the same construct (it prints `-a[i]` as `(-a.at([i]))`, which is another expression)
    idx3 = [i for i in range(len(cases)) if outs[i].get("ok") and string_is_source(cases[i][1])
            and (chk.tier == "thorough" or not cases[i][0].startswith(("pair/", "triple")))]
    outs3 = harness("parse", [{"src": outs[i]["ast"]} for i in idx3], shards=NCPU)
    meta_fail += [(i, outs[i]["ast"], o3) for i, o3 in zip(idx3, outs3) if not o3.get("ok") or o3["ast"] != outs[i]["ast"]]
    chk.note("metamorphic re-parse: %d + %d sources, %d failures" % (len(idx2), len(idx3), len(meta_fail)))

    hist = {}
    for (kind, toks, src), o in zip(cases, outs):
        hist[kind] = hist.get(kind, 0) + 1
        nops = sum(1 for t in toks if t[0] not in ("a", "n", "L", "R"))
        chk.count(src, nops >= 2)
    chk.cov["evaluations"] += len(idx2) + len(idx3)
    chk.cov["input_distribution"] = hist
    chk.cov["model_mismatches"] = len(mism)
    chk.cov["metamorphic_failures"] = len(meta_fail)
    chk.cov["exhaustive_part"] = ("all 23x23 ordered infix pairs over identifiers and over 7 operand shapes (literal, call, index, grouped, prop call, -x, !x), 4 more shapes and both explicit groupings; "
                             "prefix(5) x infix(23); if/else x 23; 3 assignment forms x 23 (14 compound operators x 23); "
                             "4 jump statements x 23 and x if; " +
                             ("all 23^3 triples" if chk.tier == "thorough" else
                              "all triples over one operator per level (729) + 2000 seeded others (all 12167 in thorough); secondary shapes over 14x14 pairs (all in thorough)"))
    chk.cov["rule"] = ("each case is one abstract token list rendered to Pangaea source (parsed by parser.Parse, printed by "
                       "ast.Program.String()) and to a Coq term (parsed by Prec.OpMachine.parse with the documented table, "
                       "printed by Prec.PanExpr.show); equal strings required; then the printed form is parsed again and must "
                       "print the same. evaluations = parses by the implementation; non-trivial: at least two operators/"
                       "constructs in the expression; distinct by source text. The random tail (seeded) mixes all constructs, "
                       "nesting depth <= 2, up to 6 infix operators.")
    step = max(1, len(cases) // 10)
    for i in range(0, len(cases), step):
        chk.sample({"kind": cases[i][0], "src": cases[i][2], "impl": outs[i].get("ast", outs[i].get("err", ""))[:200]})
    chk.cov["trusted_base"] += [
        "goyacc (golang.org/x/tools/cmd/goyacc from the module cache) and its -v report y.output; reader of y.output and of the %left/%right lines in tools/c02.py",
        "harness dumptables (go/parser over y.go) comparing yyExca yyAct yyPact yyPgo yyR1 yyR2 yyChk yyDef yyTok1-3 yyToknames and constants",
        "goyacc's driver loop yyParse: that it executes the tables as the operator-precedence machine is validated by the correspondence, not proved",
        "harness parse (ast.Program.String()), the two renderers of tools/c02.py (cross-checked by the string equality itself), printer Prec/PanExpr.show",
        "the lexer: the token-list cases are spelled with blanks around infix operators so that tokenisation (C16) does not interfere; the `spacing` family "
        "(every operator pair over names, int literals and argument variables, written with and without blanks) compares the two spellings"]
    chk.assumptions += [
        "operands inside call arguments / literals / chain arguments are separate expression contexts; the tables lemma covers them (every state), the enumeration does not",
        "`else` directly follows the condition of its `if`; the `if` after a jump statement is the statement-level jump-if whose condition extends to the end of the statement",
        "the bit-invert prefix operator is spelled `/~` as in the lexer (the documentation writes `~`); prefix `*` is included although undocumented"]
    chk.cov["explanation"] = (
        "Theorems (Props/C02.v): for any decision table the machine returns the unique well-precedenced tree whose yield is the "
        "token list, and adding parentheses around any sub-trees of it does not change the parse. Tables lemma (regenerated every "
        "run): in every LALR state with a completed operator item the action on each of the 30 operator lookahead tokens is the "
        "one PrecSpec.cred prescribes; the %left/%right lines equal the documented table; y.go is what goyacc generates.")

    # blanks around infix operators are layout: `a+b*c`, `\\-1`, `1-\\2` group like `a + b * c`, `\\ - 1`, `1 - \\2` (operand atoms:
    # names, int literals, argument variables; operators that begin with `!` are left out because `b!` is a name)
    import itertools
    sp_reqs, sp_meta = [], []
    tops = [o for o in [x[0] for x in INFIX] if not SYM[o].startswith("!")]
    for o1, o2 in itertools.product(tops, repeat=2):
        for at in (("a", "b", "c"), ("\\", "1", "\\2"), ("1", "x", "2"), ("\\1", "\\", "3"), ("\\", "12", "\\")):
            sp = "%s %s %s %s %s" % (at[0], SYM[o1], at[1], SYM[o2], at[2])
            ti = "%s%s%s%s%s" % (at[0], SYM[o1], at[1], SYM[o2], at[2])
            sp_reqs += [{"src": sp}, {"src": ti}]
            sp_meta.append((sp, ti))
    sp_outs = harness("parse", sp_reqs, shards=NCPU)
    sp_fail = []
    for k, (sp, ti) in enumerate(sp_meta):
        oa, ob = sp_outs[2 * k], sp_outs[2 * k + 1]
        chk.count(("spacing", ti), True)
        ra = oa.get("ast") if oa.get("ok") else "<syntax error>"
        rb = ob.get("ast") if ob.get("ok") else "<syntax error>"
        if ra != rb:
            sp_fail.append((sp, ti, ra, rb))

    # ---- decide
    failing = 0
    if sp_fail:
        sp, ti, ra, rb = sp_fail[0]
        failing += 1
        chk.fail("`%s` parses as %s but the same expression without blanks, `%s`, parses as %s (%d such pairs)" % (sp, ra, ti, rb, len(sp_fail)),
                 {"harness": "parse", "src": ti, "impl": rb, "spec": ra, "spaced": sp, "pairs_failing": len(sp_fail)}, klass="C02:spacing")
    for (name, err) in errors:
        chk.fail("correspondence shard %s did not evaluate: %s" % (name, err),
                 {"correspondence": "Prec.PanExpr.render vs parser.Parse", "shard": name}, no_input=True)
    seenk = set()
    for i in sorted(mism):
        kind, toks, src = cases[i]
        ops = tuple(t[1] if t[0] in ("i", "p", "j") else t[0] for t in toks if t[0] not in ("a", "n", "L", "R"))
        klass = "C02:" + kind.split("/")[0]
        if klass in seenk:
            continue
        seenk.add(klass)
        failing += 1
        impl = outs[i].get("ast") if outs[i].get("ok") else "syntax error: " + outs[i].get("err", "")[:120].replace("\n", " ")
        chk.fail("`%s` parses as %s; the documented precedence table gives %s" % (src, impl, mism[i]),
                 {"harness": "parse", "src": src, "impl": impl, "spec": mism[i], "operators": list(ops),
                  "theorem": "C02_machine_spec instance contradicted by the implementation"}, klass=klass)
    for i, src2, o2 in meta_fail[:3]:
        failing += 1
        chk.fail("adding the implied parentheses changes the parse: `%s` parses as %s but `%s` parses as %s" % (
            cases[i][2], outs[i]["ast"], src2, o2.get("ast", o2.get("err", ""))[:200].replace("\n", " ")),
            {"harness": "parse", "src": cases[i][2], "ast": outs[i]["ast"], "parenthesised": src2,
             "reparsed": o2.get("ast", o2.get("err", ""))}, klass="C02:metamorphic")
    if model_meta:
        i = model_meta[0]
        chk.fail("the machine does not re-parse its own fully parenthesised output to the same print for `%s`" % cases[i][2],
                 {"correspondence": "Prec.PanExpr.results", "src": cases[i][2]}, no_input=True)
    if tr["lemma"] is not None:
        found = None
        if not failing:
            found = search_tables_break(chk, tr["offenders"]) if tr["offenders"] else None
        if found:
            failing += 1
            chk.fail("`%s` parses as %s; the documented precedence table gives %s (LALR tables lemma broken)" % (
                found["src"], found["impl"], found["spec"]),
                {"harness": "parse", "src": found["src"], "impl": found["impl"], "spec": found["spec"],
                 "theorem": "C02_tables_respect_spec", "diag": tr["diag"][:1500]}, klass="C02:tables")
        elif not failing:
            chk.fail(tr["lemma"], {"theorem": "C02_tables_respect_spec (gen/LalrInst.v)", "detail": tr["lemma"],
                                   "offending_states": [list(o) for o in tr["offenders"][:10]], "diag": tr["diag"][:1500]},
                     no_input=True)
    if tr["stale"] is not None:
        chk.fail(tr["stale"], {"translator": "dumptables", "detail": tr["stale"],
                               "regenerate": "cd parser && goyacc -o y.go -v y.output parser.go.y"}, no_input=True)
    if not ok and not failing:
        chk.fail(broken, {"theorem_file": "coq/Props/C02.v", "detail": broken}, no_input=True)
    return chk.finish()
