#!/usr/bin/env python3
"""tools/benigneval.py /tmp/seedout/c07-b-1 [extra ids...] — a behaviour-preserving refactoring made by an independent sub-agent:
apply it to a scratch worktree of /repo, confirm it builds, the 336 scripts pass and its demo prints the same before and after,
then run the property's check and the translator-based checks (C01 C06 C20) against it. None may raise an alarm.
Stores patch, demo and verdicts under /verif/seeded/benign/<name>/."""
import json, os, shutil, subprocess, sys
ROOT = os.path.dirname(os.path.dirname(os.path.abspath(__file__)))
ENV = dict(os.environ, GOFLAGS="-mod=mod", GOPROXY="off", GOSUMDB="off", GOTOOLCHAIN="local")


def sh(cmd, cwd=None, env=None, timeout=3000):
    p = subprocess.run(cmd, shell=True, cwd=cwd, env=env or ENV, stdout=subprocess.PIPE, stderr=subprocess.STDOUT,
                       universal_newlines=True, timeout=timeout, stdin=subprocess.DEVNULL)
    return p.returncode, p.stdout


def main():
    src = sys.argv[1].rstrip("/")
    name = os.path.basename(src)
    meta = json.load(open(os.path.join(src, "meta.json")))
    pid = meta.get("property") or name.split("-")[0].upper()
    ids = []
    # BENIGN_IDS=C06,C20 limits the translator-based checks that are run beside the property's own check
    for i in [pid] + os.environ.get("BENIGN_IDS", "C01,C06,C20").split(",") + sys.argv[2:]:
        if i not in ids:
            ids.append(i)
    wt = "/tmp/benign-" + name
    sh("git -C /repo worktree remove --force %s" % wt)
    sh("git -C /repo worktree add -q --detach %s" % wt)
    res = {"name": name, "property": pid}
    try:
        demo = os.path.join(src, "demo.pangaea")
        before = sh("timeout 60 go run . %s 2>&1 | head -80" % demo, cwd=wt)[1] if os.path.exists(demo) else ""
        rc, out = sh("git apply %s" % os.path.join(src, "patch.diff"), cwd=wt)
        res["patch_applies"] = rc == 0
        rc, out = sh("go build ./... 2>&1 | tail -5", cwd=wt)
        res["builds"] = rc == 0 and "error" not in out.lower()
        rc, out = sh("go run . test tests 2>&1 | tail -1", cwd=wt, timeout=900)
        res["scripts_pass"] = out.strip().startswith("pass:")
        after = sh("timeout 60 go run . %s 2>&1 | head -80" % demo, cwd=wt)[1] if os.path.exists(demo) else ""
        res["demo_identical"] = before == after
        res["checks"] = {}
        for i in ids:
            env = dict(ENV, VERIF_REPO=wt)
            rc, out = sh("./check %s --tier quick 2>&1" % i, cwd=ROOT, env=env, timeout=3000)
            out = "\n".join(l for l in out.splitlines() if not l.startswith("["))
            lines = [l for l in out.splitlines() if l.startswith("VIOLATION") or l.startswith("OK ")]
            res["checks"][i] = {"result": "ALARM" if any(l.startswith("VIOLATION") for l in lines) else "ok",
                                "lines": [l[:200] for l in lines][:4], "detail": out[-700:] if any(l.startswith("VIOLATION") for l in lines) else ""}
        dst = os.path.join(ROOT, "seeded", "benign", name)
        os.makedirs(dst, exist_ok=True)
        for f in ("patch.diff", "demo.pangaea"):
            if os.path.exists(os.path.join(src, f)):
                shutil.copy(os.path.join(src, f), dst)
        meta.update({"confirmed": {k: res.get(k) for k in ("patch_applies", "builds", "scripts_pass", "demo_identical")}, "checks": res["checks"]})
        json.dump(meta, open(os.path.join(dst, "meta.json"), "w"), indent=1, ensure_ascii=False)
        print(json.dumps({"name": name, "confirmed": meta["confirmed"], "checks": {k: v["result"] for k, v in res["checks"].items()}}))
    finally:
        sh("git -C /repo worktree remove --force %s" % wt)
        for f in os.listdir(os.path.join(ROOT, "build")):
            if f.startswith("panharness-tmp_benign_" + name.replace("-", "_")):
                os.remove(os.path.join(ROOT, "build", f))
    return 0


if __name__ == "__main__":
    sys.exit(main())
