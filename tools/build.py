#!/usr/bin/env python3
"""Development helper: regenerate _CoqProject and build the whole Coq development."""
import sys, os
sys.path.insert(0, os.path.dirname(os.path.abspath(__file__)))
import pv
ok, log = pv.coq_make(sys.argv[1:] or None)
print(log[-3000:] if not ok else "coq build ok")
sys.exit(0 if ok else 1)
