"""C01 — no host-level crash.

Proof obligations: Props/C01.v (soundness of the argument-guard checker of Safety/GuardIR.v,
singleton initialisation, index/slice totality shared with C11) and, regenerated on every run,
gen/GuardData.v: the guard IR of every Go function of $REPO that receives a slice of Pangaea
objects (translator `harness dumpguards`), `builtins_ok : all_safe builtins = true` by
computation and the instances of the theorems for that table; the singleton table of
object/builtinobj.go likewise.

Sweep (correspondence of the translator's reading + search for a failing input + the part of
C01 no theorem covers): `harness crash`
  direct  every Go built-in property of every global object is CALLED with 0..3 arguments drawn
          from a pool of values of every type (seed-independent enumeration),
  src     every property (Go and native) of every global object on every receiver of the pool in
          the call forms r.n(a), r@n(a), r$n(a), r&.n(a), r~.n(a), r=.n(a), all infix / prefix operators, indexing and
          slicing over the pool,
  text    malformed sources: token soup, mutated corpus programs, raw bytes; stdin contents,
each under recover(), evaluation fuel and wall-clock / heap watchdogs. Cases that run out of
fuel, time, memory or stack are outside the property (its proviso) and are discarded and counted.
"""
import itertools
import threading
from pv import *

# ---- value pool -------------------------------------------------------------------------
POOL = [
    "nil", "0", "1", "-1", "2", "3", "9223372036854775807", "(-9223372036854775807 - 1)",
    "1.5", "0.0", "-2.5", "true", "false",
    '""', '"a"', '"abc"', '"é日本"', '"1"', '" "', "'sym",
    "[]", "[1]", "[1, 2, 3]", "[nil]", "[[1, 2], [3]]", '["a", "b"]',
    "{}", "{a: 1}", "{_p: 1, b: {c: 2}}", "{a: {c: 1}, b: {a: 2}}", "[[1, {b: 2}], {a: [3]}]", "%{}", "%{1: 2}", '%{"a": 1, [1]: 2}', "%{1: 2, [1]: 3}", "%{1: 2, 3: 4}", "%{[1]: 1, {a: 1}: 2}",
    "(1:3)", "(nil:nil)", "(1:10:0)", "(3:1:-1)", '("a":"c")', "(nil:nil:nil)", "(1:nil:2)",
    "{|x| x}", "{|x, y| x + y}", "m{|x| x}", "{|| 1/0}", "{|x| yield x}",
    "<{|x| yield x if x < 3; recur(x + 1)}>.new(0)", "[1, 2]._iter", "<{||}>", "<{}>.new", "{||}",
    "Int", "Arr", "Str", "Obj", "BaseObj", "Iter", "Either", "Kernel", "Err", "Comparable",
    'Err.new("m")', "ValueErr", "_", "Either.newVal(1)", 'Either.newErr(Err.new("e"))', "1.try",
    "{|x| x}.bear({})", "[1, 2]._iter.bear({})", "<{|x| yield x}>.bear({})", "<{|x| yield x}>.new(1).bear({})", "(1:3).bear({})", '"ab".bear({})', "nil.bear({})",
    "Int.bear", "Int.bear({}).new(5)", "Int.bear({}).new(0)", "(Int.bear({}).new(5) - Int.bear({}).new(5))", "Float.bear({}).new(0.0)", 'Str.bear({}).new("")', "Arr.bear({}).new(1, 2)", "Str.bear", "{call: {|x| x}}", "{_missing: {|s, n| n}}",
]
# integers at and around sizes where tables, caches and fast paths change
INTS = ["7", "64", "127", "128", "129", "255", "256", "257", "1023", "1024", "1025", "4095", "4096", "65535", "65536", "-128", "-129", "-1024", "-1025",
        "2147483647", "2147483648", "-2147483648", "-2147483649", "4294967296", "9007199254740993", "(2 ** 10)", '("ab" * 512).len', "(1 << 16)"]
SMALL = ["nil", "0", "-1", "2", '"a"', "[1, 2, 3]", "{a: 1}", "(1:3)", "{|x| x}", "Int", "1.5", "%{1: 2}"]
THIRD = ["nil", "1", "-1", '"b"', "[]", "{|x, y| x}", "{}", "9223372036854775807"]
KWS = ["", "{base: 2}", "{base: nil}", "{base: 1}", "{base: 0}", "{base: -1}", "{base: 37}", "{base: 63}", "{base: 'a}", "{sep: \"\"}", "{end: nil}", "{private?: nil}", "{end: 1}", "{sep: nil}", "{private?: 1}", "{key: {|x| x}}", "{key: 3}", "{key: 'b}", "{key: 'a}", "{key: 0}"]
# receivers for the keyword-argument family: nested structures in which a key is found on some paths only, text with separators
KWRECV = ["{a: {c: 1}, b: {a: 2}}", "[[1, {b: 2}], {a: [3]}]", "{b: {b: 1}, a: {b: {a: 2}}}", '"a,b;c d"', "[3, 1, 2]"]
INFIX = ["+", "-", "*", "/", "//", "%", "**", "==", "!=", "<", "<=", ">", ">=", "<=>", "===", "!==", "&&", "||",
         "<<", ">>", "/&", "/|", "/^", "=>"]
PREFIX = ["!", "-", "+", "/~", "*", "**"]
FORMS = [".", "@", "$", "&.", "~.", "=.", "&@", "~@", "=@", "~$"]


# every construct of the grammar with a hole in every sub-position; the holes are filled with every pool value and with
# expressions that raise (so that every error path, which builds a stack trace from the node's source position, runs)
RAISERS = ["1/0", "zz", "nil.foo", "[].bar(1)", '"a" + 1', "Int.new", "{|| zz}()", "1.try.foo.val", "(1:2)[nil]", "<>.foo"]
SYN_PRE = "f := {|a, b, k: 1| [a, b, k, \\0, \\_]}; o := {m: m{|a, b, k: 1| [self, a, b, k, \\0, \\_]}, v: 1}; x := 1; arr := [1, 2, 3]; "
SYNTAX1 = [
    "f(H)", "f(1, H)", "f(H, 1)", "f(*H)", "f(1, *H)", "f(*H, 2)", "f(**H)", "f(1, **H)", "f(1, 2, **H)", "f(1, **H)\n", "f(\n1,\n**H\n)",
    "f(*arr, **H)", "f(k: H)", "f(1, k: H)", "f(1, k: 2, **H)", "o.m(H)", "o.m(1, **H)", "o.m(*H)", "o.m(k: H)", "o&.m(1, **H)", "o~.m(*H)",
    "arr@m(1, **H)", "arr@(H)m", "arr$(H)+", "arr~$(H)+", "arr@^H", "arr$(0)^H", "arr@{|e| H}", "arr$(0){|a, e| H}", "arr~@{|e| H}", "arr=@{|e| H}",
    "H@p", "H$(0)+", "H&.foo", "H~.foo", "H=.foo", "H.foo", "H.foo(1)", "H.foo(1, **{a: 1})", "H.S", "H.repr", "H.B", "H.p", "H.try.val", "H.A", "H.keys",
    "[H]", "[1, *H]", "[*H, 1]", "{a: H}", "{'a: H}", "{H: 1}", "{a: 1, **H}", "{**H}", "{**H, **{b: 2}}", "%{H: 1}", "%{1: H}", "%{**H}", "%{1: 2, **H}",
    "(H:1)", "(1:H)", "(1:2:H)", "(H:H)", '"a#{H}b"', '"#{H}#{H}"', "`a#{H}`",
    "H + 1", "1 + H", "H == H", "-H", "!H", "+H", "/~H", "H[1]", "arr[H]", "arr[H:1]", "arr[1:H]", "arr[0:2:H]", "H[0:1]", "H['a]", 'o[H]',
    "y := H", "H => y", "x += H", "x -= H", "(y := H).p", "y := H; y", "o.v := H",
    "1 if H", "H if 1", "1 if H else 2", "H if nil else H", "return H", "raise H", "yield H", "defer H", "return 1 if H", "raise H if 1", "defer 1 if H",
    "{|| return H}()", "{|| raise H}()", "{|| defer H; 1}()", "{|| yield H; 2}()", "<{|| yield H}>.new.next", "<{|n| yield n; recur(H)}>.new(1).A",
    "{|a| H}(1)", "{|a: H| a}()", "{|a: 1| a}(a: H)", "m{|a| H}", "{|a| a}(H)", "{|a| \\0}(*H)", "{|k: 1| \\_}(**H)", "H(1)", "H()", "H(*arr)", "H.call(1)", "H.new", "H.new(1, 2)",
    "H.bear", "H.bear({a: 1})", "Obj.bear(H)", "Int.bear(H).new(1)", "H.proto", "H.ancestors", "H.kindOf?(Int)", "1.kindOf?(H)", "H.which('p)", "H.callProp(1, 'p)", "Obj.callProp(H, 's)",
    "Either.newVal(H).val", "Either.newErr(H).err", "H.try.fmap {|z| z}.val", "1.try.{|z| H}.A", "1.try.foo(H).err", "Err.new(H)", "ValueErr.new(H).msg", "assert(H)", "assertEq(H, 1)", "assertRaises(Err, H) {|| 1}",
    "Kernel.import(H)", "Kernel.invite!(H)", "H.eval", "H.evalEnv", "JSON.dec(H)", "JSON.enc(H)",
]
SYNTAX2 = ["f(H, **G)", "f(*H, **G)", "f(**H, **G)", "{**H, **G}", "%{**H, **G}", "%{H: 1, G: 2}", "(H:G)", "arr[H:G]", "H[G]", "H.foo(G)", "H + G", "H@(G)foo", "H$(G)+",
           "H if G", "[*H, *G]", "H.bear(G)", "H.callProp(G, 'p)", '"#{H}#{G}"', "{|a: H| a}(a: G)"]


def is_ident(n):
    return re.fullmatch(r"[a-zA-Z_][a-zA-Z0-9_]*[!?]?", n) is not None


# ---- running the sweep ------------------------------------------------------------------
def run_cases(chk, reqs, limit_ms=1500, workers=NCPU):
    """Feed `harness crash` workers; a worker that dies is restarted on the rest of its chunk and
    the case that was running is recorded with the reason. Returns {id: reply}."""
    exe = build_harness()
    # requests of one group (key "group") stay together, in order, in one worker process: they are sequences whose point is
    # what the process remembers from the earlier ones; all other requests are dealt round-robin
    chunks = [[] for _ in range(workers)]
    gidx, n = {}, 0
    for r in reqs:
        g = r.get("group")
        if g is None:
            chunks[n % workers].append(r)
            n += 1
        else:
            if g not in gidx:
                gidx[g] = len(gidx) % workers
            chunks[gidx[g]].append(r)
    results = {}
    lock = threading.Lock()

    def work(chunk):
        todo = list(chunk)
        while todo:
            env = dict(os.environ, CRASH_LIMIT_MS=str(limit_ms))
            p = subprocess.Popen([exe, "crash"], stdin=subprocess.PIPE, stdout=subprocess.PIPE, stderr=subprocess.PIPE, env=env)
            data = "".join(json.dumps(r) + "\n" for r in todo).encode()
            try:
                out, err = p.communicate(data, timeout=3600)
            except subprocess.TimeoutExpired:
                p.kill()
                out, err = p.communicate()
            started, got = None, {}
            for l in out.decode(errors="replace").split("\n"):
                if l.startswith(">"):
                    started = int(l[1:])
                    continue
                if l.startswith("="):
                    i, k = l[1:].split(" ", 1)
                    got[int(i)] = {"id": int(i), "kind": k}
                    started = None
                    continue
                if not l.startswith("{"):
                    continue
                try:
                    d = json.loads(l)
                except ValueError:
                    continue
                if "start" in d:
                    started = d["start"]
                elif "id" in d:
                    got[d["id"]] = d
                    if d["id"] == started:
                        started = None
            if p.returncode not in (0, 3) or (started is not None):
                if started is not None and started not in got:
                    e = err.decode(errors="replace")
                    kind = "died"
                    if "stack exceeds" in e or "stack overflow" in e:
                        kind = "stack"
                    elif "out of memory" in e or "cannot allocate" in e:
                        kind = "memory"
                    m = re.search(r"^(fatal error: [^\n]*|panic: [^\n]*)", e, re.M)
                    got[started] = {"id": started, "kind": kind, "panic": (m.group(1) if m else e[-300:]),
                                    "site": site_of(e), "stack": e[:3000]}
            with lock:
                results.update(got)
            done = set(got)
            rest = [r for r in todo if r["id"] not in done]
            if len(rest) == len(todo):      # no progress: give up on this chunk (reported by the caller)
                with lock:
                    for r in rest:
                        results[r["id"]] = {"id": r["id"], "kind": "norun"}
                return
            todo = rest

    with cf.ThreadPoolExecutor(max_workers=workers) as ex:
        list(ex.map(work, chunks))
    return results


def site_of(stack):
    mod = "github.com/Syuparn/pangaea/"
    for l in stack.splitlines():
        l = l.strip()
        if l.startswith(mod):
            l = l[len(mod):]
            return l[:l.rfind("(")] if "(" in l else l
    return "?"


def list_world(chk):
    exe = build_harness()
    p = subprocess.run([exe, "crash"], input=b'{"id":0,"mode":"list"}\n', stdout=subprocess.PIPE, stderr=subprocess.PIPE, timeout=120)
    for l in p.stdout.decode().split("\n"):
        if l.startswith("{"):
            d = json.loads(l)
            if d.get("kind") == "list":
                return d["objects"]
    raise BuildError("harness crash list failed: " + p.stderr.decode()[-500:])


# ---- malformed text -----------------------------------------------------------------------
TOKENS = ["1", "2.5", "1e3", "0x1f", '"a"', '"#{', "}", '"', "`", "'s", "x", "y", "_", "\\1", "\\", "\\0", ":=", "=>", "+=", ".", "@", "$", "&.", "~@", "=$",
          "(", ")", "[", "]", "{", "}", "%{", "<{", "}>", "|", "||", ",", ":", "::", ";", "\n", " ", "if", "else", "return", "raise", "yield", "defer",
          "recur", "nil", "true", "**", "*", "-", "!", "/~", "<=>", "==", "?", "#", "#{", "m{", "^", "^{", "<>", "<", ">", "é", "\t", "...", "..", "!.", "'", '"\\', "0b", "1_", "9" * 25]


def malformed(rng, corpus, n):
    out = []
    for i in range(n):
        k = i % 5
        if k == 0:
            out.append("".join(rng.choice(TOKENS) + rng.choice(["", " ", ""]) for _ in range(rng.randint(1, 14))))
        elif k == 1 and corpus:
            s = rng.choice(corpus)
            s = s[:rng.randint(0, min(len(s), 400))]
            out.append(s)
        elif k == 2 and corpus:
            s = list(rng.choice(corpus)[:300])
            for _ in range(rng.randint(1, 4)):
                if not s:
                    break
                p = rng.randrange(len(s))
                op = rng.randint(0, 2)
                if op == 0:
                    del s[p]
                elif op == 1:
                    s.insert(p, rng.choice(TOKENS))
                else:
                    s[p] = rng.choice(["(", ")", "{", "}", '"', "|", "\x00", "\x80", "\n"])
            out.append("".join(s))
        elif k == 3:
            out.append(bytes(rng.randrange(256) for _ in range(rng.randint(1, 40))).decode("latin-1"))
        else:
            depth = rng.randint(1, 60)
            o, c = rng.choice([("(", ")"), ("[", "]"), ("{", "}"), ("%{", "}"), ("<{", "}>"), ("{|x| ", "}"), ('"#{', '}"')])
            out.append(o * depth + rng.choice(["1", "", "x", "nil"]) + c * rng.randint(0, depth))
    return out


# ---- translator -> gen/GuardData.v ----------------------------------------------------------
def coq_key(k):
    return '"' + k.replace('"', "'") + '"'


def render_guards(rep, needs, repo):
    bl = [e for e in rep["entries"] if e["kind"] == "builtin"]
    il = [e for e in rep["entries"] if e["kind"] == "internal"]
    s = rep["singletons"]
    body = ("(* generated by tools/c01.py from `panharness dumpguards` over %s — rewritten on every run *)\n"
            "From Coq Require Import List String.\nImport ListNotations.\nOpen Scope string_scope.\n"
            "From PanVerif Require Import Safety.GuardIR Safety.GuardIRProofs Safety.Singletons.\n\n"
            "Definition builtins : list (string * list stm) := [\n%s\n].\n\n"
            "Definition internal_bodies : list (string * list stm) := [\n%s\n].\n\n"
            "Definition BadB := Eval vm_compute in map fst (filter (fun b => negb (safe (snd b))) builtins).\nPrint BadB.\n"
            "Definition Needs := Eval vm_compute in map (fun b => (fst b, need (snd b))) internal_bodies.\nPrint Needs.\n"
            "Definition declared : list string := [%s].\nDefinition initialised : list string := [%s].\n"
            "Definition MissingInit := Eval vm_compute in filter (fun d => negb (mem d initialised)) declared.\nPrint MissingInit.\n\n"
            "Lemma builtins_ok : all_safe builtins = true.\nProof. vm_compute. reflexivity. Qed.\n\n"
            "Theorem builtins_never_index_out_of_range :\n"
            "  forall key body, In (key, body) builtins -> forall n oracle, exec body n [] oracle <> Panic.\n"
            "Proof. exact (all_safe_sound builtins builtins_ok). Qed.\nPrint Assumptions builtins_never_index_out_of_range.\n\n"
            "Definition internals : list (string * nat * list stm) :=\n"
            "  Eval vm_compute in flat_map (fun b => match need (snd b) with Some m => [(fst b, m, snd b)] | None => [] end) internal_bodies.\n"
            "Lemma internals_ok : all_safe_from internals = true.\nProof. vm_compute. reflexivity. Qed.\n\n"
            "Theorem internals_never_index_out_of_range :\n"
            "  forall key lo body, In (key, lo, body) internals -> forall n oracle, lo <= n -> exec body n [] oracle <> Panic.\n"
            "Proof. exact (all_safe_from_sound internals internals_ok). Qed.\nPrint Assumptions internals_never_index_out_of_range.\n\n"
            "Lemma singletons_ok : all_initialised declared initialised = true.\nProof. vm_compute. reflexivity. Qed.\n\n"
            "Theorem every_declared_singleton_is_initialised : forall d, In d declared -> In d initialised.\n"
            "Proof. exact (all_initialised_sound declared initialised singletons_ok). Qed.\n"
            "Print Assumptions every_declared_singleton_is_initialised.\n"
            % (repo,
               ";\n".join("  (%s, %s)" % (coq_key(e["key"]), e["ir"]) for e in bl),
               ";\n".join("  (%s, %s)" % (coq_key(e["key"]), e["ir"]) for e in il),
               "; ".join('"%s"' % d for d in s["declared"]), "; ".join('"%s"' % d for d in s["initialised"])))
    return body


def translate(chk, repo):
    """dumpguards, needs fixpoint, gen/GuardData.v. Returns (rep, bad builtin keys, problems, ok)."""
    needs, rep, out, rc = {}, None, "", 1
    problems = []
    for rnd in range(4):
        rep = harness("dumpguards", [{"repo": repo, "needs": needs}])[0]
        if rep.get("parse_errors"):
            problems.append("dumpguards cannot parse: %s" % rep["parse_errors"][:3])
        rc, out = coq_eval("GuardData", render_guards(rep, needs, repo))
        flat = " ".join(out.split())
        got = dict((k, (None if v == "None" else int(v[5:]))) for k, v in re.findall(r'\("([^"]+)", (None|Some \d+)\)', flat))
        new = {}
        for e in rep["entries"]:
            if e["kind"] == "internal" and e["decl"]:
                nd = got.get(e["key"].replace('"', "'"))
                if nd is None:
                    nd = 4000          # never safe: any call site passing the received arguments becomes unsafe
                if nd > 0:
                    new[e["decl"]] = {"idx": e["param_idx"], "need": max(nd, new.get(e["decl"], {}).get("need", 0))}
        if new == needs:
            break
        needs = new
    else:
        problems.append("the needs of internal functions do not reach a fixpoint")
    flat = " ".join(out.split())
    m = re.search(r"BadB = \[(.*?)\] : list string", flat)
    bad = re.findall(r'"([^"]+)"', m.group(1)) if m else []
    m2 = re.search(r"MissingInit = \[(.*?)\] : list string", flat)
    missing = re.findall(r'"([^"]+)"', m2.group(1)) if m2 else []
    okc = rc == 0 and flat.count("Closed under the global context") == 3
    noneed = [k for k, v in re.findall(r'\("([^"]+)", (None|Some \d+)\)', flat) if v == "None"]
    return rep, needs, bad, missing, noneed, problems, okc, out


# ---- main -------------------------------------------------------------------------------------
def main(chk):
    repo = os.path.realpath(REPO)
    ok, broken = obligations(chk, "Props/C01.v")
    quick = chk.tier == "quick"

    # 1. translator + instantiated theorems
    rep, needs, bad, missing, noneed, problems, inst_ok, coq_out = translate(chk, repo)
    entries = rep["entries"]
    nb = sum(1 for e in entries if e["kind"] == "builtin")
    chk.cov["obligations"] += 6
    if inst_ok:
        chk.cov["discharged"] += 6
        chk.cov["theorems"] = chk.cov.get("theorems", []) + [
            "builtins_ok", "builtins_never_index_out_of_range", "internals_ok", "internals_never_index_out_of_range",
            "singletons_ok", "every_declared_singleton_is_initialised"]
    chk.cov["guard_translator"] = {
        "files": rep["files"], "functions_with_argument_slices": len(entries), "builtin_signature": nb,
        "argument_uses": sum(e["uses"] for e in entries), "interpreted_conditions": sum(e["conds"] for e in entries),
        "guard_helpers": rep["helpers"], "needs_of_internal_functions": {k: v["need"] for k, v in needs.items()},
        "unsafe_builtins": bad, "internal_without_bound": noneed,
        "translator_notes": [n for e in entries for n in (e["notes"] or [])][:12],
        "singletons": {"declared": len(rep["singletons"]["declared"]), "initialised": len(rep["singletons"]["initialised"]),
                       "bound_names": len(rep["singletons"]["bound"]), "missing": missing}}
    chk.note("dumpguards: %d functions (%d built-ins), %d uses, unsafe: %s, missing singletons: %s" % (len(entries), nb, sum(e["uses"] for e in entries), bad, missing))
    for e in entries[:3]:
        chk.sample({"guard_ir": e["key"], "at": "%s:%d" % (e["file"], e["line"]), "ir": e["ir"]})
    if nb < 100:
        problems.append("only %d functions with the signature of object.BuiltInFunc found (translator out of date?)" % nb)

    # 2. sweep
    world = list_world(chk)
    objs = [o for o in world if "props" in o]
    reqs, meta = [], {}

    def add(r, fam, group=None):
        r["id"] = len(reqs)
        if group is not None:
            r["group"] = group
        reqs.append(r)
        meta[r["id"]] = fam

    nprops_b = nprops_n = 0
    for o in objs:
        for name, typ in o["props"]:
            if typ == "BuiltInType":
                nprops_b += 1
                add({"mode": "direct", "recv": o["name"], "prop": name, "args": []}, "direct0")
                for a in POOL:
                    add({"mode": "direct", "recv": o["name"], "prop": name, "args": [a]}, "direct1")
                for a in (POOL if not quick else POOL[::2] + SMALL):
                    for b in (POOL if not quick else SMALL + POOL[1::3]):
                        add({"mode": "direct", "recv": o["name"], "prop": name, "args": [a, b]}, "direct2")
                for a in SMALL:
                    for b in SMALL[:8] if quick else SMALL:
                        for c in THIRD[:4] if quick else THIRD:
                            add({"mode": "direct", "recv": o["name"], "prop": name, "args": [a, b, c]}, "direct3")
                for kw in KWS[1:]:
                    for a in SMALL + KWRECV:
                        add({"mode": "direct", "recv": o["name"], "prop": name, "args": [a], "kw": kw}, "directkw")
            elif typ == "FuncType":
                nprops_n += 1
    # source forms: every property name on every receiver
    names = sorted(set(n for o in objs for n, t in o["props"] if is_ident(n)))
    recvs = POOL if not quick else POOL[::2] + SMALL[:4]
    for n in names:
        for r in recvs:
            add({"mode": "src", "src": "(%s).%s" % (r, n)}, "src-read")
            for a in (SMALL if quick else POOL[::2]):
                add({"mode": "src", "src": "(%s).%s(%s)" % (r, n, a)}, "src-call1")
            for a, b in (list(itertools.product(SMALL[:5], THIRD[:4])) if quick else list(itertools.product(SMALL, THIRD))):
                add({"mode": "src", "src": "(%s).%s(%s, %s)" % (r, n, a, b)}, "src-call2")
        for f in FORMS[1:]:
            for r in SMALL + ["[[1, 2], [3]]", '["a", "b"]', "[nil]", "(nil:nil)", "1.try"]:
                add({"mode": "src", "src": "(%s)%s%s" % (r, f, n)}, "src-chain")
                add({"mode": "src", "src": "(%s)%s%s(%s)" % (r, f, n, SMALL[(len(n) + len(r)) % len(SMALL)])}, "src-chain")
    for op in INFIX:
        for a in POOL:
            for b in POOL:
                add({"mode": "src", "src": "(%s) %s (%s)" % (a, op, b)}, "infix")
    for op in PREFIX:
        for a in POOL:
            add({"mode": "src", "src": "%s(%s)" % (op, a)}, "prefix")
            add({"mode": "src", "src": "[%s(%s)]" % (op, a)}, "prefix")
            add({"mode": "src", "src": "{a: 1, %s(%s)}" % (op, a) if op == "**" else "f := {|a, k: 1| [\\0, \\_]}; f(%s(%s))" % (op, a)}, "prefix")
    for a in POOL:
        for b in POOL:
            add({"mode": "src", "src": "(%s)[%s]" % (a, b)}, "index")
        for b, c in itertools.product(SMALL[:6] + ["nil", "9223372036854775807"], repeat=2):
            add({"mode": "src", "src": "(%s)[%s:%s]" % (a, b, c)}, "slice")
            add({"mode": "src", "src": "(%s)[%s:%s:%s]" % (a, b, c, b)}, "slice")
        # literal / variable calls with every chain
        for f in ["@", "$", ".", "&@", "~@", "=@", "~$", "&.", "~.", "=."]:
            add({"mode": "src", "src": "(%s)%s{|x| x}" % (a, f)}, "litcall")
            add({"mode": "src", "src": "(%s)%s{|x, y| [x, y]}" % (a, f)}, "litcall")
            add({"mode": "src", "src": "g := %s; [1, 2]%s^g" % (a, f)}, "varcall")
            add({"mode": "src", "src": "(%s)%s(%s){|acc, x| acc}" % (a, f, SMALL[len(a) % len(SMALL)])}, "litcall")
    # integers around table / cache sizes as receivers and arguments
    for x in INTS:
        add({"mode": "src", "src": "x := %s; [x, x + 0, x - 1, x + 1, x * 1, -x, x.S, x.repr, [x], {a: x}, %%{x: x}, x == x, x <=> x, (x:x+2).A]" % x}, "ints")
        for o in objs:
            if o["name"] in ("Int", "Num", "Comparable", "Obj", "BaseObj", "Iterable", "Wrappable"):
                for name, typ in o["props"]:
                    if is_ident(name):
                        add({"mode": "src", "src": "(%s).%s" % (x, name)}, "ints")
                        add({"mode": "src", "src": "(%s).%s(%s)" % (x, name, INTS[(len(name) + len(x)) % len(INTS)])}, "ints")
        for op in INFIX[:17]:
            add({"mode": "src", "src": "(%s) %s (%s)" % (x, op, INTS[(len(op) * 7 + len(x)) % len(INTS)])}, "ints")
            add({"mode": "src", "src": "(3) %s (%s)" % (op, x)}, "ints")
    # sequences in ONE process: many distinct values through the same built-in, then the first ones again (what a cache, a memo
    # or a table that grows keeps from earlier calls must not make a later call crash)
    seqvals = ['"p%d"' % i for i in range(90)] + ['"[a-%s]%d+"' % (chr(98 + i % 20), i) for i in range(90)]
    seqints = [str(1000 + 37 * i) for i in range(90)]
    for o in objs:
        if o["name"] not in ("Str", "Int", "Arr", "Map", "Obj", "Range", "JSON", "Kernel", "Float"):
            continue
        recv = {"Str": '"a1 b22 c333"', "Int": "12345", "Arr": '["a1", "b22", 3]', "Map": '%{"a1": 1}', "Obj": '{a1: 1}', "Range": "(1:50)",
                "JSON": "JSON", "Kernel": "Kernel", "Float": "1.5"}[o["name"]]
        for name, typ in o["props"]:
            if typ != "BuiltInType":
                continue
            g = "seq:%s#%s" % (o["name"], name)
            for vals in (seqvals, seqints):
                for v in vals + vals[:6] + vals[-3:]:
                    add({"mode": "direct", "recv": o["name"], "prop": name, "args": [recv, v]}, "sequence", group=g)
    # syntax: every construct, every hole, every pool value and every raising expression
    fills = POOL + RAISERS
    for t in SYNTAX1:
        for h in fills:
            add({"mode": "src", "src": SYN_PRE + t.replace("H", "(%s)" % h)}, "syntax1")
        if not quick:
            for h in fills:
                add({"mode": "src", "src": SYN_PRE + "g := {|| " + t.replace("H", "(%s)" % h) + "}; g().try.A"}, "syntax1")
    f2 = (SMALL + RAISERS[:6]) if quick else (POOL[::2] + RAISERS)
    for t in SYNTAX2:
        for h in f2:
            for g in f2:
                add({"mode": "src", "src": SYN_PRE + t.replace("H", "(%s)" % h).replace("G", "(%s)" % g)}, "syntax2")
    # text: malformed sources and stdin
    corpus = []
    for f in sorted(glob_tests(repo))[:400]:
        try:
            corpus.append(open(f, encoding="utf-8", errors="replace").read())
        except OSError:
            pass
    for s in malformed(chk.rng, corpus, 3000 if quick else 60000):
        add({"mode": "src", "src": s}, "text")
    long_lines = ["x" * n for n in (4095, 4096, 4097, 65535, 65536, 65537, 70000, 200000)]
    for i, stdin in enumerate(["", "\n", "abc", "a\nb\n", "\x00\xff", "é" * 5000, "1\n" * 300, "\r\n\r\n", "a\n" + long_lines[6] + "\nb\n"] +
                              long_lines + [l + "\n" for l in long_lines[3:]] + ["a\n" * 3 + "é" * 40000 + "\n" + "z"]):
        for prog in ["<>", "<>.A", "[<>, <>, <>]", "<>@{|l| l}", "<>$(0){|a, l| a + l.len}", "`<>`.p", "<>.p; <>.p", "Kernel.argv", "<>.S.I",
                     "<>.S", "[<>.S, <>.S, <>.S]", '"#{<>.S}"', "<>.S + 1", "<>.uc", "<>.lc", "[<>.uc, <>.lc, <>.S]", "<>.foo", "<>@S", "<>.A.len",
                     "<>._iter.next", "it := <>._iter; [it.next, it.next, it.next, it.next]"]:
            add({"mode": "src", "src": prog, "stdin": stdin or "\n"}, "stdin")

    # the other front ends: the REPL (mode words, multi-line mode, errors, odd input) and the script runner
    rl = ["1 + 2", "multi", "single", "multi ", "single\t", " multi", "multi\r", "MULTI", "multi single", "x := {", "a: 1", "}", "", "x", "1 / 0", "zz", "{|x|", "x + 1}",
          '"a', "`raw", "raise Err.new(\"e\")", "return 1", "yield 2", "defer 3", "<>", "<>.S", "\x00", "\u00e9 := 1", "# c", "exit", ":q", "Kernel.exit", "_", "\\1"]
    for i in range(len(rl)):
        for j in range(len(rl)):
            if (i * 7 + j) % (5 if quick else 1) == 0:
                add({"mode": "repl", "src": "\n".join([rl[i], rl[j], rl[(i + j) % len(rl)], "1"]) + "\n"}, "repl")
    add({"mode": "repl", "src": "multi\n" + "x := [\n1,\n2\n]\n\nx\n" * 3 + "single\nx\n"}, "repl")
    add({"mode": "repl", "src": "y" * 70000 + "\n1\n"}, "repl")
    add({"mode": "repl", "src": ""}, "repl")
    for prog in corpus[:60] + ["1 / 0", "zz", "(", '"a".p; raise Err.new("x")', "<>.S.p", "{|| 1/0}()", "[1, 2]@{|x| x.nope}", "\n\n  1 / 0\n", "\u00e9", "\x00"]:
        add({"mode": "script", "src": prog, "stdin": "in\n"}, "script")
    dnames = sorted(set(n for o in objs if o["name"] in ("Diamond", "Iterable", "Iter") for n, t in o["props"] if is_ident(n)))
    for stdin in ("3\n8\n5\n", "", "a\n"):
        for n in dnames:
            for form in ("<>.%s", "<>.%s {|x| x}", "<>.%s(1)", "<>._iter.%s", "<>._iter._iter.%s", "it := <>._iter; it@{|x| x}; it.%s", "[<>.%s, <>.%s]"):
                add({"mode": "src", "src": form.replace("%s", n), "stdin": stdin}, "stdin")
    chk.note("sweep: %d cases (%d Go built-in properties, %d native properties, %d names, pool of %d values)" % (
        len(reqs), nprops_b, nprops_n, len(names), len(POOL)))
    res = run_cases(chk, reqs, limit_ms=1500 if quick else 4000)
    chk.note("sweep done")

    hist, kinds, famk = {}, {}, {}
    panics = {}
    for r in reqs:
        fam = meta[r["id"]]
        d = res.get(r["id"], {"kind": "norun"})
        k = d["kind"]
        hist[fam] = hist.get(fam, 0) + 1
        kinds[k] = kinds.get(k, 0) + 1
        chk.count((fam, r.get("src"), r.get("recv"), r.get("prop"), tuple(r.get("args") or ()), r.get("kw"), r.get("stdin")),
                  k in ("value", "error", "syntax"))
        if k == "panic" and re.search(r"makeslice: (len|cap) out of range|output length overflow|out of memory|growslice: len out of range", d.get("panic", "")) \
                and re.search(r"\d{7,}|\*\*|<<", json.dumps([r.get("src"), r.get("args"), r.get("kw"), r.get("recv")])):
            # (only when the case really asks for something huge — a count of a million or more, a power, a shift: the same message
            # comes from a NEGATIVE length or capacity, which is a plain crash)
            # Go refuses an allocation of more than 2^47 bytes with a panic instead of trying: the result does not fit in
            # any memory (the property's proviso), exactly as the cases stopped by the heap watchdog
            kinds[k] -= 1
            kinds["memory"] = kinds.get("memory", 0) + 1
            k = "memory"
        famk.setdefault(fam, {})
        famk[fam][k] = famk[fam].get(k, 0) + 1
        if k in ("panic", "died"):
            site = d.get("site") or "?"
            panics.setdefault(site, []).append((r, d))
    chk.cov["input_distribution"] = {"by_family": hist, "by_outcome": kinds, "outcomes_by_family": famk}
    for fam, ks in famk.items():
        n = sum(ks.values())
        if fam != "text" and ks.get("syntax", 0) * 2 > n:
            problems.append("family %s: %d of %d generated programs do not parse (generator out of date with the grammar)" % (fam, ks.get("syntax", 0), n))
    chk.cov["discarded_outside_proviso"] = {k: kinds.get(k, 0) for k in ("fuel", "timeout", "memory", "stack")}
    chk.cov["go_builtin_properties"] = nprops_b
    chk.cov["native_properties"] = nprops_n
    chk.cov["pool"] = POOL
    chk.cov["rule"] = ("seed-independent enumeration: every Go built-in property of every global object called directly with 0, 1, 2 (pool x pool) "
                       "and 3 arguments and with keyword arguments; every property name on every pool receiver in source form with 0-2 arguments "
                       "and through every chain; all infix/prefix operators, indexing and slicing over the pool; literal and variable calls; a syntax-directed "
                       "family (every construct with every pool value and every raising expression in every hole); integers around table / cache sizes; "
                       "sequences of 180 distinct values through each built-in in one process, then the first ones again; every Iterable / Diamond method "
                       "on stdin contents with lines up to 200000 bytes; the REPL front end on sequences of input lines (mode words with stray blanks, multi-line "
                       "mode, failing and unfinished input) and the script runner on corpus programs and failing programs; "
                       "plus a seeded stream of malformed sources (token soup, truncated / mutated corpus programs, raw bytes, deep nesting) and stdin "
                       "contents. A case is non-trivial when it ends in a value, a Pangaea error or a syntax error (not discarded).")
    chk.cov["rule"] += (" Keyword-argument cases also use nested receivers in which a key is found on some paths only. The allocation-size proviso is granted only to "
                        "cases that ask for something huge (a literal of 7+ digits, `**`, `<<`); the same runtime message from a negative count is a crash.")
    if kinds.get("norun"):
        problems.append("%d cases could not be run (worker made no progress)" % kinds["norun"])
    if kinds.get("badcase", 0) > len(reqs) // 20:
        problems.append("%d cases were malformed requests (pool out of date?)" % kinds["badcase"])
    for i in (0, len(reqs) // 3, len(reqs) // 2, len(reqs) - 1):
        chk.sample({"case": {k: v for k, v in reqs[i].items() if k != "id"}, "outcome": {k: v for k, v in res.get(i, {}).items() if k in ("kind", "repr", "errk", "msg")}})

    # 3. verdict
    matched_bad = set()
    for site, lst in sorted(panics.items()):
        lst.sort(key=lambda rd: len(json.dumps(rd[0])))
        # replay before reporting: the case alone in a new process (its whole group for a sequence). A death that does not
        # repeat (a worker lost to the machine, not to the interpreter) is counted in the evidence and not reported.
        confirmed = None
        for r0, d0 in lst[:4]:
            again = [dict(x) for x in reqs if x.get("group") == r0["group"] and x["id"] <= r0["id"]] if r0.get("group") else [dict(r0)]
            rr = run_cases(chk, again, limit_ms=4000, workers=1)
            d1 = rr.get(r0["id"], {})
            if d1.get("kind") in ("panic", "died"):
                confirmed = (r0, d1 if d1.get("panic") or not d0.get("panic") else d0)
                break
        if confirmed is None:
            chk.cov["unrepeatable_worker_deaths"] = chk.cov.get("unrepeatable_worker_deaths", 0) + len(lst)
            chk.note("%d case(s) ended with a dead worker at site %s but none repeats when run alone: not reported" % (len(lst), site))
            continue
        r, d = confirmed
        for r2, d2 in lst:
            for e in entries:
                if e["key"].replace('"', "'") in bad and any(e["line"] <= int(n) <= e["end"] for n in
                                                              re.findall(r"%s:(\d+)" % re.escape(e["file"]), d2.get("stack", ""))):
                    matched_bad.add(e["key"].replace('"', "'"))
        shown = (("REPL input " if r["mode"] == "repl" else "script " if r["mode"] == "script" else "") + repr(r.get("src"))) if r["mode"] in ("src", "repl", "script") else "%s['%s] called with (%s)%s" % (r["recv"], r["prop"], ", ".join(r["args"]), (" kwargs " + r["kw"]) if r.get("kw") else "")
        chk.fail("host-level panic in %s: %s  [%s]  (%d cases reach this site)" % (site, shown, d.get("panic", "")[:160], len(lst)),
                 {"case": r, "outcome": d, "how": "echo '<case json>' | build/panharness crash", "other_cases": [x[0] for x in lst[1:6]]},
                 klass="C01:" + site)
    unmatched = [k for k in bad if k not in matched_bad]
    if unmatched:
        es = [next(x for x in entries if x["key"].replace('"', "'") == k) for k in unmatched]
        e = es[0]
        chk.fail("%d built-in(s) may index their arguments out of range and the sweep did not reach the index: %s (%s:%d), the guard checker rejects its body %s"
                 % (len(es), e["key"], e["file"], e["line"], e["ir"]),
                 {"obligation": "gen/GuardData.v: builtins_ok (all_safe builtins = true)", "entries": es[:10]},
                 klass="C01:guard:" + unmatched[0], no_input=True)
    for d in missing:
        chk.fail("singleton %s is declared empty in package object but never filled by init()" % d,
                 {"obligation": "gen/GuardData.v: singletons_ok", "singleton": d}, klass="C01:singleton:" + d, no_input=not panics)
    # An internal function (called by Go code only) for which no finite lower bound on the length of its slice makes the
    # checker accept its body (e.g. it indexes one slice by the range key of another) is NOT a violation by itself: the
    # property is about the arguments that arrive from Pangaea, and every call site that hands received arguments to such a
    # function is translated to SUseFrom 4000, which no guard makes safe — so a built-in that does so is in BadB above.
    # The same code inlined after `args = paddedArgs(args, params)` is outside the tracking as well. They are listed in the
    # evidence (guard_translator.internal_without_bound); the sweep is what exercises them.
    if noneed:
        chk.note("internal functions without a finite bound (call sites passing received arguments are treated as unsafe): %s" % noneed)
    if not inst_ok and not bad and not missing:
        problems.append("gen/GuardData.v does not check: " + coq_out[-600:])
    if not ok:
        chk.fail(broken, {"theorem_file": "coq/Props/C01.v", "detail": broken}, no_input=True)
    for p in problems:
        chk.fail(p, {"problem": p}, no_input=True)
    chk.cov["trusted_base"] += [
        "Coq 8.16.1 kernel (coqc; vm_compute for the table instances)",
        "translator harness/dumpguards.go (Go AST -> guard IR; recognition of guard helpers by their first statement; over-approximation rules in its header)",
        "harness/crash.go + evaluator fuel hook (build tag verif) for the sweep",
        "Go runtime, goyacc driver, standard library (regexp, strconv, encoding/json, net/http) are outside every model"]
    chk.cov["checker_cmd"] += " + coqc gen/GuardData.v"
    chk.assumptions += ["a Go function reached from Pangaea with an arbitrary argument count has the signature of object.BuiltInFunc",
                  "cases that exhaust fuel / 1.5 s / 1 GiB / 256 MiB of stack are outside the property (its proviso) and are discarded"]
    return chk.finish()


def glob_tests(repo):
    import glob
    return glob.glob(os.path.join(repo, "tests", "*.pangaea")) + glob.glob(os.path.join(repo, "example", "*.pangaea"))
