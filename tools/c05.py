"""C05 — property resolution: proof obligations (Props/C05.v) + prototype forests built by
object literals / bear / bro with shadowing, queried in every way, compared with PanCore
and with a forest model (the property's direct oracle)."""
from pv import *
import pancore

NAMES = ["a", "b", "c", "f", "g"]
ABSENT = ["zz", "q"]
BASE_ONLY = ["proto", "bear"]          # live on BaseObj: decide whether the last link is walked


class Obj:
    def __init__(self, oid, parent, own, name=None):
        self.oid, self.parent, self.own, self.name = oid, parent, own, name   # parent: Obj | "Obj" | "BaseObj"

    def var(self):
        return self.name or "o%d" % self.oid

    def chain(self):
        out, cur = [], self
        while isinstance(cur, Obj):
            out.append(cur)
            cur = cur.parent
        return out, cur    # user objects, root name

    def find(self, name):
        for o in self.chain()[0]:
            if name in o.own:
                return o, o.own[name]
        return None, None


def prop_src(kind, oid, name):
    if kind == "v":
        return "%d" % (oid * 100 + NAMES.index(name))
    if kind == "f":
        return '{|self, x| ["%s%d", self.tag, x]}' % (name, oid)
    raise ValueError


def val_repr(kind, oid, name, recv, arg):
    if kind == "v":
        return str(oid * 100 + NAMES.index(name))
    return '["%s%d", %d, %s]' % (name, oid, recv.oid, arg)


def gen_forest(rng, nobj):
    objs, lines, extra = [], [], []
    for i in range(1, nobj + 1):
        own = {}
        for n in rng.sample(NAMES, rng.randint(0, 3)):
            own[n] = rng.choice(["v", "v", "f"])
        has_missing = rng.random() < 0.2
        pairs = ["tag: %d" % i] + ["%s: %s" % (n, prop_src(k, i, n)) for n, k in own.items()]
        if has_missing:
            pairs.append('_missing: {|self, name, x| ["miss%d", self.tag, name, x]}' % i)
            own["_missing"] = "m"
        lit = "{" + ", ".join(pairs) + "}"
        how = rng.choice(["lit", "bear", "bear", "bro", "basebear", "bearvar", "brovar"]) if objs else rng.choice(["lit", "basebear"])
        srcobj = None
        if how in ("bearvar", "brovar"):
            # the source object of bear / bro is kept in a variable and stays what it was: a child of Obj
            lines.append("s%d := %s" % (i, lit))
            lit = "s%d" % i
            srcobj = Obj(i, "Obj", dict(own, tag="t"), name="s%d" % i)
            how = how[:-3]
        if how == "lit":
            parent = "Obj"
            lines.append("o%d := %s" % (i, lit))
        elif how == "basebear":
            parent = "BaseObj"
            lines.append("o%d := BaseObj.bear(%s)" % (i, lit))
        elif how == "bear":
            p = rng.choice(objs)
            parent = p
            lines.append("o%d := %s.bear(%s)" % (i, p.var(), lit))
        else:
            p = rng.choice(objs)
            parent = p.parent
            if p.chain()[1] == "BaseObj":       # bro is an Obj property: descendants of BaseObj.bear do not have it
                parent = p
                lines.append("o%d := %s.bear(%s)" % (i, p.var(), lit))
            else:
                lines.append("o%d := %s.bro(%s)" % (i, p.var(), lit))
        o = Obj(i, parent, own)
        o.own["tag"] = "t"
        objs.append(o)
        if srcobj:
            extra.append(srcobj)
    return objs, lines, extra


def deep_chain(depth, with_missing):
    """a chain of `depth` bear levels below a literal root: the search has no depth limit"""
    lines = ["o1 := {tag: 1, a: 100, f: %s%s}" % (prop_src("f", 1, "f"),
                                                  ', _missing: {|self, name, x| ["miss1", self.tag, name, x]}' if with_missing else "")]
    objs = [Obj(1, "Obj", dict({"tag": "t", "a": "v", "f": "f"}, **({"_missing": "m"} if with_missing else {})))]
    for i in range(2, depth + 2):
        lines.append("o%d := o%d.bear({tag: %d})" % (i, i - 1, i))
        objs.append(Obj(i, objs[-1], {"tag": "t"}))
    return objs, lines, []


# programs with a hand-derived answer (the search order applied by hand); also compared with PanCore
EXPECT = [
    # `which` answers for every name a property can have, not only for identifier-like ones
    ("which_with_any_name", 'o := {"content-type": 1, "2xx": 2, "\u3042": 3}\nc := o.bear({x: 1})\n'
     '[c.which("content-type") == o, c.which("2xx") == o, c.which("\u3042") == o, c["content-type"], c.which("x") == c, c.which("nope"), c.which("_x")].p\n',
     "[true, true, true, 1, true, nil, nil]\n"),
    # names are whole texts: a non-ASCII name is a different property from the ASCII name whose bytes it matches modulo 256
    ("non_ascii_names_are_not_ascii_names", 'base := {B: "inherited B", i: "inherited i"}\nchild := base.bear({a: 1})\n'
     '[child["\u3042"], child["\u0169"], child.which("\u3042"), child.which("B") == base].p\n'
     'o := {"\u3042": "hiragana a", B: "latin B", "\u0169": 1, i: 2}\n[o.B, o["\u3042"], o.i, o["\u0169"], o.keys(private?: true)].p\n%{"\u3042": 1, "B": 2}.len.p\n',
     '[nil, nil, nil, true]\n["latin B", "hiragana a", 2, 1, ["B", "i", "\u0169", "\u3042"]]\n2\n'),
    # every receiver of a list chain is looked up along ITS OWN chain: a sibling without own properties after one that shadows the name
    ("siblings_in_list_chain", "P := {x: 0, f: m{.x}}\n[P.bear({x: 1}), P.bear]@x.p\n[P.bear, P.bear({x: 1})]@x.p\n[P.bear({x: 1}), P.bear, P.bear({x: 2}), P.bear]@x.p\n"
     "[P.bear({f: m{9}}), P.bear, P.bear({x: 4})]@f.p\na := P.bear({x: 5})\n[a, a.bro({}), a]@x.p\n[P.bear({x: 1}), P.bear]=@x.p\n[P.bear({x: 1}), P.bear]&@x.p\n"
     "[P.bear({x: 1}), P.bear]~@x.p\n[P.bear({x: 1}), P.bear]@{|o| o.x}.p\n",
     "[1, 0]\n[0, 1]\n[1, 0, 2, 0]\n[9, 0, 4]\n[5, 0, 5]\n[1, 0]\n[1, 0]\n[1, 0]\n[1, 0]\n"),
    # own public names only; private ones exactly when the keyword is true (also when the flag is forwarded through a variable)
    ("keys_private_flag", 'parent := {name: "parent", _secret: 1}\nchild := parent.bear({age: 3, _id: 42, _missing: m{|n| "missing #{n}"}})\n'
     "[child.keys, child.keys(private?: true), child.keys(private?: false), child.values(private?: false), child.items(private?: false)].p\n"
     "show := {|o, all| o.keys(private?: all)}\n[show(child, false), show(parent, false), show(parent, true), show(parent, nil), show(parent, 1)].p\n",
     '[["age"], ["age", "_id", "_missing"], ["age"], [3], [["age", 3]]]\n[["age"], ["name"], ["name", "_secret"], ["name"], ["name"]]\n'),
    # a user-defined _missing may itself read another absent name of the receiver, and an earlier absent-name call that ended in a
    # (caught) error leaves nothing behind: every later absent name is resolved by _missing again
    ("missing_reads_absent_name_and_recovers", 'o := {_missing: m{|name|\n  return "value of color" if name == "color"\n  return .color if name == "colour"\n'
     '  raise ValueErr.new("unknown name #{name}")\n}}\n[o.color, o.try.{|x| x.colour}.A, o.color].p\n'
     "[o.try.{|x| x.size}.A[1].msg, o.color, (o~.size) == o, o.colour].p\nq := o.bear({tag: 1})\n[q.colour, q.try.{|x| x.size}.err?, q.colour, o.colour].p\n",
     '["value of color", ["value of color", nil], "value of color"]\n["unknown name size", "value of color", true, "value of color"]\n'
     '["value of color", true, "value of color", "value of color"]\n'),
    ("descendant_of_int_value", "d := 7.bear({q: 5, tag: 1})\n[d['q], d.q, d['tag], d['nope], d.which('q)['tag], d.proto].p\n", "[5, 5, 1, nil, 1, 7]\n"),
    ("descendant_of_arr_value", "e := [1, 2].bear({len: 'shadow, q: 3})\n[e['len], e.len, e['q], e.q].p\n", '["shadow", "shadow", 3, 3]\n'),
    ("descendant_of_str_value", 's := "ab".bear({q: 5, uc: \'mine})\n[s[\'q], s.q, s[\'uc], s.uc].p\n', '[5, 5, "mine", "mine"]\n'),
    ("typed_descendant", "i2 := Int.bear({q: 6}).new(3)\n[i2['q], i2.q, i2 + 1].p\n", "[6, 6, 4]\n"),
    ("missing_in_list_chain",
     "a := {tag: 1, _missing: {|self, name, x, y, z| [self.tag, name, x, y, z, \\0.len]}}\n"
     "b := {tag: 2, _missing: {|self, name, x, y, z| [self.tag, name, x, y, z, \\0.len]}}\n"
     'c := {tag: 3, foo: {|self, x, y, z| ["own", self.tag, x, y, z, \\0.len]}}\n'
     "[a, b]@foo(1, 2, 3).p\n[a, c, b]@foo(1, 2, 3).p\n[a, b, c]=@foo(1, 2, 3).p\n[a, b]@foo(1, 2, 3, 4, 5).p\n[a, b]@foo(1).p\n",
     '[[1, "foo", 1, 2, 3, 5], [2, "foo", 1, 2, 3, 5]]\n[[1, "foo", 1, 2, 3, 5], ["own", 3, 1, 2, 3, 4], [2, "foo", 1, 2, 3, 5]]\n'
     '[[1, "foo", 1, 2, 3, 5], [2, "foo", 1, 2, 3, 5], ["own", 3, 1, 2, 3, 4]]\n[[1, "foo", 1, 2, 3, 7], [2, "foo", 1, 2, 3, 7]]\n'
     '[[1, "foo", 1, nil, nil, 5], [2, "foo", 1, nil, nil, 5]]\n'),
    ("one_source_object_two_parents",
     'Animal := {tag: 1, name: "animal", _missing: m{|n| "miss:" + n}}\nCat := Animal.bear({tag: 2, name: "cat"})\nDog := Animal.bear({tag: 3, name: "dog"})\n'
     "props := {id: 7}\nc := Cat.bear(props)\nd := Dog.bear(props)\n"
     "[c.name, d.name, c.name, c.zz, d.zz, c.id, d.id, c.proto['tag], d.proto['tag], c.which('name)['tag], d.which('name)['tag]].p\n",
     '["cat", "dog", "cat", "miss:zz", "miss:zz", 7, 7, 2, 3, 2, 3]\n'),
    ("empty_prototype_links_are_links",
     'Animal := {tag: 1, name: "animal"}\nPet := Animal.bear\nKit := Pet.bear({tag: 9})\n'
     "[Kit.proto == Pet, Kit.proto.proto['tag], Kit.ancestors.len, Kit.kindOf?(Pet), Pet.proto['tag], Kit.name].p\n"
     "E := {}\nF := E.bear({tag: 5})\n[F.proto == E, F.ancestors.len, F.proto.proto['_name]].p\nG := Kit.bro({tag: 10})\n[G.proto == Pet, G.ancestors.len].p\n",
     '[true, 1, 4, true, 1, "animal"]\n[true, 3, "Obj"]\n[true, 4]\n'),
    ("non_ascii_names_are_not_public",
     'o := {"\u540d\u524d": 1, "\u00e9": 2, a: 3, "\u00fc1": 4, _b: 5}\n[o.keys, o.values, o.keys(private?: true).len, o.items.len].p\no@{|k, v| k}.p\n',
     '[["a"], [3], 5, 1]\n["a"]\n'),
    ("grandchild_of_an_array_value", "c := [1, 2].bear({x: 10}).bear({y: 20})\n[c.x, c.y, c['x], c['y], c.proto.x, c.ancestors.len, c.which('x) == c.proto].p\n",
     "[10, 20, 10, 20, 10, 5, true]\n"),
    ("children_of_zero_and_one", "d1 := 1.bear({q: 5})\nd0 := 0.bear({q: 6})\n[d1.q, d0.q, d1['q], d0['q], d1.proto, d0.proto, d1 + 1].p\n", "[5, 6, 5, 6, 1, 0, 2]\n"),
    ("missing_gets_private_and_kwargs",
     "k := {tag: 4, _missing: {|self, name, x, k: 0| [self.tag, name, x, k]}}\nchild := k.bear({tag: 5})\n"
     "child._foo(1, k: 2).p\nchild._foo.p\nchild.zz(1, k: 2).p\nchild['_foo].p\n{_p: 1}._p.p\n",
     '[5, "_foo", 1, 2]\n[5, "_foo", nil, 0]\n[5, "zz", 1, 2]\nnil\n1\n'),
]


def queries(rng, objs, only=None):
    qs = []   # (query source, expected print or ('err', kind, msg))
    for o in (only if only is not None else objs):
        users, root = o.chain()
        has_obj = root == "Obj"
        missing_owner, _ = o.find("_missing")
        for n in NAMES + ABSENT:
            owner, kind = o.find(n)
            for arg, argr in (("", "nil"), ("7", "7")):
                call = "%s.%s(%s)" % (o.var(), n, arg) if arg else "%s.%s" % (o.var(), n)
                if owner:
                    qs.append((call, val_repr(kind, owner.oid, n, o, argr)))
                elif missing_owner:
                    qs.append((call, '["miss%d", %d, "%s", %s]' % (missing_owner.oid, o.oid, n, argr)))
                else:
                    qs.append((call, ("err", "NoPropErr", "property `%s` is not defined." % n)))
            # indexing by symbol: the same walk, no _missing, no call
            if owner and kind == "v":
                qs.append(("%s['%s]" % (o.var(), n), val_repr("v", owner.oid, n, o, "nil")))
            elif owner:
                qs.append(("%s['%s].proto == Func" % (o.var(), n), "true"))
            else:
                qs.append(("%s['%s]" % (o.var(), n), "nil"))
            if has_obj:
                qs.append(("%s.which('%s)['tag]" % (o.var(), n), str(owner.oid) if owner else "nil"))
        # tag lookups: identity of the receiver and of its prototype
        qs.append(("%s.tag" % o.var(), str(o.oid)))
        par = o.parent
        qs.append(("%s.proto['tag]" % o.var(), str(par.oid) if isinstance(par, Obj) else "nil"))
        qs.append(("%s.proto['_name]" % o.var(), '"%s"' % (par.chain()[1] if isinstance(par, Obj) else par)))
        if has_obj:
            pub = sorted(k for k in o.own if not k.startswith("_"))
            qs.append(("%s.keys" % o.var(), "[" + ", ".join('"%s"' % k for k in pub) + "]"))
            anc = [u for u in users[1:]]
            qs.append(("%s.ancestors=@{|x| x['tag] || x['_name]}" % o.var(),
                       "[" + ", ".join([str(u.oid) for u in anc] + ['"Obj"', '"BaseObj"']) + "]"))
            qs.append(("%s.which('keys)['_name]" % o.var(), '"Obj"'))
            qs.append(("%s.which('proto)['_name]" % o.var(), '"BaseObj"'))
            other = rng.choice(objs)
            if other.oid == o.oid:
                other = o          # kindOf? compares with ==: the kept source object of bear equals its twin
            qs.append(("%s.kindOf?(%s)" % (o.var(), other.var()), "true" if other in users else "false"))
            qs.append(("%s.ancestors.len" % o.var(), str(len(anc) + 2)))
            qs.append(("%s.kindOf?(%s)" % (o.var(), users[-1].var()), "true"))
            qs.append(("%s.kindOf?(Obj)" % o.var(), "true"))
            qs.append(("%s.kindOf?(Int)" % o.var(), "false"))
        else:
            # children of BaseObj: Obj's properties are NOT on their chain
            mo = missing_owner
            qs.append(("%s.keys" % o.var(),
                       ('["miss%d", %d, "keys", nil]' % (mo.oid, o.oid)) if mo else ("err", "NoPropErr", "property `keys` is not defined.")))
            qs.append(("%s.bear({tag: 99}).proto['tag]" % o.var(), str(o.oid)))
    return qs


def main(chk):
    ok, broken = obligations(chk, "Props/C05.v")
    rng = chk.rng
    st0 = rng.getstate()
    rng.seed(5005)
    forests = []
    for _ in range(12):
        forests.append(gen_forest(rng, rng.randint(3, 6)))
    rng.setstate(st0)
    for _ in range(10 if chk.tier == "quick" else 50):
        forests.append(gen_forest(rng, rng.randint(2, 8)))
    progs, meta = [], []
    preludes = []
    expect_at = {}
    for name, prog, exp in EXPECT:
        expect_at[len(progs)] = (name, exp)
        progs.append(prog)
        meta.append(("expect:" + name, exp))
    for depth in (15, 17, 33):
        objs, lines, _ = deep_chain(depth, depth % 2 == 0)
        forests.append((objs, lines, [objs[-1], objs[len(objs) // 2]]))
    for objs, lines, extra in forests:
        pre = "\n".join(lines) + "\n"
        deep = len(objs) > 12
        for q, exp in queries(rng, objs, only=extra if deep else None) + ([] if deep else queries(rng, objs + extra, only=extra)):
            progs.append(pre + q + "\n")
            meta.append((q, exp))
    res = pancore.run_programs(chk, progs, cmp_msg=True)
    viol, model_only, hist = [], [], {}
    for prog, (q, exp), r in zip(progs, meta, res):
        fam = "call" if "(" in q and ".which" not in q and "kindOf" not in q and "bear" not in q else \
              ("index" if "['" in q and ".which" not in q and ".proto" not in q else
               ("which" if ".which" in q else ("ancestors" if "ancestors" in q else ("keys" if q.endswith(".keys") else
                ("kindOf" if "kindOf" in q else "read")))))
        hist[fam] = hist.get(fam, 0) + 1
        chk.count(prog, True)
        imp = r["impl"]
        if q.startswith("expect:"):
            good = imp["kind"] == "value" and norm_err_msgs(imp.get("out")) == norm_err_msgs(exp)
        elif isinstance(exp, tuple):
            good = imp["kind"] == "error" and imp.get("errk") == exp[1]      # the property names the error kind, not its wording
        else:
            good = imp["kind"] == "value" and imp.get("repr") == exp
        if not good:
            viol.append(("`%s` gives %s; the prototype-chain search demands %s" % (
                q, imp.get("repr") or (imp.get("errk"), imp.get("errmsg")), exp),
                {"program": prog, "query": q, "expected": exp, "impl": {k: imp.get(k) for k in ("kind", "repr", "errk", "errmsg")}},
                "C05:" + fam))
        elif r["verdict"] == "disagree":
            model_only.append(r)
    chk.cov["input_distribution"] = hist
    chk.cov["forests"] = len(forests)
    chk.cov["rule"] = ("%d programs with hand-derived answers (descendants of Int / Arr / Str VALUES indexed by symbol and called, `_missing` through list chains with 1 / 3 / 5 arguments, `_missing` for private names and with keyword arguments); prototype forests of 2-8 objects built by object literals, bear, bro, BaseObj.bear, and bear/bro whose source object is kept in a variable and queried afterwards as a plain child of Obj; chains of 15/17/33 bear levels below a literal root queried at the leaf and in the middle; over a pool of 5 names (so shadowing "
                       "is constant), property kinds value / function / _missing, a unique own `tag` per object; for every object: o.n and o.n(arg) "
                       "for present / inherited / shadowed / absent names, o['n], which, keys, ancestors, proto, kindOf?, names that live only on "
                       "Obj / BaseObj (does the search reach the last link; children of BaseObj must NOT see Obj's properties). Oracle: a forest "
                       "model (first owner along the chain, then first _missing with the name first, then NoPropErr) and PanCore." % len(EXPECT))
    for i in (0, len(progs) // 2, len(progs) - 1):
        chk.sample({"program": progs[i], "expected": meta[i][1], "impl": {k: res[i]["impl"].get(k) for k in ("kind", "repr", "errk")},
                    "model_verdict": res[i]["verdict"]})
    chk.cov["rule"] += " Added after seeded round 5: `private?:` with non-true and forwarded values, a `_missing` that reads another absent name and absent names after a caught error, siblings without own properties after a sibling that shadows the name in a list chain."
    chk.cov["rule"] += " Added after seeded round 6: non-ASCII names next to ASCII names with the same bytes modulo 256, `which` with names that are not identifiers."
    return pancore.conclude(chk, ok, broken, "Props/C05.v", res, viol, model_only, "C05",
                            "Core.Values.find_prop / Core.Interp.eval_prop vs object/findprop.go, evaluator/eval_propcall.go, native/Obj.pangaea")
