"""C09 — object / map key rules: proof obligations (Props/C09.v) + literals and `**`
combinations over a key pool of every kind, compared with PanCore and with an ordered-
dictionary model (the property's direct oracle); every program is run 8 times."""
import itertools
from pv import *
import pancore

# ---- value / key rendering (Inspect) -------------------------------------------------
def insp(v):
    if v is None:
        return "nil"
    if v is True:
        return "true"
    if v is False:
        return "false"
    if isinstance(v, int):
        return str(v)
    if isinstance(v, float):
        return "%.6f" % v
    if isinstance(v, str):
        return '"%s"' % v
    if isinstance(v, tuple) and v and v[0] == "arr":
        return "[" + ", ".join(insp(x) for x in v[1]) + "]"
    if isinstance(v, tuple) and v and v[0] == "obj":
        return "{" + ", ".join('"%s": %s' % (k, insp(x)) for k, x in sorted(v[1], key=lambda kv: '"%s"' % kv[0])) + "}"
    raise ValueError(v)


def src(v):
    if isinstance(v, tuple) and v[0] == "arr":
        return "[" + ", ".join(src(x) for x in v[1]) + "]"
    if isinstance(v, tuple) and v[0] == "obj":
        return "{" + ", ".join("%s: %s" % (k, src(x)) for k, x in v[1]) + "}"
    if isinstance(v, float):
        return repr(v)
    return insp(v)


def scalar_id(k):
    """identity of a scalar key: (type, value); None for non-scalar keys"""
    if k is None:
        return ("nil",)
    if k is True or k is False:
        return ("bool", k)
    if isinstance(k, int):
        return ("int", k)
    if isinstance(k, float):
        import struct
        return ("float", struct.pack(">d", k))
    if isinstance(k, str):
        return ("str", k)
    return None


def deep_eq(a, b):
    return insp(a) == insp(b) and type(a) == type(b)


OBJ_NAMES = ["a", "b", "zz", "Bq", "_p", "_q", "a1", "k?", "__c", "__", "a_", "_Z"]
MAP_KEYS = [1, 2, -1, 0, "a", "b", "1", "", None, True, False, 1.5, 0.0, -0.0, 2.0,
            ("arr", (1,)), ("arr", ()), ("arr", (1, 2)), ("obj", (("x", 1),)), ("obj", ())]


class ObjModel:
    def __init__(self):
        self.pairs = []          # first wins, insertion order irrelevant (listing is sorted)

    def add(self, k, v):
        if all(k != kk for kk, _ in self.pairs):
            self.pairs.append((k, v))

    def public(self):
        import re
        return sorted(k for k, _ in self.pairs if re.fullmatch(r"[a-zA-Z][a-zA-Z0-9_]*[!?]?", k))

    def private(self):
        pub = set(self.public())
        return sorted(k for k, _ in self.pairs if k not in pub)

    def get(self, k):
        for kk, v in self.pairs:
            if kk == k:
                return v
        return None

    def inspect(self):
        return insp(("obj", tuple(self.pairs)))


class MapModel:
    def __init__(self):
        self.sc, self.ns = [], []

    def add(self, k, v):
        sid = scalar_id(k)
        if sid is not None:
            if all(scalar_id(kk) != sid for kk, _ in self.sc):
                self.sc.append((k, v))
        else:
            if all(not deep_eq(kk, k) for kk, _ in self.ns):
                self.ns.append((k, v))

    def pairs(self):
        return self.sc + self.ns

    def inspect(self):
        s1 = ", ".join("%s: %s" % kv for kv in sorted(((insp(k), insp(v)) for k, v in self.sc), key=lambda kv: kv[0]))
        s2 = ", ".join("%s: %s" % (insp(k), insp(v)) for k, v in self.ns)
        return "%{" + (s2 if not s1 else (s1 if not s2 else s1 + ", " + s2)) + "}"

    def get(self, k):
        sid = scalar_id(k)
        for kk, v in (self.sc if sid is not None else self.ns):
            if (scalar_id(kk) == sid) if sid is not None else deep_eq(kk, k):
                return v
        return None


def gen_obj_case(rng, npairs, nunpack):
    lit_pairs = [(rng.choice(OBJ_NAMES), rng.randint(0, 99)) for _ in range(npairs)]
    unpack = [[(rng.choice(OBJ_NAMES), rng.randint(100, 199)) for _ in range(rng.randint(0, 3))] for _ in range(nunpack)]
    m = ObjModel()
    for k, v in lit_pairs:
        m.add(k, v)
    for u in unpack:
        um = ObjModel()
        for k, v in u:
            um.add(k, v)
        for k, v in um.pairs:
            m.add(k, v)
    text = "{" + ", ".join(["%s: %d" % (("'" + k) if "?" in k else k, v) for k, v in lit_pairs] +
                           ["**{" + ", ".join("%s: %d" % (("'" + k) if "?" in k else k, v) for k, v in u) + "}" for u in unpack]) + "}"
    qs = [("o", m.inspect()),
          ("o.keys", "[" + ", ".join('"%s"' % k for k in m.public()) + "]"),
          ("o.values", "[" + ", ".join(str(m.get(k)) for k in m.public()) + "]"),
          ("o.items", "[" + ", ".join('["%s", %s]' % (k, m.get(k)) for k in m.public()) + "]"),
          ("o.keys(private?: true)", "[" + ", ".join('"%s"' % k for k in m.public() + m.private()) + "]"),
          ("o.values(private?: true)", "[" + ", ".join(str(m.get(k)) for k in m.public() + m.private()) + "]"),
          ("o.items(private?: true)", "[" + ", ".join('["%s", %s]' % (k, m.get(k)) for k in m.public() + m.private()) + "]"),
          # "hidden unless private?: true": any other value of the keyword hides them
          ("[o.keys(private?: false), o.values(private?: nil), o.items(private?: 1), o.keys(private?: 'true)]",
           "[" + ", ".join(["[" + ", ".join('"%s"' % k for k in m.public()) + "]",
                            "[" + ", ".join(str(m.get(k)) for k in m.public()) + "]",
                            "[" + ", ".join('["%s", %s]' % (k, m.get(k)) for k in m.public()) + "]",
                            "[" + ", ".join('"%s"' % k for k in m.public()) + "]"]) + "]"),
          ("o=@{|k, v| [k, v]}", "[" + ", ".join('["%s", %s]' % (k, m.get(k)) for k in m.public()) + "]"),
          ("o.keys.len", str(len(m.public()))),
          ("[%s]" % ", ".join("o['%s]" % k for k in OBJ_NAMES if "?" not in k),
           "[" + ", ".join(insp(m.get(k)) for k in OBJ_NAMES if "?" not in k) + "]")]
    return "o := " + text, qs


def gen_map_case(rng, npairs, nunpack):
    lit_pairs = [(rng.choice(MAP_KEYS), rng.randint(0, 99)) for _ in range(npairs)]
    unpack = []
    for _ in range(nunpack):
        kind = rng.choice(["map", "obj"])
        if kind == "map":
            unpack.append(("map", [(rng.choice(MAP_KEYS), rng.randint(100, 199)) for _ in range(rng.randint(0, 3))]))
        else:
            unpack.append(("obj", [(rng.choice(["a", "b", "zz", "_p"]), rng.randint(200, 299)) for _ in range(rng.randint(0, 3))]))
    m = MapModel()
    for k, v in lit_pairs:
        m.add(k, v)
    parts = ["%s: %d" % (src(k), v) for k, v in lit_pairs]
    for kind, u in unpack:
        if kind == "map":
            um = MapModel()
            for k, v in u:
                um.add(k, v)
            for k, v in um.pairs():
                m.add(k, v)
            parts.append("**%{" + ", ".join("%s: %d" % (src(k), v) for k, v in u) + "}")
        else:
            om = ObjModel()
            for k, v in u:
                om.add(k, v)
            for k in om.public() + om.private():
                m.add(k, om.get(k))
            parts.append("**{" + ", ".join("%s: %d" % (k, v) for k, v in u) + "}")
    text = "%{" + ", ".join(parts) + "}"
    ps = m.pairs()
    qs = [("m", m.inspect()),
          ("m.keys", "[" + ", ".join(insp(k) for k, _ in ps) + "]"),
          ("m.values", "[" + ", ".join(insp(v) for _, v in ps) + "]"),
          ("m.items", "[" + ", ".join("[%s, %s]" % (insp(k), insp(v)) for k, v in ps) + "]"),
          ("m.len", str(len(ps))),
          ("m=@{|k, v| [k, v]}", "[" + ", ".join("[%s, %s]" % (insp(k), insp(v)) for k, v in ps) + "]"),
          ("[%s]" % ", ".join("m[%s]" % src(k) for k in MAP_KEYS),
           "[" + ", ".join(insp(m.get(k)) for k in MAP_KEYS) + "]"),
          ("m == %{**m}", "true")]
    return "m := " + text, qs


def dup_map_case(shape, k, k2):
    """the same key (and a second one) given by the literal and by one, two or three `**` items"""
    m = MapModel()
    parts = []
    n = 0
    for kind in shape:
        n += 1
        if kind == "L":
            parts.append("%s: %d" % (src(k), n))
            m.add(k, n)
        elif kind == "M":
            parts.append("**%%{%s: %d, %s: %d}" % (src(k), n, src(k2), n + 10))
            um = MapModel()
            um.add(k, n)
            um.add(k2, n + 10)
            for kk, vv in um.pairs():
                m.add(kk, vv)
        else:
            parts.append("**%%{%s: %d}" % (src(k2), n + 20))
            m.add(k2, n + 20)
    text = "%{" + ", ".join(parts) + "}"
    ps = m.pairs()
    qs = [("[m, m.len, m.keys, m.values, m.items, m=@{|k, v| [k, v]}, m[%s], m[%s]]" % (src(k), src(k2)),
           "[" + ", ".join([m.inspect(), str(len(ps)), "[" + ", ".join(insp(kk) for kk, _ in ps) + "]",
                            "[" + ", ".join(insp(v) for _, v in ps) + "]",
                            "[" + ", ".join("[%s, %s]" % (insp(kk), insp(v)) for kk, v in ps) + "]",
                            "[" + ", ".join("[%s, %s]" % (insp(kk), insp(v)) for kk, v in ps) + "]",
                            insp(m.get(k)), insp(m.get(k2))]) + "]")]
    return "m := " + text, qs


def dup_obj_case(shape, k, k2):
    m = ObjModel()
    parts = []
    n = 0
    lit = lambda name: ("'" + name) if "?" in name else name
    for kind in shape:
        n += 1
        if kind == "L":
            parts.append("%s: %d" % (lit(k), n))
            m.add(k, n)
        elif kind == "M":
            parts.append("**{%s: %d, %s: %d}" % (lit(k), n, lit(k2), n + 10))
            m.add(k, n)
            m.add(k2, n + 10)
        else:
            parts.append("**{%s: %d}" % (lit(k2), n + 20))
            m.add(k2, n + 20)
    text = "{" + ", ".join(parts) + "}"
    allk = m.public() + m.private()
    qs = [("[o, o.keys, o.values, o.keys(private?: true), o.values(private?: true), o=@{|k, v| [k, v]}]",
           "[" + ", ".join([m.inspect(), "[" + ", ".join('"%s"' % x for x in m.public()) + "]",
                            "[" + ", ".join(str(m.get(x)) for x in m.public()) + "]",
                            "[" + ", ".join('"%s"' % x for x in allk) + "]",
                            "[" + ", ".join(str(m.get(x)) for x in allk) + "]",
                            "[" + ", ".join('["%s", %s]' % (x, m.get(x)) for x in m.public()) + "]"]) + "]")]
    return "o := " + text, qs


# the source object / map of a `**` must be left as it was, and can be unpacked again
ALIAS_CASES = [
    ("a := {x: 1}\nb := {y: 2}\nc := {**a, **b}\nd := {**a, **{z: 3, y: 9}}\n", "[a, a.keys, a['y], b, c, d]",
     '[{"x": 1}, ["x"], nil, {"y": 2}, {"x": 1, "y": 2}, {"x": 1, "y": 9, "z": 3}]'),
    ("a := {x: 1}\nc := {**a, **{y: 2}, **{w: 0}}\n", "[a, a.keys, a.values, a['y], a['w], c]",
     '[{"x": 1}, ["x"], [1], nil, nil, {"w": 0, "x": 1, "y": 2}]'),
    ("a := %{1: 'p}\nb := %{2: 'q}\nc := %{**a, **b}\nd := %{**a, **%{3: 'r, 2: 's}}\n", "[a, a.keys, a[2], b, c, d]",
     '[%{1: "p"}, [1], nil, %{2: "q"}, %{1: "p", 2: "q"}, %{1: "p", 2: "s", 3: "r"}]'),
    ("a := %{[1]: 'p}\nb := %{[2]: 'q}\nc := %{**a, **b}\n", "[a, a.len, b, c, c.len]",
     '[%{[1]: "p"}, 1, %{[2]: "q"}, %{[1]: "p", [2]: "q"}, 2]'),
    # keys that are == although their kinds differ (a value and a `bear` descendant of it): still ONE key
    ("a := [1, 2].bear({z: 0})\nm := %{[1, 2]: 'lit, a: 'child, 'x: 0}\nm2 := %{a: 'child, [1, 2]: 'lit}\nm3 := %{**%{[1, 2]: 1}, **%{a: 2}}\n",
     "[[1, 2] == a, m.len, m.keys.len, m[[1, 2]], m[a], m.values, m2.len, m2[[1, 2]], m2[a], m3.len, m3.values]",
     '[true, 2, 2, "lit", "lit", [0, "lit"], 1, "child", "child", 1, [1]]'),
    ("r := (1:3).bear({w: 1})\nm4 := %{(1:3): 'lit, r: 'child}\no := {k: 1}.bear({k: 1})\nm5 := %{{k: 1}: 'lit, o: 'child}\n",
     "[(1:3) == r, m4.len, m4.values, {k: 1} == o, m5.len, m5.values]", '[true, 1, ["lit"], true, 1, ["lit"]]'),
    # keys that print alike but are not == stay two keys; a key present with value nil is present
    ("m := %{[0.1 + 0.2]: 'a, [0.3]: 'b}\n", "[m.len, m[[0.3]], m[[0.1 + 0.2]], [0.1 + 0.2] == [0.3]]", '[2, "b", "a", false]'),
    ('n := %{"len": nil, \'keys: nil, "x": 1}\n', '[n["len"], n[\'keys], n["nope"], n.len, n["x"], %{}["len"].proto[\'_name]]', '[nil, nil, nil, 3, 1, "Func"]'),
    ("a := {x: 1, _h: 2}\nc := {_h: 5, **a, **a}\n", "[a, c, c.keys, c.values(private?: true)]",
     '[{"_h": 2, "x": 1}, {"_h": 5, "x": 1}, ["x"], [1, 5]]'),
    # scalar keys that print alike (floats differing beyond the 6th decimal) are different keys: every pair is listed and printed
    ('m := %{1.0: "one", 1.0000001: "more", 2: "two"}\ns := %{0.0000001: \'a, 0.0000002: \'b, 0.0000003: \'c}\nu := %{0.5: \'half, **%{0.50000001: \'more}}\n',
     "[m.len, m.values, m[1.0], m[1.0000001], m.S, s.values, s.S, u.items.len, u.values, u.S]",
     '[3, ["one", "more", "two"], "one", "more", `%{1.000000: "more", 1.000000: "one", 2: "two"}`, ["a", "b", "c"], '
     '`%{0.000000: "a", 0.000000: "b", 0.000000: "c"}`, 2, ["half", "more"], `%{0.500000: "half", 0.500000: "more"}`]'),
    # keys with a user-defined `==` that raises for other kinds of values: an error inside the duplicate test means "not equal"
    ("Point := {new: m{|x, y| .bear({x: x, y: y})}, '==: m{|o| .x == o.x && .y == o.y}}\np := Point.new(1, 2)\nq := Point.new(1, 2)\nr := Point.new(3, 4)\n"
     "show := {|e| e.A.{|m, err| [m.len, m.values] if err.nil? else err.type._name}}\n",
     "[show(1.try.{%{[1, 2]: 'arr, ^p: 'first, ^q: 'dup, ^r: 'other}}), show(1.try.{%{{a: 1}: 'obj, **%{^p: 'p, ^q: 'dup, ^r: 'r}}}), "
     "show(1.try.{%{(1:2): 'range, 'k: 'scalar, **%{^r: 'r}}}), show(1.try.{%{^p: 1, ^q: 2, ^r: 3}})]",
     '[[3, ["arr", "first", "other"]], [3, ["obj", "p", "r"]], [3, ["scalar", "range", "r"]], [2, [1, 3]]]'),
]


def main(chk):
    ok, broken = obligations(chk, "Props/C09.v")
    rng = chk.rng
    st0 = rng.getstate()
    rng.seed(909)
    cases = []
    for npairs in range(0, 6):
        for nun in range(0, 3):
            for _ in range(4):
                cases.append(("obj", gen_obj_case(rng, npairs, nun)))
                cases.append(("map", gen_map_case(rng, npairs, nun)))
    # the same key met in the literal and in one, two, three `**` items, for every key kind (seed-independent)
    shapes = ["LM", "MM", "MMM", "MNM", "NMM", "LMM", "LNM", "LMNM"]   # the grammar wants pairs before `**` items
    for i, k in enumerate(MAP_KEYS):
        k2 = MAP_KEYS[(i + 7) % len(MAP_KEYS)]
        for sh in shapes:
            cases.append(("map", dup_map_case(sh, k, k2)))
    for i, k in enumerate(OBJ_NAMES):
        k2 = OBJ_NAMES[(i + 3) % len(OBJ_NAMES)]
        for sh in shapes:
            cases.append(("obj", dup_obj_case(sh, k, k2)))
    for pre, q, exp in ALIAS_CASES:
        cases.append(("alias", (pre.rstrip("\n"), [(q, exp)])))
    rng.setstate(st0)
    for _ in range(40 if chk.tier == "quick" else 800):
        cases.append(("obj", gen_obj_case(rng, rng.randint(0, 10), rng.randint(0, 3))))
        cases.append(("map", gen_map_case(rng, rng.randint(0, 10), rng.randint(0, 3))))
    progs, meta = [], []
    for kind, (pre, qs) in cases:
        for q, exp in qs:
            progs.append(pre + "\n" + q + "\n")
            meta.append((kind, q, exp))
    res = pancore.run_programs(chk, progs, cmp_msg=True, repeat=8)
    viol, model_only, hist = [], [], {}
    for prog, (kind, q, exp), r in zip(progs, meta, res):
        fam = kind + ":" + q.split("(")[0].split("=@")[0].split("[")[0][:12]
        hist[fam] = hist.get(fam, 0) + 1
        chk.count(prog, True)
        imp = r["impl"]
        if imp.get("nondet"):
            viol.append(("`%s` differs between repeated evaluations" % prog.strip(), {"program": prog, "first": imp.get("repr"), "other": imp["nondet"][:2]}, "C09:nondet"))
        elif not (imp["kind"] == "value" and imp.get("repr") == exp):
            viol.append(("`%s` gives %s; the key rules demand %s" % (prog.strip().replace("\n", "; "), imp.get("repr") or (imp.get("errk"), imp.get("errmsg")), exp),
                         {"program": prog, "expected": exp, "impl": {k: imp.get(k) for k in ("kind", "repr", "errk", "errmsg")}}, "C09:" + fam))
        elif r["verdict"] == "disagree":
            model_only.append(r)
    chk.cov["input_distribution"] = hist
    chk.cov["rule"] = ("object literals over 8 names (public, private `_p`, with `?`, capitalised) with 0-10 pairs and 0-3 `**` unpackings with "
                       "duplicates everywhere; map literals over 20 keys of every kind (ints, strs incl. \"1\" and \"\", nil, booleans, floats incl. "
                       "0.0/-0.0/2.0, arrays, objects) with `**map` and `**obj`; observed: print, keys, values, items (also private?: true), len, "
                       "iteration, indexing by every pool key, equality with its own unpacking; the same key given by the literal and by one, two, three `**` items "
                       "for every key kind; `private?:` with non-true values; sources of `**` printed and unpacked again; keys that are == across kinds, keys "
                       "that print alike but are not ==, keys named like properties with nil values; each program evaluated 8 times. Oracle: an "
                       "ordered-dictionary model (first wins; names sorted, private hidden; scalar keys by (type,value) in insertion order then "
                       "the other keys by == in insertion order) and PanCore.")
    for i in (0, len(progs) // 2, len(progs) - 1):
        chk.sample({"program": progs[i], "expected": meta[i][2], "impl": res[i]["impl"].get("repr"), "model_verdict": res[i]["verdict"]})
    chk.cov["rule"] += " Name pool includes names with several leading underscores and a trailing underscore."
    chk.cov["rule"] += " (12 names in the pool.) Added after seeded round 6: float keys that print alike, keys whose user-defined `==` raises for other kinds of values."
    return pancore.conclude(chk, ok, broken, "Props/C09.v", res, viol, model_only, "C09",
                            "Core.Interp (EObj/EMap, Obj#keys.., Map#..) vs evaluator/eval_{obj,map,pair}.go, object/{obj,map}.go, props/{obj,map}_props.go")
