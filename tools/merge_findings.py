#!/usr/bin/env python3
"""Resolve a merge conflict in known_findings.json / _CoqProject after `git merge <branch>`:
keep ours, append the branch's entries that we do not have (by property+class)."""
import json, subprocess, sys, os
ROOT = os.path.dirname(os.path.dirname(os.path.abspath(__file__)))
branch = sys.argv[1]
ours = json.loads(subprocess.check_output(["git", "show", "HEAD:known_findings.json"], cwd=ROOT))
theirs = json.loads(subprocess.check_output(["git", "show", branch + ":known_findings.json"], cwd=ROOT))
have = {(f["property"], f.get("class")) for f in ours["findings"]}
for f in theirs["findings"]:
    if (f["property"], f.get("class")) not in have:
        ours["findings"].append(f)
json.dump(ours, open(os.path.join(ROOT, "known_findings.json"), "w"), indent=1)
sys.path.insert(0, os.path.join(ROOT, "tools"))
import pv
pv.write_coq_project()
