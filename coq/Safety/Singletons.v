(* C01, singletons: package object declares its prototype objects as empty structs
   (`var BuiltInX = &PanObj{}`: Pairs and Keys are nil pointers) and fills them in init()
   (`*BuiltInX = *NewPanObj(&map..., proto)`). Reading a property of one that was never filled
   dereferences nil. The translator lists both sets; the check is inclusion. *)
From Coq Require Import List String Bool.
Import ListNotations.

Definition mem (x : string) (l : list string) : bool := existsb (String.eqb x) l.

Definition all_initialised (declared initialised : list string) : bool :=
  forallb (fun d => mem d initialised) declared.

Lemma mem_In x l : mem x l = true -> In x l.
Proof.
  unfold mem. rewrite existsb_exists. intros [y [Hy E]]. apply String.eqb_eq in E. now subst.
Qed.

Theorem all_initialised_sound declared initialised :
  all_initialised declared initialised = true -> forall d, In d declared -> In d initialised.
Proof.
  unfold all_initialised. rewrite forallb_forall. intros H d Hd. apply mem_In. exact (H d Hd).
Qed.

Example missing_one_rejected :
  all_initialised ["BuiltInErrObj"; "BuiltInFileNotFoundErr"]%string ["BuiltInErrObj"]%string = false.
Proof. reflexivity. Qed.
