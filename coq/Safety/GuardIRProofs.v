(* Soundness of the argument-guard check: if [safe body] holds, then for EVERY number of
   received arguments and EVERY outcome of the conditions the analysis does not understand,
   executing the body never indexes args out of range. *)
From Coq Require Import List Arith Bool Lia.
From PanVerif Require Import Safety.GuardIR.
Import ListNotations.

(* induction principle for the nested type *)
Section StmInd.
Variable P : stm -> Prop.
Hypothesis HUse : forall i, P (SUse i).
Hypothesis HUseFrom : forall k, P (SUseFrom k).
Hypothesis HHelper : forall v g, P (SHelper v g).
Hypothesis HReturn : P SReturn.
Hypothesis HIf : forall c t e, Forall P t -> Forall P e -> P (SIf c t e).
Fixpoint stm_ind' (s : stm) : P s :=
  match s with
  | SUse i => HUse i
  | SUseFrom k => HUseFrom k
  | SHelper v g => HHelper v g
  | SReturn => HReturn
  | SIf c t e =>
      HIf c t e
        ((fix f (l : list stm) : Forall P l :=
            match l with [] => Forall_nil P | x :: r => Forall_cons x (stm_ind' x) (f r) end) t)
        ((fix f (l : list stm) : Forall P l :=
            match l with [] => Forall_nil P | x :: r => Forall_cons x (stm_ind' x) (f r) end) e)
  end.
End StmInd.

(* the inner list functions are the outer ones *)
Lemma exec_if c t e n errs o :
  exec_stm (SIf c t e) n errs o =
  let '(b, o') := match c with
                  | CLenLt k => (n <? k, o)
                  | CLenGe k => (k <=? n, o)
                  | CErrNil v => (lookup_b v errs, o)
                  | CErrNotNil v => (negb (lookup_b v errs), o)
                  | COther => next o
                  end in
  exec (if b then t else e) n errs o'.
Proof.
  cbn [exec_stm]. destruct (match c with CLenLt k => _ | _ => _ end) as [b o'].
  generalize (if b then t else e). intros l. revert errs o'.
  induction l as [|x r IH]; intros errs o'; cbn [exec]; [reflexivity|].
  destruct (exec_stm x n errs o'); try reflexivity. apply IH.
Qed.

Lemma safe_if c t e lo hv :
  safe_stm (SIf c t e) lo hv =
  let '(lt, le) := match c with
                   | CLenLt k => (lo, Nat.max lo k)
                   | CLenGe k => (Nat.max lo k, lo)
                   | CErrNil v => (Nat.max lo (lookup_g v hv), lo)
                   | CErrNotNil v => (lo, Nat.max lo (lookup_g v hv))
                   | COther => (lo, lo)
                   end in
  match safe_list t lt hv, safe_list e le hv with
  | Some rt, Some re => Some (join rt re hv)
  | _, _ => None
  end.
Proof.
  cbn [safe_stm]. destruct (match c with CLenLt k => _ | _ => _ end) as [lt le].
  assert (forall l lo0 hv0,
    (fix safe_list (l : list stm) (lo : nat) (hv : list (nat * nat)) : ares :=
       match l with
       | [] => Some (Some (lo, hv))
       | x :: r => match safe_stm x lo hv with
                   | None => None
                   | Some None => Some None
                   | Some (Some (lo', hv')) => safe_list r lo' hv'
                   end
       end) l lo0 hv0 = safe_list l lo0 hv0) as E.
  { induction l as [|x r IH]; intros lo0 hv0; cbn [safe_list]; [reflexivity|].
    destruct (safe_stm x lo0 hv0) as [[[lo' hv']|]|]; [apply IH|reflexivity|reflexivity]. }
  now rewrite !E.
Qed.

(* the abstract state describes the concrete one *)
Definition cons (n : nat) (errs : list (nat * bool)) (lo : nat) (hv : list (nat * nat)) : Prop :=
  lo <= n /\ forall v, lookup_b v errs = true -> lookup_g v hv <= n.

Definition ok_out (n : nat) (r : option (nat * list (nat * nat))) (x : out) : Prop :=
  match x with
  | Panic => False
  | Returned => True
  | Fell errs' o' => exists lo' hv', r = Some (lo', hv') /\ cons n errs' lo' hv'
  end.

Lemma cons_weaken n errs lo hv lo' : cons n errs lo hv -> lo' <= lo -> cons n errs lo' [].
Proof. intros [L _] H. split; [lia|]. intros v _. cbn. lia. Qed.

Lemma sound_list_of (P := fun s => forall n errs o lo hv r,
      safe_stm s lo hv = Some r -> cons n errs lo hv -> ok_out n r (exec_stm s n errs o)) l :
  Forall P l ->
  forall n errs o lo hv r, safe_list l lo hv = Some r -> cons n errs lo hv -> ok_out n r (exec l n errs o).
Proof.
  induction 1 as [|x t Hx Ht IH]; intros n errs o lo hv r Hs Hc; cbn [safe_list exec] in *.
  - inversion Hs; subst. cbn. eauto.
  - destruct (safe_stm x lo hv) as [[[lo1 hv1]|]|] eqn:E; try discriminate.
    + pose proof (Hx n errs o lo hv _ E Hc) as X. destruct (exec_stm x n errs o) as [| |errs1 o1]; cbn in X.
      * contradiction.
      * cbn. exact I.
      * destruct X as (lo' & hv' & Eq & C). inversion Eq; subst. eapply IH; eauto.
    + inversion Hs; subst. pose proof (Hx n errs o lo hv _ E Hc) as X.
      destruct (exec_stm x n errs o) as [| |errs1 o1]; cbn in X |- *.
      * contradiction.
      * exact I.
      * destruct X as (lo' & hv' & Eq & _). discriminate Eq.
Qed.

Theorem sound_stm : forall s n errs o lo hv r,
  safe_stm s lo hv = Some r -> cons n errs lo hv -> ok_out n r (exec_stm s n errs o).
Proof.
  induction s as [i|k|v g| |c t e Ht He] using stm_ind'; intros n errs o lo hv r Hs [Hlo Hhv].
  - simpl in Hs |- *. destruct (Nat.ltb_spec i lo); [|discriminate Hs]. inversion Hs; subst.
    destruct (Nat.ltb_spec i n); [|lia]. cbn. do 2 eexists. split; [reflexivity|split; auto].
  - simpl in Hs |- *. destruct (Nat.leb_spec k lo); [|discriminate Hs]. inversion Hs; subst.
    destruct (Nat.leb_spec k n); [|lia]. cbn. do 2 eexists. split; [reflexivity|split; auto].
  - simpl in Hs. inversion Hs; subst. cbn [exec_stm]. destruct (next o) as [b o']. cbn [ok_out].
    do 2 eexists. split; [reflexivity|]. split; [exact Hlo|].
    intros w. cbn [lookup_b lookup_g]. destruct (Nat.eqb w v); [|now apply Hhv].
    destruct (Nat.ltb_spec n g) as [L|L]; intros Hw; [discriminate Hw|lia].
  - simpl in Hs |- *. inversion Hs; subst. exact I.
  - rewrite safe_if in Hs. rewrite exec_if.
    destruct (match c with CLenLt k => (lo, Nat.max lo k) | CLenGe k => (Nat.max lo k, lo)
              | CErrNil v => (Nat.max lo (lookup_g v hv), lo) | CErrNotNil v => (lo, Nat.max lo (lookup_g v hv))
              | COther => (lo, lo) end) as [lt le] eqn:Ec.
    destruct (safe_list t lt hv) as [rt|] eqn:Et; [|discriminate].
    destruct (safe_list e le hv) as [re|] eqn:Ee; [|discriminate]. inversion Hs; subst. clear Hs.
    destruct (match c with CLenLt k => (n <? k, o) | CLenGe k => (k <=? n, o) | CErrNil v => (lookup_b v errs, o)
              | CErrNotNil v => (negb (lookup_b v errs), o) | COther => next o end) as [b o'] eqn:Eb.
    (* the branch taken starts in a state described by its abstract entry state *)
    assert (cons n errs (if b then lt else le) hv) as Hbranch.
    { split; [|exact Hhv]. destruct c; cbv beta iota in Ec, Eb; inversion Ec; inversion Eb; subst; clear Ec Eb.
      - destruct (Nat.ltb_spec n k); lia.
      - destruct (Nat.leb_spec k n); lia.
      - destruct (lookup_b v errs) eqn:L; [specialize (Hhv v L); lia|lia].
      - destruct (lookup_b v errs) eqn:L; cbn; [specialize (Hhv v L); lia|lia].
      - destruct (next o) as [b0 o0]. inversion H2; subst. destruct b; lia. }
    pose proof (sound_list_of t Ht n errs o' lt hv rt Et) as St.
    pose proof (sound_list_of e He n errs o' le hv re Ee) as Se.
    destruct b.
    + specialize (St Hbranch). destruct (exec t n errs o') as [| |errs1 o1]; cbn in St |- *; auto.
      destruct St as (lo' & hv' & Eq & C). subst rt.
      destruct re as [[l2 h2]|]; cbn [join].
      * do 2 eexists. split; [reflexivity|]. eapply cons_weaken; [exact C|lia].
      * do 2 eexists. split; [reflexivity|exact C].
    + specialize (Se Hbranch). destruct (exec e n errs o') as [| |errs1 o1]; cbn in Se |- *; auto.
      destruct Se as (lo' & hv' & Eq & C). subst re.
      destruct rt as [[l1 h1]|]; cbn [join].
      * do 2 eexists. split; [reflexivity|]. eapply cons_weaken; [exact C|lia].
      * do 2 eexists. split; [reflexivity|exact C].
Qed.

(* the theorem the instantiation uses *)
Theorem safe_sound body :
  safe body = true -> forall n oracle, exec body n [] oracle <> Panic.
Proof.
  unfold safe. destruct (safe_list body 0 []) as [r|] eqn:E; [|discriminate]. intros _ n oracle.
  assert (Forall (fun s => forall n errs o lo hv r,
      safe_stm s lo hv = Some r -> cons n errs lo hv -> ok_out n r (exec_stm s n errs o)) body) as F.
  { apply Forall_forall. intros s _. apply sound_stm. }
  pose proof (sound_list_of body F n [] oracle 0 [] r E) as X.
  assert (cons n [] 0 []) as C by (split; [lia|]; intros v H; discriminate).
  specialize (X C). intro P. rewrite P in X. exact X.
Qed.
