(* Soundness of the argument-guard check: if [safe body] holds, then for EVERY number of
   received arguments and EVERY outcome of the conditions the analysis does not understand,
   executing the body never indexes args out of range. *)
From Coq Require Import List Arith Bool Lia.
From PanVerif Require Import Safety.GuardIR.
Import ListNotations.

(* induction principle for the nested type *)
Section StmInd.
Variable P : stm -> Prop.
Hypothesis HUse : forall i, P (SUse i).
Hypothesis HUseFrom : forall k, P (SUseFrom k).
Hypothesis HHelper : forall v g, P (SHelper v g).
Hypothesis HReturn : P SReturn.
Hypothesis HIf : forall c t e, Forall P t -> Forall P e -> P (SIf c t e).
Hypothesis HLoop : forall b, Forall P b -> P (SLoop b).
Fixpoint stm_ind' (s : stm) : P s :=
  match s with
  | SUse i => HUse i
  | SUseFrom k => HUseFrom k
  | SHelper v g => HHelper v g
  | SReturn => HReturn
  | SIf c t e =>
      HIf c t e
        ((fix f (l : list stm) : Forall P l :=
            match l with [] => Forall_nil P | x :: r => Forall_cons x (stm_ind' x) (f r) end) t)
        ((fix f (l : list stm) : Forall P l :=
            match l with [] => Forall_nil P | x :: r => Forall_cons x (stm_ind' x) (f r) end) e)
  | SLoop b =>
      HLoop b
        ((fix f (l : list stm) : Forall P l :=
            match l with [] => Forall_nil P | x :: r => Forall_cons x (stm_ind' x) (f r) end) b)
  end.
End StmInd.

(* the inner list functions are the outer ones *)
Lemma exec_if c t e n errs o :
  exec_stm (SIf c t e) n errs o =
  let '(b, o') := match c with
                  | CLenLt k => (n <? k, o)
                  | CLenGe k => (k <=? n, o)
                  | CLenEq k => (n =? k, o)
                  | CErrNil v => (lookup_b v errs, o)
                  | CErrNotNil v => (negb (lookup_b v errs), o)
                  | COther => next o
                  end in
  exec (if b then t else e) n errs o'.
Proof.
  cbn [exec_stm]. destruct (match c with CLenLt k => _ | _ => _ end) as [b o'].
  generalize (if b then t else e). intros l. revert errs o'.
  induction l as [|x r IH]; intros errs o'; cbn [exec]; [reflexivity|].
  destruct (exec_stm x n errs o'); try reflexivity. apply IH.
Qed.

Lemma safe_if c t e lo hv :
  safe_stm (SIf c t e) lo hv =
  let '(lt, le) := match c with
                   | CLenLt k => (lo, Nat.max lo k)
                   | CLenGe k => (Nat.max lo k, lo)
                   | CLenEq k => (Nat.max lo k, if lo =? k then S lo else lo)
                   | CErrNil v => (Nat.max lo (lookup_g v hv), lo)
                   | CErrNotNil v => (lo, Nat.max lo (lookup_g v hv))
                   | COther => (lo, lo)
                   end in
  match safe_list t lt hv, safe_list e le hv with
  | Some rt, Some re => Some (join rt re hv)
  | _, _ => None
  end.
Proof.
  cbn [safe_stm]. destruct (match c with CLenLt k => _ | _ => _ end) as [lt le].
  assert (forall l lo0 hv0,
    (fix safe_list (l : list stm) (lo : nat) (hv : list (nat * nat)) : ares :=
       match l with
       | [] => Some (Some (lo, hv))
       | x :: r => match safe_stm x lo hv with
                   | None => None
                   | Some None => Some None
                   | Some (Some (lo', hv')) => safe_list r lo' hv'
                   end
       end) l lo0 hv0 = safe_list l lo0 hv0) as E.
  { induction l as [|x r IH]; intros lo0 hv0; cbn [safe_list]; [reflexivity|].
    destruct (safe_stm x lo0 hv0) as [[[lo' hv']|]|]; [apply IH|reflexivity|reflexivity]. }
  now rewrite !E.
Qed.


(* the loop, with the outer list functions *)
Fixpoint iter (body : list stm) (n k : nat) (errs : list (nat * bool)) (o : list bool) : out :=
  match k with
  | 0 => Fell errs o
  | S k' =>
      let '(b, o1) := next o in
      if b then
        match exec body n errs o1 with
        | Panic => Panic
        | Returned => let '(b2, o2) := next o1 in if b2 then Returned else iter body n k' errs o2
        | Fell errs' o' => iter body n k' errs' o'
        end
      else Fell errs o1
  end.

Lemma exec_list_eq n l : forall errs o,
  (fix exec_list (l : list stm) (errs : list (nat * bool)) (o : list bool) : out :=
     match l with
     | [] => Fell errs o
     | x :: r => match exec_stm x n errs o with
                 | Fell errs' o' => exec_list r errs' o'
                 | other => other
                 end
     end) l errs o = exec l n errs o.
Proof.
  induction l as [|x r IH]; intros errs o; cbn [exec]; [reflexivity|].
  destruct (exec_stm x n errs o); try reflexivity. apply IH.
Qed.

Lemma exec_loop body n errs o :
  exec_stm (SLoop body) n errs o = iter body n (length o) errs o.
Proof.
  cbn [exec_stm]. generalize (length o) as k. intros k. revert errs o.
  induction k as [|k IH]; intros errs o; cbn [iter]; [reflexivity|].
  destruct (next o) as [b o1]. destruct b; [|reflexivity].
  rewrite exec_list_eq. destruct (exec body n errs o1) as [| |e1 o']; [reflexivity| |apply IH].
  destruct (next o1) as [b2 o2]. destruct b2; [reflexivity|apply IH].
Qed.

Lemma safe_list_eq l : forall lo hv,
  (fix safe_list (l : list stm) (lo : nat) (hv : list (nat * nat)) : ares :=
     match l with
     | [] => Some (Some (lo, hv))
     | x :: r => match safe_stm x lo hv with
                 | None => None
                 | Some None => Some None
                 | Some (Some (lo', hv')) => safe_list r lo' hv'
                 end
     end) l lo hv = safe_list l lo hv.
Proof.
  induction l as [|x r IH]; intros lo hv; cbn [safe_list]; [reflexivity|].
  destruct (safe_stm x lo hv) as [[[lo' hv']|]|]; [apply IH|reflexivity|reflexivity].
Qed.

Lemma safe_loop body lo hv :
  safe_stm (SLoop body) lo hv =
  match safe_list body lo [] with Some _ => Some (Some (lo, [])) | None => None end.
Proof. cbn [safe_stm]. now rewrite safe_list_eq. Qed.

(* the abstract state describes the concrete one *)
Definition cons (n : nat) (errs : list (nat * bool)) (lo : nat) (hv : list (nat * nat)) : Prop :=
  lo <= n /\ forall v, lookup_b v errs = true -> lookup_g v hv <= n.

Definition ok_out (n : nat) (r : option (nat * list (nat * nat))) (x : out) : Prop :=
  match x with
  | Panic => False
  | Returned => True
  | Fell errs' o' => exists lo' hv', r = Some (lo', hv') /\ cons n errs' lo' hv'
  end.

Lemma cons_weaken n errs lo hv lo' : cons n errs lo hv -> lo' <= lo -> cons n errs lo' [].
Proof. intros [L _] H. split; [lia|]. intros v _. cbn. lia. Qed.

Lemma sound_list_of (P := fun s => forall n errs o lo hv r,
      safe_stm s lo hv = Some r -> cons n errs lo hv -> ok_out n r (exec_stm s n errs o)) l :
  Forall P l ->
  forall n errs o lo hv r, safe_list l lo hv = Some r -> cons n errs lo hv -> ok_out n r (exec l n errs o).
Proof.
  induction 1 as [|x t Hx Ht IH]; intros n errs o lo hv r Hs Hc; cbn [safe_list exec] in *.
  - inversion Hs; subst. cbn. eauto.
  - destruct (safe_stm x lo hv) as [[[lo1 hv1]|]|] eqn:E; try discriminate.
    + pose proof (Hx n errs o lo hv _ E Hc) as X. destruct (exec_stm x n errs o) as [| |errs1 o1]; cbn in X.
      * contradiction.
      * cbn. exact I.
      * destruct X as (lo' & hv' & Eq & C). inversion Eq; subst. eapply IH; eauto.
    + inversion Hs; subst. pose proof (Hx n errs o lo hv _ E Hc) as X.
      destruct (exec_stm x n errs o) as [| |errs1 o1]; cbn in X |- *.
      * contradiction.
      * exact I.
      * destruct X as (lo' & hv' & Eq & _). discriminate Eq.
Qed.

Theorem sound_stm : forall s n errs o lo hv r,
  safe_stm s lo hv = Some r -> cons n errs lo hv -> ok_out n r (exec_stm s n errs o).
Proof.
  induction s as [i|k|v g| |c t e Ht He|body Hb] using stm_ind'; intros n errs o lo hv r Hs [Hlo Hhv].
  - simpl in Hs |- *. destruct (Nat.ltb_spec i lo); [|discriminate Hs]. inversion Hs; subst.
    destruct (Nat.ltb_spec i n); [|lia]. cbn. do 2 eexists. split; [reflexivity|split; auto].
  - simpl in Hs |- *. destruct (Nat.leb_spec k lo); [|discriminate Hs]. inversion Hs; subst.
    destruct (Nat.leb_spec k n); [|lia]. cbn. do 2 eexists. split; [reflexivity|split; auto].
  - simpl in Hs. inversion Hs; subst. cbn [exec_stm]. destruct (next o) as [b o']. cbn [ok_out].
    do 2 eexists. split; [reflexivity|]. split; [exact Hlo|].
    intros w. cbn [lookup_b lookup_g]. destruct (Nat.eqb w v); [|now apply Hhv].
    destruct (Nat.ltb_spec n g) as [L|L]; intros Hw; [discriminate Hw|lia].
  - simpl in Hs |- *. inversion Hs; subst. exact I.
  - rewrite safe_if in Hs. rewrite exec_if.
    destruct (match c with CLenLt k => (lo, Nat.max lo k) | CLenGe k => (Nat.max lo k, lo)
              | CLenEq k => (Nat.max lo k, if lo =? k then S lo else lo)
              | CErrNil v => (Nat.max lo (lookup_g v hv), lo) | CErrNotNil v => (lo, Nat.max lo (lookup_g v hv))
              | COther => (lo, lo) end) as [lt le] eqn:Ec.
    destruct (safe_list t lt hv) as [rt|] eqn:Et; [|discriminate].
    destruct (safe_list e le hv) as [re|] eqn:Ee; [|discriminate]. inversion Hs; subst. clear Hs.
    destruct (match c with CLenLt k => (n <? k, o) | CLenGe k => (k <=? n, o) | CLenEq k => (n =? k, o) | CErrNil v => (lookup_b v errs, o)
              | CErrNotNil v => (negb (lookup_b v errs), o) | COther => next o end) as [b o'] eqn:Eb.
    (* the branch taken starts in a state described by its abstract entry state *)
    assert (cons n errs (if b then lt else le) hv) as Hbranch.
    { split; [|exact Hhv]. destruct c; cbv beta iota in Ec, Eb; inversion Ec; inversion Eb; subst; clear Ec Eb.
      - destruct (Nat.ltb_spec n k); lia.
      - destruct (Nat.leb_spec k n); lia.
      - destruct (Nat.eqb_spec n k); [lia|]. destruct (Nat.eqb_spec lo k); lia.
      - destruct (lookup_b v errs) eqn:L; [specialize (Hhv v L); lia|lia].
      - destruct (lookup_b v errs) eqn:L; cbn; [specialize (Hhv v L); lia|lia].
      - destruct (next o) as [b0 o0]. inversion H2; subst. destruct b; lia. }
    pose proof (sound_list_of t Ht n errs o' lt hv rt Et) as St.
    pose proof (sound_list_of e He n errs o' le hv re Ee) as Se.
    destruct b.
    + specialize (St Hbranch). destruct (exec t n errs o') as [| |errs1 o1]; cbn in St |- *; auto.
      destruct St as (lo' & hv' & Eq & C). subst rt.
      destruct re as [[l2 h2]|]; cbn [join].
      * do 2 eexists. split; [reflexivity|]. eapply cons_weaken; [exact C|lia].
      * do 2 eexists. split; [reflexivity|exact C].
    + specialize (Se Hbranch). destruct (exec e n errs o') as [| |errs1 o1]; cbn in Se |- *; auto.
      destruct Se as (lo' & hv' & Eq & C). subst re.
      destruct rt as [[l1 h1]|]; cbn [join].
      * do 2 eexists. split; [reflexivity|]. eapply cons_weaken; [exact C|lia].
      * do 2 eexists. split; [reflexivity|exact C].
  - rewrite safe_loop in Hs. rewrite exec_loop.
    destruct (safe_list body lo []) as [rb|] eqn:Eb; [|discriminate]. inversion Hs; subst. clear Hs.
    assert (forall errs0, cons n errs0 lo []) as Cany.
    { intros errs0. split; [exact Hlo|]. intros v _. cbn. lia. }
    clear Hhv. generalize (length o) as k. intros k. revert errs o.
    induction k as [|k IH]; intros errs o; cbn [iter ok_out].
    + do 2 eexists. split; [reflexivity|apply Cany].
    + destruct (next o) as [b o1]. destruct b.
      * pose proof (sound_list_of body Hb n errs o1 lo [] rb Eb (Cany errs)) as X.
        destruct (exec body n errs o1) as [| |e1 o']; cbn [ok_out] in X.
        -- contradiction.
        -- destruct (next o1) as [b2 o2]. destruct b2; [exact I|]. apply IH.
        -- apply IH.
      * cbn [ok_out]. do 2 eexists. split; [reflexivity|apply Cany].
Qed.

(* the theorems the instantiation uses *)
Theorem safe_from_sound lo body :
  safe_from lo body = true -> forall n oracle, lo <= n -> exec body n [] oracle <> Panic.
Proof.
  unfold safe_from. destruct (safe_list body lo []) as [r|] eqn:E; [|discriminate]. intros _ n oracle Hn.
  assert (Forall (fun s => forall n errs o lo hv r,
      safe_stm s lo hv = Some r -> cons n errs lo hv -> ok_out n r (exec_stm s n errs o)) body) as F.
  { apply Forall_forall. intros s _. apply sound_stm. }
  pose proof (sound_list_of body F n [] oracle lo [] r E) as X.
  assert (cons n [] lo []) as C by (split; [lia|]; intros v H; discriminate).
  specialize (X C). intro P. rewrite P in X. exact X.
Qed.

Theorem safe_sound body :
  safe body = true -> forall n oracle, exec body n [] oracle <> Panic.
Proof. intros H n oracle. apply (safe_from_sound 0 body H). lia. Qed.

Lemma need_upto_sound k : forall lo body m,
  need_upto k lo body = Some m -> safe_from m body = true.
Proof.
  induction k as [|k IH]; intros lo body m; cbn [need_upto]; [discriminate|].
  destruct (safe_from lo body) eqn:E; [intros H; inversion H; subst; exact E|apply IH].
Qed.

Theorem need_sound body m :
  need body = Some m -> forall n oracle, m <= n -> exec body n [] oracle <> Panic.
Proof. intros H. apply safe_from_sound. exact (need_upto_sound _ _ _ _ H). Qed.

(* the check is not vacuous: it rejects an unguarded use, and the rejected body does panic *)
Example unguarded_rejected : safe [SUse 0] = false /\ exec [SUse 0] 0 [] [] = Panic.
Proof. split; reflexivity. Qed.
Example guarded_accepted :
  safe [SIf (CLenLt 2) [SReturn] []; SUse 0; SUse 1] = true /\
  safe [SIf (CLenLt 1) [SReturn] []; SUse 0; SUse 1] = false /\
  exec [SIf (CLenLt 1) [SReturn] []; SUse 0; SUse 1] 1 [] [] = Panic.
Proof. repeat split; reflexivity. Qed.
Example helper_accepted :
  safe [SHelper 0 2; SIf (CErrNotNil 0) [SReturn] []; SUse 1] = true /\
  safe [SHelper 0 2; SIf (COther) [SReturn] []; SUse 1] = false.
Proof. split; reflexivity. Qed.
Example switch_accepted :
  safe [SIf (CLenLt 2) [SReturn] []; SIf (CLenEq 2) [SUse 1; SReturn] [SIf (CLenEq 3) [SUse 2; SReturn] [SUse 3; SReturn]]] = true.
Proof. reflexivity. Qed.

(* the whole table of built-ins at once (instantiated on the regenerated gen/GuardData.v) *)
Definition all_safe (bs : list (String.string * list stm)) : bool := forallb (fun b => safe (snd b)) bs.

Theorem all_safe_sound bs :
  all_safe bs = true ->
  forall key body, In (key, body) bs -> forall n oracle, exec body n [] oracle <> Panic.
Proof.
  unfold all_safe. intros H key body Hin. rewrite forallb_forall in H.
  apply safe_sound. exact (H (key, body) Hin).
Qed.

(* internal functions (called by Go code with at least [lo] elements) *)
Definition all_safe_from (bs : list (String.string * nat * list stm)) : bool :=
  forallb (fun b => safe_from (snd (fst b)) (snd b)) bs.

Theorem all_safe_from_sound bs :
  all_safe_from bs = true ->
  forall key lo body, In (key, lo, body) bs -> forall n oracle, lo <= n -> exec body n [] oracle <> Panic.
Proof.
  unfold all_safe_from. intros H key lo body Hin. rewrite forallb_forall in H.
  apply safe_from_sound. exact (H (key, lo, body) Hin).
Qed.
