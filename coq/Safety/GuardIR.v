(* C01, argument guards. Every Go built-in has the shape
     func(env, kwargs, args ...PanObject) PanObject
   and indexes `args[i]` / slices `args[k:]`; an index beyond len(args) is a Go panic.
   The translator (harness dumpguards) turns each built-in body into the small IR below;
   [safe] is a static check that no index can be out of range whatever number of
   arguments is received and whatever the unknown conditions evaluate to; [safe_sound]
   proves the check correct against the concrete semantics [exec]. *)
From Coq Require Import List Arith Bool Lia.
Import ListNotations.

Inductive cond :=
| CLenLt (k : nat)        (* len(args) < k *)
| CLenGe (k : nat)        (* len(args) >= k *)
| CLenEq (k : nat)        (* len(args) == k *)
| CErrNil (v : nat)       (* err_v == nil, err_v returned by a guarding helper *)
| CErrNotNil (v : nat)    (* err_v != nil *)
| COther.                 (* any other condition *)

Inductive stm :=
| SUse (i : nat)                         (* args[i] *)
| SUseFrom (k : nat)                     (* args[k:] *)
| SHelper (v g : nat)                    (* ..., err_v := helper(args, ...): err_v is non-nil whenever len(args) < g *)
| SReturn
| SIf (c : cond) (t e : list stm)
| SLoop (body : list stm).               (* for / range / a function literal that runs later: any number of runs *)

(* ---- concrete semantics -------------------------------------------------------------- *)
(* n = number of arguments received; errs: err_v = nil?; oracle: outcomes of unknown tests *)
Inductive out := Panic | Returned | Fell (errs : list (nat * bool)) (oracle : list bool).

Fixpoint lookup_b (v : nat) (l : list (nat * bool)) : bool :=
  match l with [] => false | (w, b) :: t => if Nat.eqb v w then b else lookup_b v t end.

Definition next (o : list bool) : bool * list bool :=
  match o with [] => (false, []) | b :: t => (b, t) end.

Fixpoint exec_stm (s : stm) (n : nat) (errs : list (nat * bool)) (o : list bool) : out :=
  match s with
  | SUse i => if i <? n then Fell errs o else Panic
  | SUseFrom k => if k <=? n then Fell errs o else Panic
  | SHelper v g =>
      (* the helper reports an error when there are too few arguments, and possibly for other reasons *)
      let '(b, o') := next o in
      Fell ((v, if n <? g then false else b) :: errs) o'
  | SReturn => Returned
  | SIf c t e =>
      let '(b, o') := match c with
                      | CLenLt k => (n <? k, o)
                      | CLenGe k => (k <=? n, o)
                      | CLenEq k => (n =? k, o)
                      | CErrNil v => (lookup_b v errs, o)
                      | CErrNotNil v => (negb (lookup_b v errs), o)
                      | COther => next o
                      end in
      (fix exec_list (l : list stm) (errs : list (nat * bool)) (o : list bool) : out :=
         match l with
         | [] => Fell errs o
         | x :: r => match exec_stm x n errs o with
                     | Fell errs' o' => exec_list r errs' o'
                     | other => other
                     end
         end) (if b then t else e) errs o'
  | SLoop body =>
      (* each run of the body is chosen by the oracle; a return / break / continue inside the body
         (all translated to SReturn) either returns from the function or goes on with the loop *)
      (fix iter (k : nat) (errs : list (nat * bool)) (o : list bool) : out :=
         match k with
         | 0 => Fell errs o
         | S k' =>
             let '(b, o1) := next o in
             if b then
               match (fix exec_list (l : list stm) (errs : list (nat * bool)) (o : list bool) : out :=
                        match l with
                        | [] => Fell errs o
                        | x :: r => match exec_stm x n errs o with
                                    | Fell errs' o' => exec_list r errs' o'
                                    | other => other
                                    end
                        end) body errs o1 with
               | Panic => Panic
               | Returned => let '(b2, o2) := next o1 in if b2 then Returned else iter k' errs o2
               | Fell errs' o' => iter k' errs' o'
               end
             else Fell errs o1
         end) (length o) errs o
  end.

Fixpoint exec (l : list stm) (n : nat) (errs : list (nat * bool)) (o : list bool) : out :=
  match l with
  | [] => Fell errs o
  | x :: r => match exec_stm x n errs o with
              | Fell errs' o' => exec r n errs' o'
              | other => other
              end
  end.

(* ---- the static check ------------------------------------------------------------------- *)
(* abstract state: lo <= len(args); hv: (v, g) means  err_v = nil -> len(args) >= g *)
Fixpoint lookup_g (v : nat) (l : list (nat * nat)) : nat :=
  match l with [] => 0 | (w, g) :: t => if Nat.eqb v w then g else lookup_g v t end.

(* result: None = may panic; Some None = always returns; Some (Some (lo, hv)) = may fall through *)
Definition ares := option (option (nat * list (nat * nat))).

Definition join (a b : option (nat * list (nat * nat))) (hv0 : list (nat * nat)) : option (nat * list (nat * nat)) :=
  match a, b with
  | None, x => x
  | x, None => x
  | Some (l1, _), Some (l2, _) => Some (Nat.min l1 l2, [])   (* both fall through: keep only the bound *)
  end.

Fixpoint safe_stm (s : stm) (lo : nat) (hv : list (nat * nat)) : ares :=
  match s with
  | SUse i => if i <? lo then Some (Some (lo, hv)) else None
  | SUseFrom k => if k <=? lo then Some (Some (lo, hv)) else None
  | SHelper v g => Some (Some (lo, (v, g) :: hv))
  | SReturn => Some None
  | SIf c t e =>
      let '(lt, le) := match c with
                       | CLenLt k => (lo, Nat.max lo k)
                       | CLenGe k => (Nat.max lo k, lo)
                       | CLenEq k => (Nat.max lo k, if lo =? k then S lo else lo)
                       | CErrNil v => (Nat.max lo (lookup_g v hv), lo)
                       | CErrNotNil v => (lo, Nat.max lo (lookup_g v hv))
                       | COther => (lo, lo)
                       end in
      let safe_list :=
        fix safe_list (l : list stm) (lo : nat) (hv : list (nat * nat)) : ares :=
          match l with
          | [] => Some (Some (lo, hv))
          | x :: r => match safe_stm x lo hv with
                      | None => None
                      | Some None => Some None
                      | Some (Some (lo', hv')) => safe_list r lo' hv'
                      end
          end in
      match safe_list t lt hv, safe_list e le hv with
      | Some rt, Some re => Some (join rt re hv)
      | _, _ => None
      end
  | SLoop body =>
      (* every run starts from what holds whenever it runs: the bound lo, nothing about errors *)
      match (fix safe_list (l : list stm) (lo : nat) (hv : list (nat * nat)) : ares :=
               match l with
               | [] => Some (Some (lo, hv))
               | x :: r => match safe_stm x lo hv with
                           | None => None
                           | Some None => Some None
                           | Some (Some (lo', hv')) => safe_list r lo' hv'
                           end
               end) body lo [] with
      | Some _ => Some (Some (lo, []))
      | None => None
      end
  end.

Fixpoint safe_list (l : list stm) (lo : nat) (hv : list (nat * nat)) : ares :=
  match l with
  | [] => Some (Some (lo, hv))
  | x :: r => match safe_stm x lo hv with
              | None => None
              | Some None => Some None
              | Some (Some (lo', hv')) => safe_list r lo' hv'
              end
  end.

(* safe when at least lo arguments are received *)
Definition safe_from (lo : nat) (body : list stm) : bool :=
  match safe_list body lo [] with Some _ => true | None => false end.

Definition safe (body : list stm) : bool := safe_from 0 body.

(* the least number of arguments (up to a bound) from which the body is safe *)
Fixpoint need_upto (k : nat) (lo : nat) (body : list stm) : option nat :=
  match k with
  | 0 => None
  | S k' => if safe_from lo body then Some lo else need_upto k' (S lo) body
  end.
Definition need (body : list stm) : option nat := need_upto 8 0 body.
