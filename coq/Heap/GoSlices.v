(* Heap/GoSlices.v — the Go heap underneath Pangaea's "immutable" values (C06).

   PanCore treats arrays, objects and maps as pure values; immutability is vacuous
   there.  Here the model is one level lower: what the Go code really builds.

   * backing arrays: id -> list of cells, MUTABLE ([write_back]);
   * slices (backing id, offset, length, capacity): capacity is ANY number >= length.
     Go's growth policy is not modelled: [go_append] writes IN PLACE when
     len + k <= cap and otherwise allocates a fresh backing array whose capacity is
     taken from an oracle (a list of numbers carried by every step), so every theorem
     quantifies over all capacities the allocator could choose;
   * map cells (id -> association list) behind pointers, MUTABLE ([write_cell]),
     shared between objects exactly where the code shares them
     (ChildPanObjPtr shares Pairs, Obj.new shares o.Pairs);
   * objects: an append-only table; PanArr = slice + proto, PanObj/PanMap = cell + proto.
     NewPanArr(args...) / Arr#new / Arr#call / \0 share the argument slice,
     unpackArrExpansion hands out arr.Elems itself.

   Every operation is compiled (reading the heap, never writing it) to a short program
   over the slice/map statements the Go code executes ([instr]), then run.  Every write
   is logged with the ROOT it goes through (backing array / map cell).  Definitions
   only; proofs are in GoSlicesProofs.v. *)
From Coq Require Import List ZArith Bool Arith Lia.
Import ListNotations.

(* ------------------------------------------------------------------ values, heap *)
Inductive val := VInt (z : Z) | VNil | VRef (r : nat).

Record slice := mkSlice { s_bk : nat; s_off : nat; s_len : nat; s_cap : nat }.

Inductive okind := KObj | KMap.

Inductive obj :=
| OArr (sl : slice) (proto : option nat)             (* &PanArr{Elems: sl, proto} *)
| OPairs (k : okind) (cell : nat) (proto : option nat). (* &PanObj{Pairs: cell} / &PanMap *)

Record heap := mkHeap {
  backs : list (list val);            (* backing arrays, spare cells included *)
  cells : list (list (nat * val));    (* Go maps: key -> value, insertion ordered here *)
  objs  : list obj }.

Definition empty_heap := mkHeap [] [] [].

(* the root a write goes through *)
Inductive root := RB (bk : nat) | RM (cell : nat).

(* state of one step: heap, write log, capacity oracle *)
Record st := mkSt { hp : heap; lg : list root; orc : list nat }.

Fixpoint upd {A} (n : nat) (f : A -> A) (l : list A) : list A :=
  match l, n with
  | [], _ => []
  | x :: t, O => f x :: t
  | x :: t, S n => x :: upd n f t
  end.

(* ------------------------------------------------------------------ primitives *)
Definition pop_cap (need : nat) (s : st) : nat * st :=
  match orc s with
  | [] => (need, s)
  | c :: o => (Nat.max c need, mkSt (hp s) (lg s) o)
  end.

Definition alloc_back (cs : list val) (s : st) : nat * st :=
  (length (backs (hp s)),
   mkSt (mkHeap (backs (hp s) ++ [cs]) (cells (hp s)) (objs (hp s))) (lg s) (orc s)).

Definition write_back (bk i : nat) (v : val) (s : st) : st :=
  mkSt (mkHeap (upd bk (upd i (fun _ => v)) (backs (hp s))) (cells (hp s)) (objs (hp s)))
       (RB bk :: lg s) (orc s).

Fixpoint write_cells (bk i : nat) (vs : list val) (s : st) : st :=
  match vs with
  | [] => s
  | v :: t => write_cells bk (S i) t (write_back bk i v s)
  end.

Definition alloc_cell (ps : list (nat * val)) (s : st) : nat * st :=
  (length (cells (hp s)),
   mkSt (mkHeap (backs (hp s)) (cells (hp s) ++ [ps]) (objs (hp s))) (lg s) (orc s)).

Fixpoint assoc_set (k : nat) (v : val) (l : list (nat * val)) : list (nat * val) :=
  match l with
  | [] => [(k, v)]
  | (k', v') :: t => if k =? k' then (k, v) :: t else (k', v') :: assoc_set k v t
  end.

Definition write_cell (c k : nat) (v : val) (s : st) : st :=
  mkSt (mkHeap (backs (hp s)) (upd c (assoc_set k v) (cells (hp s))) (objs (hp s)))
       (RM c :: lg s) (orc s).

Definition alloc_obj (o : obj) (s : st) : nat * st :=
  (length (objs (hp s)),
   mkSt (mkHeap (backs (hp s)) (cells (hp s)) (objs (hp s) ++ [o])) (lg s) (orc s)).

(* ------------------------------------------------------------------ reads *)
Definition read_slice (h : heap) (sl : slice) : list val :=
  firstn (s_len sl) (skipn (s_off sl) (nth (s_bk sl) (backs h) [])).

Definition read_cell (h : heap) (c : nat) : list (nat * val) := nth c (cells h) [].

Definition has_key (k : nat) (l : list (nat * val)) : bool :=
  existsb (fun kv => fst kv =? k) l.

(* ------------------------------------------------------------------ Go statements *)
(* make([]T, len, cap): zeroed cells *)
Definition make_slice (len cap : nat) (s : st) : slice * st :=
  let (bk, s1) := alloc_back (repeat VNil cap) s in (mkSlice bk 0 len cap, s1).

(* []T{v1, ..., vn} *)
Definition lit_slice (vs : list val) (s : st) : slice * st :=
  let (bk, s1) := alloc_back vs s in (mkSlice bk 0 (length vs) (length vs), s1).

(* append(sl, vs...) *)
Definition go_append (sl : slice) (vs : list val) (s : st) : slice * st :=
  let k := length vs in
  if s_len sl + k <=? s_cap sl then
    (mkSlice (s_bk sl) (s_off sl) (s_len sl + k) (s_cap sl),
     write_cells (s_bk sl) (s_off sl + s_len sl) vs s)
  else
    let old := read_slice (hp s) sl in
    let (c, s1) := pop_cap (s_len sl + k) s in
    let (bk, s2) := alloc_back (old ++ vs ++ repeat VNil (c - (s_len sl + k))) s1 in
    (mkSlice bk 0 (s_len sl + k) c, s2).

(* if _, ok := m[k]; !ok { m[k] = v } *)
Definition put_new (c : nat) (kv : nat * val) (s : st) : st :=
  if has_key (fst kv) (read_cell (hp s) c) then s else write_cell c (fst kv) (snd kv) s.

(* AddPairs / the merge loops of evalObj, evalKwargs, NewInheritedMap *)
Definition add_pairs (c : nat) (ps : list (nat * val)) (s : st) : st :=
  fold_left (fun s kv => put_new c kv s) ps s.

(* the same merge on a pure association list (to know what a temporary map holds) *)
Definition pure_add (l ps : list (nat * val)) : list (nat * val) :=
  fold_left (fun l kv => if has_key (fst kv) l then l else assoc_set (fst kv) (snd kv) l) ps l.

(* ------------------------------------------------------------------ instructions *)
(* One local slice register and one local map register: enough for every built-in. *)
Inductive instr :=
| IMake (len cap : nat)        (* reg := make([]T, len, cap) *)
| ILit (vs : list val)         (* reg := []T{vs...} *)
| IUse (sl : slice)            (* reg := x.Elems  -- an EXISTING slice *)
| IAppend (vs : list val)      (* reg = append(reg, vs...) *)
| ICopy (vs : list val)        (* copy(reg, vs) *)
| ITail                        (* reg = reg[1:] *)
| INewCell                     (* m := map[K]V{} *)
| IUseCell (c : nat)           (* m := x.Pairs  -- an EXISTING map *)
| IAddPairs (ps : list (nat * val))   (* for k, v := range ps { if !exists { m[k] = v } } *)
| IArr (proto : option nat)    (* result := &PanArr{Elems: reg, proto} *)
| IPairs (k : okind) (proto : option nat)  (* result := &PanObj{Pairs: m, proto} *)
| IRet (v : val).              (* result := v *)

Record mach := mkMach { m_st : st; m_reg : slice; m_cell : nat; m_res : val }.

Definition exec1 (m : mach) (i : instr) : mach :=
  let s := m_st m in
  match i with
  | IMake len cap => let (sl, s') := make_slice len cap s in mkMach s' sl (m_cell m) (m_res m)
  | ILit vs => let (sl, s') := lit_slice vs s in mkMach s' sl (m_cell m) (m_res m)
  | IUse sl => mkMach s sl (m_cell m) (m_res m)
  | IAppend vs => let (sl, s') := go_append (m_reg m) vs s in mkMach s' sl (m_cell m) (m_res m)
  | ICopy vs =>
      mkMach (write_cells (s_bk (m_reg m)) (s_off (m_reg m)) (firstn (s_len (m_reg m)) vs) s)
             (m_reg m) (m_cell m) (m_res m)
  | ITail =>
      let r := m_reg m in
      mkMach s (mkSlice (s_bk r) (S (s_off r)) (s_len r - 1) (s_cap r - 1)) (m_cell m) (m_res m)
  | INewCell => let (c, s') := alloc_cell [] s in mkMach s' (m_reg m) c (m_res m)
  | IUseCell c => mkMach s (m_reg m) c (m_res m)
  | IAddPairs ps => mkMach (add_pairs (m_cell m) ps s) (m_reg m) (m_cell m) (m_res m)
  | IArr p => let (r, s') := alloc_obj (OArr (m_reg m) p) s in mkMach s' (m_reg m) (m_cell m) (VRef r)
  | IPairs k p => let (r, s') := alloc_obj (OPairs k (m_cell m) p) s in mkMach s' (m_reg m) (m_cell m) (VRef r)
  | IRet v => mkMach s (m_reg m) (m_cell m) v
  end.

Definition exec (prog : list instr) (m : mach) : mach := fold_left exec1 prog m.

Definition init_mach (h : heap) (caps : list nat) : mach :=
  mkMach (mkSt h [] caps) (mkSlice 0 0 0 0) 0 VNil.

(* ------------------------------------------------------------------ static check *)
(* Ownership of the two registers: undefined, an existing (shared) root, or a root
   allocated by this very program.  [strict = true] demands that every write goes
   through an owned register: this is "all writes have fresh roots", the same
   classification the Go-side translator (harness dumpwrites) computes. *)
Inductive own := Undef | Shared | Owned.

Definition can_write (strict : bool) (o : own) : bool :=
  match o with Owned => true | Shared => negb strict | Undef => false end.
Definition defined (o : own) : bool := match o with Undef => false | _ => true end.

Fixpoint check (strict : bool) (r c : own) (prog : list instr) : bool :=
  match prog with
  | [] => true
  | i :: t =>
      match i with
      | IMake _ _ | ILit _ => check strict Owned c t
      | IUse _ => check strict Shared c t
      | IAppend _ => can_write strict r && check strict r c t
      | ICopy _ => can_write strict r && check strict r c t
      | ITail => defined r && check strict r c t
      | INewCell => check strict r Owned t
      | IUseCell _ => check strict r Shared t
      | IAddPairs _ => can_write strict c && check strict r c t
      | IArr _ => defined r && check strict r c t
      | IPairs _ _ => defined c && check strict r c t
      | IRet _ => check strict r c t
      end
  end.

Definition fresh_writes (prog : list instr) : bool := check true Undef Undef prog.

(* ------------------------------------------------------------------ operations *)
Definition okb (h : heap) (v : val) : bool :=
  match v with VRef r => r <? length (objs h) | _ => true end.

Definition get_obj (h : heap) (v : val) : option obj :=
  match v with VRef r => nth_error (objs h) r | _ => None end.
Definition get_arr (h : heap) (v : val) : option slice :=
  match get_obj h v with Some (OArr sl _) => Some sl | _ => None end.
Definition get_cell (h : heap) (k : okind) (v : val) : option nat :=
  match get_obj h v, k with
  | Some (OPairs KObj c _), KObj => Some c
  | Some (OPairs KMap c _), KMap => Some c
  | _, _ => None
  end.
(* `**e` in a map literal accepts maps and objects *)
Definition get_any_cell (h : heap) (v : val) : option nat :=
  match get_obj h v with Some (OPairs _ c _) => Some c | _ => None end.
Definition proto_of (h : heap) (v : val) : option nat :=
  match get_obj h v with
  | Some (OArr _ p) => p
  | Some (OPairs _ _ p) => p
  | None => None
  end.

(* Obj#values / Obj#keys walk the keys in sorted order *)
Fixpoint insert_kv {A} (kv : nat * A) (l : list (nat * A)) : list (nat * A) :=
  match l with
  | [] => [kv]
  | x :: t => if fst kv <=? fst x then kv :: l else x :: insert_kv kv t
  end.
Definition sort_kv {A} (l : list (nat * A)) : list (nat * A) := fold_right insert_kv [] l.

Inductive arg := AVal (v : val) | ASplat (v : val).

(* evalArr / evalArgs: one chunk per element node; `*e` contributes e.Elems itself *)
Fixpoint chunks (h : heap) (es : list arg) : option (list (list val)) :=
  match es with
  | [] => Some []
  | AVal v :: t =>
      if okb h v then option_map (cons [v]) (chunks h t) else None
  | ASplat v :: t =>
      match get_arr h v with
      | Some sl => option_map (cons (read_slice h sl)) (chunks h t)
      | None => None
      end
  end.

Fixpoint cells_of (h : heap) (k : option okind) (srcs : list val) : option (list (list (nat * val))) :=
  match srcs with
  | [] => Some []
  | v :: t =>
      match (match k with Some k => get_cell h k v | None => get_any_cell h v end) with
      | Some c => option_map (cons (read_cell h c)) (cells_of h k t)
      | None => None
      end
  end.

(* evaluator/index.go: fixRange + the loop of valRange, arrIndex *)
Local Open Scope Z_scope.
Definition fix_idx (len i : Z) : Z :=
  if i <? - len then 0 else if len <? i then len else if i <? 0 then i + len else i.

Fixpoint iter_idx (fuel : nat) (i stop step : Z) : list Z :=
  match fuel with
  | O => []
  | S f => if (if step <? 0 then stop <? i else i <? stop)
           then i :: iter_idx f (i + step) stop step else []
  end.

Definition slice_indices (len : Z) (start stop : option Z) (step : Z) : list Z :=
  let start0 := if 0 <? step then 0 else len - 1 in
  let stop0 := if 0 <? step then len else -1 in
  let a := match start with Some i => fix_idx len i | None => start0 end in
  let b := match stop with Some i => fix_idx len i | None => stop0 end in
  iter_idx (S (Z.to_nat len)) a b step.

Definition arr_index (es : list val) (i : Z) : val :=
  let len := Z.of_nat (length es) in
  if (len <=? i) || (i <? - len) then VNil
  else if i <? 0 then nth (Z.to_nat (i + len)) es VNil else nth (Z.to_nat i) es VNil.
Local Close Scope Z_scope.

Inductive op :=
| OpArrLit (es : list arg)                       (* [e1, *a, ...]              evalArr *)
| OpPlus (a b : val)                             (* a + b                      Arr#+ *)
| OpRepeat (a : val) (n : nat)                   (* a * n                      Arr#* *)
| OpSlice (a : val) (start stop : option Z) (step : Z)  (* a[i:j:k]            valRange *)
| OpAt (a : val) (i : Z)                         (* a[i]                       arrIndex *)
| OpArrNew (proto : val) (a : val)               (* p.new(a)                   Arr#new *)
| OpArrCall (proto : val) (args : list arg)      (* p(e1, *a, ...)             Arr#call *)
| OpArgs0 (nparams : nat) (args : list arg)      (* {|p1..pn| \0}(e1, *a, ...) assignArgsToEnv *)
| OpLitCall0 (nparams : nat) (recv : val)        (* recv.{|p1..pn| \0}         literalCallArgs *)
| OpBear (proto : val) (src : option val)        (* p.bear(o) / x.bro(o)       ChildPanObjPtr *)
| OpObjNew (o : val)                             (* Obj.new(o)                 PanObjInstancePtr(o.Pairs) *)
| OpObjLit (ps : list (nat * val)) (srcs : list val)   (* {k: v, **o}          evalObj *)
| OpMapLit (ps : list (nat * val)) (srcs : list val)   (* %{k: v, **m}         evalMap *)
| OpKwargs (ps : list (nat * val)) (srcs : list val)   (* \_ of f(k: v, **o)   evalCallArgs *)
| OpValues (o : val).                            (* o.values                   Obj#values *)

(* a.digest(b) = [*a, *b];  o.digest(o') = {**o, **o'} *)
Definition OpDigestArr (a b : val) := OpArrLit [ASplat a; ASplat b].
Definition OpDigestObj (a b : val) := OpObjLit [] [a; b].

Inductive plus_impl := PlusCopy | PlusAppend.

(* a prototype operand: VNil stands for the built-in root (Arr / Obj), VRef r for object r *)
Definition as_proto (h : heap) (v : val) : option (option nat) :=
  match v with
  | VNil => Some None
  | VRef r => if r <? length (objs h) then Some (Some r) else None
  | VInt _ => None
  end.

(* paddedArgs + `\0 = NewPanArr(args...)` on the register holding args *)
Definition pad_and_wrap (nargs nparams : nat) (argvals : list val) : list instr :=
  if nparams <=? nargs then [IArr None]
  else IMake nargs nargs :: ICopy argvals ::
       map (fun _ => IAppend [VNil]) (seq 0 (nparams - nargs)) ++ [IArr None].

Definition forallb_snd (h : heap) (ps : list (nat * val)) : bool :=
  forallb (fun kv => okb h (snd kv)) ps.

Definition compile (pi : plus_impl) (h : heap) (o : op) : option (list instr) :=
  match o with
  | OpArrLit es =>
      match chunks h es with
      | Some cs => Some (IMake 0 0 :: map IAppend cs ++ [IArr None])
      | None => None
      end
  | OpPlus a b =>
      match get_arr h a, get_arr h b with
      | Some sa, Some sb =>
          let ea := read_slice h sa in
          let eb := read_slice h sb in
          match pi with
          | PlusCopy =>    (* the repaired code: make + two appends *)
              Some [IMake 0 (s_len sa + s_len sb); IAppend ea; IAppend eb; IArr None]
          | PlusAppend =>  (* the original: append(self.Elems, other.Elems...) *)
              Some [IUse sa; IAppend eb; IArr None]
          end
      | _, _ => None
      end
  | OpRepeat a n =>
      match get_arr h a with
      | Some sa => Some (IMake 0 0 :: map (fun _ => IAppend (read_slice h sa)) (seq 0 n) ++ [IArr None])
      | None => None
      end
  | OpSlice a start stop step =>
      match get_arr h a with
      | Some sa =>
          if Z.eqb step 0 then None else
          let es := read_slice h sa in
          let idx := slice_indices (Z.of_nat (length es)) start stop step in
          Some (IMake 0 0 :: map (fun i => IAppend [arr_index es i]) idx ++ [IArr None])
      | None => None
      end
  | OpAt a i =>
      match get_arr h a with
      | Some sa => Some [IRet (arr_index (read_slice h sa) i)]
      | None => None
      end
  | OpArrNew p a =>
      match get_arr h a, as_proto h p with
      | Some sa, Some po => Some [IUse sa; IArr po]
      | _, _ => None
      end
  | OpArrCall p args =>
      match chunks h args, as_proto h p with
      | Some cs, Some po =>
          (* args := []T{}; args = append(args, ...)...;  evalBuiltInFuncMethodCall:
             append([]T{recv}, args...);  Arr#call: NewInheritedArr(args[0], args[1:]...) *)
          Some (IMake 0 0 :: map IAppend cs ++
                [ILit [p]; IAppend (concat cs); ITail; IArr po])
      | _, _ => None
      end
  | OpArgs0 nparams args =>
      match chunks h args with
      | Some cs =>
          let vs := concat cs in
          Some (IMake 0 0 :: map IAppend cs ++
                [ILit [VNil]; IAppend vs; ITail] ++ pad_and_wrap (length vs) nparams vs)
      | None => None
      end
  | OpLitCall0 nparams recv =>
      if okb h recv then
        let spread := match get_arr h recv with
                      | Some sa => if 1 <? nparams then Some (read_slice h sa) else None
                      | None => None end in
        let vs := match spread with Some es => es | None => [recv] end in
        (* append([]T{f}, literalCallArgs(recv, f)...); evalFuncCall: args[1:] *)
        Some ((match spread with Some _ => [] | None => [ILit [recv]] end) ++
              [ILit [VNil]; IAppend vs; ITail] ++ pad_and_wrap (length vs) nparams vs)
      else None
  | OpBear p src =>
      match as_proto h p with
      | Some po =>
          match src with
          | None => Some [INewCell; IPairs KObj po]
          | Some v => match get_cell h KObj v with
                      | Some c => Some [IUseCell c; IPairs KObj po]
                      | None => None end
          end
      | None => None
      end
  | OpObjNew v =>
      match get_cell h KObj v with
      | Some c => Some [IUseCell c; IPairs KObj None]
      | None => None
      end
  | OpObjLit ps srcs =>
      match cells_of h (Some KObj) srcs with
      | Some cs => if forallb_snd h ps
                   then Some (INewCell :: IAddPairs ps :: map IAddPairs cs ++ [IPairs KObj None])
                   else None
      | None => None
      end
  | OpMapLit ps srcs =>
      match cells_of h None srcs with
      | Some cs => if forallb_snd h ps
                   then Some (INewCell :: IAddPairs ps :: map IAddPairs cs ++ [IPairs KMap None])
                   else None
      | None => None
      end
  | OpKwargs ps srcs =>
      match cells_of h (Some KObj) srcs with
      | Some cs =>
          if forallb_snd h ps then
            (* evalArgs: unpackedKwargs := EmptyPanObjPtr(); unpackedKwargs.AddPairs(o.Pairs)...
               evalKwargs: fresh map with the explicit pairs; kwargs.AddPairs(unpackedKwargs) *)
            Some (INewCell :: map IAddPairs cs ++
                  [INewCell; IAddPairs ps; IAddPairs (fold_left pure_add cs []); IPairs KObj None])
          else None
      | None => None
      end
  | OpValues v =>
      match get_cell h KObj v with
      | Some c => Some (IMake 0 0 :: map (fun kv => IAppend [snd kv]) (sort_kv (read_cell h c)) ++ [IArr None])
      | None => None
      end
  end.

(* one step: an ill-typed operation raises (TypeErr) and changes nothing *)
Definition step_mach (pi : plus_impl) (h : heap) (oc : op * list nat) : option mach :=
  match compile pi h (fst oc) with
  | Some prog => Some (exec prog (init_mach h (snd oc)))
  | None => None
  end.

Definition step_gen (pi : plus_impl) (h : heap) (oc : op * list nat) : heap * val :=
  match step_mach pi h oc with
  | Some m => (hp (m_st m), m_res m)
  | None => (h, VNil)
  end.

(* the roots written by a step *)
Definition step_log (pi : plus_impl) (h : heap) (oc : op * list nat) : list root :=
  match step_mach pi h oc with
  | Some m => lg (m_st m)
  | None => []
  end.

Definition step := step_gen PlusCopy.          (* the repaired interpreter *)
Definition step_orig := step_gen PlusAppend.   (* Arr#+ as it was *)

Definition run (pi : plus_impl) (ops : list (op * list nat)) (h : heap) : heap :=
  fold_left (fun h oc => fst (step_gen pi h oc)) ops h.

Definition fresh_rootb (h : heap) (r : root) : bool :=
  match r with
  | RB bk => length (backs h) <=? bk
  | RM c => length (cells h) <=? c
  end.

(* ------------------------------------------------------------------ abstraction *)
Inductive value :=
| UInt (z : Z) | UNil | UBad
| UArr (proto : option nat) (es : list value)
| UPairs (k : okind) (proto : option nat) (ps : list (nat * value)).

(* deep read; fuel because the ORIGINAL Arr#+ can even build cyclic arrays *)
Fixpoint abs (fuel : nat) (h : heap) (v : val) : value :=
  match fuel with
  | O => UBad
  | S f =>
      match v with
      | VInt z => UInt z
      | VNil => UNil
      | VRef r =>
          match nth_error (objs h) r with
          | None => UBad
          | Some (OArr sl p) => UArr p (map (abs f h) (read_slice h sl))
          | Some (OPairs k c p) =>
              UPairs k p (map (fun kv => (fst kv, abs f h (snd kv))) (read_cell h c))
          end
      end
  end.

Definition live (h : heap) (r : nat) : Prop := r < length (objs h).

(* the prototype chain by identity *)
Fixpoint chain (fuel : nat) (h : heap) (r : nat) : list nat :=
  match fuel with
  | O => []
  | S f => match proto_of h (VRef r) with Some p => p :: chain f h p | None => [] end
  end.

(* ------------------------------------------------------------------ histories *)
(* In a history every operand VRef i / proto Some i names the RESULT of statement i
   (`v7 := v3 + v5`); [subst_op] resolves the names against the results so far. *)
Definition subst_val (env : list val) (v : val) : val :=
  match v with VRef i => nth i env VNil | _ => v end.
Definition subst_proto (env : list val) (p : option nat) : option nat :=
  match p with
  | Some i => match nth i env VNil with VRef r => Some r | _ => None end
  | None => None
  end.
Definition subst_arg env (a : arg) : arg :=
  match a with AVal v => AVal (subst_val env v) | ASplat v => ASplat (subst_val env v) end.
Definition subst_pairs env (ps : list (nat * val)) := map (fun kv => (fst kv, subst_val env (snd kv))) ps.

Definition subst_op (env : list val) (o : op) : op :=
  match o with
  | OpArrLit es => OpArrLit (map (subst_arg env) es)
  | OpPlus a b => OpPlus (subst_val env a) (subst_val env b)
  | OpRepeat a n => OpRepeat (subst_val env a) n
  | OpSlice a x y z => OpSlice (subst_val env a) x y z
  | OpAt a i => OpAt (subst_val env a) i
  | OpArrNew p a => OpArrNew (subst_val env p) (subst_val env a)
  | OpArrCall p args => OpArrCall (subst_val env p) (map (subst_arg env) args)
  | OpArgs0 n args => OpArgs0 n (map (subst_arg env) args)
  | OpLitCall0 n r => OpLitCall0 n (subst_val env r)
  | OpBear p src => OpBear (subst_val env p) (option_map (subst_val env) src)
  | OpObjNew v => OpObjNew (subst_val env v)
  | OpObjLit ps srcs => OpObjLit (subst_pairs env ps) (map (subst_val env) srcs)
  | OpMapLit ps srcs => OpMapLit (subst_pairs env ps) (map (subst_val env) srcs)
  | OpKwargs ps srcs => OpKwargs (subst_pairs env ps) (map (subst_val env) srcs)
  | OpValues v => OpValues (subst_val env v)
  end.

Definition hstep (pi : plus_impl) (acc : heap * list val) (oc : op * list nat) : heap * list val :=
  let (h', r) := step_gen pi (fst acc) (subst_op (snd acc) (fst oc), snd oc) in
  (h', snd acc ++ [r]).

Definition hrun (pi : plus_impl) (ocs : list (op * list nat)) : heap * list val :=
  fold_left (hstep pi) ocs (empty_heap, []).

(* ------------------------------------------------------------------ correspondence *)
(* What Go printed for variable i, as a [value] whose proto fields name VARIABLES;
   pairs sorted by key on both sides. *)
Fixpoint norm (v : value) : value :=
  match v with
  | UArr p es => UArr p (map norm es)
  | UPairs k p ps => UPairs k p (sort_kv (map (fun kv => (fst kv, norm (snd kv))) ps))
  | _ => v
  end.

(* expected values name prototypes by variable; translate to object ids *)
Fixpoint conv (env : list val) (v : value) : value :=
  match v with
  | UArr p es => UArr (subst_proto env p) (map (conv env) es)
  | UPairs k p ps => UPairs k (subst_proto env p) (map (fun kv => (fst kv, conv env (snd kv))) ps)
  | _ => v
  end.

Definition opt_eqb (a b : option nat) : bool :=
  match a, b with Some x, Some y => x =? y | None, None => true | _, _ => false end.
Definition okind_eqb (a b : okind) : bool :=
  match a, b with KObj, KObj | KMap, KMap => true | _, _ => false end.

Fixpoint value_eqb (a b : value) : bool :=
  match a, b with
  | UInt x, UInt y => Z.eqb x y
  | UNil, UNil => true
  | UBad, UBad => true
  | UArr p es, UArr q fs =>
      opt_eqb p q &&
      (fix go (l1 l2 : list value) : bool :=
         match l1, l2 with
         | [], [] => true
         | x :: t1, y :: t2 => value_eqb x y && go t1 t2
         | _, _ => false
         end) es fs
  | UPairs k p ps, UPairs k' q qs =>
      okind_eqb k k' && opt_eqb p q &&
      (fix go (l1 l2 : list (nat * value)) : bool :=
         match l1, l2 with
         | [], [] => true
         | (k1, x) :: t1, (k2, y) :: t2 => (k1 =? k2) && value_eqb x y && go t1 t2
         | _, _ => false
         end) ps qs
  | _, _ => false
  end.

(* a case: id, the history, and for some variables what Go holds at the end *)
Definition hcase := (nat * list (op * list nat) * list (nat * value))%type.

Definition check_case (c : hcase) : list (nat * nat) :=
  match c with
  | (id, ocs, expect) =>
      let (h, env) := hrun PlusCopy ocs in
      flat_map (fun e : nat * value =>
                  let (i, want) := e in
                  let got := norm (abs 64 h (nth i env VNil)) in
                  if value_eqb got (norm (conv env want)) then [] else [(id, i)]) expect
  end.

Definition mismatches (cs : list hcase) : list (nat * nat) := flat_map check_case cs.

(* stability inside the model, by computation: every variable's abs after the whole
   history equals its abs right after it was defined (what the theorem says) *)
Fixpoint stable_from (pi : plus_impl) (acc : heap * list val) (ocs : list (op * list nat))
  : bool :=
  match ocs with
  | [] => true
  | oc :: t =>
      let acc' := hstep pi acc oc in
      forallb (fun v => value_eqb (abs 64 (fst acc') v) (abs 64 (fst acc) v)) (snd acc)
      && stable_from pi acc' t
  end.
