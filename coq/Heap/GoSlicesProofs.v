(* Heap/GoSlicesProofs.v — frame theorems for Heap/GoSlices.v (C06).

   1. [exec_grows]      every program only changes the roots it logs (log soundness);
   2. [fresh_roots_frame] GENERIC: a step all of whose logged writes have fresh roots
                        leaves [abs] of every live value unchanged — for the repaired
                        AND the original Arr#+, and for every capacity oracle;
   3. [compile_fresh] / [step_writes_fresh]  the repaired operations pass the static
                        ownership check, hence all their writes have fresh roots;
   4. [op_frame], [history_frame], [hrun_stable]  the property, for every history;
   5. [arr_plus_append_refuted]  the original Arr#+ violates it (a+[4]; a+[5]). *)
From Coq Require Import List ZArith Bool Arith Lia.
Import ListNotations.
From PanVerif Require Import Heap.GoSlices.

(* ------------------------------------------------------------------ lists *)
Lemma upd_length : forall A (f : A -> A) l n, length (upd n f l) = length l.
Proof. induction l as [|x t IH]; intros [|n]; simpl; auto. Qed.

Lemma nth_error_upd_neq : forall A (f : A -> A) l n m,
  n <> m -> nth_error (upd n f l) m = nth_error l m.
Proof.
  induction l as [|x t IH]; intros [|n] [|m] H; simpl; auto; try congruence.
Qed.

Lemma Forall_upd : forall A (P : A -> Prop) (f : A -> A) l n,
  Forall P l -> (forall x, P x -> P (f x)) -> Forall P (upd n f l).
Proof.
  induction l as [|x t IH]; intros [|n] H Hf; simpl; auto;
    inversion H; subst; constructor; auto.
Qed.

Lemma prefix_from_nth : forall A (l l' : list A),
  length l <= length l' ->
  (forall i, i < length l -> nth_error l' i = nth_error l i) ->
  exists t, l' = l ++ t.
Proof.
  induction l as [|x t IH]; intros l' Hlen H.
  - exists l'. reflexivity.
  - destruct l' as [|y t']; simpl in Hlen; [lia|].
    assert (H0 := H 0 ltac:(simpl; lia)). simpl in H0. inversion H0; subst.
    destruct (IH t') as [u Hu].
    + lia.
    + intros i Hi. apply (H (S i)). simpl. lia.
    + exists u. simpl. now rewrite Hu.
Qed.

Lemma nth_Forall : forall A (P : A -> Prop) l n d, Forall P l -> P d -> P (nth n l d).
Proof.
  induction l as [|x t IH]; intros [|n] d H Hd; simpl; auto; inversion H; subst; auto.
Qed.

Lemma Forall_firstn : forall A (P : A -> Prop) n l, Forall P l -> Forall P (firstn n l).
Proof.
  induction n as [|n IH]; intros [|x t] H; simpl; auto. inversion H; subst. constructor; auto.
Qed.

Lemma Forall_skipn : forall A (P : A -> Prop) n l, Forall P l -> Forall P (skipn n l).
Proof.
  induction n as [|n IH]; intros [|x t] H; simpl; auto. inversion H; subst. auto.
Qed.

Lemma Forall_repeat : forall A (P : A -> Prop) x n, P x -> Forall P (repeat x n).
Proof. induction n; simpl; intros; constructor; auto. Qed.

Lemma Forall_concat : forall A (P : A -> Prop) ls, Forall (Forall P) ls -> Forall P (concat ls).
Proof.
  induction ls as [|l t IH]; simpl; intros H; [constructor|].
  inversion H; subst. apply Forall_app. split; auto.
Qed.

(* ------------------------------------------------------------------ log soundness *)
Record grows (s s' : st) : Prop := mkGrows {
  g_objs : exists t, objs (hp s') = objs (hp s) ++ t;
  g_nb : length (backs (hp s)) <= length (backs (hp s'));
  g_nc : length (cells (hp s)) <= length (cells (hp s'));
  g_log : exists l, lg s' = l ++ lg s /\
     (forall bk, bk < length (backs (hp s)) -> ~ In (RB bk) l ->
        nth_error (backs (hp s')) bk = nth_error (backs (hp s)) bk) /\
     (forall c, c < length (cells (hp s)) -> ~ In (RM c) l ->
        nth_error (cells (hp s')) c = nth_error (cells (hp s)) c) }.

Lemma grows_refl : forall s, grows s s.
Proof.
  intros s. constructor; auto.
  - exists []. now rewrite app_nil_r.
  - exists []. repeat split; auto.
Qed.

Lemma grows_trans : forall s1 s2 s3, grows s1 s2 -> grows s2 s3 -> grows s1 s3.
Proof.
  intros s1 s2 s3 [[t1 O1] B1 C1 [l1 [L1 [HB1 HC1]]]] [[t2 O2] B2 C2 [l2 [L2 [HB2 HC2]]]].
  constructor; try lia.
  - exists (t1 ++ t2). now rewrite O2, O1, app_assoc.
  - exists (l2 ++ l1). split; [now rewrite L2, L1, app_assoc|]. split.
    + intros bk Hb Hn. rewrite HB2, HB1; auto.
      * intro Hi. apply Hn. apply in_or_app. now right.
      * lia.
      * intro Hi. apply Hn. apply in_or_app. now left.
    + intros c Hc Hn. rewrite HC2, HC1; auto.
      * intro Hi. apply Hn. apply in_or_app. now right.
      * lia.
      * intro Hi. apply Hn. apply in_or_app. now left.
Qed.

Lemma pop_cap_grows : forall n s, grows s (snd (pop_cap n s)).
Proof.
  intros n s. unfold pop_cap. destruct (orc s); simpl; [apply grows_refl|].
  constructor; simpl; auto.
  - exists []. now rewrite app_nil_r.
  - exists []. repeat split; auto.
Qed.

Lemma pop_cap_hp : forall n s, hp (snd (pop_cap n s)) = hp s /\ lg (snd (pop_cap n s)) = lg s.
Proof. intros n s. unfold pop_cap. destruct (orc s); simpl; auto. Qed.

Lemma alloc_back_grows : forall cs s, grows s (snd (alloc_back cs s)).
Proof.
  intros cs s. constructor; simpl; auto.
  - exists []. now rewrite app_nil_r.
  - rewrite app_length. simpl. lia.
  - exists []. repeat split; auto. intros bk Hb _. now rewrite nth_error_app1.
Qed.

Lemma write_back_grows : forall bk i v s, grows s (write_back bk i v s).
Proof.
  intros bk i v s. constructor; simpl; auto.
  - exists []. now rewrite app_nil_r.
  - now rewrite upd_length.
  - exists [RB bk]. repeat split; auto.
    intros b Hb Hn. apply nth_error_upd_neq. intro E. apply Hn. subst. now left.
Qed.

Lemma write_cells_grows : forall vs bk i s, grows s (write_cells bk i vs s).
Proof.
  induction vs as [|v t IH]; intros bk i s; simpl; [apply grows_refl|].
  eapply grows_trans; [apply write_back_grows | apply IH].
Qed.

Lemma alloc_cell_grows : forall ps s, grows s (snd (alloc_cell ps s)).
Proof.
  intros ps s. constructor; simpl; auto.
  - exists []. now rewrite app_nil_r.
  - rewrite app_length. simpl. lia.
  - exists []. repeat split; auto. intros c Hc _. now rewrite nth_error_app1.
Qed.

Lemma write_cell_grows : forall c k v s, grows s (write_cell c k v s).
Proof.
  intros c k v s. constructor; simpl; auto.
  - exists []. now rewrite app_nil_r.
  - now rewrite upd_length.
  - exists [RM c]. repeat split; auto.
    intros b Hb Hn. apply nth_error_upd_neq. intro E. apply Hn. subst. now left.
Qed.

Lemma alloc_obj_grows : forall o s, grows s (snd (alloc_obj o s)).
Proof.
  intros o s. constructor; simpl; auto.
  - now exists [o].
  - exists []. repeat split; auto.
Qed.

Lemma make_slice_grows : forall len cap s, grows s (snd (make_slice len cap s)).
Proof. intros. unfold make_slice. simpl. apply (alloc_back_grows (repeat VNil cap) s). Qed.

Lemma lit_slice_grows : forall vs s, grows s (snd (lit_slice vs s)).
Proof. intros. unfold lit_slice. simpl. apply (alloc_back_grows vs s). Qed.

Lemma go_append_grows : forall sl vs s, grows s (snd (go_append sl vs s)).
Proof.
  intros sl vs s. unfold go_append.
  destruct (s_len sl + length vs <=? s_cap sl); simpl.
  - apply write_cells_grows.
  - destruct (pop_cap (s_len sl + length vs) s) as [c s1] eqn:E. simpl.
    eapply grows_trans.
    + assert (G := pop_cap_grows (s_len sl + length vs) s). rewrite E in G. exact G.
    + apply alloc_back_grows.
Qed.

Lemma put_new_grows : forall c kv s, grows s (put_new c kv s).
Proof.
  intros c kv s. unfold put_new. destruct (has_key _ _); [apply grows_refl | apply write_cell_grows].
Qed.

Lemma add_pairs_grows : forall ps c s, grows s (add_pairs c ps s).
Proof.
  unfold add_pairs. induction ps as [|kv t IH]; intros c s; simpl; [apply grows_refl|].
  eapply grows_trans; [apply put_new_grows | apply IH].
Qed.

Lemma exec1_grows : forall i m, grows (m_st m) (m_st (exec1 m i)).
Proof.
  intros i m. destruct i; simpl.
  - apply (alloc_back_grows (repeat VNil cap) (m_st m)).
  - apply (alloc_back_grows vs (m_st m)).
  - apply grows_refl.
  - assert (G := go_append_grows (m_reg m) vs (m_st m)).
    destruct (go_append (m_reg m) vs (m_st m)); exact G.
  - apply write_cells_grows.
  - apply grows_refl.
  - apply (alloc_cell_grows [] (m_st m)).
  - apply grows_refl.
  - apply add_pairs_grows.
  - apply (alloc_obj_grows (OArr (m_reg m) proto) (m_st m)).
  - apply (alloc_obj_grows (OPairs k (m_cell m) proto) (m_st m)).
  - apply grows_refl.
Qed.

Lemma exec_grows : forall prog m, grows (m_st m) (m_st (exec prog m)).
Proof.
  unfold exec. induction prog as [|i t IH]; intros m; simpl; [apply grows_refl|].
  eapply grows_trans; [apply exec1_grows | apply IH].
Qed.

(* ------------------------------------------------------------------ well-formed heaps *)
Definition ok (h : heap) (v : val) : Prop :=
  match v with VRef r => r < length (objs h) | _ => True end.
Definition okp (h : heap) (kv : nat * val) : Prop := ok h (snd kv).
Definition obj_ok (h : heap) (o : obj) : Prop :=
  match o with
  | OArr sl _ => s_bk sl < length (backs h)
  | OPairs _ c _ => c < length (cells h)
  end.

Record wf (h : heap) : Prop := mkWf {
  wf_b : Forall (Forall (ok h)) (backs h);
  wf_c : Forall (Forall (okp h)) (cells h);
  wf_o : Forall (obj_ok h) (objs h) }.

Lemma wf_empty : wf empty_heap.
Proof. constructor; constructor. Qed.

Lemma okb_ok : forall h v, okb h v = true <-> ok h v.
Proof.
  intros h [z| |r]; simpl; try tauto. apply Nat.ltb_lt.
Qed.

Lemma ok_mono : forall h h' v, length (objs h) <= length (objs h') -> ok h v -> ok h' v.
Proof. intros h h' [z| |r]; simpl; auto. lia. Qed.

Lemma read_slice_ok : forall h sl, wf h -> Forall (ok h) (read_slice h sl).
Proof.
  intros h sl W. unfold read_slice. apply Forall_firstn, Forall_skipn.
  apply nth_Forall; [apply (wf_b h W) | constructor].
Qed.

Lemma read_cell_ok : forall h c, wf h -> Forall (okp h) (read_cell h c).
Proof. intros h c W. unfold read_cell. apply nth_Forall; [apply (wf_c h W) | constructor]. Qed.

(* extension of a heap: the three tables only get longer *)
Definition ext (h h' : heap) : Prop :=
  (exists t, backs h' = backs h ++ t) /\
  (exists t, cells h' = cells h ++ t) /\
  (exists t, objs h' = objs h ++ t).

Lemma abs_ext : forall f h h' v, wf h -> ext h h' -> ok h v -> abs f h' v = abs f h v.
Proof.
  induction f as [|f IH]; intros h h' v W E Hv; simpl; auto.
  destruct v as [z| |r]; auto.
  destruct E as [[tb Eb] [[tc Ec] [to Eo]]]. simpl in Hv.
  rewrite Eo, nth_error_app1 by exact Hv.
  destruct (nth_error (objs h) r) as [o|] eqn:En; auto.
  assert (Ho : obj_ok h o).
  { assert (F := wf_o h W). rewrite Forall_forall in F. apply F. eapply nth_error_In; eauto. }
  destruct o as [sl p|k c p]; simpl in Ho.
  - assert (R : read_slice h' sl = read_slice h sl).
    { unfold read_slice. rewrite Eb, app_nth1 by exact Ho. reflexivity. }
    rewrite R. f_equal. apply map_ext_in. intros a Ha. apply IH; auto.
    + repeat split; eauto.
    + assert (F := read_slice_ok h sl W). rewrite Forall_forall in F. auto.
  - assert (R : read_cell h' c = read_cell h c).
    { unfold read_cell. rewrite Ec, app_nth1 by exact Ho. reflexivity. }
    rewrite R. f_equal. apply map_ext_in. intros a Ha. f_equal. apply IH; auto.
    + repeat split; eauto.
    + assert (F := read_cell_ok h c W). rewrite Forall_forall in F. apply (F a Ha).
Qed.

Lemma chain_ext : forall f h h' r, ext h h' -> r < length (objs h) ->
  Forall (fun p => p < length (objs h)) (chain f h r) -> chain f h' r = chain f h r.
Proof.
  induction f as [|f IH]; intros h h' r E Hr Hc; simpl; auto.
  destruct E as [Eb [Ec [to Eo]]].
  assert (P : proto_of h' (VRef r) = proto_of h (VRef r)).
  { unfold proto_of, get_obj. now rewrite Eo, nth_error_app1. }
  simpl in Hc. rewrite P. destruct (proto_of h (VRef r)) as [p|]; auto.
  inversion Hc; subst. f_equal. apply IH; auto. repeat split; eauto.
Qed.

(* --- wf is preserved by the primitives *)
Definition same_objs (s s' : st) : Prop := objs (hp s') = objs (hp s).

Lemma wf_transport_b : forall h h', objs h' = objs h -> forall l, Forall (Forall (ok h)) l -> Forall (Forall (ok h')) l.
Proof.
  intros h h' E l H. eapply Forall_impl; [|exact H]. intros a Ha.
  eapply Forall_impl; [|exact Ha]. intros v. apply ok_mono. rewrite E. lia.
Qed.

Lemma alloc_back_wf : forall cs s, wf (hp s) -> Forall (ok (hp s)) cs -> wf (hp (snd (alloc_back cs s))).
Proof.
  intros cs s [B C O] H. constructor; simpl.
  - apply Forall_app. split; [exact B | constructor; [exact H | constructor]].
  - exact C.
  - eapply Forall_impl; [|exact O]. intros [sl p|k c p]; simpl; auto. rewrite app_length. simpl. lia.
Qed.

Lemma write_back_wf : forall bk i v s, wf (hp s) -> ok (hp s) v -> wf (hp (write_back bk i v s)).
Proof.
  intros bk i v s [B C O] H. constructor; simpl.
  - apply Forall_upd; [exact B|]. intros x Hx. apply Forall_upd; auto.
  - exact C.
  - eapply Forall_impl; [|exact O]. intros [sl p|k c p]; simpl; auto. now rewrite upd_length.
Qed.

Lemma write_cells_wf : forall vs bk i s, wf (hp s) -> Forall (ok (hp s)) vs -> wf (hp (write_cells bk i vs s)).
Proof.
  induction vs as [|v t IH]; intros bk i s W H; simpl; auto.
  inversion H; subst. apply IH.
  - apply write_back_wf; auto.
  - exact H3.
Qed.

Lemma write_cells_objs : forall vs bk i s, objs (hp (write_cells bk i vs s)) = objs (hp s).
Proof. induction vs as [|v t IH]; intros; simpl; auto. rewrite IH. reflexivity. Qed.

Lemma write_cells_nb : forall vs bk i s, length (backs (hp (write_cells bk i vs s))) = length (backs (hp s)).
Proof. induction vs as [|v t IH]; intros; simpl; auto. rewrite IH. simpl. apply upd_length. Qed.

Lemma alloc_cell_wf : forall ps s, wf (hp s) -> Forall (okp (hp s)) ps -> wf (hp (snd (alloc_cell ps s))).
Proof.
  intros ps s [B C O] H. constructor; simpl.
  - exact B.
  - apply Forall_app. split; [exact C | constructor; [exact H | constructor]].
  - eapply Forall_impl; [|exact O]. intros [sl p|k c p]; simpl; auto. rewrite app_length. simpl. lia.
Qed.

Lemma assoc_set_ok : forall (P : nat * val -> Prop) k v l, Forall P l -> P (k, v) -> Forall P (assoc_set k v l).
Proof.
  induction l as [|[k' v'] t IH]; intros H Hv; simpl.
  - constructor; auto.
  - inversion H; subst. destruct (k =? k'); constructor; auto.
Qed.

Lemma write_cell_wf : forall c k v s, wf (hp s) -> ok (hp s) v -> wf (hp (write_cell c k v s)).
Proof.
  intros c k v s [B C O] H. constructor; simpl.
  - exact B.
  - apply Forall_upd; [exact C|]. intros x Hx. apply assoc_set_ok; auto.
  - eapply Forall_impl; [|exact O]. intros [sl p|k' c' p]; simpl; auto. now rewrite upd_length.
Qed.

Lemma put_new_wf : forall c kv s, wf (hp s) -> okp (hp s) kv -> wf (hp (put_new c kv s)).
Proof. intros c kv s W H. unfold put_new. destruct (has_key _ _); auto. apply write_cell_wf; auto. Qed.

Lemma put_new_objs : forall c kv s, objs (hp (put_new c kv s)) = objs (hp s).
Proof. intros. unfold put_new. destruct (has_key _ _); reflexivity. Qed.

Lemma put_new_nc : forall c kv s, length (cells (hp (put_new c kv s))) = length (cells (hp s)).
Proof. intros. unfold put_new. destruct (has_key _ _); simpl; auto. apply upd_length. Qed.

Lemma add_pairs_wf : forall ps c s, wf (hp s) -> Forall (okp (hp s)) ps -> wf (hp (add_pairs c ps s)).
Proof.
  unfold add_pairs. induction ps as [|kv t IH]; intros c s W H; simpl; auto.
  inversion H; subst. apply IH.
  - apply put_new_wf; auto.
  - eapply Forall_impl; [|exact H3]. intros a. unfold okp. apply ok_mono. rewrite put_new_objs. lia.
Qed.

Lemma add_pairs_objs : forall ps c s, objs (hp (add_pairs c ps s)) = objs (hp s).
Proof.
  unfold add_pairs. induction ps as [|kv t IH]; intros; simpl; auto. rewrite IH. apply put_new_objs.
Qed.

Lemma add_pairs_nc : forall ps c s, length (cells (hp (add_pairs c ps s))) = length (cells (hp s)).
Proof.
  unfold add_pairs. induction ps as [|kv t IH]; intros; simpl; auto. rewrite IH. apply put_new_nc.
Qed.

Lemma add_pairs_nb : forall ps c s, backs (hp (add_pairs c ps s)) = backs (hp s).
Proof.
  unfold add_pairs. induction ps as [|kv t IH]; intros; simpl; auto. rewrite IH.
  unfold put_new. destruct (has_key _ _); reflexivity.
Qed.

Lemma alloc_obj_wf : forall o s, wf (hp s) -> obj_ok (hp s) o -> wf (hp (snd (alloc_obj o s))).
Proof.
  intros o s [B C O] H. constructor; simpl.
  - eapply Forall_impl; [|exact B]. intros a Ha. eapply Forall_impl; [|exact Ha].
    intros v. apply ok_mono. simpl. rewrite app_length. lia.
  - eapply Forall_impl; [|exact C]. intros a Ha. eapply Forall_impl; [|exact Ha].
    intros v. unfold okp. apply ok_mono. simpl. rewrite app_length. lia.
  - apply Forall_app. split.
    + eapply Forall_impl; [|exact O]. intros [sl p|k c p]; simpl; auto.
    + constructor; [|constructor]. destruct o; simpl in *; auto.
Qed.

Lemma go_append_wf : forall sl vs s,
  wf (hp s) -> Forall (ok (hp s)) vs -> s_bk sl < length (backs (hp s)) ->
  wf (hp (snd (go_append sl vs s))) /\
  s_bk (fst (go_append sl vs s)) < length (backs (hp (snd (go_append sl vs s)))) /\
  objs (hp (snd (go_append sl vs s))) = objs (hp s).
Proof.
  intros sl vs s W H Hb. unfold go_append.
  destruct (s_len sl + length vs <=? s_cap sl); simpl.
  - split; [apply write_cells_wf; auto|]. split; [now rewrite write_cells_nb | apply write_cells_objs].
  - destruct (pop_cap (s_len sl + length vs) s) as [c s1] eqn:E. simpl.
    destruct (pop_cap_hp (s_len sl + length vs) s) as [P1 P2]. rewrite E in P1, P2. simpl in P1, P2.
    rewrite P1. split.
    + assert (A := alloc_back_wf (read_slice (hp s) sl ++ vs ++ repeat VNil (c - (s_len sl + length vs))) s1).
      simpl in A. rewrite P1 in A. apply A; auto.
      apply Forall_app. split; [apply read_slice_ok; auto|].
      apply Forall_app. split; auto. apply Forall_repeat. exact I.
    + split; auto. rewrite app_length. simpl. lia.
Qed.

(* ------------------------------------------------------------------ freshness of logged roots *)
Definition froot (nb nc : nat) (r : root) : Prop :=
  match r with RB b => nb <= b | RM c => nc <= c end.

Record inv (nb nc : nat) (s : st) : Prop := mkInv {
  i_nb : nb <= length (backs (hp s));
  i_nc : nc <= length (cells (hp s));
  i_log : Forall (froot nb nc) (lg s) }.

Lemma write_back_inv : forall nb nc bk i v s, inv nb nc s -> nb <= bk -> inv nb nc (write_back bk i v s).
Proof.
  intros nb nc bk i v s [A B C] H. constructor; simpl; auto.
  now rewrite upd_length.
Qed.

Lemma write_cells_inv : forall nb nc vs bk i s, inv nb nc s -> nb <= bk -> inv nb nc (write_cells bk i vs s).
Proof.
  induction vs as [|v t IH]; intros bk i s I H; simpl; auto.
  apply IH; auto. apply write_back_inv; auto.
Qed.

Lemma alloc_back_inv : forall nb nc cs s, inv nb nc s ->
  inv nb nc (snd (alloc_back cs s)) /\ nb <= fst (alloc_back cs s).
Proof.
  intros nb nc cs s [A B C]. split; simpl; auto. constructor; simpl; auto.
  rewrite app_length. lia.
Qed.

Lemma pop_cap_inv : forall nb nc n s, inv nb nc s -> inv nb nc (snd (pop_cap n s)).
Proof.
  intros nb nc n s [A B C]. destruct (pop_cap_hp n s) as [P1 P2].
  constructor; rewrite ?P1, ?P2; auto.
Qed.

Lemma go_append_inv : forall nb nc sl vs s, inv nb nc s -> nb <= s_bk sl ->
  inv nb nc (snd (go_append sl vs s)) /\ nb <= s_bk (fst (go_append sl vs s)).
Proof.
  intros nb nc sl vs s I H. unfold go_append.
  destruct (s_len sl + length vs <=? s_cap sl); simpl.
  - split; auto. apply write_cells_inv; auto.
  - destruct (pop_cap (s_len sl + length vs) s) as [c s1] eqn:E. simpl.
    assert (I1 := pop_cap_inv nb nc (s_len sl + length vs) s I). rewrite E in I1. simpl in I1.
    destruct I1 as [A B C]. split; simpl; auto. constructor; simpl; auto. rewrite app_length. lia.
Qed.

Lemma write_cell_inv : forall nb nc c k v s, inv nb nc s -> nc <= c -> inv nb nc (write_cell c k v s).
Proof.
  intros nb nc c k v s [A B C] H. constructor; simpl; auto. now rewrite upd_length.
Qed.

Lemma add_pairs_inv : forall nb nc ps c s, inv nb nc s -> nc <= c -> inv nb nc (add_pairs c ps s).
Proof.
  unfold add_pairs. induction ps as [|kv t IH]; intros c s I H; simpl; auto.
  apply IH; auto. unfold put_new. destruct (has_key _ _); auto. apply write_cell_inv; auto.
Qed.

Definition minv (nb nc : nat) (r c : own) (m : mach) : Prop :=
  inv nb nc (m_st m) /\ (r = Owned -> nb <= s_bk (m_reg m)) /\ (c = Owned -> nc <= m_cell m).

Lemma can_write_strict : forall o, can_write true o = true -> o = Owned.
Proof. intros [| |]; simpl; congruence. Qed.

Ltac mk3 := split; [|split].

Lemma exec_inv : forall nb nc prog r c m,
  check true r c prog = true -> minv nb nc r c m -> inv nb nc (m_st (exec prog m)).
Proof.
  unfold exec. induction prog as [|i t IH]; intros r c m Hc [I [Hr Hcell]]; simpl; auto.
  simpl in Hc. destruct i.
  - (* IMake *) apply (IH Owned c); auto.
    destruct (alloc_back_inv nb nc (repeat VNil cap) (m_st m) I) as [I' Hb].
    mk3; [exact I' | intros _; exact Hb | exact Hcell].
  - (* ILit *) apply (IH Owned c); auto.
    destruct (alloc_back_inv nb nc vs (m_st m) I) as [I' Hb].
    mk3; [exact I' | intros _; exact Hb | exact Hcell].
  - (* IUse *) apply (IH Shared c); auto. mk3; [exact I | intros; discriminate | exact Hcell].
  - (* IAppend *) apply andb_prop in Hc. destruct Hc as [Hw Hc].
    apply can_write_strict in Hw.
    destruct (go_append_inv nb nc (m_reg m) vs (m_st m) I (Hr Hw)) as [I' Hb].
    apply (IH r c); auto. simpl.
    destruct (go_append (m_reg m) vs (m_st m)) as [sl' s'] eqn:E. simpl in *.
    mk3; [exact I' | intros _; exact Hb | exact Hcell].
  - (* ICopy *) apply andb_prop in Hc. destruct Hc as [Hw Hc].
    apply can_write_strict in Hw.
    apply (IH r c); auto.
    mk3; [simpl; apply write_cells_inv; auto | exact Hr | exact Hcell].
  - (* ITail *) apply andb_prop in Hc. destruct Hc as [_ Hc].
    apply (IH r c); auto. mk3; [exact I | exact Hr | exact Hcell].
  - (* INewCell *) apply (IH r Owned); auto. destruct I as [A B C].
    mk3; [constructor; simpl; auto; rewrite app_length; lia | exact Hr | intros _; simpl; exact B].
  - (* IUseCell *) apply (IH r Shared); auto. mk3; [exact I | exact Hr | intros; discriminate].
  - (* IAddPairs *) apply andb_prop in Hc. destruct Hc as [Hw Hc].
    apply can_write_strict in Hw.
    apply (IH r c); auto.
    mk3; [simpl; apply add_pairs_inv; auto | exact Hr | exact Hcell].
  - (* IArr *) apply andb_prop in Hc. destruct Hc as [_ Hc].
    apply (IH r c); auto. destruct I as [A B C].
    mk3; [constructor; simpl; auto | exact Hr | exact Hcell].
  - (* IPairs *) apply andb_prop in Hc. destruct Hc as [_ Hc].
    apply (IH r c); auto. destruct I as [A B C].
    mk3; [constructor; simpl; auto | exact Hr | exact Hcell].
  - (* IRet *) apply (IH r c); auto. mk3; [exact I | exact Hr | exact Hcell].
Qed.

(* ------------------------------------------------------------------ wf through programs *)
Definition iok (h : heap) (i : instr) : Prop :=
  match i with
  | ILit vs | IAppend vs | ICopy vs => Forall (ok h) vs
  | IUse sl => s_bk sl < length (backs h)
  | IUseCell c => c < length (cells h)
  | IAddPairs ps => Forall (okp h) ps
  | IRet v => ok h v
  | _ => True
  end.

Definition le_heap (h h' : heap) : Prop :=
  length (backs h) <= length (backs h') /\ length (cells h) <= length (cells h') /\
  length (objs h) <= length (objs h').

Lemma grows_le : forall s s', grows s s' -> le_heap (hp s) (hp s').
Proof.
  intros s s' [[t O] B C _]. repeat split; auto. rewrite O, app_length. lia.
Qed.

Lemma le_heap_trans : forall a b c, le_heap a b -> le_heap b c -> le_heap a c.
Proof. intros a b c [A1 [A2 A3]] [B1 [B2 B3]]. repeat split; lia. Qed.

Lemma iok_mono : forall h h' i, le_heap h h' -> iok h i -> iok h' i.
Proof.
  intros h h' i [A [B C]] H. destruct i; simpl in *; auto; try lia;
    try (eapply Forall_impl; [|exact H]; intros a; try unfold okp; apply ok_mono; lia).
  eapply ok_mono; eauto.
Qed.

Definition mwf (r c : own) (m : mach) : Prop :=
  wf (hp (m_st m)) /\
  (r <> Undef -> s_bk (m_reg m) < length (backs (hp (m_st m)))) /\
  (c <> Undef -> m_cell m < length (cells (hp (m_st m)))) /\
  ok (hp (m_st m)) (m_res m).

Lemma can_write_lax : forall o, can_write false o = true -> o <> Undef.
Proof. intros [| |]; simpl; congruence. Qed.
Lemma defined_neq : forall o, defined o = true -> o <> Undef.
Proof. intros [| |]; simpl; congruence. Qed.

Ltac mk4 := split; [|split; [|split]].

Lemma exec_wf : forall prog r c m,
  check false r c prog = true -> Forall (iok (hp (m_st m))) prog -> mwf r c m ->
  wf (hp (m_st (exec prog m))) /\ ok (hp (m_st (exec prog m))) (m_res (exec prog m)).
Proof.
  unfold exec. induction prog as [|i t IH]; intros r c m Hc Hok [W [Hr [Hcell Hres]]]; simpl; auto.
  simpl in Hc. inversion Hok as [|i' t' Hi Ht]; subst.
  assert (G := exec1_grows i m). assert (L := grows_le _ _ G).
  assert (Ht' : Forall (iok (hp (m_st (exec1 m i)))) t).
  { eapply Forall_impl; [|exact Ht]. intros a. apply iok_mono. exact L. }
  destruct L as [L1 [L2 L3]].
  destruct i; simpl in Hi.
  - (* IMake *) apply (IH Owned c); auto.
    assert (W' := alloc_back_wf (repeat VNil cap) (m_st m) W (Forall_repeat _ _ VNil cap I)).
    mk4; [exact W' | intros _; simpl; rewrite app_length; simpl; lia | exact Hcell | exact Hres].
  - (* ILit *) apply (IH Owned c); auto.
    assert (W' := alloc_back_wf vs (m_st m) W Hi).
    mk4; [exact W' | intros _; simpl; rewrite app_length; simpl; lia | exact Hcell | exact Hres].
  - (* IUse *) apply (IH Shared c); auto. mk4; [exact W | intros _; exact Hi | exact Hcell | exact Hres].
  - (* IAppend *) apply andb_prop in Hc. destruct Hc as [Hw Hc]. apply can_write_lax in Hw.
    destruct (go_append_wf (m_reg m) vs (m_st m) W Hi (Hr Hw)) as [W' [Hb Ho]].
    apply (IH r c); auto. simpl in *.
    destruct (go_append (m_reg m) vs (m_st m)) as [sl' s'] eqn:E. simpl in *.
    mk4; [exact W' | intros _; exact Hb | intros Hc'; specialize (Hcell Hc'); simpl; lia
         | simpl; eapply ok_mono; [|exact Hres]; rewrite Ho; lia].
  - (* ICopy *) apply andb_prop in Hc. destruct Hc as [Hw Hc]. apply can_write_lax in Hw.
    apply (IH r c); auto. simpl in *.
    mk4; [ apply write_cells_wf; auto; apply Forall_firstn; exact Hi
         | intros _; simpl; rewrite write_cells_nb; auto
         | intros Hc'; specialize (Hcell Hc'); simpl; lia
         | simpl; eapply ok_mono; [|exact Hres]; rewrite write_cells_objs; lia].
  - (* ITail *) apply andb_prop in Hc. destruct Hc as [Hd Hc].
    apply (IH r c); auto. mk4; [exact W | exact Hr | exact Hcell | exact Hres].
  - (* INewCell *) apply (IH r Owned); auto.
    assert (W' := alloc_cell_wf [] (m_st m) W (Forall_nil _)).
    mk4; [exact W' | exact Hr | intros _; simpl; rewrite app_length; simpl; lia | exact Hres].
  - (* IUseCell *) apply (IH r Shared); auto. mk4; [exact W | exact Hr | intros _; exact Hi | exact Hres].
  - (* IAddPairs *) apply andb_prop in Hc. destruct Hc as [Hw Hc]. apply can_write_lax in Hw.
    apply (IH r c); auto. simpl in *.
    mk4; [ apply add_pairs_wf; auto
         | intros Hr'; simpl; rewrite add_pairs_nb; auto
         | intros _; simpl; rewrite add_pairs_nc; auto
         | simpl; eapply ok_mono; [|exact Hres]; rewrite add_pairs_objs; lia].
  - (* IArr *) apply andb_prop in Hc. destruct Hc as [Hd Hc]. apply defined_neq in Hd.
    apply (IH r c); auto.
    assert (W' := alloc_obj_wf (OArr (m_reg m) proto) (m_st m) W (Hr Hd)).
    mk4; [exact W' | exact Hr | exact Hcell | simpl; rewrite app_length; simpl; lia].
  - (* IPairs *) apply andb_prop in Hc. destruct Hc as [Hd Hc]. apply defined_neq in Hd.
    apply (IH r c); auto.
    assert (W' := alloc_obj_wf (OPairs k (m_cell m) proto) (m_st m) W (Hcell Hd)).
    mk4; [exact W' | exact Hr | exact Hcell | simpl; rewrite app_length; simpl; lia].
  - (* IRet *) apply (IH r c); auto. mk4; [exact W | exact Hr | exact Hcell | exact Hi].
Qed.

Lemma check_strict_lax : forall prog r c, check true r c prog = true -> check false r c prog = true.
Proof.
  induction prog as [|i t IH]; intros r c H; simpl in *; auto.
  destruct i; auto;
    try (apply andb_prop in H; destruct H as [H1 H2]; apply andb_true_intro; split; auto;
         destruct r, c; simpl in *; auto; discriminate).
Qed.

(* ------------------------------------------------------------------ the compiled operations *)
Definition is_append (i : instr) : bool := match i with IAppend _ => true | _ => false end.
Definition is_addpairs (i : instr) : bool := match i with IAddPairs _ => true | _ => false end.

Lemma check_appends : forall s c l rest, forallb is_append l = true ->
  check s Owned c (l ++ rest) = check s Owned c rest.
Proof.
  induction l as [|i t IH]; intros rest H; simpl in *; auto.
  apply andb_prop in H. destruct H as [H1 H2]. destruct i; simpl in H1; try discriminate.
  simpl. now apply IH.
Qed.

Lemma check_addpairs : forall s r l rest, forallb is_addpairs l = true ->
  check s r Owned (l ++ rest) = check s r Owned rest.
Proof.
  induction l as [|i t IH]; intros rest H; simpl in *; auto.
  apply andb_prop in H. destruct H as [H1 H2]. destruct i; simpl in H1; try discriminate.
  simpl. now apply IH.
Qed.

Lemma forallb_map_all : forall A B (p : B -> bool) (f : A -> B) l,
  (forall x, p (f x) = true) -> forallb p (map f l) = true.
Proof. induction l as [|x t IH]; intros H; simpl; auto. rewrite H, IH; auto. Qed.

Lemma pad_check : forall s c n p vs, check s Owned c (pad_and_wrap n p vs) = true.
Proof.
  intros s c n p vs. unfold pad_and_wrap. destruct (p <=? n); simpl; auto.
  rewrite check_appends; simpl; auto. apply forallb_map_all. reflexivity.
Qed.

Theorem compile_fresh : forall h o prog,
  compile PlusCopy h o = Some prog -> fresh_writes prog = true.
Proof.
  intros h o prog H. unfold fresh_writes.
  destruct o as [es|a b|a n|a start stop step|a i|proto a|proto args|nparams args|nparams recv|proto src|o|ps srcs|ps srcs|ps srcs|o]; simpl in H.
  - destruct (chunks h es); inversion H; subst. simpl.
    rewrite check_appends; auto. apply forallb_map_all. reflexivity.
  - destruct (get_arr h a), (get_arr h b); inversion H; subst. reflexivity.
  - destruct (get_arr h a); inversion H; subst. simpl.
    rewrite check_appends; auto. apply forallb_map_all. reflexivity.
  - destruct (get_arr h a); [|discriminate]. destruct (Z.eqb step 0); inversion H; subst. simpl.
    rewrite check_appends; auto. apply forallb_map_all. reflexivity.
  - destruct (get_arr h a); inversion H; subst. reflexivity.
  - destruct (get_arr h a), (as_proto h proto); inversion H; subst. reflexivity.
  - destruct (chunks h args), (as_proto h proto); inversion H; subst. simpl.
    rewrite check_appends; auto. apply forallb_map_all. reflexivity.
  - destruct (chunks h args); inversion H; subst. simpl.
    rewrite check_appends; [|apply forallb_map_all; reflexivity]. simpl. apply pad_check.
  - destruct (okb h recv); [|discriminate]. inversion H; subst. clear H.
    destruct (get_arr h recv) as [sa|]; [destruct (1 <? nparams)|]; simpl; apply pad_check.
  - destruct (as_proto h proto); [|discriminate].
    destruct src as [v|]; [destruct (get_cell h KObj v)|]; inversion H; subst; reflexivity.
  - destruct (get_cell h KObj o); inversion H; subst. reflexivity.
  - destruct (cells_of h (Some KObj) srcs); [|discriminate].
    destruct (forallb_snd h ps); inversion H; subst. simpl.
    rewrite check_addpairs; auto. apply forallb_map_all. reflexivity.
  - destruct (cells_of h None srcs); [|discriminate].
    destruct (forallb_snd h ps); inversion H; subst. simpl.
    rewrite check_addpairs; auto. apply forallb_map_all. reflexivity.
  - destruct (cells_of h (Some KObj) srcs); [|discriminate].
    destruct (forallb_snd h ps); inversion H; subst. simpl.
    rewrite check_addpairs; auto. apply forallb_map_all. reflexivity.
  - destruct (get_cell h KObj o); inversion H; subst. simpl.
    rewrite check_appends; auto. apply forallb_map_all. reflexivity.
Qed.

Lemma compile_lax : forall pi h o prog,
  compile pi h o = Some prog -> check false Undef Undef prog = true.
Proof.
  intros pi h o prog H. destruct pi.
  - apply check_strict_lax. eapply compile_fresh; eauto.
  - destruct o as [es|a b|a n|a start stop step|a i|proto a|proto args|nparams args|nparams recv|proto src|o|ps srcs|ps srcs|ps srcs|o];
      try (match type of H with compile _ ?hh ?oo = Some ?pp =>
             apply check_strict_lax; apply (compile_fresh hh oo pp); exact H end).
    simpl in H. destruct (get_arr h a), (get_arr h b); inversion H; subst. reflexivity.
Qed.

(* --- operands of compiled programs are well-formed values of the initial heap *)
Lemma get_obj_ok : forall h v o, wf h -> get_obj h v = Some o -> obj_ok h o.
Proof.
  intros h [z| |r] o W H; simpl in H; try discriminate.
  assert (F := wf_o h W). rewrite Forall_forall in F. apply F. eapply nth_error_In; eauto.
Qed.

Lemma get_arr_ok : forall h v sl, wf h -> get_arr h v = Some sl -> s_bk sl < length (backs h).
Proof.
  intros h v sl W H. unfold get_arr in H. destruct (get_obj h v) as [[sl' p|k c p]|] eqn:E; inversion H; subst.
  apply (get_obj_ok h v _ W E).
Qed.

Lemma get_cell_ok : forall h k v c, wf h -> get_cell h k v = Some c -> c < length (cells h).
Proof.
  intros h k v c W H. unfold get_cell in H.
  destruct (get_obj h v) as [[sl' p|k' c' p]|] eqn:E; try discriminate.
  assert (O := get_obj_ok h v _ W E). simpl in O.
  destruct k', k; inversion H; subst; auto.
Qed.

Lemma get_any_cell_ok : forall h v c, wf h -> get_any_cell h v = Some c -> c < length (cells h).
Proof.
  intros h v c W H. unfold get_any_cell in H.
  destruct (get_obj h v) as [[sl' p|k' c' p]|] eqn:E; inversion H; subst.
  apply (get_obj_ok h v _ W E).
Qed.

Lemma chunks_ok : forall h es cs, wf h -> chunks h es = Some cs -> Forall (Forall (ok h)) cs.
Proof.
  induction es as [|[v|v] t IH]; intros cs W H; simpl in H.
  - inversion H. constructor.
  - destruct (okb h v) eqn:E; [|discriminate].
    destruct (chunks h t) as [cs'|]; inversion H; subst.
    constructor; auto. constructor; auto. now apply okb_ok.
  - destruct (get_arr h v) as [sl|]; [|discriminate].
    destruct (chunks h t) as [cs'|]; inversion H; subst.
    constructor; auto. now apply read_slice_ok.
Qed.

Lemma cells_of_ok : forall h k srcs cs, wf h -> cells_of h k srcs = Some cs -> Forall (Forall (okp h)) cs.
Proof.
  induction srcs as [|v t IH]; intros cs W H; simpl in H.
  - inversion H. constructor.
  - destruct (match k with Some k0 => get_cell h k0 v | None => get_any_cell h v end) as [c|]; [|discriminate].
    destruct (cells_of h k t) as [cs'|]; inversion H; subst.
    constructor; auto. now apply read_cell_ok.
Qed.

Lemma forallb_snd_ok : forall h ps, forallb_snd h ps = true -> Forall (okp h) ps.
Proof.
  intros h ps H. unfold forallb_snd in H. rewrite forallb_forall in H.
  apply Forall_forall. intros x Hx. apply okb_ok. now apply H.
Qed.

Lemma pure_add_ok : forall h ps l, Forall (okp h) l -> Forall (okp h) ps -> Forall (okp h) (pure_add l ps).
Proof.
  unfold pure_add. induction ps as [|kv t IH]; intros l Hl Hp; simpl; auto.
  inversion Hp; subst. apply IH; auto.
  destruct (has_key (fst kv) l); auto. apply assoc_set_ok; auto.
Qed.

Lemma fold_pure_add_ok : forall h cs l, Forall (okp h) l -> Forall (Forall (okp h)) cs ->
  Forall (okp h) (fold_left pure_add cs l).
Proof.
  induction cs as [|c t IH]; intros l Hl Hc; simpl; auto.
  inversion Hc; subst. apply IH; auto. apply pure_add_ok; auto.
Qed.

Lemma arr_index_ok : forall h es i, Forall (ok h) es -> ok h (arr_index es i).
Proof.
  intros h es i H. unfold arr_index.
  destruct (_ || _); [exact I|]. destruct (i <? 0)%Z; apply nth_Forall; auto; exact I.
Qed.

Lemma Forall_map_intro : forall A B (P : B -> Prop) (f : A -> B) l,
  (forall x, In x l -> P (f x)) -> Forall P (map f l).
Proof.
  intros A B P f l H. apply Forall_forall. intros y Hy. apply in_map_iff in Hy.
  destruct Hy as [x [E Hx]]. subst. auto.
Qed.

Lemma pad_iok : forall h n p vs, Forall (ok h) vs -> Forall (iok h) (pad_and_wrap n p vs).
Proof.
  intros h n p vs H. unfold pad_and_wrap. destruct (p <=? n).
  - constructor; simpl; auto.
  - constructor; simpl; auto. constructor; simpl; auto.
    apply Forall_app. split.
    + apply Forall_map_intro. intros x _. simpl. constructor; simpl; auto.
    + constructor; simpl; auto.
Qed.

Lemma insert_kv_In : forall A (kv x : nat * A) l, In x (insert_kv kv l) -> x = kv \/ In x l.
Proof.
  induction l as [|y t IH]; simpl; intros H.
  - destruct H as [H|[]]; auto.
  - destruct (fst kv <=? fst y); simpl in H.
    + destruct H as [H|H]; auto.
    + destruct H as [H|H]; auto. destruct (IH H); auto.
Qed.

Lemma sort_kv_In : forall A (x : nat * A) l, In x (sort_kv l) -> In x l.
Proof.
  unfold sort_kv. induction l as [|y t IH]; simpl; intros H; auto.
  destruct (insert_kv_In _ _ _ _ H); auto.
Qed.

Lemma as_proto_ok : forall h p po, as_proto h p = Some po -> ok h p.
Proof.
  intros h [z| |r] po H; simpl in *; auto. destruct (r <? length (objs h)) eqn:E; [|discriminate].
  now apply Nat.ltb_lt.
Qed.

Lemma compile_iok : forall pi h o prog, wf h -> compile pi h o = Some prog -> Forall (iok h) prog.
Proof.
  intros pi h o prog W H.
  destruct o as [es|a b|a n|a start stop step|a i|proto a|proto args|nparams args|nparams recv|proto src|o|ps srcs|ps srcs|ps srcs|o]; simpl in H.
  - destruct (chunks h es) as [cs|] eqn:E; inversion H; subst.
    assert (C := chunks_ok h es cs W E). rewrite Forall_forall in C.
    constructor; simpl; auto. apply Forall_app. split.
    + apply Forall_map_intro. intros x Hx. simpl. auto.
    + repeat (constructor; simpl; auto).
  - destruct (get_arr h a) as [sa|] eqn:Ea; [|discriminate].
    destruct (get_arr h b) as [sb|] eqn:Eb; [|discriminate].
    destruct pi; inversion H; subst; repeat (constructor; simpl; auto using read_slice_ok).
    eapply get_arr_ok; eauto.
  - destruct (get_arr h a) as [sa|] eqn:Ea; inversion H; subst.
    constructor; simpl; auto. apply Forall_app. split.
    + apply Forall_map_intro. intros x Hx. simpl. now apply read_slice_ok.
    + repeat (constructor; simpl; auto).
  - destruct (get_arr h a) as [sa|] eqn:Ea; [|discriminate].
    destruct (Z.eqb step 0); inversion H; subst.
    constructor; simpl; auto. apply Forall_app. split.
    + apply Forall_map_intro. intros x Hx. simpl. constructor; auto.
      apply arr_index_ok. now apply read_slice_ok.
    + repeat (constructor; simpl; auto).
  - destruct (get_arr h a) as [sa|] eqn:Ea; inversion H; subst.
    constructor; simpl; auto. apply arr_index_ok. now apply read_slice_ok.
  - destruct (get_arr h a) as [sa|] eqn:Ea; [|discriminate].
    destruct (as_proto h proto); inversion H; subst.
    constructor; simpl; [eapply get_arr_ok; eauto|]. constructor; simpl; auto.
  - destruct (chunks h args) as [cs|] eqn:E; [|discriminate].
    destruct (as_proto h proto) eqn:Ep; inversion H; subst.
    assert (C := chunks_ok h args cs W E). assert (C' := C). rewrite Forall_forall in C'.
    constructor; simpl; auto. apply Forall_app. split.
    + apply Forall_map_intro. intros x Hx. simpl. auto.
    + constructor; simpl. { constructor; auto. eapply as_proto_ok; eauto. }
      constructor; simpl. { now apply Forall_concat. }
      repeat (constructor; simpl; auto).
  - destruct (chunks h args) as [cs|] eqn:E; inversion H; subst.
    assert (C := chunks_ok h args cs W E). assert (C' := C). rewrite Forall_forall in C'.
    constructor; simpl; auto. apply Forall_app. split.
    + apply Forall_map_intro. intros x Hx. simpl. auto.
    + constructor; simpl. { constructor; simpl; auto. }
      constructor; simpl. { now apply Forall_concat. }
      constructor; simpl; auto. apply pad_iok. now apply Forall_concat.
  - destruct (okb h recv) eqn:Er; [|discriminate]. inversion H; subst. clear H.
    apply okb_ok in Er.
    assert (V : Forall (ok h) (match (match get_arr h recv with
                                       | Some sa => if 1 <? nparams then Some (read_slice h sa) else None
                                       | None => None end) with Some es => es | None => [recv] end)).
    { destruct (get_arr h recv) as [sa|]; [destruct (1 <? nparams)|];
        try (constructor; auto; fail). now apply read_slice_ok. }
    apply Forall_app. split.
    + destruct (get_arr h recv) as [sa|]; [destruct (1 <? nparams)|]; repeat (constructor; simpl; auto).
    + constructor; simpl. { constructor; simpl; auto. }
      constructor; simpl; auto. constructor; simpl; auto. apply pad_iok. exact V.
  - destruct (as_proto h proto); [|discriminate].
    destruct src as [v|].
    + destruct (get_cell h KObj v) as [c|] eqn:Ec; inversion H; subst.
      constructor; simpl; [eapply get_cell_ok; eauto|]. repeat (constructor; simpl; auto).
    + inversion H; subst. repeat (constructor; simpl; auto).
  - destruct (get_cell h KObj o) as [c|] eqn:Ec; inversion H; subst.
    constructor; simpl; [eapply get_cell_ok; eauto|]. repeat (constructor; simpl; auto).
  - destruct (cells_of h (Some KObj) srcs) as [cs|] eqn:E; [|discriminate].
    destruct (forallb_snd h ps) eqn:Ep; inversion H; subst.
    assert (C := cells_of_ok h _ srcs cs W E). rewrite Forall_forall in C.
    constructor; simpl; auto. constructor; simpl. { now apply forallb_snd_ok. }
    apply Forall_app. split.
    + apply Forall_map_intro. intros x Hx. simpl. auto.
    + repeat (constructor; simpl; auto).
  - destruct (cells_of h None srcs) as [cs|] eqn:E; [|discriminate].
    destruct (forallb_snd h ps) eqn:Ep; inversion H; subst.
    assert (C := cells_of_ok h _ srcs cs W E). rewrite Forall_forall in C.
    constructor; simpl; auto. constructor; simpl. { now apply forallb_snd_ok. }
    apply Forall_app. split.
    + apply Forall_map_intro. intros x Hx. simpl. auto.
    + repeat (constructor; simpl; auto).
  - destruct (cells_of h (Some KObj) srcs) as [cs|] eqn:E; [|discriminate].
    destruct (forallb_snd h ps) eqn:Ep; inversion H; subst.
    assert (C := cells_of_ok h _ srcs cs W E). assert (C' := C). rewrite Forall_forall in C'.
    constructor; simpl; auto. apply Forall_app. split.
    + apply Forall_map_intro. intros x Hx. simpl. auto.
    + constructor; simpl; auto. constructor; simpl. { now apply forallb_snd_ok. }
      constructor; simpl. { apply fold_pure_add_ok; auto. }
      repeat (constructor; simpl; auto).
  - destruct (get_cell h KObj o) as [c|] eqn:Ec; inversion H; subst.
    constructor; simpl; auto. apply Forall_app. split.
    + apply Forall_map_intro. intros x Hx. simpl. constructor; auto.
      assert (R := read_cell_ok h c W). rewrite Forall_forall in R. apply (R x). now apply sort_kv_In.
    + repeat (constructor; simpl; auto).
Qed.

(* ------------------------------------------------------------------ one step *)
Lemma init_mwf : forall h caps, wf h -> mwf Undef Undef (init_mach h caps).
Proof.
  intros h caps W. mk4; simpl; auto; intros C; congruence.
Qed.

Lemma init_minv : forall h caps,
  minv (length (backs h)) (length (cells h)) Undef Undef (init_mach h caps).
Proof.
  intros h caps. mk3; try (intros; discriminate). constructor; simpl; auto.
Qed.

(* every step (repaired or original) keeps the heap well-formed *)
Theorem step_gen_wf : forall pi h oc h' r,
  wf h -> step_gen pi h oc = (h', r) -> wf h' /\ ok h' r.
Proof.
  intros pi h oc h' r W H. unfold step_gen, step_mach in H.
  destruct (compile pi h (fst oc)) as [prog|] eqn:E.
  - inversion H; subst. apply (exec_wf prog Undef Undef).
    + eapply compile_lax; eauto.
    + simpl. eapply compile_iok; eauto.
    + now apply init_mwf.
  - inversion H; subst. split; simpl; auto.
Qed.

Lemma step_gen_le : forall pi h oc h' r,
  step_gen pi h oc = (h', r) -> length (objs h) <= length (objs h').
Proof.
  intros pi h oc h' r H. unfold step_gen, step_mach in H.
  destruct (compile pi h (fst oc)) as [prog|]; inversion H; subst; auto.
  destruct (grows_le _ _ (exec_grows prog (init_mach h (snd oc)))) as [_ [_ L]]. exact L.
Qed.

(* log soundness at the level of a step: fresh logged roots => the old heap is a prefix *)
Lemma step_ext_of_fresh : forall pi h oc m,
  step_mach pi h oc = Some m ->
  forallb (fresh_rootb h) (lg (m_st m)) = true -> ext h (hp (m_st m)).
Proof.
  intros pi h oc m H F. unfold step_mach in H.
  destruct (compile pi h (fst oc)) as [prog|]; inversion H; subst. clear H.
  destruct (exec_grows prog (init_mach h (snd oc))) as [O B C [l [L [HB HC]]]].
  simpl in *. rewrite app_nil_r in L. rewrite L in F. rewrite forallb_forall in F.
  repeat split.
  - apply prefix_from_nth; auto. intros i Hi. apply HB; auto.
    intro Hin. apply F in Hin. simpl in Hin. apply Nat.leb_le in Hin. lia.
  - apply prefix_from_nth; auto. intros i Hi. apply HC; auto.
    intro Hin. apply F in Hin. simpl in Hin. apply Nat.leb_le in Hin. lia.
  - exact O.
Qed.

(* GENERIC LEMMA (the translator tie): an operation all of whose writes have fresh
   roots leaves every existing value as it was. Holds for both implementations of
   Arr#+ and every capacity oracle. *)
Theorem fresh_roots_frame : forall pi h oc h' r,
  wf h -> step_gen pi h oc = (h', r) ->
  forallb (fresh_rootb h) (step_log pi h oc) = true ->
  forall f v, ok h v -> abs f h' v = abs f h v.
Proof.
  intros pi h oc h' r W H F f v Hv. unfold step_gen in H. unfold step_log in F.
  destruct (step_mach pi h oc) as [m|] eqn:E.
  - inversion H; subst. apply abs_ext; auto. eapply step_ext_of_fresh; eauto.
  - inversion H; subst. reflexivity.
Qed.

(* the repaired operations write only through roots allocated by the step itself *)
Theorem step_writes_fresh : forall h oc,
  forallb (fresh_rootb h) (step_log PlusCopy h oc) = true.
Proof.
  intros h oc. unfold step_log, step_mach.
  destruct (compile PlusCopy h (fst oc)) as [prog|] eqn:E; [|reflexivity].
  assert (I := exec_inv (length (backs h)) (length (cells h)) prog Undef Undef
                        (init_mach h (snd oc)) (compile_fresh _ _ _ E) (init_minv h (snd oc))).
  destruct I as [_ _ L]. rewrite Forall_forall in L.
  apply forallb_forall. intros x Hx. specialize (L x Hx).
  destruct x; simpl in *; now apply Nat.leb_le.
Qed.

Theorem op_frame_val : forall h oc h' r,
  wf h -> step h oc = (h', r) -> forall f v, ok h v -> abs f h' v = abs f h v.
Proof.
  intros h oc h' r W H. eapply fresh_roots_frame; eauto. apply step_writes_fresh.
Qed.

(* op_frame: for every modelled operation, every operand and ALL capacities *)
Theorem op_frame : forall h oc h' r,
  wf h -> step h oc = (h', r) ->
  forall f ref, live h ref -> abs f h' (VRef ref) = abs f h (VRef ref).
Proof. intros h oc h' r W H f ref L. eapply op_frame_val; eauto. Qed.

Theorem proto_frame : forall h oc h' r,
  step h oc = (h', r) -> forall ref, live h ref -> proto_of h' (VRef ref) = proto_of h (VRef ref).
Proof.
  intros h oc h' r H ref L. unfold step, step_gen in H.
  destruct (step_mach PlusCopy h oc) as [m|] eqn:E; inversion H; subst; auto.
  assert (X := step_ext_of_fresh PlusCopy h oc m E).
  assert (F := step_writes_fresh h oc). unfold step_log in F. rewrite E in F.
  destruct (X F) as [_ [_ [t O]]]. unfold proto_of, get_obj. now rewrite O, nth_error_app1.
Qed.

(* ------------------------------------------------------------------ histories *)
Lemma run_wf : forall pi ops h, wf h -> wf (run pi ops h).
Proof.
  unfold run. induction ops as [|oc t IH]; intros h W; simpl; auto.
  apply IH. destruct (step_gen pi h oc) as [h1 r1] eqn:E. simpl.
  now destruct (step_gen_wf pi h oc h1 r1 W E).
Qed.

Theorem history_frame_val : forall ops h, wf h ->
  forall f v, ok h v -> abs f (run PlusCopy ops h) v = abs f h v.
Proof.
  unfold run. induction ops as [|oc t IH]; intros h W f v Hv; simpl; auto.
  destruct (step_gen PlusCopy h oc) as [h1 r1] eqn:E. simpl.
  destruct (step_gen_wf PlusCopy h oc h1 r1 W E) as [W1 _].
  rewrite IH; auto.
  - eapply op_frame_val; eauto.
  - eapply ok_mono; [|exact Hv]. eapply step_gen_le; eauto.
Qed.

(* every history, every alias: whatever was live after [ops1] reads the same after
   any continuation [ops2] *)
Theorem history_frame : forall ops1 ops2 f ref,
  live (run PlusCopy ops1 empty_heap) ref ->
  abs f (run PlusCopy (ops1 ++ ops2) empty_heap) (VRef ref) =
  abs f (run PlusCopy ops1 empty_heap) (VRef ref).
Proof.
  intros ops1 ops2 f ref L. unfold run at 1. rewrite fold_left_app.
  apply (history_frame_val ops2 (run PlusCopy ops1 empty_heap)); auto.
  apply run_wf. apply wf_empty.
Qed.

(* histories whose statements name earlier results (v7 := v3 + v5) *)
Definition good (acc : heap * list val) : Prop := wf (fst acc) /\ Forall (ok (fst acc)) (snd acc).

Lemma hstep_good : forall acc oc, good acc ->
  good (hstep PlusCopy acc oc) /\
  (exists r, snd (hstep PlusCopy acc oc) = snd acc ++ [r]) /\
  (forall f v, ok (fst acc) v -> abs f (fst (hstep PlusCopy acc oc)) v = abs f (fst acc) v).
Proof.
  intros [h env] oc [W E]. unfold hstep. simpl in *.
  destruct (step_gen PlusCopy h (subst_op env (fst oc), snd oc)) as [h1 r1] eqn:S. simpl.
  destruct (step_gen_wf _ _ _ _ _ W S) as [W1 R1].
  assert (L := step_gen_le _ _ _ _ _ S).
  split; [|split].
  - split; simpl; auto. apply Forall_app. split.
    + eapply Forall_impl; [|exact E]. intros a. now apply ok_mono.
    + constructor; auto.
  - now exists r1.
  - intros f v Hv. eapply op_frame_val; eauto.
Qed.

Theorem hrun_stable_from : forall ocs acc, good acc ->
  good (fold_left (hstep PlusCopy) ocs acc) /\
  (exists t, snd (fold_left (hstep PlusCopy) ocs acc) = snd acc ++ t) /\
  (forall f v, ok (fst acc) v -> abs f (fst (fold_left (hstep PlusCopy) ocs acc)) v = abs f (fst acc) v).
Proof.
  induction ocs as [|oc t IH]; intros acc G; simpl.
  - split; auto. split; [exists []; now rewrite app_nil_r | auto].
  - destruct (hstep_good acc oc G) as [G1 [[r Er] A1]].
    destruct (IH _ G1) as [G2 [[u Eu] A2]].
    split; auto. split.
    + exists (r :: u). rewrite Eu, Er, <- app_assoc. reflexivity.
    + intros f v Hv. rewrite A2; auto.
      destruct G as [W _]. destruct G1 as [W1 _].
      assert (X : length (objs (fst acc)) <= length (objs (fst (hstep PlusCopy acc oc)))).
      { destruct acc as [h env]. unfold hstep. simpl.
        destruct (step_gen PlusCopy h (subst_op env (fst oc), snd oc)) as [h1 r1] eqn:S. simpl.
        eapply step_gen_le; eauto. }
      eapply ok_mono; eauto.
Qed.

(* the i-th variable of a history prints/contains/inherits the same after any
   continuation of the history *)
Theorem hrun_stable : forall ocs1 ocs2 f i,
  i < length (snd (hrun PlusCopy ocs1)) ->
  abs f (fst (hrun PlusCopy (ocs1 ++ ocs2))) (nth i (snd (hrun PlusCopy (ocs1 ++ ocs2))) VNil) =
  abs f (fst (hrun PlusCopy ocs1)) (nth i (snd (hrun PlusCopy ocs1)) VNil).
Proof.
  intros ocs1 ocs2 f i Hi. unfold hrun in *. rewrite fold_left_app.
  set (acc1 := fold_left (hstep PlusCopy) ocs1 (empty_heap, [])) in *.
  assert (G0 : good (empty_heap, [])). { split; simpl; [apply wf_empty | constructor]. }
  destruct (hrun_stable_from ocs1 _ G0) as [G1 _]. fold acc1 in G1.
  destruct (hrun_stable_from ocs2 acc1 G1) as [_ [[t Et] A]].
  rewrite Et, app_nth1 by exact Hi. apply A.
  destruct G1 as [_ E]. rewrite Forall_forall in E. apply E. now apply nth_In.
Qed.

(* ------------------------------------------------------------------ the original Arr#+ *)
(* a := [1,2,3] (backing array of capacity 4, as Go's append produces for a literal);
   four := [4]; b := a + four; five := [5]   --   then   c := a + five   changes b. *)
Definition bad_hist : list (op * list nat) :=
  [ (OpArrLit [AVal (VInt 1); AVal (VInt 2); AVal (VInt 3)], [1; 2; 4]);
    (OpArrLit [AVal (VInt 4)], []);
    (OpPlus (VRef 0) (VRef 1), []);
    (OpArrLit [AVal (VInt 5)], []) ].

Theorem arr_plus_append_refuted :
  exists h oc h' r ref f,
    wf h /\ live h ref /\ step_orig h oc = (h', r) /\
    abs f h' (VRef ref) <> abs f h (VRef ref).
Proof.
  exists (run PlusAppend bad_hist empty_heap), (OpPlus (VRef 0) (VRef 3), []).
  eexists. eexists. exists 2, 3.
  split; [apply run_wf, wf_empty|].
  split; [vm_compute; repeat constructor|].
  split; [vm_compute; reflexivity|].
  vm_compute. discriminate.
Qed.

(* ... and the static ownership check of the model flags exactly that program, as the
   Go-side translator flags append(self.Elems, ...) *)
Theorem plus_append_not_fresh : forall h a b prog,
  compile PlusAppend h (OpPlus a b) = Some prog -> fresh_writes prog = false.
Proof.
  intros h a b prog H. simpl in H.
  destruct (get_arr h a), (get_arr h b); inversion H; subst. reflexivity.
Qed.

(* when there is no spare capacity the original append reallocates and the generic
   lemma applies: the defect needs cap > len *)
Example plus_append_full_cap_ok :
  let h := run PlusAppend [ (OpArrLit [AVal (VInt 1); AVal (VInt 2)], [1; 2]);
                            (OpArrLit [AVal (VInt 4)], []) ] empty_heap in
  forallb (fresh_rootb h) (step_log PlusAppend h (OpPlus (VRef 0) (VRef 1), [])) = true.
Proof. vm_compute. reflexivity. Qed.
