From Coq Require Import ZArith Bool List Lia Reals.
From Flocq Require Import Core.Zaux Core.Raux Core.Defs Core.Generic_fmt Core.FLT
     IEEE754.BinarySingleNaN IEEE754.Binary IEEE754.Bits.
From PanVerif Require Import Base.Int64 Arith.IntModel.
Local Open Scope Z_scope.

Lemma add_exact a b : in64 (a + b) -> iadd a b = RInt (a + b).
Proof. intros H. unfold iadd, add64. now rewrite wrap_id. Qed.

Lemma sub_exact a b : in64 (a - b) -> isub a b = RInt (a - b).
Proof. intros H. unfold isub, sub64. now rewrite wrap_id. Qed.

Lemma mul_exact a b : in64 (a * b) -> imul a b = RInt (a * b).
Proof. intros H. unfold imul, mul64. now rewrite wrap_id. Qed.

Lemma neg_exact a : in64 (- a) -> ineg a = RInt (- a).
Proof. intros H. unfold ineg, neg64. now rewrite wrap_id. Qed.

Lemma cmp_spec a b :
  icmp a b = RInt (match a ?= b with Lt => -1 | Eq => 0 | Gt => 1 end).
Proof.
  unfold icmp. destruct (Z.compare_spec a b) as [H|H|H].
  - subst. rewrite Z.gtb_ltb, Z.ltb_irrefl, Z.eqb_refl. reflexivity.
  - rewrite Z.gtb_ltb. destruct (Z.ltb_spec b a); [lia|].
    destruct (Z.eqb_spec a b); [lia|reflexivity].
  - rewrite Z.gtb_ltb. destruct (Z.ltb_spec b a); [reflexivity|lia].
Qed.

Lemma by_zero a :
  itruediv a 0 = RZeroDiv /\ ifloordiv a 0 = RZeroDiv /\ imod a 0 = RZeroDiv.
Proof. repeat split. Qed.

(* Truncated quotient against floor quotient. *)
Lemma quot_div_rel a b : b <> 0 ->
  Z.quot a b = if negb (Z.rem a b =? 0) && negb (Bool.eqb (a <? 0) (b <? 0))
               then a / b + 1 else a / b.
Proof.
  intros Hb.
  pose proof (Z.quot_rem' a b) as E1.
  pose proof (Z.div_mod a b Hb) as E2.
  pose proof (Z.rem_bound_abs a b Hb) as B1.
  destruct (Z.eqb_spec (Z.rem a b) 0) as [R0|R0]; cbn [negb andb].
  - rewrite R0 in E1.
    assert (a mod b = 0) by (apply Z.mod_divide; auto; exists (Z.quot a b); lia).
    nia.
  - destruct (Z.ltb_spec a 0), (Z.ltb_spec b 0); cbn [Bool.eqb negb].
    + pose proof (Z.rem_nonpos a b ltac:(lia) ltac:(lia)). pose proof (Z.mod_neg_bound a b ltac:(lia)). nia.
    + pose proof (Z.rem_nonpos a b ltac:(lia) ltac:(lia)). pose proof (Z.mod_pos_bound a b ltac:(lia)). nia.
    + pose proof (Z.rem_nonneg a b ltac:(lia) ltac:(lia)). pose proof (Z.mod_neg_bound a b ltac:(lia)). nia.
    + pose proof (Z.rem_nonneg a b ltac:(lia) ltac:(lia)). pose proof (Z.mod_pos_bound a b ltac:(lia)). nia.
Qed.

Lemma rem_in64 a b : in64 b -> b <> 0 -> in64 (Z.rem a b).
Proof.
  unfold in64, min64, max64, two63. intros Hb Hb0.
  pose proof (Z.rem_bound_abs a b Hb0). lia.
Qed.

Lemma floordiv_exact a b :
  in64 a -> in64 b -> b <> 0 -> in64 (a / b) -> ifloordiv a b = RInt (a / b).
Proof.
  intros Ha Hb Hb0 Hq. unfold ifloordiv.
  destruct (Z.eqb_spec b 0); [contradiction|].
  unfold rem64, quot64. rewrite (wrap_id (Z.rem a b)) by (apply rem_in64; assumption).
  pose proof (quot_div_rel a b Hb0) as R.
  destruct (negb (Z.rem a b =? 0) && negb (Bool.eqb (a <? 0) (b <? 0))) eqn:C.
  - (* signs differ and inexact: quotient is <= 0, so a/b + 1 still fits *)
    assert (a / b < 0) as Hneg.
    { pose proof C as C0. apply andb_true_iff in C as [_ C]. apply negb_true_iff in C.
      destruct (Z.ltb_spec a 0), (Z.ltb_spec b 0); cbn in C; try discriminate.
      - (* a < 0 <= b, b <> 0 *)
        pose proof (Z.div_mod a b Hb0). pose proof (Z.mod_pos_bound a b ltac:(lia)). nia.
      - (* 0 <= a, b < 0, rem <> 0 hence a > 0 *)
        apply andb_true_iff in C0 as [C0 _]. apply negb_true_iff in C0.
        apply Z.eqb_neq in C0.
        assert (a <> 0) by (intros ->; now rewrite Z.rem_0_l in C0).
        pose proof (Z.div_mod a b Hb0). pose proof (Z.mod_neg_bound a b ltac:(lia)). nia. }
    rewrite R. unfold in64, min64, max64, two63 in *.
    rewrite (wrap_id (a / b + 1)) by (unfold in64, min64, max64, two63; lia).
    unfold sub64. replace (a / b + 1 - 1) with (a / b) by ring.
    now rewrite wrap_id by (unfold in64, min64, max64, two63; lia).
  - rewrite R. now rewrite wrap_id.
Qed.

Lemma mod_spec a b :
  in64 b -> b <> 0 ->
  exists r, imod a b = RInt r /\ Z.abs r < Z.abs b /\ (b | a - r).
Proof.
  intros Hb Hb0. exists (Z.rem a b). unfold imod.
  destruct (Z.eqb_spec b 0); [contradiction|].
  unfold rem64. rewrite wrap_id by (apply rem_in64; assumption).
  split; [reflexivity|]. split.
  - apply Z.rem_bound_abs; assumption.
  - exists (Z.quot a b). pose proof (Z.quot_rem' a b). lia.
Qed.

Lemma pow_big a b : 2 <= Z.abs a -> 64 <= b -> ~ in64 (a ^ b).
Proof.
  intros Ha Hb H.
  assert (two64 <= Z.abs (a ^ b)) as Hbig.
  { rewrite Z.abs_pow.
    transitivity (2 ^ b).
    - change two64 with (2 ^ 64). apply Z.pow_le_mono_r; lia.
    - apply Z.pow_le_mono_l. lia. }
  unfold in64, min64, max64, two63, two64 in *. lia.
Qed.

Lemma pow_exact a b :
  0 <= b -> in64 (a ^ b) -> ipow a b = RInt (a ^ b).
Proof.
  intros Hb H. unfold ipow.
  destruct (Z.ltb_spec b 0); [lia|].
  destruct (Z.eqb_spec a 0) as [->|A0].
  { destruct (Z.eqb_spec b 0) as [->|B0]; [reflexivity|].
    now rewrite Z.pow_0_l by lia. }
  destruct (Z.eqb_spec a 1) as [->|A1]; [now rewrite Z.pow_1_l|].
  destruct (Z.eqb_spec a (-1)) as [->|Am1].
  { destruct (Z.even b) eqn:E.
    - apply Z.even_spec in E. change (-1) with (- (1)).
      rewrite Z.pow_opp_even by assumption. now rewrite Z.pow_1_l.
    - assert (Z.odd b = true) as O by (rewrite <- Z.negb_even, E; reflexivity).
      apply Z.odd_spec in O. change (-1) with (- (1)) at 2.
      rewrite Z.pow_opp_odd by assumption. now rewrite Z.pow_1_l. }
  destruct (Z.leb_spec 64 b) as [B64|B64].
  { exfalso. apply (pow_big a b); [lia|assumption|assumption]. }
  apply in64b_spec in H. now rewrite H.
Qed.

(* `/` is the correctly rounded IEEE-754 quotient of the two converted operands
   (Flocq's Bdiv_correct instantiated on the model's definition). *)
Lemma truediv_is_float_quotient a b :
  b <> 0 ->
  exists f, itruediv a b = RFloat (bits_of_b64 f) /\ f = b64_div mode_NE (z2f a) (z2f b) /\
  (B2R 53 1024 (z2f b) <> 0%R ->
   if Rlt_bool (Rabs (round radix2 (SpecFloat.fexp 53 1024) (round_mode mode_NE)
                        (B2R 53 1024 (z2f a) / B2R 53 1024 (z2f b)))) (bpow radix2 1024)
   then B2R 53 1024 f = round radix2 (SpecFloat.fexp 53 1024) (round_mode mode_NE)
                          (B2R 53 1024 (z2f a) / B2R 53 1024 (z2f b))
   else True).
Proof.
  intros Hb. eexists. unfold itruediv.
  destruct (Z.eqb_spec b 0); [contradiction|].
  split; [reflexivity|]. split; [reflexivity|].
  intros Hy.
  pose proof (Bdiv_correct 53 1024 eq_refl eq_refl binop_nan_pl64 mode_NE (z2f a) (z2f b) Hy) as C.
  destruct (Rlt_bool _ _); [|exact I].
  destruct C as [C _]. exact C.
Qed.
