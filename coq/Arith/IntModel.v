(* Executable model of the integer operator properties of props/int_props.go
   (as repaired by the fix: commits for `//` and `**`), over Base/Int64.
   Only definitions here; proofs are in IntProofs.v so that the model still
   runs when a proof breaks. *)
From Coq Require Import ZArith Bool List.
From Flocq Require Import IEEE754.BinarySingleNaN IEEE754.Binary IEEE754.Bits.
From PanVerif Require Import Base.Int64.
Local Open Scope Z_scope.

Inductive ires :=
| RInt (z : Z)            (* a PanInt *)
| RFloat (bits : Z)       (* a PanFloat, as its IEEE-754 bit pattern *)
| RZeroDiv                (* ZeroDivisionErr *)
| RFloatPath              (* the code leaves the integer path (math.Pow); not modelled *)
| ROther.                 (* anything else the implementation may answer (other error, panic, ...) *)

Definition iadd (a b : Z) : ires := RInt (add64 a b).
Definition isub (a b : Z) : ires := RInt (sub64 a b).
Definition imul (a b : Z) : ires := RInt (mul64 a b).
Definition ineg (a : Z) : ires := RInt (neg64 a).

(* `//`: res := a / b (truncating); if a%b != 0 and the signs differ, res-1. *)
Definition ifloordiv (a b : Z) : ires :=
  if b =? 0 then RZeroDiv else
  let res := quot64 a b in
  if negb (rem64 a b =? 0) && negb (Bool.eqb (a <? 0) (b <? 0))
  then RInt (sub64 res 1) else RInt res.

(* `%`: Go's remainder (sign of the dividend). *)
Definition imod (a b : Z) : ires :=
  if b =? 0 then RZeroDiv else RInt (rem64 a b).

Definition icmp (a b : Z) : ires :=
  if a >? b then RInt 1 else if a =? b then RInt 0 else RInt (-1).

(* `**`: intPow(base, exp): exp < 0 -> float path; base 0, 1, -1 answered
   directly; exp >= 64 -> float path; otherwise big.Int.Exp and IsInt64. *)
Definition ipow (a b : Z) : ires :=
  if b <? 0 then RFloatPath else
  if a =? 0 then RInt (if b =? 0 then 1 else 0) else
  if a =? 1 then RInt 1 else
  if a =? -1 then RInt (if Z.even b then 1 else -1) else
  if 64 <=? b then RFloatPath else
  let r := a ^ b in
  if in64b r then RInt r else RFloatPath.

(* `/`: float64(a) / float64(b), IEEE-754 binary64, round to nearest even. *)
Definition z2f (a : Z) : binary64 :=
  binary_normalize 53 1024 eq_refl eq_refl mode_NE a 0 false.
Definition itruediv (a b : Z) : ires :=
  if b =? 0 then RZeroDiv
  else RFloat (bits_of_b64 (b64_div mode_NE (z2f a) (z2f b))).

Inductive iop := OAdd | OSub | OMul | ONeg | OPow | OFloorDiv | OMod | ODiv | OCmp.

Definition iapply (o : iop) (a b : Z) : ires :=
  match o with
  | OAdd => iadd a b | OSub => isub a b | OMul => imul a b | ONeg => ineg a
  | OPow => ipow a b | OFloorDiv => ifloordiv a b | OMod => imod a b
  | ODiv => itruediv a b | OCmp => icmp a b
  end.

(* correspondence: a case is (op, a, b, what Go returned); mismatches lists the
   cases on which the model disagrees. RFloatPath on the model side matches
   anything (outside the property). *)
Definition ires_eqb (x y : ires) : bool :=
  match x, y with
  | RInt a, RInt b => a =? b
  | RFloat a, RFloat b => a =? b
  | RZeroDiv, RZeroDiv => true
  | RFloatPath, _ => true
  | _, _ => false
  end.

Definition icase := (Z * iop * Z * Z * ires)%type.   (* index, op, a, b, what Go returned *)
Definition mismatches (cs : list icase) : list (Z * ires) :=
  flat_map (fun c => match c with (i, o, a, b, r) =>
     let m := iapply o a b in if ires_eqb m r then nil else (i, m) :: nil end) cs.
