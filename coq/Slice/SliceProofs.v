(* Specification of indexing / slicing (Python's semantics) and the proofs that the
   model of the repaired evaluator/index.go (SliceModel.v) meets it for sequences of
   every length and all int64 / nil bounds. *)
From Coq Require Import ZArith Lia Bool List Sorted.
From PanVerif Require Import Base.Int64 Slice.SliceModel.
Import ListNotations.
Local Open Scope Z_scope.

(* ---------------------------------------------------------------- the spec *)

(* a bound after defaulting and clamping: negative bounds count from the end *)
Definition adjust (n lower upper : Z) (b : option Z) (dflt : Z) : Z :=
  match b with
  | None => dflt
  | Some i => if i <? 0 then Z.max lower (i + n) else Z.min upper i
  end.

(* step > 0: bounds live in [0, n], defaults 0 and n;
   step < 0: bounds live in [-1, n-1], defaults n-1 and -1. *)
Definition sstart (n : Z) (a : option Z) (step : Z) : Z :=
  if step <? 0 then adjust n (-1) (n - 1) a (n - 1) else adjust n 0 n a 0.
Definition sstop (n : Z) (b : option Z) (step : Z) : Z :=
  if step <? 0 then adjust n (-1) (n - 1) b (-1) else adjust n 0 n b n.

(* number of s, s+step, s+2*step, ... strictly before e (in the direction of step) *)
Definition count (s e step : Z) : Z :=
  if step <? 0 then (if e <? s then (s - e - 1) / (- step) + 1 else 0)
  else (if s <? e then (e - s - 1) / step + 1 else 0).

Definition progression (s step : Z) (c : nat) : list Z :=
  map (fun k => s + Z.of_nat k * step) (seq 0 c).

Definition positions (n : Z) (a b : option Z) (step : Z) : list Z :=
  let s := sstart n a step in
  let e := sstop n b step in
  progression s step (Z.to_nat (count s e step)).

Definition stepOf (r : range) : Z := match rstep r with Some s => s | None => 1 end.
Definition positionsOf (n : Z) (r : range) : list Z :=
  positions n (rstart r) (rstop r) (stepOf r).

Definition before (step p e : Z) : Prop := if step <? 0 then e < p else p < e.

(* ------------------------------------------------------ int64 housekeeping *)

Lemma len64_nonneg A (l : list A) : 0 <= len64 l.
Proof. unfold len64. lia. Qed.

Lemma in64_small n z : 0 <= n -> in64 (2 * n + 2) -> - (2 * n + 2) <= z <= 2 * n + 2 -> in64 z.
Proof. unfold in64, min64, max64, two63. lia. Qed.

Lemma add64_small n a b : 0 <= n -> in64 (2 * n + 2) ->
  - (2 * n + 2) <= a + b <= 2 * n + 2 -> add64 a b = a + b.
Proof. intros Hn H Hr. unfold add64. apply wrap_id. eapply in64_small; eauto. Qed.

Lemma neg64_small n a : 0 <= n -> in64 (2 * n + 2) ->
  - (2 * n + 2) <= a <= 2 * n + 2 -> neg64 a = - a.
Proof. intros Hn H Hr. unfold neg64. apply wrap_id. eapply in64_small; eauto. lia. Qed.

Lemma sub64_small n a b : 0 <= n -> in64 (2 * n + 2) ->
  - (2 * n + 2) <= a - b <= 2 * n + 2 -> sub64 a b = a - b.
Proof. intros Hn H Hr. unfold sub64. apply wrap_id. eapply in64_small; eauto. Qed.

Ltac side := first [assumption | lia].

(* ------------------------------------------------------------ single index *)

Lemma goIndex_some A (l : list A) k : 0 <= k < len64 l ->
  exists a, goIndex l k = Some a /\ nth_error l (Z.to_nat k) = Some a.
Proof.
  intros Hk. unfold goIndex, len64 in *.
  destruct (k <? 0) eqn:E; [apply Z.ltb_lt in E; lia|].
  destruct (nth_error l (Z.to_nat k)) eqn:En; [eauto|].
  apply nth_error_None in En. lia.
Qed.

Lemma mod_neg_index i n : - n <= i < 0 -> i mod n = i + n.
Proof.
  intros H. symmetry. apply Z.mod_unique with (q := -1); lia.
Qed.

Lemma seqIndex_cases A (l : list A) i : in64 (2 * len64 l + 2) ->
  (~ (- len64 l <= i < len64 l) /\ seqIndex i l = Nil) \/
  (- len64 l <= i < len64 l /\
   exists a, seqIndex i l = Val a /\ nth_error l (Z.to_nat (i mod len64 l)) = Some a).
Proof.
  intros H64. pose proof (len64_nonneg A l) as Hn.
  unfold seqIndex.
  rewrite (neg64_small (len64 l)) by side.
  destruct (i >=? len64 l) eqn:E1; cbn [orb].
  { left. apply Z.geb_le in E1. split; [lia|reflexivity]. }
  destruct (i <? - len64 l) eqn:E2.
  { left. apply Z.ltb_lt in E2. split; [lia|reflexivity]. }
  right. rewrite Z.geb_leb in E1. apply Z.leb_gt in E1. apply Z.ltb_ge in E2.
  split; [lia|].
  destruct (i <? 0) eqn:E3.
  - apply Z.ltb_lt in E3.
    rewrite (add64_small (len64 l)) by side.
    destruct (goIndex_some A l (i + len64 l)) as [a [Ha Hb]]; [lia|].
    exists a. rewrite Ha. split; [reflexivity|].
    rewrite mod_neg_index by lia. exact Hb.
  - apply Z.ltb_ge in E3.
    destruct (goIndex_some A l i) as [a [Ha Hb]]; [lia|].
    exists a. rewrite Ha. split; [reflexivity|].
    rewrite Z.mod_small by lia. exact Hb.
Qed.

Lemma index_spec A (l : list A) i d : in64 (2 * len64 l + 2) ->
  arrIndex i l =
  if (- len64 l <=? i) && (i <? len64 l)
  then Val (nth (Z.to_nat (i mod len64 l)) l d) else Nil.
Proof.
  intros H64. unfold arrIndex.
  destruct (seqIndex_cases A l i H64) as [[Hout Hr] | [Hin [a [Hr Hn]]]]; rewrite Hr.
  - destruct (- len64 l <=? i) eqn:E1; destruct (i <? len64 l) eqn:E2; cbn [andb]; try reflexivity.
    apply Z.leb_le in E1. apply Z.ltb_lt in E2. lia.
  - replace (- len64 l <=? i) with true by (symmetry; apply Z.leb_le; lia).
    replace (i <? len64 l) with true by (symmetry; apply Z.ltb_lt; lia).
    cbn [andb]. f_equal. symmetry. apply nth_error_nth. exact Hn.
Qed.

Lemma str_index_spec (s : list Z) i d : in64 (2 * len64 s + 2) ->
  strIndex i s =
  if (- len64 s <=? i) && (i <? len64 s)
  then Val [nth (Z.to_nat (i mod len64 s)) s d] else Nil.
Proof.
  intros H64. unfold strIndex.
  pose proof (index_spec Z s i d H64) as H. unfold arrIndex in H. rewrite H.
  destruct ((- len64 s <=? i) && (i <? len64 s)); reflexivity.
Qed.

Lemma seqIndex_in_range A (l : list A) p d : in64 (2 * len64 l + 2) ->
  0 <= p < len64 l -> seqIndex p l = Val (nth (Z.to_nat p) l d).
Proof.
  intros H64 Hp. pose proof (index_spec A l p d H64) as H. unfold arrIndex in H.
  rewrite H.
  replace (- len64 l <=? p) with true by (symmetry; apply Z.leb_le; lia).
  replace (p <? len64 l) with true by (symmetry; apply Z.ltb_lt; lia).
  cbn [andb]. rewrite Z.mod_small by lia. reflexivity.
Qed.

(* --------------------------------------------------- facts about the spec *)

Lemma progression_S s step c :
  progression s step (S c) = s :: progression (s + step) step c.
Proof.
  unfold progression. cbn [seq map]. f_equal; [lia|].
  rewrite <- seq_shift, map_map. apply map_ext. intros k. lia.
Qed.

Lemma progression_In s step c p :
  In p (progression s step c) <-> exists k, 0 <= k < Z.of_nat c /\ p = s + k * step.
Proof.
  unfold progression. rewrite in_map_iff. split.
  - intros [k [Hk Hin]]. apply in_seq in Hin. exists (Z.of_nat k). split; [lia|auto].
  - intros [k [Hk Hp]]. exists (Z.to_nat k). split; [rewrite Z2Nat.id by lia; auto|].
    apply in_seq. lia.
Qed.

Lemma sstart_range n a step : 0 <= n ->
  if step <? 0 then -1 <= sstart n a step <= n - 1 else 0 <= sstart n a step <= n.
Proof.
  intros Hn. unfold sstart, adjust. destruct (step <? 0); destruct a as [i|]; try lia;
    destruct (Z.ltb_spec i 0); lia.
Qed.

Lemma sstop_range n b step : 0 <= n ->
  if step <? 0 then -1 <= sstop n b step <= n - 1 else 0 <= sstop n b step <= n.
Proof.
  intros Hn. unfold sstop, adjust. destruct (step <? 0); destruct b as [i|]; try lia;
    destruct (Z.ltb_spec i 0); lia.
Qed.

Lemma count_nonneg s e step : step <> 0 -> 0 <= count s e step.
Proof.
  intros Hs. unfold count.
  destruct (step <? 0) eqn:E.
  - apply Z.ltb_lt in E. destruct (e <? s) eqn:E2; [|lia]. apply Z.ltb_lt in E2.
    assert (0 <= (s - e - 1) / - step) by (apply Z.div_pos; lia). lia.
  - apply Z.ltb_ge in E. destruct (s <? e) eqn:E2; [|lia]. apply Z.ltb_lt in E2.
    assert (0 <= (e - s - 1) / step) by (apply Z.div_pos; lia). lia.
Qed.

(* the k-th candidate is kept iff it lies strictly before the stop *)
Lemma count_char s e step k : step <> 0 -> 0 <= k ->
  (k < count s e step <-> before step (s + k * step) e).
Proof.
  intros Hs Hk. unfold count, before.
  destruct (step <? 0) eqn:E.
  - apply Z.ltb_lt in E. destruct (e <? s) eqn:E2.
    + apply Z.ltb_lt in E2. split; intros H.
      * assert (k <= (s - e - 1) / - step) as H1 by lia.
        assert (- step * ((s - e - 1) / - step) <= s - e - 1) by (apply Z.mul_div_le; lia).
        nia.
      * assert (k <= (s - e - 1) / - step); [|lia].
        apply Z.div_le_lower_bound; [lia|nia].
    + apply Z.ltb_ge in E2. split; intros H; [lia|nia].
  - apply Z.ltb_ge in E. destruct (s <? e) eqn:E2.
    + apply Z.ltb_lt in E2. split; intros H.
      * assert (k <= (e - s - 1) / step) as H1 by lia.
        assert (step * ((e - s - 1) / step) <= e - s - 1) by (apply Z.mul_div_le; lia).
        nia.
      * assert (k <= (e - s - 1) / step); [|lia].
        apply Z.div_le_lower_bound; [lia|nia].
    + apply Z.ltb_ge in E2. split; intros H; [lia|nia].
Qed.

Lemma hasNext_before step i e : hasNext step i e = true <-> before step i e.
Proof.
  unfold hasNext, before. destruct (step <? 0).
  - rewrite Z.gtb_ltb, Z.ltb_lt. tauto.
  - rewrite Z.ltb_lt. tauto.
Qed.

Lemma count_pos s e step : step <> 0 -> (0 < count s e step <-> before step s e).
Proof.
  intros Hs. pose proof (count_char s e step 0 Hs (Z.le_refl 0)) as H.
  replace (s + 0 * step) with s in H by lia. exact H.
Qed.

Lemma count_step s e step : step <> 0 -> before step s e ->
  count (s + step) e step = count s e step - 1.
Proof.
  intros Hs Hb. unfold before in Hb. unfold count.
  destruct (step <? 0) eqn:E.
  - apply Z.ltb_lt in E.
    replace (e <? s) with true by (symmetry; apply Z.ltb_lt; lia).
    destruct (e <? s + step) eqn:E2.
    + apply Z.ltb_lt in E2.
      replace (s + step - e - 1) with ((s - e - 1) + (-1) * (- step)) by lia.
      rewrite Z.div_add by lia. lia.
    + apply Z.ltb_ge in E2. rewrite Z.div_small by lia. lia.
  - apply Z.ltb_ge in E.
    replace (s <? e) with true by (symmetry; apply Z.ltb_lt; lia).
    destruct (s + step <? e) eqn:E2.
    + apply Z.ltb_lt in E2.
      replace (e - (s + step) - 1) with ((e - s - 1) + (-1) * step) by lia.
      rewrite Z.div_add by lia. lia.
    + apply Z.ltb_ge in E2. rewrite Z.div_small by lia. lia.
Qed.

Lemma count_le_n n s e step : 0 <= n -> step <> 0 ->
  (if step <? 0 then -1 <= s <= n - 1 /\ -1 <= e <= n - 1 else 0 <= s <= n /\ 0 <= e <= n) ->
  count s e step <= n.
Proof.
  intros Hn Hs Hr. unfold count. destruct (step <? 0) eqn:E.
  - apply Z.ltb_lt in E. destruct (e <? s) eqn:E2; [|lia]. apply Z.ltb_lt in E2.
    assert ((s - e - 1) / - step <= s - e - 1); [|lia].
    apply Z.div_le_upper_bound; [lia|nia].
  - apply Z.ltb_ge in E. destruct (s <? e) eqn:E2; [|lia]. apply Z.ltb_lt in E2.
    assert ((e - s - 1) / step <= e - s - 1); [|lia].
    apply Z.div_le_upper_bound; [lia|nia].
Qed.

(* membership in positions, declaratively *)
Lemma positions_char n a b step p : step <> 0 ->
  (In p (positions n a b step) <->
   exists k, 0 <= k /\ p = sstart n a step + k * step /\ before step p (sstop n b step)).
Proof.
  intros Hs. unfold positions. rewrite progression_In.
  pose proof (count_nonneg (sstart n a step) (sstop n b step) step Hs) as Hc.
  rewrite Z2Nat.id by lia. split.
  - intros [k [Hk Hp]]. exists k. subst p. split; [lia|]. split; [reflexivity|].
    apply count_char; lia.
  - intros [k [Hk [Hp Hb]]]. exists k. subst p. split; [|reflexivity].
    split; [lia|]. apply count_char; assumption.
Qed.

Lemma positions_in_range n a b step p : 0 <= n -> step <> 0 ->
  In p (positions n a b step) -> 0 <= p < n.
Proof.
  intros Hn Hs Hin. apply positions_char in Hin; [|assumption].
  destruct Hin as [k [Hk [Hp Hb]]].
  pose proof (sstart_range n a step Hn) as H1.
  pose proof (sstop_range n b step Hn) as H2.
  unfold before in Hb. destruct (step <? 0) eqn:E.
  - apply Z.ltb_lt in E. nia.
  - apply Z.ltb_ge in E. nia.
Qed.

Lemma progression_sorted_up s step c : 0 < step -> StronglySorted Z.lt (progression s step c).
Proof.
  intros Hs. revert s. induction c as [|c IH]; intros s.
  - constructor.
  - rewrite progression_S. constructor; [apply IH|].
    apply Forall_forall. intros p Hp. apply progression_In in Hp.
    destruct Hp as [k [Hk Hp]]. nia.
Qed.

Lemma progression_sorted_down s step c : step < 0 -> StronglySorted Z.gt (progression s step c).
Proof.
  intros Hs. revert s. induction c as [|c IH]; intros s.
  - constructor.
  - rewrite progression_S. constructor; [apply IH|].
    apply Forall_forall. intros p Hp. apply progression_In in Hp.
    destruct Hp as [k [Hk Hp]]. nia.
Qed.

Lemma positions_valid n a b step : 0 <= n -> step <> 0 ->
  (forall p, In p (positions n a b step) -> 0 <= p < n) /\
  (0 < step -> StronglySorted Z.lt (positions n a b step)) /\
  (step < 0 -> StronglySorted Z.gt (positions n a b step)) /\
  (exists c, positions n a b step = progression (sstart n a step) step c).
Proof.
  intros Hn Hs. split; [|split; [|split]].
  - intros p. apply positions_in_range; assumption.
  - intros H. apply progression_sorted_up. exact H.
  - intros H. apply progression_sorted_down. exact H.
  - eexists. reflexivity.
Qed.

(* ------------------------------------------------ the model meets the spec *)

Definition clip (n step : Z) : Z :=
  if step >? n + 1 then n + 1 else if step <? - (n + 1) then - (n + 1) else step.

Lemma clipStep_clip n step : 0 <= n -> in64 (2 * n + 2) -> clipStep n step = clip n step.
Proof.
  intros Hn H64. unfold clipStep, clip.
  rewrite (add64_small n) by side. rewrite (neg64_small n) by side. reflexivity.
Qed.

Lemma clip_props n step : 0 <= n -> step <> 0 ->
  clip n step <> 0 /\ - (n + 1) <= clip n step <= n + 1 /\
  (clip n step <? 0) = (step <? 0).
Proof.
  intros Hn Hs. unfold clip.
  destruct (step >? n + 1) eqn:E1.
  - rewrite Z.gtb_ltb in E1. apply Z.ltb_lt in E1.
    split; [lia|]. split; [lia|].
    transitivity false; [apply Z.ltb_ge; lia|symmetry; apply Z.ltb_ge; lia].
  - rewrite Z.gtb_ltb in E1. apply Z.ltb_ge in E1.
    destruct (step <? - (n + 1)) eqn:E2.
    + apply Z.ltb_lt in E2. split; [lia|]. split; [lia|].
      transitivity true; [apply Z.ltb_lt; lia|symmetry; apply Z.ltb_lt; lia].
    + apply Z.ltb_ge in E2. split; [lia|]. split; [lia|reflexivity].
Qed.

(* a step beyond the size selects the same positions as the clipped step *)
Lemma positions_clip n a b step : 0 <= n -> step <> 0 ->
  positions n a b (clip n step) = positions n a b step.
Proof.
  intros Hn Hs.
  destruct (clip_props n step Hn Hs) as [Hc0 [Hcr Hsign]].
  unfold positions.
  assert (sstart n a (clip n step) = sstart n a step) as -> by (unfold sstart; rewrite Hsign; reflexivity).
  assert (sstop n b (clip n step) = sstop n b step) as -> by (unfold sstop; rewrite Hsign; reflexivity).
  pose proof (sstart_range n a step Hn) as H1.
  pose proof (sstop_range n b step Hn) as H2.
  set (s := sstart n a step) in *. set (e := sstop n b step) in *.
  unfold clip in *.
  destruct (step >? n + 1) eqn:E1.
  - rewrite Z.gtb_ltb in E1. apply Z.ltb_lt in E1.
    replace (step <? 0) with false in * by (symmetry; apply Z.ltb_ge; lia).
    unfold count.
    replace (n + 1 <? 0) with false by (symmetry; apply Z.ltb_ge; lia).
    replace (step <? 0) with false by (symmetry; apply Z.ltb_ge; lia).
    destruct (s <? e) eqn:E2; [|reflexivity]. apply Z.ltb_lt in E2.
    rewrite !Z.div_small by lia. change (Z.to_nat (0 + 1)) with 1%nat.
    unfold progression. cbn [seq map Z.of_nat]. rewrite !Z.mul_0_l. reflexivity.
  - destruct (step <? - (n + 1)) eqn:E2; [|reflexivity].
    apply Z.ltb_lt in E2.
    replace (step <? 0) with true in * by (symmetry; apply Z.ltb_lt; lia).
    unfold count.
    replace (- (n + 1) <? 0) with true by (symmetry; apply Z.ltb_lt; lia).
    replace (step <? 0) with true by (symmetry; apply Z.ltb_lt; lia).
    destruct (e <? s) eqn:E3; [|reflexivity]. apply Z.ltb_lt in E3.
    rewrite !Z.div_small by lia. change (Z.to_nat (0 + 1)) with 1%nat.
    unfold progression. cbn [seq map Z.of_nat]. rewrite !Z.mul_0_l. reflexivity.
Qed.

Lemma fixBound_adjust n lower upper i : 0 <= n -> in64 (2 * n + 2) ->
  -1 <= lower <= 0 -> n - 1 <= upper <= n -> upper - lower = n ->
  fixBound n lower upper i = adjust n lower upper (Some i) 0.
Proof.
  intros Hn H64 Hl Hu Hlu. unfold fixBound, adjust.
  rewrite (neg64_small n) by side.
  destruct (i <? 0) eqn:E1.
  - apply Z.ltb_lt in E1. destruct (i <? - n) eqn:E2.
    + apply Z.ltb_lt in E2. lia.
    + apply Z.ltb_ge in E2. rewrite (add64_small n) by side. lia.
  - apply Z.ltb_ge in E1. destruct (i >? upper) eqn:E2.
    + rewrite Z.gtb_ltb in E2. apply Z.ltb_lt in E2. lia.
    + rewrite Z.gtb_ltb in E2. apply Z.ltb_ge in E2. lia.
Qed.

Lemma fixRange_spec r n step : 0 <= n -> in64 (2 * n + 2) -> step <> 0 ->
  fixRange r n step = (sstart n (rstart r) step, sstop n (rstop r) step).
Proof.
  intros Hn H64 Hs. unfold fixRange, sstart, sstop.
  rewrite (sub64_small n) by side.
  destruct (step <? 0) eqn:E.
  - apply Z.ltb_lt in E.
    replace (step >? 0) with false by (symmetry; rewrite Z.gtb_ltb; apply Z.ltb_ge; lia).
    f_equal.
    + destruct (rstart r) as [i|]; [|reflexivity].
      rewrite fixBound_adjust by side. reflexivity.
    + destruct (rstop r) as [i|]; [|reflexivity].
      rewrite fixBound_adjust by side. reflexivity.
  - apply Z.ltb_ge in E.
    replace (step >? 0) with true by (symmetry; rewrite Z.gtb_ltb; apply Z.ltb_lt; lia).
    f_equal.
    + destruct (rstart r) as [i|]; [|reflexivity].
      rewrite fixBound_adjust by side. reflexivity.
    + destruct (rstop r) as [i|]; [|reflexivity].
      rewrite fixBound_adjust by side. reflexivity.
Qed.

(* the stepping loop, for a step that cannot overflow *)
Lemma loop_spec A B (vi : Z -> res A) (f : Z -> B) (g : A -> B) n step e :
  0 <= n -> in64 (2 * n + 2) -> step <> 0 -> - (n + 1) <= step <= n + 1 ->
  -1 <= e <= n ->
  (forall p, 0 <= p < n -> exists a, vi p = Val a /\ g a = f p) ->
  forall m i fuel,
    Z.to_nat (count i e step) = m -> (m < fuel)%nat ->
    (0 < step -> 0 <= i) -> (step < 0 -> i <= n - 1) ->
    exists out, rangeLoop fuel vi step e i = Val out /\
      map (fun o => match o with Some a => Some (g a) | None => None end) out =
      map (fun p => Some (f p)) (progression i step m).
Proof.
  intros Hn H64 Hs Hsr He Hvi.
  induction m as [|m IH]; intros i fuel Hc Hf Hup Hdown.
  - destruct fuel as [|fuel]; [lia|]. cbn [rangeLoop].
    assert (~ before step i e) as Hnb.
    { intros Hb. apply count_pos in Hb; [|assumption]. lia. }
    destruct (hasNext step i e) eqn:Eh; [apply hasNext_before in Eh; contradiction|].
    exists []. split; reflexivity.
  - destruct fuel as [|fuel]; [lia|]. cbn [rangeLoop].
    assert (before step i e) as Hb by (apply count_pos; [assumption|lia]).
    assert (0 <= i < n) as Hi.
    { unfold before in Hb. destruct (step <? 0) eqn:E.
      - apply Z.ltb_lt in E. lia.
      - apply Z.ltb_ge in E. lia. }
    replace (hasNext step i e) with true by (symmetry; apply hasNext_before; exact Hb).
    destruct (Hvi i Hi) as [a [Ha Hga]]. rewrite Ha.
    rewrite (add64_small n) by side.
    destruct (IH (i + step) fuel) as [out [Hout Hmap]].
    + rewrite count_step by assumption. lia.
    + lia.
    + lia.
    + lia.
    + rewrite Hout. exists (Some a :: out). split; [reflexivity|].
      rewrite progression_S. cbn [map]. rewrite Hga, Hmap. reflexivity.
Qed.

Lemma valRange_spec A B (vi : Z -> res A) (f : Z -> B) (g : A -> B) r n :
  0 <= n -> in64 (2 * n + 2) -> stepOf r <> 0 ->
  (forall p, 0 <= p < n -> exists a, vi p = Val a /\ g a = f p) ->
  exists out, valRange r n vi = Val out /\
    map (fun o => match o with Some a => Some (g a) | None => None end) out =
    map (fun p => Some (f p)) (positionsOf n r).
Proof.
  intros Hn H64 Hs Hvi. unfold valRange. fold (stepOf r).
  replace (stepOf r =? 0) with false by (symmetry; apply Z.eqb_neq; exact Hs).
  rewrite clipStep_clip by assumption.
  destruct (clip_props n (stepOf r) Hn Hs) as [Hc0 [Hcr Hsign]].
  rewrite fixRange_spec by assumption.
  unfold positionsOf. rewrite <- (positions_clip n _ _ (stepOf r)) by assumption.
  unfold positions.
  pose proof (sstart_range n (rstart r) (clip n (stepOf r)) Hn) as H1.
  pose proof (sstop_range n (rstop r) (clip n (stepOf r)) Hn) as H2.
  set (st := clip n (stepOf r)) in *.
  set (s := sstart n (rstart r) st) in *. set (e := sstop n (rstop r) st) in *.
  assert (count s e st <= n) as Hcn.
  { apply count_le_n; [assumption|assumption|]. destruct (st <? 0); lia. }
  pose proof (count_nonneg s e st Hc0) as Hc1.
  apply (loop_spec A B vi f g n st e Hn H64 Hc0 Hcr); try assumption.
  - destruct (st <? 0); lia.
  - reflexivity.
  - lia.
  - intros Hp. destruct (st <? 0) eqn:E; [apply Z.ltb_lt in E; lia|lia].
  - intros Hp. destruct (st <? 0) eqn:E; [lia|apply Z.ltb_ge in E; lia].
Qed.

Lemma map_opt_id A (out : list (option A)) (l : list A) :
  map (fun o => match o with Some a => Some a | None => None end) out = map Some l ->
  out = map Some l.
Proof.
  intros H. rewrite <- H. clear H. induction out as [|[a|] out IH]; cbn [map]; [reflexivity| |];
    f_equal; exact IH.
Qed.

(* slicing an array: exactly the elements at the positions of the spec, in order *)
Theorem slice_refines_spec A (l : list A) r d :
  in64 (2 * len64 l + 2) -> stepOf r <> 0 ->
  arrRange r l = Val (map (fun p => Some (nth (Z.to_nat p) l d)) (positionsOf (len64 l) r)).
Proof.
  intros H64 Hs. pose proof (len64_nonneg A l) as Hn.
  destruct (valRange_spec A A (fun i => arrIndex i l) (fun p => nth (Z.to_nat p) l d) (fun a => a)
              r (len64 l) Hn H64 Hs) as [out [Hout Hmap]].
  - intros p Hp. eexists. split; [apply seqIndex_in_range; assumption|reflexivity].
  - unfold arrRange. rewrite Hout. f_equal.
    rewrite <- map_map with (f := fun p => nth (Z.to_nat p) l d) (g := Some) in Hmap.
    apply map_opt_id in Hmap. rewrite Hmap, map_map. reflexivity.
Qed.

Lemma strConcat_singletons (f : Z -> Z) ps out :
  map (fun o => match o with Some a => Some (hd 0 a) | None => None end) out = map (fun p => Some (f p)) ps ->
  Forall (fun o => match o with Some a => length a = 1%nat | None => True end) out ->
  strConcat out = Val (map f ps).
Proof.
  revert ps. induction out as [|o out IH]; intros ps Hmap Hall.
  - destruct ps; [reflexivity|discriminate].
  - destruct ps as [|p ps]; [discriminate|]. cbn [map] in Hmap.
    inversion Hmap as [[H1 H2]]. inversion Hall as [|? ? Ho Hall']; subst.
    destruct o as [a|]; [|discriminate].
    cbn [strConcat]. rewrite (IH ps H2 Hall').
    destruct a as [|c [|? ?]]; cbn in Ho; try discriminate.
    cbn in H1. inversion H1. reflexivity.
Qed.

Lemma rangeLoop_singletons fuel (s : list Z) step e : forall i out,
  rangeLoop fuel (fun i => strIndex i s) step e i = Val out ->
  Forall (fun o => match o with Some a => length a = 1%nat | None => True end) out.
Proof.
  induction fuel as [|fuel IH]; intros i out H; cbn [rangeLoop] in H; [discriminate|].
  destruct (hasNext step i e).
  - unfold strIndex in H at 1.
    destruct (seqIndex i s) eqn:Es; try discriminate;
      destruct (rangeLoop fuel (fun i0 : Z => strIndex i0 s) step e (add64 i step)) eqn:El;
      try discriminate; inversion H; subst; constructor; try (eapply IH; eassumption); auto.
  - inversion H. constructor.
Qed.

(* slicing a string: the code points at the positions of the spec, in order *)
Theorem str_slice_refines_spec (s : list Z) r d :
  in64 (2 * len64 s + 2) -> stepOf r <> 0 ->
  strRange r s = Val (map (fun p => nth (Z.to_nat p) s d) (positionsOf (len64 s) r)).
Proof.
  intros H64 Hs. pose proof (len64_nonneg Z s) as Hn.
  destruct (valRange_spec (list Z) Z (fun i => strIndex i s) (fun p => nth (Z.to_nat p) s d) (hd 0)
              r (len64 s) Hn H64 Hs) as [out [Hout Hmap]].
  - intros p Hp. unfold strIndex. rewrite (seqIndex_in_range Z s p d) by assumption.
    eexists. split; reflexivity.
  - unfold strRange. rewrite Hout. apply strConcat_singletons; [exact Hmap|].
    unfold valRange in Hout.
    destruct (match rstep r with Some s0 => s0 | None => 1 end =? 0); [discriminate|].
    destruct (fixRange r (len64 s) _) as [a b].
    eapply rangeLoop_singletons. exact Hout.
Qed.

(* --------------------------------------------------------------- corollaries *)

Theorem zero_step A (l : list A) (s : list Z) r : stepOf r = 0 ->
  arrRange r l = ErrValue /\ strRange r s = ErrValue.
Proof.
  intros H. unfold arrRange, strRange, valRange. fold (stepOf r). rewrite H. split; reflexivity.
Qed.

Lemma positions_nil0 a b step : step <> 0 -> positions 0 a b step = [].
Proof.
  intros Hs. destruct (positions 0 a b step) as [|p ps] eqn:E; [reflexivity|].
  assert (0 <= p < 0); [|lia].
  apply (positions_in_range 0 a b step p); [lia|assumption|]. rewrite E. apply in_eq.
Qed.

Lemma arrRange_total A (l : list A) r :
  in64 (2 * len64 l + 2) -> stepOf r <> 0 -> exists out, arrRange r l = Val out.
Proof.
  intros H64 Hs. pose proof (len64_nonneg A l) as Hn.
  destruct (valRange_spec A unit (fun i => arrIndex i l) (fun _ => tt) (fun _ => tt)
              r (len64 l) Hn H64 Hs) as [out [Hout _]].
  - intros p Hp. destruct (seqIndex_cases A l p H64) as [[Hout _] | [_ [a [Hr _]]]]; [lia|].
    exists a. split; [exact Hr|reflexivity].
  - exists out. exact Hout.
Qed.

(* every element of a slice is an element of the sequence; no nil is invented *)
Theorem nothing_invented A (l : list A) r out :
  in64 (2 * len64 l + 2) -> arrRange r l = Val out ->
  Forall (fun o => exists a, o = Some a /\ In a l) out.
Proof.
  intros H64 Hout. pose proof (len64_nonneg A l) as Hn.
  destruct (Z.eq_dec (stepOf r) 0) as [Hz|Hs].
  { destruct (zero_step A l [] r Hz) as [H _]. rewrite H in Hout. discriminate. }
  destruct l as [|d l'].
  - destruct (valRange_spec A unit (fun i => arrIndex i (@nil A)) (fun _ => tt) (fun _ => tt)
                r (len64 (@nil A)) Hn H64 Hs) as [out' [Hout' Hmap]].
    + intros p Hp. unfold len64 in Hp. cbn in Hp. lia.
    + unfold arrRange in Hout. rewrite Hout' in Hout. inversion Hout; subst out'.
      unfold positionsOf in Hmap. change (len64 (@nil A)) with 0 in Hmap.
      rewrite positions_nil0 in Hmap by assumption.
      destruct out; [constructor|discriminate].
  - remember (d :: l') as l eqn:El. clear El l'.
    rewrite (slice_refines_spec A l r d H64 Hs) in Hout. injection Hout as Hout. subst out.
    apply Forall_forall. intros o Ho. apply in_map_iff in Ho. destruct Ho as [p [Hp Hin]].
    apply positions_in_range in Hin; [|assumption|assumption].
    eexists. split; [symmetry; exact Hp|]. apply nth_In. unfold len64 in Hin. lia.
Qed.

Theorem str_nothing_invented (s : list Z) r out :
  in64 (2 * len64 s + 2) -> strRange r s = Val out -> incl out s.
Proof.
  intros H64 Hout. pose proof (len64_nonneg Z s) as Hn.
  destruct (Z.eq_dec (stepOf r) 0) as [Hz|Hs].
  { destruct (zero_step Z s s r Hz) as [_ H]. rewrite H in Hout. discriminate. }
  rewrite (str_slice_refines_spec s r 0 H64 Hs) in Hout. injection Hout as Hout. subst out.
  intros c Hc. apply in_map_iff in Hc. destruct Hc as [p [Hp Hin]].
  apply positions_in_range in Hin; [|assumption|assumption].
  subst c. apply nth_In. unfold len64 in Hin. lia.
Qed.

(* no partial Go operation of index.go is reached outside its domain, and the loop stops *)
Theorem slice_no_panic A (l : list A) (s : list Z) r i :
  in64 (2 * len64 l + 2) -> in64 (2 * len64 s + 2) ->
  arrRange r l <> Panic /\ arrRange r l <> OutOfFuel /\
  strRange r s <> Panic /\ strRange r s <> OutOfFuel /\
  arrIndex i l <> Panic /\ strIndex i s <> Panic.
Proof.
  intros Hl Hs.
  assert (arrRange r l <> Panic /\ arrRange r l <> OutOfFuel) as [H1 H2].
  { destruct (Z.eq_dec (stepOf r) 0) as [Hz|Hnz].
    - destruct (zero_step A l s r Hz) as [H _]. rewrite H. split; discriminate.
    - destruct (arrRange_total A l r Hl Hnz) as [out H]. rewrite H. split; discriminate. }
  assert (strRange r s <> Panic /\ strRange r s <> OutOfFuel) as [H3 H4].
  { destruct (Z.eq_dec (stepOf r) 0) as [Hz|Hnz].
    - destruct (zero_step A l s r Hz) as [_ H]. rewrite H. split; discriminate.
    - rewrite (str_slice_refines_spec s r 0 Hs Hnz). split; discriminate. }
  repeat split; try assumption.
  - unfold arrIndex. destruct (seqIndex_cases A l i Hl) as [[_ H] | [_ [a [H _]]]]; rewrite H; discriminate.
  - rewrite (str_index_spec s i 0 Hs). destruct ((- len64 s <=? i) && (i <? len64 s)); discriminate.
Qed.

(* strings are addressed by code point: a string behaves as the array of its code points *)
Theorem str_by_codepoint (s : list Z) r i d :
  in64 (2 * len64 s + 2) ->
  strIndex i s = (if (- len64 s <=? i) && (i <? len64 s)
                  then Val [nth (Z.to_nat (i mod len64 s)) s d] else Nil) /\
  (stepOf r <> 0 ->
   strRange r s = Val (map (fun p => nth (Z.to_nat p) s d) (positionsOf (len64 s) r)) /\
   arrRange r s = Val (map Some (map (fun p => nth (Z.to_nat p) s d) (positionsOf (len64 s) r)))).
Proof.
  intros H64. split; [apply str_index_spec; assumption|].
  intros Hs. split; [apply str_slice_refines_spec; assumption|].
  rewrite map_map. apply slice_refines_spec; assumption.
Qed.
