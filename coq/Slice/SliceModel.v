(* Executable model of evaluator/index.go (arrIndex, strIndex, arrRange, strRange,
   valRange, fixRange) as repaired by patches/03-index-slicing.diff.
   int64 arithmetic goes through Base/Int64 (wrap-around), every partial Go
   operation (slice indexing, the type assertion elem.( *object.PanStr)) has an
   explicit Panic outcome, and the `for i := start; hasNext(i, stop); i += step`
   loop runs on fuel so that non-termination is an outcome too.
   Arrays are [list A]; strings are lists of code points ([]rune(self.Value)).
   Only definitions here; proofs are in SliceProofs.v. *)
From Coq Require Import ZArith Bool List.
From PanVerif Require Import Base.Int64.
Import ListNotations.
Local Open Scope Z_scope.

(* what a built-in answers *)
Inductive res (T : Type) :=
| Val (x : T)      (* a value: the element / the PanArr / the PanStr *)
| Nil              (* BuiltInNil *)
| ErrValue         (* ValueErr *)
| Panic            (* a Go run-time panic (index out of range, failed type assertion) *)
| OutOfFuel.       (* the stepping loop did not stop within len+1 iterations *)
Arguments Val {T} x.
Arguments Nil {T}.
Arguments ErrValue {T}.
Arguments Panic {T}.
Arguments OutOfFuel {T}.

(* a range literal (start:stop:step) whose parts are Int or nil
   (canBeUsedForRange holds; other part types are outside the model) *)
Record range := mkRange { rstart : option Z; rstop : option Z; rstep : option Z }.

(* int64(len(x)): Go's len is an int, which is 64 bits wide here *)
Definition len64 {A} (l : list A) : Z := Z.of_nat (length l).

(* Go: xs[k] panics unless 0 <= k < len(xs) *)
Definition goIndex {A} (l : list A) (k : Z) : option A :=
  if k <? 0 then None else nth_error l (Z.to_nat k).

(* arrIndex(index, arr) and strIndex(index, runes): same shape.
     if index >= length || index < -length { return nil }
     if index < 0 { return xs[index+length] }
     return xs[index]                                             *)
Definition seqIndex {A} (index : Z) (l : list A) : res A :=
  let length := len64 l in
  if (index >=? length) || (index <? neg64 length) then Nil else
  let k := if index <? 0 then add64 index length else index in
  match goIndex l k with
  | Some a => Val a
  | None => Panic
  end.

Definition arrIndex {A} (index : Z) (arr : list A) : res A := seqIndex index arr.
(* strIndex answers NewPanStr(string(runes[k])): a string of one code point *)
Definition strIndex (index : Z) (runes : list Z) : res (list Z) :=
  match seqIndex index runes with
  | Val c => Val [c]
  | Nil => Nil
  | ErrValue => ErrValue
  | Panic => Panic
  | OutOfFuel => OutOfFuel
  end.

(* fixRange: the closure fix(i) with lower/upper chosen by the sign of step *)
Definition fixBound (length lower upper i : Z) : Z :=
  if i <? 0 then
    if i <? neg64 length then lower else add64 i length
  else if i >? upper then upper else i.

Definition fixRange (r : range) (length step : Z) : Z * Z :=
  let lower := if step <? 0 then -1 else 0 in
  let upper := if step <? 0 then sub64 length 1 else length in
  let start0 := if step >? 0 then 0 else sub64 length 1 in
  let stop0 := if step >? 0 then length else -1 in
  (match rstart r with Some i => fixBound length lower upper i | None => start0 end,
   match rstop r with Some i => fixBound length lower upper i | None => stop0 end).

Definition hasNext (step i stop : Z) : bool :=
  if step <? 0 then i >? stop else i <? stop.

(* for i := start; hasNext(i, stop); i += step { elems = append(elems, valIndex(i)) }
   valIndex may answer nil (kept as None: an element the sequence does not have). *)
Fixpoint rangeLoop {A} (fuel : nat) (valIndex : Z -> res A) (step stop i : Z)
  : res (list (option A)) :=
  match fuel with
  | O => OutOfFuel
  | S f =>
    if hasNext step i stop then
      match valIndex i with
      | Panic => Panic
      | OutOfFuel => OutOfFuel
      | ErrValue => ErrValue
      | e =>
        match rangeLoop f valIndex step stop (add64 i step) with
        | Val rest => Val (match e with Val a => Some a | _ => None end :: rest)
        | other => other
        end
      end
    else Val []
  end.

(* if limit := int64(size) + 1; step > limit { step = limit } else if step < -limit { step = -limit } *)
Definition clipStep (size step : Z) : Z :=
  let limit := add64 size 1 in
  if step >? limit then limit
  else if step <? neg64 limit then neg64 limit else step.

Definition valRange {A} (r : range) (size : Z) (valIndex : Z -> res A)
  : res (list (option A)) :=
  let step := match rstep r with Some s => s | None => 1 end in
  if step =? 0 then ErrValue else
  let step := clipStep size step in
  let (start, stop) := fixRange r size step in
  rangeLoop (S (Z.to_nat size)) valIndex step stop start.

Definition arrRange {A} (r : range) (arr : list A) : res (list (option A)) :=
  valRange r (len64 arr) (fun i => arrIndex i arr).

(* strRange: the checked assertion runeArr.( *object.PanArr) passes an error on;
   out.WriteString(elem.( *object.PanStr).Value) panics on a nil element. *)
Fixpoint strConcat (elems : list (option (list Z))) : res (list Z) :=
  match elems with
  | [] => Val []
  | Some s :: rest =>
    match strConcat rest with
    | Val t => Val (s ++ t)
    | other => other
    end
  | None :: _ => Panic
  end.

Definition strRange (r : range) (runes : list Z) : res (list Z) :=
  match valRange r (len64 runes) (fun i => strIndex i runes) with
  | Val elems => strConcat elems
  | Nil => Nil
  | ErrValue => ErrValue
  | Panic => Panic
  | OutOfFuel => OutOfFuel
  end.

(* ---- correspondence -------------------------------------------------------
   A case is (number, string?, sequence, index-or-range, what Go answered).
   Both sides are projected to a list of Z:
     0 :: elements (nil element = -1)   a value
     [1] nil   [2] ValueErr   [3] panic   [4] out of fuel   [5] anything else
   Array elements and code points are >= 0 in every generated case. *)
Inductive sel := SIdx (i : Z) | SRange (r : range).

Definition proj_list (r : res (list (option Z))) : list Z :=
  match r with
  | Val l => 0 :: map (fun o => match o with Some z => z | None => -1 end) l
  | Nil => [1] | ErrValue => [2] | Panic => [3] | OutOfFuel => [4]
  end.

Definition proj_one (r : res Z) : list Z :=
  match r with
  | Val z => [0; z]
  | Nil => [1] | ErrValue => [2] | Panic => [3] | OutOfFuel => [4]
  end.

Definition proj_str (r : res (list Z)) : list Z :=
  match r with
  | Val l => 0 :: l
  | Nil => [1] | ErrValue => [2] | Panic => [3] | OutOfFuel => [4]
  end.

Definition run_case (is_str : bool) (s : list Z) (x : sel) : list Z :=
  match is_str, x with
  | false, SIdx i => proj_one (arrIndex i s)
  | false, SRange r => proj_list (arrRange r s)
  | true, SIdx i => proj_str (strIndex i s)
  | true, SRange r => proj_str (strRange r s)
  end.

Fixpoint zlist_eqb (a b : list Z) : bool :=
  match a, b with
  | [], [] => true
  | x :: a', y :: b' => (x =? y) && zlist_eqb a' b'
  | _, _ => false
  end.

Definition scase := (Z * bool * list Z * sel * list Z)%type.
Definition mismatches (cs : list scase) : list (Z * list Z) :=
  flat_map (fun c => match c with (i, is_str, s, x, go) =>
     let m := run_case is_str s x in if zlist_eqb m go then [] else [(i, m)] end) cs.

(* Systematic part of the correspondence without spelling every input: a group is
   (number of its first case, string?, sequence, start, what Go answered for every
   (stop, step) of vals x vals, stop outermost); the ranges are enumerated here. *)
Fixpoint mismatches_from (base : Z) (is_str : bool) (s : list Z) (xs : list sel)
         (gos : list (list Z)) : list (Z * list Z) :=
  match xs, gos with
  | [], [] => []
  | x :: xs', go :: gos' =>
    let m := run_case is_str s x in
    let rest := mismatches_from (base + 1) is_str s xs' gos' in
    if zlist_eqb m go then rest else (base, m) :: rest
  | _, _ => [(base, [6])]      (* the two enumerations differ in length *)
  end.

Definition gcase := (Z * bool * list Z * option Z * list (list Z))%type.
Definition group_mismatches (vals : list (option Z)) (gs : list gcase) : list (Z * list Z) :=
  flat_map (fun g => match g with (base, is_str, s, a, gos) =>
     mismatches_from base is_str s
       (flat_map (fun b => map (fun c => SRange (mkRange a b c)) vals) vals) gos end) gs.
