(* C14 — iterator literals follow the next/yield/recur protocol and are independent.
   For every iterator, argument list, environment, state and lower interpreter level.
   Proofs: Core/IterProofs.v, Core/FrameLocality.v. What "independent" rests on:
   `new` and `_iter` give every iterator a frame that did not exist before (so no two
   iterators share a frame), `next` runs the body in the iterator's own frame, `recur`
   replaces the frame of that iterator only, chains iterate `_iter` of their receiver,
   and (frame locality) no evaluation touches a frame of the program's own scopes. The
   per-iterator result sequences for interleaved histories are checked by the
   correspondence against an explicit state machine per iterator. *)
From Coq Require Import ZArith String List Bool Arith.
From PanVerif Require Import Core.Syntax Core.Values Core.Interp Core.DeferProofs Core.TruthyProofs
     Core.IterProofs Core.FrameLocality.
Import ListNotations.

Theorem C14_new_makes_fresh_iterator :
  forall W R env st fid c rest kwargs,
    nth_error (funcs st) fid = Some c -> as_biter W st (VFunc fid) = None ->
    call_builtin W R env B_Iter_new (VFunc fid :: rest) kwargs st =
    (o <- frame_outer (cenv c) ;;
     e <- alloc_frame [] o ;;
     _ <- bind_args W e (cparams c) (ckw c) rest kwargs ;;
     alloc_clo (mkclo KIter (cparams c) (ckw c) (cbody c) (ccode c) e)) st.
Proof. exact iter_new_spec. Qed.
Print Assumptions C14_new_makes_fresh_iterator.

Theorem C14_next_runs_body_once_in_own_frame :
  forall W R env fid rest kwargs st,
    call_builtin W R env B_Iter_next (VFunc fid :: rest) kwargs st =
    (c <- get_clo fid ;;
     _ <- env_set (cenv c) "recur" (VBuiltin (B_Recur fid)) ;;
     r_body R (cbody c) (cenv c)) st.
Proof. exact iter_next_spec. Qed.
Print Assumptions C14_next_runs_body_once_in_own_frame.

Theorem C14_recur_rebinds_this_iterator :
  forall W R env fid args kwargs st,
    call_builtin W R env (B_Recur fid) args kwargs st =
    (c <- get_clo fid ;;
     o <- frame_outer (cenv c) ;;
     e <- alloc_frame [] o ;;
     _ <- bind_args W e (cparams c) (ckw c) args kwargs ;;
     _ <- set_clo_env fid e ;;
     ret (vNil W)) st.
Proof. exact recur_spec. Qed.
Print Assumptions C14_recur_rebinds_this_iterator.

Theorem C14_recur_touches_no_other_iterator :
  forall fid e st u st',
    set_clo_env fid e st = (Ok u, st') ->
    (forall g, g <> fid -> nth_error (funcs st') g = nth_error (funcs st) g) /\
    frames st' = frames st /\ heap st' = heap st.
Proof. exact set_clo_env_only_that_iterator. Qed.
Print Assumptions C14_recur_touches_no_other_iterator.

Theorem C14_iter_copy_has_own_frame :
  forall W R env st fid c args kwargs,
    nth_error (funcs st) fid = Some c -> ckind c = KIter ->
    call_builtin W R env B_Iter_iter (VFunc fid :: args) kwargs st =
    (e <- copy_frame (cenv c) ;; alloc_clo (mkclo KIter (cparams c) (ckw c) (cbody c) (ccode c) e)) st.
Proof. exact iter_copy_spec. Qed.
Print Assumptions C14_iter_copy_has_own_frame.

Theorem C14_chains_iterate_a_copy :
  forall W R env fuel add ca recv name args kw st,
    prop_chain W R fuel env add ListC ca recv name args kw st =
    (it <- iter_of W R env recv ;;
     els <- list_loop fuel (real_next R env it) tt
              (match add with Strict | Thoughtful => true | _ => false end)
              (additional add (fun r => prop_base W R env name kw r args)) [] ;;
     finish_list W R env ca kw els) st.
Proof. exact chains_iterate_iter_of_receiver. Qed.
Print Assumptions C14_chains_iterate_a_copy.

(* StopIterErr exactly when a guarded yield finds its condition false (C12_guarded_jumps, j = JYield) *)
Theorem C14_stop_when_guard_false :
  forall W R e c env st cv st1 st2,
    r_expr R c env st = (Ok cv, st1) -> is_truthy R env cv st1 = (Ok false, st2) ->
    eval_stmt W R (SJumpIf JYield e c) env st = (Er "StopIterErr" "iter stopped", st2).
Proof. intros. now rewrite (guard_false W R JYield e c env st cv st1 st2). Qed.
Print Assumptions C14_stop_when_guard_false.

Theorem C14_first_yield_is_the_value_and_body_continues :
  forall W R e t envb last y ds st v st1,
    eval_stmt W R (SJump JYield e) envb st = (Ok (SYield v), st1) ->
    run_prefix W R (SJump JYield e :: t) envb last y ds st =
    run_prefix W R t envb v (match y with Some y0 => Some y0 | None => Some v end) ds st1.
Proof. exact yield_continues. Qed.
Print Assumptions C14_first_yield_is_the_value_and_body_continues.

(* whatever next / recur / chains do, no frame of the program's own scopes changes *)
Theorem C14_iterators_change_only_iterator_frames :
  forall W fuel e env st r st',
    r_expr (level W fuel) e env st = (r, st') ->
    forall g, g < length (frames st) -> g <> env -> ~ clof st g ->
              nth_error (frames st') g = nth_error (frames st) g.
Proof. intros W fuel e env st r st' H. exact (proj2 (frame_locality W fuel e env st r st' H)). Qed.
Print Assumptions C14_iterators_change_only_iterator_frames.
