(* C16 - layout volume, token length, reader chunking.
   Only property theorems here, each closed by [exact] of a lemma proved in
   Lex/RefillProofs.v or Lex/LayoutProofs.v about the executable models
   Lex/Refill.v (buffer state machine of third_party/simplexer/lexer.go, as
   repaired) and Lex/LayoutTok.v (hand-written matchers for RET, the multiline
   chains, comment, string, raw string, identifier).
   PARTIAL in the sense of DESIGN section C16: the grammar side (where a line
   break is allowed) is not a theorem, the other patterns of the token table are
   not modelled, and Go's regexp is tied to the matchers by sampling only. *)
From Coq Require Import List NArith Arith.
Import ListNotations.
From PanVerif Require Import Lex.Refill Lex.LayoutTok Lex.RefillProofs Lex.LayoutProofs.

(* ---- chunking: the buffered lexer sees what the algorithm sees on the whole input ---- *)

(* any matcher that only looks at the buffer, any input, any reader schedule *)
Theorem C16_buffered_equals_whole :
  forall (tok : Type) (m : list byte -> option (nat * tok)) input schedule n,
    well_formed_schedule schedule ->
    tokens_buffered m schedule input n = tokens_whole m input n.
Proof. exact buffered_equals_whole. Qed.
Print Assumptions C16_buffered_equals_whole.

(* the full Peek loop: whitespace type, ordered token table, table switched by the
   parser after a token (embedded strings); any positive ReadAll request sizes *)
Theorem C16_buffered_equals_whole_tables :
  forall (tok mode : Type) (L : lexspec tok mode) (reqsz : nat -> nat),
    (forall n, 1 <= reqsz n) ->
    forall input schedule md n,
      well_formed_schedule schedule -> ls_types L md <> [] ->
      tokens_buffered_spec reqsz L schedule input md n = tokens_whole_spec L input md n.
Proof. exact buffered_equals_whole_spec. Qed.
Print Assumptions C16_buffered_equals_whole_tables.

(* on the whole input Peek is: skip blanks once, first token type that matches *)
Theorem C16_whole_is_first_match :
  forall (tok mode : Type) (L : lexspec tok mode) n md b,
    whole_n tok mode L n md b = spec_n tok mode L n md b.
Proof. exact whole_equals_spec. Qed.
Print Assumptions C16_whole_is_first_match.

(* the ORIGINAL refill logic (refill 2048 when fewer than 1024 are buffered, byte
   count ignored) does not have the property: a 3000-character string literal;
   a reader that returns one byte per call *)
Theorem C16_original_refill_refuted :
  exists input schedule n, well_formed_schedule schedule /\
    tokens_buffered_old layout_m schedule input n <> tokens_whole layout_m input n.
Proof. exact old_refuted. Qed.
Print Assumptions C16_original_refill_refuted.

Theorem C16_original_refill_refuted_short_reads :
  exists input schedule n, well_formed_schedule schedule /\
    tokens_buffered_old layout_m schedule input n <> tokens_whole layout_m input n.
Proof. exact old_refuted_short_reads. Qed.
Print Assumptions C16_original_refill_refuted_short_reads.

(* ---- layout volume ---- *)

(* padding of ANY size at a line break (lines made of blanks, an optional comment
   and a line end; then indentation) is one RET whose text is the whole padding,
   and what follows is not a layout token *)
Theorem C16_ret_absorbs_padding :
  forall p tl rest,
    padding p -> blanks tl -> token_start rest -> no_chain rest ->
    layout_token (p ++ tl ++ rest) = Some (TRet, length p) /\ layout_token rest = None.
Proof. exact ret_absorbs_padding. Qed.
Print Assumptions C16_ret_absorbs_padding.

(* followed by the bar and a chain character it is one multiline-chain token *)
Theorem C16_chain_absorbs_padding :
  forall p tl c rest,
    padding p -> blanks tl ->
    (is_add_chain c = true ->
       layout_token (p ++ tl ++ 124%N :: c :: rest) = Some (TMlAdd, length p + length tl + 2)) /\
    (is_main_chain c = true ->
       layout_token (p ++ tl ++ 124%N :: c :: rest) = Some (TMlMain, length p + length tl + 2)).
Proof. exact chain_absorbs_padding. Qed.
Print Assumptions C16_chain_absorbs_padding.

(* token stream of padded text = one RET, then the stream of the rest *)
Theorem C16_padding_stream :
  forall n p tl rest,
    padding p -> blanks tl -> token_start rest -> no_chain rest ->
    exists bl lit, blanks bl /\ p = bl ++ lit /\
      spec_n ltok unit layout_spec (S n) tt (p ++ tl ++ rest)
      = STok TRet lit :: spec_n ltok unit layout_spec n tt rest.
Proof. exact padding_stream. Qed.
Print Assumptions C16_padding_stream.

(* two paddings of any sizes, read through any two readers: the same tokens *)
Theorem C16_padding_and_chunking_irrelevant :
  forall n p1 tl1 s1 p2 tl2 s2 rest,
    padding p1 -> blanks tl1 -> padding p2 -> blanks tl2 -> token_start rest -> no_chain rest ->
    well_formed_schedule s1 -> well_formed_schedule s2 ->
    map strip (tokens_buffered_spec reqsz_default layout_spec s1 (p1 ++ tl1 ++ rest) tt n) =
    map strip (tokens_buffered_spec reqsz_default layout_spec s2 (p2 ++ tl2 ++ rest) tt n).
Proof. exact padding_and_chunking_irrelevant. Qed.
Print Assumptions C16_padding_and_chunking_irrelevant.

(* ---- token length: the match is the whole literal, whatever its length ---- *)

Theorem C16_long_token_full_text_string :
  forall body rest, dq_plain body ->
    first_match ltok layout_types (dq_lit body ++ rest) = Some (TDq, length (dq_lit body)).
Proof. exact long_dq_full_text. Qed.
Print Assumptions C16_long_token_full_text_string.

Theorem C16_long_token_full_text_raw_string :
  forall body rest, bq_plain body ->
    first_match ltok layout_types (bq_lit body ++ rest) = Some (TBackquote, length (bq_lit body)).
Proof. exact long_bq_full_text. Qed.
Print Assumptions C16_long_token_full_text_raw_string.

Theorem C16_long_token_full_text_ident :
  forall c body rest,
    is_alpha c = true -> Forall (fun d => is_idchar d = true) body -> ident_end rest ->
    first_match ltok layout_types ((c :: body) ++ rest) = Some (TIdent, length (c :: body)).
Proof. exact long_ident_full_text. Qed.
Print Assumptions C16_long_token_full_text_ident.

Theorem C16_long_token_full_text_ident_suffix :
  forall c body s rest,
    is_alpha c = true -> Forall (fun d => is_idchar d = true) body -> is_bangq s = true ->
    first_match ltok layout_types ((c :: body ++ [s]) ++ rest) = Some (TIdent, length (c :: body ++ [s])).
Proof. exact long_ident_suffix_full_text. Qed.
Print Assumptions C16_long_token_full_text_ident_suffix.

Theorem C16_long_token_full_text_comment :
  forall body nl tl rest,
    no_nl body -> newline_text nl -> blanks tl -> token_start rest -> no_chain rest ->
    first_match ltok layout_types ((comment_lit body ++ nl) ++ tl ++ rest)
    = Some (TRet, length (comment_lit body ++ nl)).
Proof. exact long_comment_full_text. Qed.
Print Assumptions C16_long_token_full_text_comment.

Theorem C16_long_token_full_text_final_comment :
  forall body, no_nl body ->
    first_match ltok layout_types (comment_lit body) = Some (TRet, length (comment_lit body)).
Proof. exact long_final_comment_full_text. Qed.
Print Assumptions C16_long_token_full_text_final_comment.

(* ---- non-vacuity: the hypotheses are met by concrete text ---- *)

(* "  #c" LF LF TAB LF   then indentation "  "   then "x" ;  schedule 1,2,3 *)
Example C16_nonvacuous :
  let p := [32; 32; 35; 99; 10; 10; 9; 10]%N in
  let tl := [32; 32]%N in
  let rest := [120]%N in
  padding p /\ blanks tl /\ token_start rest /\ no_chain rest /\
  well_formed_schedule [1; 2; 3] /\
  layout_token (p ++ tl ++ rest) = Some (TRet, 8) /\
  tokens_buffered layout_m [1; 2; 3] (p ++ tl ++ rest) 1 = [MTok TRet p] /\
  dq_plain (repeat 97%N 5000) /\ bq_plain (10%N :: repeat 98%N 5000) /\
  first_match ltok layout_types (dq_lit (repeat 97%N 5000)) = Some (TDq, 5002).
Proof.
  cbv zeta.
  split.
  { apply (pad_more [32; 32; 35; 99; 10]%N [10; 9; 10]%N).
    - apply (LL [32; 32]%N [35; 99]%N [10]%N); [repeat constructor| |left; reflexivity].
      right. exists [99%N]. split; [reflexivity|repeat constructor].
    - apply (pad_more [10]%N [9; 10]%N).
      + apply (LL [] [] [10]%N); [constructor|left; reflexivity|left; reflexivity].
      + apply pad_one. apply (LL [9]%N [] [10]%N); [repeat constructor|left; reflexivity|left; reflexivity]. }
  split. { repeat constructor. }
  split. { cbn. repeat split; reflexivity. }
  split. { exact I. }
  split. { repeat constructor. }
  split. { vm_compute. reflexivity. }
  split. { vm_compute. reflexivity. }
  split.
  { split; [|vm_compute; discriminate].
    apply Forall_forall. intros c Hc. apply repeat_spec in Hc. subst c. repeat split; discriminate. }
  split.
  { split; [|vm_compute; discriminate].
    constructor; [discriminate|]. apply Forall_forall. intros c Hc. apply repeat_spec in Hc. subst c. discriminate. }
  vm_compute. reflexivity.
Qed.
