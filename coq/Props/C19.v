(* C19 — a fresh evaluation is independent of what the process evaluated before.
   Theorem over ALL histories (lists of earlier programs, failing ones included) and
   all amounts of fuel: running them — each in a fresh scope enclosed in the global
   one, as the playground executor, `pangaea test` (one scope per file) and the server
   do — leaves the global scope bit-for-bit unchanged, leaves every object that existed
   (hence every built-in object: properties, prototype link, zero value) unchanged, and
   never makes the global frame a closure's own frame. So the next program, run in its
   own fresh scope, finds exactly the names and built-ins a newly started interpreter
   offers and none of the earlier programs' variables (their scopes are not on its
   lookup chain, C03_lookup_follows_definition_chain). gen/C19World.v (regenerated,
   kernel-checked every run) instantiates it on the current start-up world. That error
   reports (stack traces) of a program contain nothing of earlier programs is outside
   PanCore (no positions in the model) and is decided by the differential runs.
   Proofs: Core/SessionProofs.v, Core/FrameLocality.v. *)
From Coq Require Import ZArith String List Bool Arith.
From PanVerif Require Import Core.Syntax Core.Values Core.Interp Core.FrameLocality Core.SessionProofs.
Import ListNotations.

Theorem C19_history_preserves_global_scope_and_builtins :
  forall W fuel hs st,
    1 <= length (frames st) -> ~ clof st 0 ->
    let st' := run_history W fuel hs st in
    nth_error (frames st') 0 = nth_error (frames st) 0 /\
    (forall id o, nth_error (heap st) id = Some o -> nth_error (heap st') id = Some o) /\
    ~ clof st' 0 /\ 1 <= length (frames st').
Proof. exact history_preserves_world. Qed.
Print Assumptions C19_history_preserves_global_scope_and_builtins.

(* What the next program sees when it starts: it runs in a fresh, empty scope enclosed in the global
   one, and every name resolves there exactly as in the global scope of the interpreter BEFORE the
   history ran — for every history (failing programs included) and every name. *)
Theorem C19_next_program_sees_the_original_globals :
  forall W fuel hs st x fr,
    nth_error (frames st) 0 = Some fr -> fouter fr = None -> ~ clof st 0 ->
    let st' := run_history W fuel hs st in
    let '(r, st1) := alloc_frame [] (Some 0) st' in
    match r with Ok e => env_get st1 e x = assoc x (fstore fr) | _ => False end.
Proof. exact next_program_sees_the_original_globals. Qed.
Print Assumptions C19_next_program_sees_the_original_globals.

Theorem C19_one_program_changes_no_existing_scope :
  forall W fuel prog outer st r st',
    run_program W fuel prog outer st = (r, st') ->
    forall g, g < length (frames st) -> ~ clof st g ->
              nth_error (frames st') g = nth_error (frames st) g.
Proof. exact program_frame_locality. Qed.
Print Assumptions C19_one_program_changes_no_existing_scope.

Theorem C19_one_program_changes_no_existing_object :
  forall W fuel prog outer st r st',
    run_program W fuel prog outer st = (r, st') ->
    forall id o, nth_error (heap st) id = Some o -> nth_error (heap st') id = Some o.
Proof. exact program_heap_append_only. Qed.
Print Assumptions C19_one_program_changes_no_existing_object.
