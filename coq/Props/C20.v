(* C20 — several evaluations running at the same time in separate scopes of one
   interpreter never read and write the interpreter's shared tables without
   synchronisation, whatever the interleaving.
   Only property theorems here, each closed by [exact] of a lemma proved in
   Conc/LockSetProofs.v about the machine of Conc/LockSet.v.  The table of access
   sites of /repo/object/*.go is written by the translator (harness dumpsites) into
   gen/LockSites.v on every run, with [sites_ok : well_locked sites = true] by
   computation and the instance of C20_well_locked_no_race for that table.
   The second group is about the CONTENTS of the tables ("cannot corrupt symbol
   lookup"): the machine of Conc/Intern.v runs GetSymHash / SymHash2Str of any number
   of threads with every critical section as one step; the driver checks on every run
   (critical-section numbers of the translator dumpsites) that every function of /repo/object that writes one of the
   two tables writes the other one in the same critical section, which is the
   [split = false] machine of these theorems. *)
From Coq Require Import List.
Import ListNotations.
From Coq Require Import NArith String.
From PanVerif Require Import Conc.LockSet Conc.LockSetProofs.
From PanVerif Require Conc.Intern Conc.InternProofs.

(* Sufficiency: if every write site holds the write lock and every read site holds
   the read or the write lock, no number of threads, no programs built from those
   sites and no schedule reach a state in which two threads are inside accesses to
   the same table, one of them writing. *)
Theorem C20_well_locked_no_race : forall sites,
  well_locked sites = true ->
  forall progs, built_from sites progs ->
  forall sched, ~ reaches_race progs sched.
Proof. exact well_locked_no_race. Qed.
Print Assumptions C20_well_locked_no_race.

(* The same, stated positively for every reachable state: a thread inside a write
   is the writer and there are no readers; a thread inside a read holds the read
   lock or is the writer. *)
Theorem C20_well_locked_exclusion : forall sites,
  well_locked sites = true ->
  forall progs, built_from sites progs ->
  forall sched t v k,
    in_access (run (init progs) sched) t v k ->
    let st := run (init progs) sched in
    match k with
    | W => writer st = Some t /\ readers st = []
    | R => In t (readers st) \/ writer st = Some t
    end.
Proof. exact well_locked_exclusion. Qed.
Print Assumptions C20_well_locked_exclusion.

(* Necessity, the shape of the defect of the unchanged tree (SymHash2Str): an
   unlocked read together with a locked write of the same table does reach a race. *)
Theorem C20_unlocked_read_races : forall v,
  let sites := [mkSite v R NoLock; mkSite v W WLock] in
  well_locked sites = false /\
  exists progs sched, built_from sites progs /\ reaches_race progs sched.
Proof. exact unlocked_read_races. Qed.
Print Assumptions C20_unlocked_read_races.

(* Necessity in general: any single site that breaks the discipline races with a
   partner site on the same table that keeps it. *)
Theorem C20_ill_locked_site_races : forall s,
  site_ok s = false ->
  exists s', site_ok s' = true /\ s_var s' = s_var s /\
  exists progs sched, built_from [s; s'] progs /\ reaches_race progs sched.
Proof. exact ill_locked_site_races. Qed.
Print Assumptions C20_ill_locked_site_races.

(* Non-vacuity: a concrete well-locked table of 2 sites and 3 threads built from it;
   the machine really executes them (all three run to completion under a fair
   schedule and leave the lock free), and a blocked acquire does not advance. *)
Example C20_nonvacuous :
  well_locked demo_sites = true /\ built_from demo_sites demo_progs /\
  (let st := run (init demo_progs) [0;1;2;0;1;2;0;1;2;0;1;2;1;2;1;2;1;2;2;2;2;2;2] in
   threads st = [mkThread Idle []; mkThread Idle []; mkThread Idle []]
   /\ writer st = None /\ readers st = []) /\
  (let st := run (init demo_progs) [0; 0] in in_access st 0 strTable W /\ step st 1 = st).
Proof.
  split; [reflexivity|]. split; [exact demo_built|].
  split; [exact demo_runs_to_completion | exact demo_blocked_step_does_not_advance].
Qed.

(* ---- contents of the tables ------------------------------------------------ *)
(* Whatever the hash function, the number of threads, their programs and the schedule:
   every answer SymHash2Str ever gave for a hash that GetSymHash(s) returned is a string,
   the hash is the hash of s, and the string found has that hash. *)
Theorem C20_interned_symbol_is_always_found : forall (h : string -> N) progs sched s k r,
  In (s, k, r) (Intern.observations (Intern.run h false (Intern.init progs) sched)) ->
  k = h s /\ exists s', r = Some s' /\ h s' = h s.
Proof. exact InternProofs.atomic_lookup_never_fails. Qed.
Print Assumptions C20_interned_symbol_is_always_found.

(* ... and it is s itself unless another string has the same 64-bit hash. *)
Theorem C20_interned_symbol_reads_back : forall (h : string -> N) progs sched s k r,
  (forall s', h s' = h s -> s' = s) ->
  In (s, k, r) (Intern.observations (Intern.run h false (Intern.init progs) sched)) -> r = Some s.
Proof. exact InternProofs.atomic_lookup_returns_the_string. Qed.
Print Assumptions C20_interned_symbol_reads_back.

(* The tables in every reachable state. *)
Theorem C20_tables_consistent_in_every_reachable_state : forall (h : string -> N) progs sched s k,
  Intern.sym (Intern.run h false (Intern.init progs) sched) s = Some k ->
  k = h s /\ exists s', Intern.str (Intern.run h false (Intern.init progs) sched) k = Some s' /\ h s' = k.
Proof. exact InternProofs.atomic_tables_consistent. Qed.
Print Assumptions C20_tables_consistent_in_every_reachable_state.

(* Necessity: with the two writes in two critical sections (each correctly locked, so no
   data race) there is a schedule on which a thread obtains a hash and cannot find it. *)
Theorem C20_split_interning_loses_a_lookup : forall (h : string -> N),
  In ("a"%string, h "a"%string, None) (Intern.observations (Intern.run h true (Intern.init InternProofs.split_progs) InternProofs.split_sched)).
Proof. exact InternProofs.split_lookup_can_fail. Qed.
Print Assumptions C20_split_interning_loses_a_lookup.

(* Non-vacuity: the same two threads and schedule on the machine of the code do record an
   observation, and it is the string. *)
Example C20_interning_nonvacuous : forall (h : string -> N),
  Intern.observations (Intern.run h false (Intern.init InternProofs.split_progs) InternProofs.split_sched) = [("a"%string, h "a"%string, Some "a"%string)].
Proof. exact InternProofs.unsplit_same_schedule_succeeds. Qed.
