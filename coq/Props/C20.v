(* C20 — several evaluations running at the same time in separate scopes of one
   interpreter never read and write the interpreter's shared tables without
   synchronisation, whatever the interleaving.
   Only property theorems here, each closed by [exact] of a lemma proved in
   Conc/LockSetProofs.v about the machine of Conc/LockSet.v.  The table of access
   sites of /repo/object/*.go is written by the translator (harness dumpsites) into
   gen/LockSites.v on every run, with [sites_ok : well_locked sites = true] by
   computation and the instance of C20_well_locked_no_race for that table. *)
From Coq Require Import List.
Import ListNotations.
From PanVerif Require Import Conc.LockSet Conc.LockSetProofs.

(* Sufficiency: if every write site holds the write lock and every read site holds
   the read or the write lock, no number of threads, no programs built from those
   sites and no schedule reach a state in which two threads are inside accesses to
   the same table, one of them writing. *)
Theorem C20_well_locked_no_race : forall sites,
  well_locked sites = true ->
  forall progs, built_from sites progs ->
  forall sched, ~ reaches_race progs sched.
Proof. exact well_locked_no_race. Qed.
Print Assumptions C20_well_locked_no_race.

(* The same, stated positively for every reachable state: a thread inside a write
   is the writer and there are no readers; a thread inside a read holds the read
   lock or is the writer. *)
Theorem C20_well_locked_exclusion : forall sites,
  well_locked sites = true ->
  forall progs, built_from sites progs ->
  forall sched t v k,
    in_access (run (init progs) sched) t v k ->
    let st := run (init progs) sched in
    match k with
    | W => writer st = Some t /\ readers st = []
    | R => In t (readers st) \/ writer st = Some t
    end.
Proof. exact well_locked_exclusion. Qed.
Print Assumptions C20_well_locked_exclusion.

(* Necessity, the shape of the defect of the unchanged tree (SymHash2Str): an
   unlocked read together with a locked write of the same table does reach a race. *)
Theorem C20_unlocked_read_races : forall v,
  let sites := [mkSite v R NoLock; mkSite v W WLock] in
  well_locked sites = false /\
  exists progs sched, built_from sites progs /\ reaches_race progs sched.
Proof. exact unlocked_read_races. Qed.
Print Assumptions C20_unlocked_read_races.

(* Necessity in general: any single site that breaks the discipline races with a
   partner site on the same table that keeps it. *)
Theorem C20_ill_locked_site_races : forall s,
  site_ok s = false ->
  exists s', site_ok s' = true /\ s_var s' = s_var s /\
  exists progs sched, built_from [s; s'] progs /\ reaches_race progs sched.
Proof. exact ill_locked_site_races. Qed.
Print Assumptions C20_ill_locked_site_races.

(* Non-vacuity: a concrete well-locked table of 2 sites and 3 threads built from it;
   the machine really executes them (all three run to completion under a fair
   schedule and leave the lock free), and a blocked acquire does not advance. *)
Example C20_nonvacuous :
  well_locked demo_sites = true /\ built_from demo_sites demo_progs /\
  (let st := run (init demo_progs) [0;1;2;0;1;2;0;1;2;0;1;2;1;2;1;2;1;2;2;2;2;2;2] in
   threads st = [mkThread Idle []; mkThread Idle []; mkThread Idle []]
   /\ writer st = None /\ readers st = []) /\
  (let st := run (init demo_progs) [0; 0] in in_access st 0 strTable W /\ step st 1 = st).
Proof.
  split; [reflexivity|]. split; [exact demo_built|].
  split; [exact demo_runs_to_completion | exact demo_blocked_step_does_not_advance].
Qed.
