(* C17 — literals and names: every literal spelling has exactly its written value or is
   refused; documented names are one token.  Only property theorems here, each closed by
   [exact] of a lemma of Lex/LitProofs.v about the executable models Lex/Literals.v and
   Lex/Idents.v (which follow parser/parser.go.y as repaired by
   patches/15-literals-and-names.diff). *)
From Coq Require Import ZArith List Bool Reals String.
From Flocq Require Import Core.Zaux Core.Raux Core.Defs Core.Generic_fmt Core.Round_NE Core.FLT
     IEEE754.BinarySingleNaN IEEE754.Binary IEEE754.Bits.
From PanVerif Require Import Base.Int64 Lex.Literals Lex.Idents Lex.LitProofs.
Import ListNotations.
Local Open Scope string_scope.
Local Open Scope list_scope.
Local Open Scope Z_scope.

(* Integers: decimal, 0x, 0o, 0b, with `_` separators.  [pos_value base ds] is the sum of
   d_i * base^(n-1-i); [digits_of l] drops the separators; the digits are digits of the base. *)
Theorem C17_int_digits_valid : forall base l, base <= 16 -> sep_ok base l = true ->
  Forall (fun d => 0 <= d < base) (digits_of l).
Proof. exact int_digits_valid. Qed.
Print Assumptions C17_int_digits_valid.

Theorem C17_int_value_exact : forall base l,
  sep_ok base l = true -> in64 (pos_value base (digits_of l)) ->
  int_denote base l = LInt (pos_value base (digits_of l)).
Proof. exact int_value_exact. Qed.
Print Assumptions C17_int_value_exact.

Theorem C17_int_unrepresentable_rejected : forall base l,
  sep_ok base l = true -> ~ in64 (pos_value base (digits_of l)) ->
  int_denote base l = LReject.
Proof. exact int_unrepresentable_rejected. Qed.
Print Assumptions C17_int_unrepresentable_rejected.

(* the same for the whole spelling, prefix included *)
Theorem C17_int_literal_exact : forall base pre l,
  int_spelling base pre -> sep_ok base l = true ->
  let v := pos_value base (digits_of l) in
  (in64 v -> lit_denote_codes (pre ++ l) = LInt v) /\
  (~ in64 v -> lit_denote_codes (pre ++ l) = LReject).
Proof. exact int_literal_exact. Qed.
Print Assumptions C17_int_literal_exact.

(* Exponent form  m e k  denoting the integer v = m * 10^k. *)
Theorem C17_expint_exact : forall m k v, is_dec_int m k v ->
  (in64 v -> expint m k = LInt v) /\ (~ in64 v -> expint m k = LReject).
Proof. exact expint_exact. Qed.
Print Assumptions C17_expint_exact.

Theorem C17_expint_literal_exact : forall ms E es k v,
  sep_ok 10 ms = true -> is_e E = true -> exp_of es = Some k ->
  is_dec_int (pos_value 10 (digits_of ms)) k v ->
  (in64 v -> lit_denote_codes (ms ++ E :: es) = LInt v) /\
  (~ in64 v -> lit_denote_codes (ms ++ E :: es) = LReject).
Proof. exact expint_literal_exact. Qed.
Print Assumptions C17_expint_literal_exact.

(* recorded finding C17:exp-nonint — an exponent form that denotes no integer is not
   refused (`1e-3` is 0): "unrepresentable => rejected" fails for this class *)
Theorem C17_expint_nonint_rejected_refuted :
  exists m k, 0 <= m /\ (forall v, ~ is_dec_int m k v) /\ expint m k = LInt 0.
Proof. exact expint_nonint_rejected_refuted. Qed.
Print Assumptions C17_expint_nonint_rejected_refuted.

(* Floats: the binary64 nearest (ties to even) to m * 10^k, refused when that rounds
   beyond the largest finite float. *)
Theorem C17_float_nearest : forall m k, 0 <= m ->
  let r := round radix2 (FLT_exp (-1074) 53) ZnearestE (IZR m * bpow radix10 k) in
  if Rlt_bool (Rabs r) (bpow radix2 1024)
  then exists f, dec_to_float m k = FVal f /\ is_finite 53 1024 f = true /\ B2R 53 1024 f = r
  else dec_to_float m k = FReject.
Proof. exact float_nearest. Qed.
Print Assumptions C17_float_nearest.

(* the spelling  ip . fp [ (e|E) -?digits ]  against the decimal as written:
   (I + F / 10^|F|) * 10^e *)
Theorem C17_float_literal_nearest : forall ip fp tail e,
  (ip = [] \/ sep_ok 10 ip = true) -> sep_ok 10 fp = true -> float_tail tail e ->
  let r := round radix2 (FLT_exp (-1074) 53) ZnearestE
             ((IZR (pos_value 10 (digits_of ip)) +
               IZR (pos_value 10 (digits_of fp)) * bpow radix10 (- Z.of_nat (List.length (digits_of fp))))
              * bpow radix10 e) in
  if Rlt_bool (Rabs r) (bpow radix2 1024)
  then exists f, lit_denote_codes (ip ++ 46 :: fp ++ tail) = LFloat (bits_of_b64 f) /\
                 is_finite 53 1024 f = true /\ B2R 53 1024 f = r
  else lit_denote_codes (ip ++ 46 :: fp ++ tail) = LReject.
Proof. exact float_literal_nearest. Qed.
Print Assumptions C17_float_literal_nearest.

(* Strings: the body decodes exactly as the escape table says ... *)
Theorem C17_string_decodes : forall l out, unquote_body l = Some out <-> decodes l out.
Proof. exact string_decodes. Qed.
Print Assumptions C17_string_decodes.

Theorem C17_string_literal_decodes : forall body out,
  starts_embedded body = false -> decodes body out ->
  lit_denote_codes (34 :: body ++ [34]) = LStr out.
Proof. exact string_literal_decodes. Qed.
Print Assumptions C17_string_literal_decodes.

(* ... and an undefined escape anywhere refuses the literal. *)
Theorem C17_undefined_escape_rejected : forall l1 o1 e l2,
  decodes l1 o1 -> escape_defined e = false -> unquote_body (l1 ++ 92 :: e :: l2) = None.
Proof. exact undefined_escape_rejected. Qed.
Print Assumptions C17_undefined_escape_rejected.

Theorem C17_string_literal_undefined_escape_rejected : forall l1 o1 e l2,
  starts_embedded (l1 ++ 92 :: e :: l2) = false ->
  decodes l1 o1 -> escape_defined e = false ->
  lit_denote_codes (34 :: (l1 ++ 92 :: e :: l2) ++ [34]) = LReject.
Proof. exact string_literal_undefined_escape_rejected. Qed.
Print Assumptions C17_string_literal_undefined_escape_rejected.

(* Names.  Full statement:  forall s, ident_pattern s -> reserved s = false ->
   scan s = Toks [name_tok s].  It is false on the recorded class C17:underscore-nonletter
   (`_1`, `_?`: the code demands a letter after the underscores, and baseline tests
   assert that `_123` is an error), so the pair of DESIGN §3 is proved instead. *)
Theorem C17_name_is_one_token_refuted :
  exists s, ident_pattern s /\ reserved s = false /\ scan s <> Toks [name_tok s].
Proof. exact name_is_one_token_refuted. Qed.
Print Assumptions C17_name_is_one_token_refuted.

Theorem C17_name_is_one_token_partial : forall s,
  ident_pattern s -> reserved s = false -> underscore_nonletter s = false ->
  scan s = Toks [name_tok s].
Proof. exact name_is_one_token_partial. Qed.
Print Assumptions C17_name_is_one_token_partial.

(* in particular every name that merely begins with a reserved word *)
Theorem C17_keyword_prefixed_name_is_one_token : forall k c w suf,
  In k keywords -> is_word c = true -> forallb is_word w = true -> name_suffix suf ->
  reserved (k ++ c :: w ++ suf) = false ->
  scan (k ++ c :: w ++ suf) = Toks [TIdent (k ++ c :: w ++ suf)].
Proof. exact keyword_prefixed_name_is_one_token. Qed.
Print Assumptions C17_keyword_prefixed_name_is_one_token.

(* the same name is matched whole after the quote of a symbol (after `.` the lexer is in
   the same state as anywhere else, so C17_name_is_one_token_partial applies) *)
Theorem C17_symbol_name_whole_partial : forall s,
  ident_pattern s -> underscore_nonletter s = false -> m_symbol_name s = Some (s, []).
Proof. exact symbol_name_whole_partial. Qed.
Print Assumptions C17_symbol_name_whole_partial.

Theorem C17_reserved_is_keyword : forall k, In k keywords -> scan k = Toks [TKw k].
Proof. exact reserved_is_keyword. Qed.
Print Assumptions C17_reserved_is_keyword.

(* Non-vacuity: concrete spellings of every form meet the hypotheses, with the values
   the unrepaired code got wrong. *)
Example C17_nonvacuous :
  lit_denote "0x7fff_ffff_ffff_ffff" = LInt max64 /\
  lit_denote "99999999999999999999" = LReject /\
  lit_denote "123456789012345678e1" = LInt 1234567890123456780 /\
  lit_denote "1e19" = LReject /\
  lit_denote "1_1.3_2E-2" = LFloat 4592821340308258370 /\
  lit_denote "1.0e23" = LFloat 4950912855330343670 /\
  lit_denote "1.0e400" = LReject /\
  lit_denote_codes [34; 97; 92; 116; 98; 34] = LStr [97; 9; 98] /\
  lit_denote_codes [34; 97; 92; 100; 98; 34] = LReject /\
  scan (codes "iffy") = Toks [TIdent (codes "iffy")] /\
  scan (codes "if") = Toks [TKw (codes "if")] /\
  ident_pattern (codes "iffy") /\ reserved (codes "iffy") = false /\
  underscore_nonletter (codes "iffy") = false /\
  is_dec_int 123456789012345678 1 1234567890123456780 /\
  sep_ok 16 (codes "7fff_ffff_ffff_ffff") = true /\
  decodes [97; 92; 116; 98] [97; 9; 98].
Proof.
  repeat split; try (vm_compute; reflexivity).
  - exists 105, (codes "ffy"), []. repeat split; auto.
  - apply string_decodes. vm_compute. reflexivity.
Qed.
