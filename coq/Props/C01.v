(* C01 — no host-level crash (partial: see DESIGN.md §C01 for what is proved and what is
   covered by the sweep only).
   Only property theorems here, each closed by [exact] of a lemma proved elsewhere.
   The table of built-in function bodies of /repo (every Go function with the signature of
   object.BuiltInFunc), translated by `harness dumpguards` to the guard IR, is written into
   gen/GuardData.v on every run together with [builtins_ok : all_safe builtins = true] by
   computation and the instances of the theorems below for that table. *)
From Coq Require Import List String ZArith.
Import ListNotations.
From PanVerif Require Import Safety.GuardIR Safety.GuardIRProofs Safety.Singletons.
From PanVerif Require Import Base.Int64 Slice.SliceModel Slice.SliceProofs.

(* A body accepted by the checker never indexes its arguments out of range: for EVERY number
   of received arguments and EVERY outcome of the conditions the analysis does not interpret. *)
Theorem C01_guard_check_sound : forall body,
  safe body = true -> forall n oracle, exec body n [] oracle <> GuardIR.Panic.
Proof. exact safe_sound. Qed.
Print Assumptions C01_guard_check_sound.

(* The same for a function that Go code calls with at least lo elements. *)
Theorem C01_guard_check_sound_from : forall lo body,
  safe_from lo body = true -> forall n oracle, lo <= n -> exec body n [] oracle <> GuardIR.Panic.
Proof. exact safe_from_sound. Qed.
Print Assumptions C01_guard_check_sound_from.

(* For a whole table of built-ins. *)
Theorem C01_all_builtins_safe : forall bs,
  all_safe bs = true ->
  forall key body, In (key, body) bs -> forall n oracle, exec body n [] oracle <> GuardIR.Panic.
Proof. exact all_safe_sound. Qed.
Print Assumptions C01_all_builtins_safe.

Theorem C01_all_internal_safe : forall bs,
  all_safe_from bs = true ->
  forall key lo body, In (key, lo, body) bs -> forall n oracle, lo <= n -> exec body n [] oracle <> GuardIR.Panic.
Proof. exact all_safe_from_sound. Qed.
Print Assumptions C01_all_internal_safe.

(* Every prototype object that is declared empty is filled by init(). *)
Theorem C01_singletons_initialised : forall declared initialised,
  all_initialised declared initialised = true -> forall d, In d declared -> In d initialised.
Proof. exact all_initialised_sound. Qed.
Print Assumptions C01_singletons_initialised.

(* Indexing and slicing of arrays and strings (evaluator/index.go) cannot panic and cannot
   run away, for every receiver, every range and every index, for lengths that fit Go's int (shared with C11). *)
Theorem C01_slice_no_panic : forall A (l : list A) (s : list Z) r i,
  in64 (2 * len64 l + 2) -> in64 (2 * len64 s + 2) ->
  arrRange r l <> Panic /\ arrRange r l <> OutOfFuel /\
  strRange r s <> Panic /\ strRange r s <> OutOfFuel /\
  arrIndex i l <> Panic /\ strIndex i s <> Panic.
Proof. exact slice_no_panic. Qed.
Print Assumptions C01_slice_no_panic.

(* Non-vacuity: the checker rejects bodies that do panic, and accepts the guarded forms the
   code base uses (length test, guard helper + error test, switch on the length, loop). *)
Example C01_rejects_unguarded : safe [SUse 0] = false /\ exec [SUse 0] 0 [] [] = GuardIR.Panic.
Proof. exact unguarded_rejected. Qed.
Example C01_guarded :
  safe [SIf (CLenLt 2) [SReturn] []; SUse 0; SUse 1] = true /\
  safe [SIf (CLenLt 1) [SReturn] []; SUse 0; SUse 1] = false /\
  exec [SIf (CLenLt 1) [SReturn] []; SUse 0; SUse 1] 1 [] [] = GuardIR.Panic.
Proof. exact guarded_accepted. Qed.
Example C01_helper :
  safe [SHelper 0 2; SIf (CErrNotNil 0) [SReturn] []; SUse 1] = true /\
  safe [SHelper 0 2; SIf (COther) [SReturn] []; SUse 1] = false.
Proof. exact helper_accepted. Qed.
Example C01_missing_singleton_rejected :
  all_initialised ["BuiltInErrObj"; "BuiltInFileNotFoundErr"]%string ["BuiltInErrObj"]%string = false.
Proof. exact missing_one_rejected. Qed.
