(* C15 — deferred expressions run exactly once, in order, on every way out of a
   function. Statements about PanCore's statement-list evaluator (Core/Interp.v:
   eval_stmt, run_stmts, run_defers, eval_body), for EVERY body, every
   environment and state, and an arbitrary lower interpreter level R (so for every
   expression evaluator, in particular every nesting of calls). Proofs are in
   Core/DeferProofs.v. *)
From Coq Require Import ZArith String List Bool.
From PanVerif Require Import Core.Syntax Core.Values Core.Interp Core.DeferProofs.
Import ListNotations.

(* Statements written after the point where the body left (return, raise, error
   from a nested call) are never run — plain statements and defers alike. *)
Theorem C15_unreached_never_run :
  forall W R ss1 ss2 env st r ds st',
    run_prefix W R ss1 env (vNil W) None [] st = (Exited r ds, st') ->
    eval_body W R (ss1 ++ ss2) env st = eval_body W R ss1 env st.
Proof. exact unreached_never_run. Qed.
Print Assumptions C15_unreached_never_run.

(* A reached defer is not evaluated on the spot: it is queued behind the earlier ones. *)
Theorem C15_defer_reached :
  forall W R e env last y ds st,
    run_prefix W R [SJump JDefer e] env last y ds st = (Fell (vNil W) y (ds ++ [e]), st).
Proof. exact defer_reached. Qed.
Print Assumptions C15_defer_reached.

Theorem C15_guarded_defer_reached :
  forall W R e c env last y ds st cv st1 b st2,
    r_expr R c env st = (Ok cv, st1) -> is_truthy R env cv st1 = (Ok b, st2) ->
    run_prefix W R [SJumpIf JDefer e c] env last y ds st =
    (Fell (vNil W) y (if b then ds ++ [e] else ds), st2).
Proof. exact guarded_defer_reached. Qed.
Print Assumptions C15_guarded_defer_reached.

(* The body is: its statements up to the exit point (run_prefix), then the queued
   expressions one after the other in that order, each once; the outcome is the
   body's own unless a deferred expression raises. *)
Theorem C15_defer_spec :
  forall W R ss env st s st1,
    run_prefix W R ss env (vNil W) None [] st = (s, st1) ->
    not_cut (fst (finish s)) ->
    eval_body W R ss env st =
    match run_defers R (snd (finish s)) env st1 with
    | (Ok _, st2) => (fst (finish s), st2)
    | (Er k m, st2) => (Er k m, st2)
    | (Fuel, st2) => (Fuel, st2)
    | (Unsup w, st2) => (Unsup w, st2)
    end.
Proof. exact defer_spec. Qed.
Print Assumptions C15_defer_spec.

Theorem C15_defers_in_order_each_once :
  forall R d1 d2 env st,
    run_defers R (d1 ++ d2) env st =
    match run_defers R d1 env st with
    | (Ok _, st') => run_defers R d2 env st'
    | (Er k m, st') => (Er k m, st')
    | (Fuel, st') => (Fuel, st')
    | (Unsup w, st') => (Unsup w, st')
    end.
Proof. exact run_defers_app. Qed.
Print Assumptions C15_defers_in_order_each_once.

Theorem C15_outcome_unchanged_by_defers :
  forall W R ss env st s st1 st2 u,
    run_prefix W R ss env (vNil W) None [] st = (s, st1) ->
    not_cut (fst (finish s)) ->
    run_defers R (snd (finish s)) env st1 = (Ok u, st2) ->
    fst (eval_body W R ss env st) = fst (finish s).
Proof. exact outcome_unchanged. Qed.
Print Assumptions C15_outcome_unchanged_by_defers.

Theorem C15_raising_defer_replaces_outcome_and_stops :
  forall W R ss env st s st1 d1 d d2 st2 k m st3 u,
    run_prefix W R ss env (vNil W) None [] st = (s, st1) ->
    not_cut (fst (finish s)) ->
    snd (finish s) = d1 ++ d :: d2 ->
    run_defers R d1 env st1 = (Ok u, st2) ->
    r_expr R d env st2 = (Er k m, st3) ->
    eval_body W R ss env st = (Er k m, st3).
Proof. exact raising_defer_wins. Qed.
Print Assumptions C15_raising_defer_replaces_outcome_and_stops.

Theorem C15_nested_calls_finish_their_defers_first :
  forall W n, r_body (level W (S n)) = eval_body W (level W n).
Proof. exact nested_body_is_eval_body. Qed.
Print Assumptions C15_nested_calls_finish_their_defers_first.

(* Non-vacuity: a concrete body that queues a defer, returns, and has a statement
   after the return, satisfies the hypothesis of the first theorem. *)
Definition W0 : wk := {| wk_names := [] |}.
Definition st0 : state := {| heap := []; frames := [ {| fstore := []; fouter := None |} ];
                             funcs := []; biters := []; out := []; inp := [] |}.
Example C15_nonvacuous :
  exists r ds st', run_prefix W0 (level W0 5)
     [SJump JDefer (EInt 1); SJump JReturn (EInt 2)] 0 (vNil W0) None [] st0 = (Exited r ds, st')
     /\ ds = [EInt 1] /\ r = Ok (vInt W0 2).
Proof. vm_compute. do 3 eexists. split; [reflexivity|]. split; reflexivity. Qed.
