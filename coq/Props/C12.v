(* C12 — one truthiness rule governs if/else, guards, !, && and ||, with
   short-circuiting. For every value, environment, state and lower interpreter
   level R. The facts about the concrete built-in zero values (0, 0.0, "", [],
   {}, %{}, nil, false are false; non-zero values are true) depend on the
   built-in objects and are kernel-checked on every run against the regenerated
   world (gen/C12World.v, written by tools/c12.py). Proofs: Core/TruthyProofs.v *)
From Coq Require Import ZArith String List Bool.
From PanVerif Require Import Core.Syntax Core.Values Core.Interp Core.TruthyProofs.
Import ListNotations.

(* the rule: the value's B property, looked up along the prototype chain and called
   exactly once; anything but `true` (an error included) counts as false *)
Theorem C12_the_rule :
  forall R env v st,
    truthy_via_B R env v st =
    match r_callprop R env v "B" [] [] st with
    | (Ok b, st') => (Ok (is_true b), st')
    | (Er _ _, st') => (Ok false, st')
    | (Fuel, st') => (Fuel, st')
    | (Unsup w, st') => (Unsup w, st')
    end.
Proof. exact truthy_rule. Qed.
Print Assumptions C12_the_rule.

Theorem C12_if_and_guards_use_the_rule :
  forall R env v st,
    is_truthy R env v st = match v with VBool b => (Ok b, st) | _ => truthy_via_B R env v st end.
Proof. exact is_truthy_rule. Qed.
Print Assumptions C12_if_and_guards_use_the_rule.

Theorem C12_not_is_negation_of_the_rule :
  forall W R env v args kw st,
    call_builtin W R env B_Obj_not (v :: args) kw st =
    match truthy_via_B R env v st with
    | (Ok t, st') => (Ok (VBool (negb t)), st')
    | (Er k m, st') => (Er k m, st')
    | (Fuel, st') => (Fuel, st')
    | (Unsup w, st') => (Unsup w, st')
    end.
Proof. exact not_rule. Qed.
Print Assumptions C12_not_is_negation_of_the_rule.

Theorem C12_if_true_only_then_branch :
  forall W R fuel c t e env st cv st1 st2,
    r_expr R c env st = (Ok cv, st1) -> is_truthy R env cv st1 = (Ok true, st2) ->
    eval_expr W R fuel (EIf c t e) env st = r_expr R t env st2.
Proof. exact if_then. Qed.
Print Assumptions C12_if_true_only_then_branch.

Theorem C12_if_false_only_else_branch :
  forall W R fuel c t e env st cv st1 st2,
    r_expr R c env st = (Ok cv, st1) -> is_truthy R env cv st1 = (Ok false, st2) ->
    eval_expr W R fuel (EIf c t e) env st =
    match e with Some e2 => r_expr R e2 env st2 | None => (Ok (vNil W), st2) end.
Proof. exact if_else. Qed.
Print Assumptions C12_if_false_only_else_branch.

Theorem C12_or :
  forall W R fuel l r env st lv st1 st2,
    r_expr R l env st = (Ok lv, st1) ->
    (truthy_via_B R env lv st1 = (Ok true, st2) ->
       eval_expr W R fuel (EInfix "||" l r) env st = (Ok lv, st2)) /\
    (truthy_via_B R env lv st1 = (Ok false, st2) ->
       eval_expr W R fuel (EInfix "||" l r) env st = r_expr R r env st2).
Proof. intros. split; intros; [eapply or_left_decides | eapply or_right_decides]; eassumption. Qed.
Print Assumptions C12_or.

Theorem C12_and :
  forall W R fuel l r env st lv st1 st2,
    r_expr R l env st = (Ok lv, st1) ->
    (truthy_via_B R env lv st1 = (Ok false, st2) ->
       eval_expr W R fuel (EInfix "&&" l r) env st = (Ok lv, st2)) /\
    (truthy_via_B R env lv st1 = (Ok true, st2) ->
       eval_expr W R fuel (EInfix "&&" l r) env st = r_expr R r env st2).
Proof. intros. split; intros; [eapply and_left_decides | eapply and_right_decides]; eassumption. Qed.
Print Assumptions C12_and.

Theorem C12_guarded_jumps :
  forall W R j e c env st cv st1 st2,
    r_expr R c env st = (Ok cv, st1) ->
    (is_truthy R env cv st1 = (Ok true, st2) ->
       eval_stmt W R (SJumpIf j e c) env st = eval_jump R j e env st2) /\
    (is_truthy R env cv st1 = (Ok false, st2) ->
       eval_stmt W R (SJumpIf j e c) env st =
       match j with JYield => (Er "StopIterErr" "iter stopped", st2) | _ => (Ok (SVal (vNil W)), st2) end).
Proof. intros. split; intros; [eapply guard_true | eapply guard_false]; eassumption. Qed.
Print Assumptions C12_guarded_jumps.
