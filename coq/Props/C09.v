(* C09 — object and map literals, unpacking and accessors keep their documented key
   rules. For all association lists / pair lists (so all literals and `**`
   combinations), all names and keys. Proofs: Core/ObjMapProofs.v (+ OrderProofs for
   first-wins). That the sorted order of names is the bytewise one is exercised by the
   correspondence (the proof shows the listing is a permutation of the own public names). *)
From Coq Require Import ZArith String List Bool Arith Permutation.
From PanVerif Require Import Core.Syntax Core.Values Core.Interp Core.OrderProofs Core.ObjMapProofs.
Import ListNotations.

(* objects: one value per name; the first occurrence wins, in a literal ... *)
Theorem C09_obj_first_occurrence_wins :
  forall A k (v : A) l,
    assoc k (add_first k v l) = match assoc k l with Some x => Some x | None => Some v end.
Proof. exact @assoc_add_first_same. Qed.
Print Assumptions C09_obj_first_occurrence_wins.

(* ... and across `**` unpacking: a name already present keeps its value whatever is unpacked after it *)
Theorem C09_obj_first_wins_across_unpacking :
  forall A (src : list (string * A)) acc k x,
    assoc k acc = Some x ->
    assoc k (fold_left (fun a kv => add_first (fst kv) (snd kv) a) src acc) = Some x.
Proof. exact @fold_add_first_keeps. Qed.
Print Assumptions C09_obj_first_wins_across_unpacking.

(* keys lists exactly the own public names; names starting with `_` are listed only on request *)
Theorem C09_keys_are_the_public_names :
  forall ps k, In k (public_keys ps) <-> (In k (map fst ps) /\ is_public k = true).
Proof. exact public_keys_spec. Qed.
Print Assumptions C09_keys_are_the_public_names.

Theorem C09_private_names_are_the_rest :
  forall ps k, In k (private_keys ps) <-> (In k (map fst ps) /\ is_public k = false).
Proof. exact private_keys_spec. Qed.
Print Assumptions C09_private_names_are_the_rest.

Theorem C09_underscore_names_are_private :
  forall c t, is_public (String c t) = true -> is_alpha c = true.
Proof. exact underscore_names_are_private. Qed.
Print Assumptions C09_underscore_names_are_private.

(* names are listed in sorted order (byte order of strings), public names first; each own name once *)
Theorem C09_keys_are_sorted :
  forall ps, sorted_names (public_keys ps) /\ sorted_names (private_keys ps).
Proof. intros ps. split; [apply public_keys_sorted|apply private_keys_sorted]. Qed.
Print Assumptions C09_keys_are_sorted.

Theorem C09_each_name_listed_once :
  forall ps, NoDup (map fst ps) -> NoDup (public_keys ps).
Proof. exact public_keys_nodup. Qed.
Print Assumptions C09_each_name_listed_once.

(* keys, values and items of an object describe the same pairs in the same order; private names
   appear only with private?: true (any other value of the keyword hides them), after the public ones *)
Theorem C09_obj_views_consistent :
  forall W R env st id o kw,
    as_obj W st (VObj id) = Some id -> get_obj st id = Some o ->
    let ks := app (public_keys (opairs o)) (if kw_true kw "private?"%string then private_keys (opairs o) else []) in
    let row f := flat_map (fun k => match assoc k (opairs o) with Some v => [f k v] | None => [] end) ks in
    call_builtin W R env B_Obj_keys [VObj id] kw st = (Ok (vArr W (row (fun k _ => vStr W k))), st) /\
    call_builtin W R env B_Obj_values [VObj id] kw st = (Ok (vArr W (row (fun _ v => v))), st) /\
    call_builtin W R env B_Obj_items [VObj id] kw st = (Ok (vArr W (row (fun k v => vArr W [vStr W k; v]))), st).
Proof. exact obj_views_consistent. Qed.
Print Assumptions C09_obj_views_consistent.

Example C09_sorted_example :
  public_keys [("zz"%string, VBool true); ("a"%string, VBool true); ("_p"%string, VBool true); ("Bq"%string, VBool true)] = ["Bq"; "a"; "zz"]%string /\
  private_keys [("zz"%string, VBool true); ("a"%string, VBool true); ("_p"%string, VBool true); ("Bq"%string, VBool true)] = ["_p"]%string.
Proof. split; reflexivity. Qed.

(* maps: a scalar key keeps the first value given for it; new keys go to the end (insertion order) *)
Theorem C09_map_first_value_wins :
  forall k v l, is_scalar k = true ->
    scalar_lookup k (scalar_add_first k v l) = match scalar_lookup k l with Some x => Some x | None => Some v end.
Proof. exact scalar_lookup_after_add. Qed.
Print Assumptions C09_map_first_value_wins.

Theorem C09_map_insertion_order :
  forall k v l,
    (forall x, scalar_lookup k l = Some x -> scalar_add_first k v l = l) /\
    (scalar_lookup k l = None -> scalar_add_first k v l = l ++ [(k, v)]).
Proof. intros. split; [intros x; apply scalar_add_first_keeps | apply scalar_add_first_appends]. Qed.
Print Assumptions C09_map_insertion_order.

(* len, keys, values, items and iteration describe the same pairs: scalar keys in insertion
   order followed by the other keys in insertion order *)
Theorem C09_map_views_consistent :
  forall W R env st p sc ns kw,
    let m := VMap p sc ns in
    call_builtin W R env B_Map_keys [m] kw st = (Ok (vArr W (map fst (map_pairs sc ns))), st) /\
    call_builtin W R env B_Map_values [m] kw st = (Ok (vArr W (map snd (map_pairs sc ns))), st) /\
    call_builtin W R env B_Map_items [m] kw st =
      (Ok (vArr W (map (fun kv => vArr W [fst kv; snd kv]) (map_pairs sc ns))), st) /\
    call_builtin W R env B_Map_len [m] kw st = (Ok (vInt W (Z.of_nat (length (map_pairs sc ns)))), st).
Proof. exact map_views_consistent. Qed.
Print Assumptions C09_map_views_consistent.

Theorem C09_map_iteration_yields_items :
  forall W R env st p sc ns kw,
    call_builtin W R env B_Map_iter [VMap p sc ns] kw st =
    alloc_biter (BIList (map (fun kv => vArr W [fst kv; snd kv]) (map_pairs sc ns))) st.
Proof. exact map_iter_yields_items. Qed.
Print Assumptions C09_map_iteration_yields_items.

Theorem C09_map_index_returns_stored_value :
  forall W R env st p sc ns k v ix kw,
    is_scalar k = true -> scalar_lookup k sc = Some v ->
    as_arr W st ix = Some (wkv W "Arr", [k]) ->
    call_builtin W R env B_Map_at [VMap p sc ns; ix] kw st = (Ok v, st).
Proof. exact map_at_scalar_present. Qed.
Print Assumptions C09_map_index_returns_stored_value.
