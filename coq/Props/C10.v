(* C10 — integer arithmetic and comparison return the mathematically exact result.
   Only property theorems here, each closed by [exact] of a lemma proved in
   Arith/IntProofs.v about the executable model Arith/IntModel.v. *)
From Coq Require Import ZArith Reals.
From Flocq Require Import Core.Zaux Core.Raux Core.Defs Core.Generic_fmt
     IEEE754.BinarySingleNaN IEEE754.Binary IEEE754.Bits.
From PanVerif Require Import Base.Int64 Arith.IntModel Arith.IntProofs.
Local Open Scope Z_scope.

Theorem C10_add_exact : forall a b, in64 (a + b) -> iadd a b = RInt (a + b).
Proof. exact add_exact. Qed.
Print Assumptions C10_add_exact.

Theorem C10_sub_exact : forall a b, in64 (a - b) -> isub a b = RInt (a - b).
Proof. exact sub_exact. Qed.
Print Assumptions C10_sub_exact.

Theorem C10_mul_exact : forall a b, in64 (a * b) -> imul a b = RInt (a * b).
Proof. exact mul_exact. Qed.
Print Assumptions C10_mul_exact.

Theorem C10_neg_exact : forall a, in64 (- a) -> ineg a = RInt (- a).
Proof. exact neg_exact. Qed.
Print Assumptions C10_neg_exact.

Theorem C10_pow_exact : forall a b, 0 <= b -> in64 (a ^ b) -> ipow a b = RInt (a ^ b).
Proof. exact pow_exact. Qed.
Print Assumptions C10_pow_exact.

(* Z's [/] is the floor quotient. *)
Theorem C10_floordiv_exact : forall a b,
  in64 a -> in64 b -> b <> 0 -> in64 (a / b) -> ifloordiv a b = RInt (a / b).
Proof. exact floordiv_exact. Qed.
Print Assumptions C10_floordiv_exact.

Theorem C10_mod_spec : forall a b, in64 b -> b <> 0 ->
  exists r, imod a b = RInt r /\ Z.abs r < Z.abs b /\ (b | a - r).
Proof. exact mod_spec. Qed.
Print Assumptions C10_mod_spec.

Theorem C10_cmp_spec : forall a b,
  icmp a b = RInt (match a ?= b with Lt => -1 | Eq => 0 | Gt => 1 end).
Proof. exact cmp_spec. Qed.
Print Assumptions C10_cmp_spec.

Theorem C10_by_zero : forall a,
  itruediv a 0 = RZeroDiv /\ ifloordiv a 0 = RZeroDiv /\ imod a 0 = RZeroDiv.
Proof. exact by_zero. Qed.
Print Assumptions C10_by_zero.

Theorem C10_truediv_is_float_quotient : forall a b, b <> 0 ->
  exists f, itruediv a b = RFloat (bits_of_b64 f) /\ f = b64_div mode_NE (z2f a) (z2f b) /\
  (B2R 53 1024 (z2f b) <> 0%R ->
   if Rlt_bool (Rabs (round radix2 (SpecFloat.fexp 53 1024) (round_mode mode_NE)
                        (B2R 53 1024 (z2f a) / B2R 53 1024 (z2f b)))) (bpow radix2 1024)
   then B2R 53 1024 f = round radix2 (SpecFloat.fexp 53 1024) (round_mode mode_NE)
                          (B2R 53 1024 (z2f a) / B2R 53 1024 (z2f b))
   else True).
Proof. exact truediv_is_float_quotient. Qed.
Print Assumptions C10_truediv_is_float_quotient.

(* Non-vacuity: the hypotheses are met by concrete, non-trivial operands. *)
Example C10_nonvacuous :
  in64 ((-7) / 2) /\ ifloordiv (-7) 2 = RInt (-4) /\
  in64 (3 ^ 35) /\ ipow 3 35 = RInt 50031545098999707 /\
  in64 (max64 + min64) /\ iadd max64 min64 = RInt (-1).
Proof. vm_compute. repeat split; discriminate. Qed.
