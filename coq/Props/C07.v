(* C07 — raised errors stop evaluation and reach the nearest handler (fail-stop).
   Each theorem: for every environment, state and every lower interpreter level R
   (so every nesting), if the sub-expression at the named position raises (k, m)
   from state st2 — the earlier positions having been evaluated in order — then
   the whole construct raises exactly (k, m) and the state is st2: whatever is
   written AFTER that position (universally quantified) is not evaluated, prints
   nothing and assigns nothing. Proofs: Core/FailStopProofs.v. *)
From Coq Require Import ZArith String List Bool.
From PanVerif Require Import Core.Syntax Core.Values Core.Interp Core.DeferProofs Core.FailStopProofs.
Import ListNotations.

Theorem C07_sequencing_stops_at_first_raise :
  forall A B (m : M A) (f : A -> M B) st k e st',
    m st = (Er k e, st') -> bind m f st = (Er k e, st').
Proof. exact @bind_er. Qed.
Print Assumptions C07_sequencing_stops_at_first_raise.

Theorem C07_array_element :
  forall W R es1, Forall plain es1 ->
  forall e es2 env st vs st1 k m st2,
    mapM (fun x => r_expr R x env) es1 st = (Ok vs, st1) ->
    r_expr R e env st1 = (Er k m, st2) -> plain e ->
    eval_arr_elems W R (es1 ++ e :: es2) env st = (Er k m, st2).
Proof. exact arr_elems_fail. Qed.
Print Assumptions C07_array_element.

Theorem C07_positional_argument :
  forall W R es1, Forall plain es1 ->
  forall e es2 env st vs st1 k m st2,
    mapM (fun x => r_expr R x env) es1 st = (Ok vs, st1) ->
    r_expr R e env st1 = (Er k m, st2) -> plain e ->
    eval_args W R (es1 ++ e :: es2) env st = (Er k m, st2).
Proof. exact args_fail. Qed.
Print Assumptions C07_positional_argument.

Theorem C07_keyword_argument :
  forall R ks1 x e ks2 env acc st acc1 st1 k m st2,
    eval_kwargs R ks1 env acc st = (Ok acc1, st1) -> r_expr R e env st1 = (Er k m, st2) ->
    eval_kwargs R (ks1 ++ (x, e) :: ks2) env acc st = (Er k m, st2).
Proof. exact kwargs_fail. Qed.
Print Assumptions C07_keyword_argument.

Theorem C07_infix_left_operand :
  forall W R fuel op l r env st k m st',
    r_expr R l env st = (Er k m, st') ->
    eval_expr W R fuel (EInfix op l r) env st = (Er k m, st').
Proof. exact infix_left_fail. Qed.
Print Assumptions C07_infix_left_operand.

Theorem C07_infix_right_operand :
  forall W R fuel op l r env st lv st1 k m st2,
    String.eqb op "||" = false -> String.eqb op "&&" = false ->
    r_expr R l env st = (Ok lv, st1) -> r_expr R r env st1 = (Er k m, st2) ->
    eval_expr W R fuel (EInfix op l r) env st = (Er k m, st2).
Proof. exact infix_right_fail. Qed.
Print Assumptions C07_infix_right_operand.

Theorem C07_range_bounds :
  forall W R fuel,
  (forall a b c env st k m st', r_expr R a env st = (Er k m, st') ->
     eval_expr W R fuel (ERange (Some a) b c) env st = (Er k m, st')) /\
  (forall a b c env st k m st1 st2 va,
     eval_opt W R a env st = (Ok va, st1) -> r_expr R b env st1 = (Er k m, st2) ->
     eval_expr W R fuel (ERange a (Some b) c) env st = (Er k m, st2)) /\
  (forall a b c env st k m st1 st2 st3 va vb,
     eval_opt W R a env st = (Ok va, st1) -> eval_opt W R b env st1 = (Ok vb, st2) ->
     r_expr R c env st2 = (Er k m, st3) ->
     eval_expr W R fuel (ERange a b (Some c)) env st = (Er k m, st3)).
Proof. intros W R fuel. split; [|split]; [apply range_fail_1 | apply range_fail_2 | apply range_fail_3]. Qed.
Print Assumptions C07_range_bounds.

Theorem C07_condition :
  forall W R fuel c t e env st k m st',
    r_expr R c env st = (Er k m, st') ->
    eval_expr W R fuel (EIf c t e) env st = (Er k m, st').
Proof. exact if_cond_fail. Qed.
Print Assumptions C07_condition.

Theorem C07_assignment_not_performed :
  forall W R fuel x e env st k m st',
    r_expr R e env st = (Er k m, st') ->
    eval_expr W R fuel (EAssign x e) env st = (Er k m, st').
Proof. exact assign_fail. Qed.
Print Assumptions C07_assignment_not_performed.

Theorem C07_receiver_and_chain_argument :
  forall W R fuel,
  (forall add main carg r p args kw env st k m st',
     r_expr R r env st = (Er k m, st') ->
     eval_expr W R fuel (EPropCall add main carg (Some r) p args kw) env st = (Er k m, st')) /\
  (forall add main ca r p args kw env st rv st1 k m st2,
     r_expr R r env st = (Ok rv, st1) -> r_expr R ca env st1 = (Er k m, st2) ->
     eval_expr W R fuel (EPropCall add main (Some ca) (Some r) p args kw) env st = (Er k m, st2)).
Proof. intros W R fuel. split; [apply propcall_recv_fail | apply propcall_chainarg_fail]. Qed.
Print Assumptions C07_receiver_and_chain_argument.

Theorem C07_statement_k_of_n :
  forall W R ss1 s ss2 env st l y ds st1 k m st2,
    run_prefix W R ss1 env (vNil W) None [] st = (Fell l y ds, st1) ->
    eval_stmt W R s env st1 = (Er k m, st2) ->
    run_prefix W R (ss1 ++ s :: ss2) env (vNil W) None [] st = (Exited (Er k m) ds, st2).
Proof. exact stmts_fail. Qed.
Print Assumptions C07_statement_k_of_n.

Theorem C07_list_chain_element :
  forall S n (nxt : S -> M (option (val * S))) s keep h acc st x s' st1 k m st2,
    nxt s st = (Ok (Some (x, s')), st1) -> h x st1 = (Er k m, st2) ->
    list_loop (Datatypes.S n) nxt s keep h acc st = (Er k m, st2).
Proof. exact @list_loop_elem_fail. Qed.
Print Assumptions C07_list_chain_element.

Theorem C07_reduce_chain_element :
  forall S n (nxt : S -> M (option (val * S))) s h acc st x s' st1 k m st2,
    nxt s st = (Ok (Some (x, s')), st1) -> h acc x st1 = (Er k m, st2) ->
    reduce_loop (Datatypes.S n) nxt s h acc st = (Er k m, st2).
Proof. exact @reduce_loop_elem_fail. Qed.
Print Assumptions C07_reduce_chain_element.

(* nearest handler: it receives exactly the raised kind and message *)
Theorem C07_handler_receives_the_error :
  forall A (m : M A) st k e st',
    m st = (Er k e, st') -> catch m st = (Ok (inr (k, e)), st').
Proof. exact @catch_er. Qed.
Print Assumptions C07_handler_receives_the_error.

Theorem C07_thoughtful_step_absorbs :
  forall base recv st k m st',
    base recv st = (Er k m, st') -> thoughtful base recv st = (Ok recv, st').
Proof. exact thoughtful_absorbs. Qed.
Print Assumptions C07_thoughtful_step_absorbs.

(* Non-vacuity: [1, 1/0-like raise, 3] in a concrete world-free instance. *)
Definition W0 : wk := {| wk_names := [] |}.
Definition st0 : state := {| heap := []; frames := [ {| fstore := []; fouter := None |} ];
                             funcs := []; biters := []; out := []; inp := [] |}.
Example C07_nonvacuous :
  exists k m st2, eval_arr_elems W0 (level W0 5) ([EInt 1] ++ EIdent "nope" :: [EInt 3]) 0 st0 = (Er k m, st2)
                  /\ k = "NameErr"%string.
Proof. vm_compute. do 3 eexists. split; reflexivity. Qed.
