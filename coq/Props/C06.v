(* C06 — once created, an int, array, object or map value never changes what it prints,
   contains, equals or inherits, whatever operations are later applied to it or to
   values derived from it.  The model is the Go heap underneath the values
   (Heap/GoSlices.v: mutable backing arrays, slices with ANY capacity >= length, map
   cells behind shared pointers); [abs] reads a value through the heap.
   Only property theorems here, each closed by [exact] of a lemma of
   Heap/GoSlicesProofs.v. *)
From Coq Require Import List ZArith Bool.
Import ListNotations.
From PanVerif Require Import Heap.GoSlices Heap.GoSlicesProofs.

(* One operation of the repaired interpreter, any operands, ALL capacities the
   allocator may choose ([snd oc]): every value that existed before reads the same. *)
Theorem C06_op_frame : forall h oc h' r,
  wf h -> step h oc = (h', r) ->
  forall f ref, live h ref -> abs f h' (VRef ref) = abs f h (VRef ref).
Proof. exact op_frame. Qed.
Print Assumptions C06_op_frame.

(* ... and inherits from the same prototype object (identity). *)
Theorem C06_proto_frame : forall h oc h' r,
  step h oc = (h', r) -> forall ref, live h ref ->
  proto_of h' (VRef ref) = proto_of h (VRef ref).
Proof. exact proto_frame. Qed.
Print Assumptions C06_proto_frame.

(* The invariant is kept by every step (so it holds on every reachable heap). *)
Theorem C06_step_wf : forall pi h oc h' r,
  wf h -> step_gen pi h oc = (h', r) -> wf h' /\ ok h' r.
Proof. exact step_gen_wf. Qed.
Print Assumptions C06_step_wf.

(* Every history, every alias: whatever is live after [ops1] reads the same after any
   continuation [ops2] (all operations, all operands, all capacities). *)
Theorem C06_history_frame : forall ops1 ops2 f ref,
  live (run PlusCopy ops1 empty_heap) ref ->
  abs f (run PlusCopy (ops1 ++ ops2) empty_heap) (VRef ref) =
  abs f (run PlusCopy ops1 empty_heap) (VRef ref).
Proof. exact history_frame. Qed.
Print Assumptions C06_history_frame.

(* The same for histories whose statements name earlier results (v7 := v3 + v5):
   variable i never changes. *)
Theorem C06_history_named : forall ocs1 ocs2 f i,
  i < length (snd (hrun PlusCopy ocs1)) ->
  abs f (fst (hrun PlusCopy (ocs1 ++ ocs2))) (nth i (snd (hrun PlusCopy (ocs1 ++ ocs2))) VNil) =
  abs f (fst (hrun PlusCopy ocs1)) (nth i (snd (hrun PlusCopy ocs1)) VNil).
Proof. exact hrun_stable. Qed.
Print Assumptions C06_history_named.

(* The generic lemma behind the translator tie (harness dumpwrites / gen/WriteSites.v):
   a step all of whose writes go through fresh roots is a frame step — for the
   repaired and for the original Arr#+ alike. *)
Theorem C06_fresh_roots_frame : forall pi h oc h' r,
  wf h -> step_gen pi h oc = (h', r) ->
  forallb (fresh_rootb h) (step_log pi h oc) = true ->
  forall f v, ok h v -> abs f h' v = abs f h v.
Proof. exact fresh_roots_frame. Qed.
Print Assumptions C06_fresh_roots_frame.

(* The repaired operations write only through roots allocated by the step itself. *)
Theorem C06_step_writes_fresh : forall h oc,
  forallb (fresh_rootb h) (step_log PlusCopy h oc) = true.
Proof. exact step_writes_fresh. Qed.
Print Assumptions C06_step_writes_fresh.

Theorem C06_compile_fresh : forall h o prog,
  compile PlusCopy h o = Some prog -> fresh_writes prog = true.
Proof. exact compile_fresh. Qed.
Print Assumptions C06_compile_fresh.

(* The ORIGINAL Arr#+ (append onto the receiver's slice) refutes op_frame:
   a := [1,2,3]; b := a + [4]; c := a + [5] changes b. Bites again if the fix is reverted. *)
Theorem C06_arr_plus_append_refuted :
  exists h oc h' r ref f,
    wf h /\ live h ref /\ step_orig h oc = (h', r) /\
    abs f h' (VRef ref) <> abs f h (VRef ref).
Proof. exact arr_plus_append_refuted. Qed.
Print Assumptions C06_arr_plus_append_refuted.

Theorem C06_plus_append_not_fresh : forall h a b prog,
  compile PlusAppend h (OpPlus a b) = Some prog -> fresh_writes prog = false.
Proof. exact plus_append_not_fresh. Qed.
Print Assumptions C06_plus_append_not_fresh.

(* Non-vacuity: a reachable, well-formed heap with real sharing — b := p.new(a) shares
   a's slice (spare capacity 1), o' := o.bear(o) shares o's map cell — on which
   a + [9], [*a, *b] and {**o} run and leave a, b, o, o' as they were, while the
   original Arr#+ run on the same heap writes into the shared backing array. *)
Definition nv_hist : list (op * list nat) :=
  [ (OpArrLit [AVal (VInt 1); AVal (VInt 2); AVal (VInt 3)], [1; 2; 4]);   (* v0 = a *)
    (OpArrNew (VRef 0) (VRef 0), []);                                      (* v1 = a.new(a) *)
    (OpObjLit [(0, VRef 0); (1, VInt 7)] [], []);                          (* v2 = {a: a, b: 7} *)
    (OpBear (VRef 2) (Some (VRef 2)), []) ].                               (* v3 = v2.bear(v2) *)
Definition nv_more : list (op * list nat) :=
  [ (OpArrLit [AVal (VInt 9)], []);
    (OpPlus (VRef 0) (VRef 4), [5]);
    (OpArrLit [ASplat (VRef 0); ASplat (VRef 1)], [3; 3; 17]);
    (OpObjLit [(2, VRef 5)] [VRef 2; VRef 3], []);
    (OpKwargs [(1, VInt 0)] [VRef 3], []) ].

Example C06_nonvacuous :
  let h := fst (hrun PlusCopy nv_hist) in
  let env := snd (hrun PlusCopy nv_hist) in
  wf h /\ length env = 4 /\
  abs 8 h (nth 1 env VNil) = UArr (Some 0) [UInt 1; UInt 2; UInt 3] /\
  get_arr h (nth 0 env VNil) = get_arr h (nth 1 env VNil) /\
  get_cell h KObj (nth 2 env VNil) = get_cell h KObj (nth 3 env VNil) /\
  stable_from PlusCopy (empty_heap, []) (nv_hist ++ nv_more) = true /\
  abs 8 (fst (hrun PlusCopy (nv_hist ++ nv_more))) (nth 5 (snd (hrun PlusCopy (nv_hist ++ nv_more))) VNil)
    = UArr None [UInt 1; UInt 2; UInt 3; UInt 9] /\
  stable_from PlusAppend (empty_heap, [])
    (nv_hist ++ [ (OpArrLit [AVal (VInt 9)], []); (OpPlus (VRef 0) (VRef 4), []);
                  (OpArrLit [AVal (VInt 8)], []); (OpPlus (VRef 1) (VRef 6), []) ]) = false.
Proof.
  split; [apply (hrun_stable_from nv_hist (empty_heap, [])); split; [apply wf_empty | constructor]|].
  vm_compute. repeat split; reflexivity.
Qed.
