(* C18 — equality and ordering obey their algebraic laws. The order operators of
   ints, floats and strs (and of everything inheriting from them) are Comparable's
   native definitions over the built-in `<=>` (`a < b` is `(a <=> b) == -1`, ...),
   so the laws of the order reduce to the laws of the three-way comparisons the
   built-ins compute. Theorems: those comparisons are total orders on ALL ints,
   ALL strings, ALL non-NaN binary64 bit patterns, and the built-ins compute them.
   Structural `==` on containers dispatches per element through the interpreter;
   its symmetry/reflexivity over nested values is established by the pool
   correspondence (all ordered pairs), not by a theorem. Proofs: Core/EqProofs.v. *)
From Coq Require Import ZArith String List Bool.
From PanVerif Require Import Core.Syntax Core.Values Core.Interp Core.EqProofs.
Import ListNotations.
Local Open Scope Z_scope.

(* ints: exactly one of <, ==, > ; <=> is antisymmetric; the order is transitive *)
Theorem C18_int_trichotomy :
  forall x y, (zcmp x y = -1 /\ x < y) \/ (zcmp x y = 0 /\ x = y) \/ (zcmp x y = 1 /\ x > y).
Proof. exact zcmp_trichotomy. Qed.
Print Assumptions C18_int_trichotomy.

Theorem C18_int_cmp_antisym : forall x y, zcmp y x = - zcmp x y.
Proof. exact zcmp_antisym. Qed.
Print Assumptions C18_int_cmp_antisym.

Theorem C18_int_lt_trans : forall x y z, zcmp x y = -1 -> zcmp y z = -1 -> zcmp x z = -1.
Proof. exact zcmp_trans. Qed.
Print Assumptions C18_int_lt_trans.

Theorem C18_int_builtins_compute_it :
  forall W R env st p x q y kw,
    call_builtin W R env B_Int_cmp [VInt p x; VInt q y] kw st = (Ok (vInt W (zcmp x y)), st) /\
    call_builtin W R env B_Int_eq [VInt p x; VInt q y] kw st = (Ok (VBool (val_same p q && (x =? y))), st) /\
    call_builtin W R env B_Int_neq [VInt p x; VInt q y] kw st = (Ok (VBool (negb (val_same p q && (x =? y)))), st).
Proof. intros. split; [apply int_cmp_builtin | split; [apply int_eq_builtin | apply int_neq_is_negation]]. Qed.
Print Assumptions C18_int_builtins_compute_it.

(* == between typed ints is symmetric (prototype identity is symmetric) *)
Theorem C18_int_eq_symmetric : forall p q x y, (val_same p q && (x =? y)) = (val_same q p && (y =? x)).
Proof. intros. now rewrite (val_same_sym p q), (Z.eqb_sym x y). Qed.
Print Assumptions C18_int_eq_symmetric.

(* strs *)
Theorem C18_str_total_order :
  forall x y z,
    (scmp x y = -1 \/ scmp x y = 0 \/ scmp x y = 1) /\
    scmp y x = - scmp x y /\
    (scmp x y = 0 <-> x = y) /\
    (scmp x y = -1 -> scmp y z = -1 -> scmp x z = -1).
Proof. intros. repeat split; try apply scmp_eq_iff. apply scmp_range. apply scmp_antisym. apply scmp_trans. Qed.
Print Assumptions C18_str_total_order.

Theorem C18_str_builtin_computes_it :
  forall W R env st p x q y kw,
    call_builtin W R env B_Str_cmp [VStr p x; VStr q y] kw st = (Ok (vInt W (scmp x y)), st).
Proof. exact str_cmp_builtin. Qed.
Print Assumptions C18_str_builtin_computes_it.

(* floats, NaN excluded (every IEEE comparison with NaN is false, so no total order includes it) *)
Theorem C18_float_total_order_without_nan :
  forall a b c, f_nan a = false -> f_nan b = false -> f_nan c = false ->
    fcmp b a = - fcmp a b /\
    (fcmp a b = 0 <-> f_eq a b = true) /\
    (fcmp a b = -1 -> fcmp b c = -1 -> fcmp a c = -1) /\
    f_eq a a = true /\ f_eq a b = f_eq b a.
Proof.
  intros a b c Ha Hb Hc. repeat split; try (now apply fcmp_eq_iff).
  - now apply fcmp_antisym.
  - now apply fcmp_trans.
  - now apply f_eq_refl.
  - apply f_eq_sym.
Qed.
Print Assumptions C18_float_total_order_without_nan.

Theorem C18_nan_equals_nothing :
  forall a b, f_nan a = true -> f_eq a b = false /\ f_eq b a = false /\ f_gt a b = false /\ f_gt b a = false.
Proof. exact f_nan_never_equal. Qed.
Print Assumptions C18_nan_equals_nothing.

Theorem C18_float_builtins_compute_it :
  forall W R env st a ta b tb kw,
    call_builtin W R env B_Float_cmp [VFloat a ta; VFloat b tb] kw st = (Ok (vInt W (fcmp a b)), st) /\
    call_builtin W R env B_Float_eq [VFloat a ta; VFloat b tb] kw st = (Ok (VBool (f_eq a b)), st).
Proof. intros. split; [apply float_cmp_builtin | apply float_eq_builtin]. Qed.
Print Assumptions C18_float_builtins_compute_it.
