(* C02 — "Any expression combining prefix operators, the 23 infix operators, chains, calls,
   indexing, if/else, assignments and jump statements is parsed into the grouping given by
   the documented precedence table, with binary operators of equal level grouping
   left-to-right and assignment right-to-left.  Adding the parentheses that the table
   implies never changes the parse."

   Only property theorems here, each closed by [exact] of a lemma proved in
   Prec/OpMachineProofs.v, Prec/PrecSpec.v or Prec/LalrCheck.v.  The theorems about the
   machine hold for ALL token lists (unbounded length and nesting) and for ANY decision
   function [red] — in particular for [PrecSpec.pred], the documented table.
   The instantiation of [C02_check_tables_sound] on the LALR tables of the current
   parser.go.y is gen/LalrInst.v, regenerated and re-checked by tools/c02.py on every run. *)
From Coq Require Import List String Bool Arith.
Import ListNotations.
From PanVerif Require Import Prec.OpMachine Prec.OpMachineProofs Prec.PrecSpec Prec.PrecSpecProofs Prec.PanExpr
     Prec.PanExprProofs
     Prec.LalrCheck.

(* the in-order yield of the machine's result is its input *)
Theorem C02_machine_yield : forall (A O : Type) (red : O -> O -> bool) (toks : list (token A O)) t,
  parse red toks = Some t -> yield t = toks.
Proof. exact machine_yield. Qed.
Print Assumptions C02_machine_yield.

(* the machine's result is well-precedenced with respect to the table it was given *)
Theorem C02_machine_well_prec : forall (A O : Type) (red : O -> O -> bool) (toks : list (token A O)) t,
  parse red toks = Some t -> wp red t.
Proof. exact machine_well_prec. Qed.
Print Assumptions C02_machine_well_prec.

(* every well-precedenced tree is found by the machine from its yield *)
Theorem C02_machine_complete : forall (A O : Type) (red : O -> O -> bool) (t : tree A O),
  wp red t -> parse red (yield t) = Some t.
Proof. exact machine_complete. Qed.
Print Assumptions C02_machine_complete.

(* two well-precedenced trees with the same yield are equal *)
Theorem C02_well_prec_unique : forall (A O : Type) (red : O -> O -> bool) (t1 t2 : tree A O),
  wp red t1 -> wp red t2 -> yield t1 = yield t2 -> t1 = t2.
Proof. exact well_prec_unique. Qed.
Print Assumptions C02_well_prec_unique.

(* hence: the parse of a token list is THE tree the table prescribes for it *)
Theorem C02_machine_spec : forall (A O : Type) (red : O -> O -> bool) (toks : list (token A O)) t,
  parse red toks = Some t <-> (yield t = toks /\ wp red t).
Proof. exact machine_spec. Qed.
Print Assumptions C02_machine_spec.

(* the same for Pangaea's operators and the documented table *)
Theorem C02_pangaea_parse_spec : forall (toks : list ptoken) (t : ptree),
  pparse toks = Some t <-> (yield t = toks /\ wp pred t).
Proof. exact (machine_spec atom op pred). Qed.
Print Assumptions C02_pangaea_parse_spec.

(* the fully parenthesised form of any tree parses to itself; parentheses are not part
   of the abstract syntax ([strip]) *)
Theorem C02_paren_fixpoint : forall (A O : Type) (red : O -> O -> bool) (t : tree A O),
  parse red (yield (fullpar t)) = Some (fullpar t) /\ strip (fullpar t) = strip t.
Proof. exact paren_fixpoint. Qed.
Print Assumptions C02_paren_fixpoint.

(* adding parentheses around any sub-trees of the parse never changes the parse *)
Theorem C02_paren_stable : forall (A O : Type) (red : O -> O -> bool) (toks : list (token A O)) t t',
  parse red toks = Some t -> addpar t t' ->
  parse red (yield t') = Some t' /\ strip t' = strip t.
Proof. exact paren_stable. Qed.
Print Assumptions C02_paren_stable.

(* for the documented table and Pangaea's concrete syntax: writing all the parentheses the
   table implies (else stays under its if, a jump statement stays a statement) and parsing
   again gives the same abstract syntax *)
Theorem C02_pangaea_paren_stable : forall (toks : list ptoken) (t : ptree),
  pparse toks = Some t ->
  pparse (yield (pfullpar_stmt t)) = Some (pfullpar_stmt t) /\
  strip (pfullpar_stmt t) = strip t.
Proof. exact pangaea_paren_stable. Qed.
Print Assumptions C02_pangaea_paren_stable.

(* for a level/associativity table and infix-only trees, well-precedenced is the root-local
   condition: the root of a left operand binds at least as tightly (equal: left-assoc), the
   root of a right operand strictly tighter (equal: right-assoc) *)
Theorem C02_wp_local_iff : forall (A O : Type) (lvl : O -> nat) (lassoc : O -> bool) (t : tree A O),
  infix_only t -> (wp (red_of_table O lvl lassoc) t <-> wp_local (red_of_table O lvl lassoc) t).
Proof. exact wp_local_iff. Qed.
Print Assumptions C02_wp_local_iff.

(* the grammar's 21 levels refine the 18 rows of docs/reference/operators.md *)
Theorem C02_level_refines_rows : forall c1 c2,
  row_rank (crow c1) < row_rank (crow c2) -> level c1 < level c2.
Proof. exact level_refines_rows. Qed.
Print Assumptions C02_level_refines_rows.

(* the 23 infix operators occupy 9 levels, all left-associative *)
Theorem C02_infix_levels : forall i, 7 <= level (CInfix i) <= 15 /\ cassoc (CInfix i) = LeftA.
Proof. exact infix_levels. Qed.
Print Assumptions C02_infix_levels.

(* soundness of the LALR table checker (instantiated in gen/LalrInst.v on every run) *)
Theorem C02_check_tables_sound : forall T, check_tables T = true -> tables_respect_spec T.
Proof. exact check_tables_sound. Qed.
Print Assumptions C02_check_tables_sound.

(* Non-vacuity: the machine accepts real expressions, the result is the documented
   grouping, it is well-precedenced, and a differently grouped tree is not. *)
Local Open Scope string_scope.
Example C02_nonvacuous :
  (* x := a || b ** -c.p + d if e else g   (right-assoc assignment, 4 infix levels, prefix,
     chain, if/else) *)
  let toks := [as_ "x"; a_ "a"; i_ IOr; a_ "b"; i_ IDoubleStar; p_ PMinus; a_ "c"; ch_ ".p" ".p()";
               i_ IPlus; a_ "d"; if_; a_ "e"; else_; a_ "g"] in
  render toks = "((x := (a || ((b ** (-c).p()) + d))) if e else g)" /\
  (exists t, pparse toks = Some t /\ wp pred t /\ yield t = toks) /\
  (* a - b - c groups to the left; the right-grouped tree has the same yield but is not
     well-precedenced *)
  render [a_ "a"; i_ IMinus; a_ "b"; i_ IMinus; a_ "c"] = "((a - b) - c)" /\
  wpb pred (In (OInfix IMinus) (Atom (AText "a"))
               (In (OInfix IMinus) (Atom (AText "b")) (Atom (AText "c")))) = false /\
  (* assignment groups to the right *)
  render [as_ "x"; as_ "y"; a_ "a"] = "(x := (y := a))" /\
  (* the implied parentheses, as source text *)
  parsrc toks = "(x := (a || ((b ** ((-c).p)) + d))) if e else g".
Proof.
  cbv zeta. split; [vm_compute; reflexivity|]. split.
  - eexists. split; [vm_compute; reflexivity|]. split.
    + apply wpb_iff. vm_compute. reflexivity.
    + vm_compute. reflexivity.
  - repeat split; vm_compute; reflexivity.
Qed.
