(* C11 — indexing and slicing of arrays and strings follow Python's slice semantics.
   Only property theorems here, each closed by [exact] of a lemma proved in
   Slice/SliceProofs.v about the executable model Slice/SliceModel.v of the repaired
   evaluator/index.go.  n = len64 l is the length; the only hypothesis on sizes is
   in64 (2 * n + 2), i.e. the length stays below 2^62 (Go cannot allocate more);
   start / stop / step are arbitrary integers or nil (in particular all of int64). *)
From Coq Require Import ZArith Bool List Sorted.
From PanVerif Require Import Base.Int64 Slice.SliceModel Slice.SliceProofs.
Import ListNotations.
Local Open Scope Z_scope.

(* s[i]: the i-th element, from the end for negative i, nil outside [-n, n-1] *)
Theorem C11_index_spec : forall A (l : list A) i d, in64 (2 * len64 l + 2) ->
  arrIndex i l =
  if (- len64 l <=? i) && (i <? len64 l)
  then Val (nth (Z.to_nat (i mod len64 l)) l d) else Nil.
Proof. exact index_spec. Qed.
Print Assumptions C11_index_spec.

(* s[start:stop:step], step <> 0: exactly the elements at the positions of the spec, in order *)
Theorem C11_slice_refines_spec : forall A (l : list A) r d,
  in64 (2 * len64 l + 2) -> stepOf r <> 0 ->
  arrRange r l = Val (map (fun p => Some (nth (Z.to_nat p) l d)) (positionsOf (len64 l) r)).
Proof. exact slice_refines_spec. Qed.
Print Assumptions C11_slice_refines_spec.

Theorem C11_str_slice_refines_spec : forall (s : list Z) r d,
  in64 (2 * len64 s + 2) -> stepOf r <> 0 ->
  strRange r s = Val (map (fun p => nth (Z.to_nat p) s d) (positionsOf (len64 s) r)).
Proof. exact str_slice_refines_spec. Qed.
Print Assumptions C11_str_slice_refines_spec.

(* what the positions are: start, start+step, ... strictly before stop, after
   defaulting by direction and clamping (sstart / sstop) *)
Theorem C11_positions_char : forall n a b step p, step <> 0 ->
  (In p (positions n a b step) <->
   exists k, 0 <= k /\ p = sstart n a step + k * step /\ before step p (sstop n b step)).
Proof. exact positions_char. Qed.
Print Assumptions C11_positions_char.

(* every position is an index of the sequence; they are strictly monotone in the
   direction of step and form an arithmetic progression from the start *)
Theorem C11_positions_valid : forall n a b step, 0 <= n -> step <> 0 ->
  (forall p, In p (positions n a b step) -> 0 <= p < n) /\
  (0 < step -> StronglySorted Z.lt (positions n a b step)) /\
  (step < 0 -> StronglySorted Z.gt (positions n a b step)) /\
  (exists c, positions n a b step = progression (sstart n a step) step c).
Proof. exact positions_valid. Qed.
Print Assumptions C11_positions_valid.

(* every returned element is an element of s; no nil (None) is invented *)
Theorem C11_nothing_invented : forall A (l : list A) r out,
  in64 (2 * len64 l + 2) -> arrRange r l = Val out ->
  Forall (fun o => exists a, o = Some a /\ In a l) out.
Proof. exact nothing_invented. Qed.
Print Assumptions C11_nothing_invented.

Theorem C11_str_nothing_invented : forall (s : list Z) r out,
  in64 (2 * len64 s + 2) -> strRange r s = Val out -> incl out s.
Proof. exact str_nothing_invented. Qed.
Print Assumptions C11_str_nothing_invented.

(* a zero step raises ValueErr, for arrays and for strings *)
Theorem C11_zero_step : forall A (l : list A) (s : list Z) r, stepOf r = 0 ->
  arrRange r l = ErrValue /\ strRange r s = ErrValue.
Proof. exact zero_step. Qed.
Print Assumptions C11_zero_step.

(* no combination aborts the interpreter: no Go panic site of index.go is reached
   outside its domain, and the stepping loop stops (shared with C01) *)
Theorem C11_slice_no_panic : forall A (l : list A) (s : list Z) r i,
  in64 (2 * len64 l + 2) -> in64 (2 * len64 s + 2) ->
  arrRange r l <> Panic /\ arrRange r l <> OutOfFuel /\
  strRange r s <> Panic /\ strRange r s <> OutOfFuel /\
  arrIndex i l <> Panic /\ strIndex i s <> Panic.
Proof. exact slice_no_panic. Qed.
Print Assumptions C11_slice_no_panic.

(* strings are addressed by code point: a string behaves as the array of its code points *)
Theorem C11_str_by_codepoint : forall (s : list Z) r i d,
  in64 (2 * len64 s + 2) ->
  strIndex i s = (if (- len64 s <=? i) && (i <? len64 s)
                  then Val [nth (Z.to_nat (i mod len64 s)) s d] else Nil) /\
  (stepOf r <> 0 ->
   strRange r s = Val (map (fun p => nth (Z.to_nat p) s d) (positionsOf (len64 s) r)) /\
   arrRange r s = Val (map Some (map (fun p => nth (Z.to_nat p) s d) (positionsOf (len64 s) r)))).
Proof. exact str_by_codepoint. Qed.
Print Assumptions C11_str_by_codepoint.

(* Non-vacuity: the hypotheses are met by concrete, non-trivial slices (a clamped
   start with a negative stop and step, an int64-extreme step, a multi-byte string),
   and the spec says what Python says: [10,11,12,13,14][10:-5:-2] = [14,12]. *)
Example C11_nonvacuous :
  in64 (2 * len64 [10; 11; 12; 13; 14] + 2) /\
  stepOf (mkRange (Some 10) (Some (-5)) (Some (-2))) <> 0 /\
  positionsOf 5 (mkRange (Some 10) (Some (-5)) (Some (-2))) = [4; 2] /\
  arrRange (mkRange (Some 10) (Some (-5)) (Some (-2))) [10; 11; 12; 13; 14] = Val [Some 14; Some 12] /\
  positionsOf 5 (mkRange (Some min64) None (Some max64)) = [0] /\
  arrRange (mkRange (Some 1) None (Some max64)) [10; 11; 12] = Val [Some 11] /\
  positionsOf 4 (mkRange None (Some (-9)) (Some (-2))) = [3; 1] /\
  strRange (mkRange None (Some (-9)) (Some (-2))) [97; 233; 128512; 12354] = Val [12354; 233] /\
  arrIndex (-2) [10; 11; 12] = Val 11 /\ arrIndex 3 [10; 11; 12] = Nil.
Proof. vm_compute. repeat split; discriminate. Qed.
