(* C04 — chain contexts apply their documented per-element rule in all three call
   forms. The chain loops of PanCore (the code the interpreter runs, instantiated
   with an iterator that yields e1..en) equal their map/filter/fold specification
   for EVERY element list, EVERY per-element handler (any effects, nil results or
   raises at any position — the handler is universally quantified) and every
   chain argument; the additional contexts obey their per-receiver rule; and the
   property-call and literal/variable-call stacks are the same skeleton around
   their handler. Proofs: Core/ChainProofs.v *)
From Coq Require Import ZArith String List Bool Arith.
From PanVerif Require Import Core.Syntax Core.Values Core.Interp Core.ChainProofs.
Import ListNotations.

(* `@` returns the calls' results in order with nil results dropped; `=@` keeps them *)
Theorem C04_list_chain_refines_spec :
  forall es n keep h st, length es < n ->
    list_loop n scripted es keep h [] st =
    (rs <- mapM h es ;; ret (if keep then rs else filter nonnil rs)) st.
Proof. exact list_chain_refines_spec. Qed.
Print Assumptions C04_list_chain_refines_spec.

(* `$` folds left from the chain argument, passing accumulator and element *)
Theorem C04_reduce_chain_refines_spec :
  forall es n h acc st, length es < n ->
    reduce_loop n scripted es h acc st = foldM h es acc st.
Proof. exact reduce_chain_refines_spec. Qed.
Print Assumptions C04_reduce_chain_refines_spec.

(* literal/variable `~$`: a nil or failed step keeps the accumulator *)
Theorem C04_thoughtful_reduce_refines_spec :
  forall es n h acc st, length es < n ->
    thoughtful_reduce_loop n scripted es h acc st = foldM (keep_acc h) es acc st.
Proof. exact thoughtful_reduce_refines_spec. Qed.
Print Assumptions C04_thoughtful_reduce_refines_spec.

(* `&`: a nil receiver is not called and yields nil *)
Theorem C04_lonely_rule :
  forall base recv st,
    lonely base recv st = if is_nil_type recv then (Ok recv, st) else base recv st.
Proof. exact lonely_spec. Qed.
Print Assumptions C04_lonely_rule.

(* `~`: the receiver is substituted for a nil or failed result *)
Theorem C04_thoughtful_rule :
  forall base recv st,
    thoughtful base recv st =
    match base recv st with
    | (Ok v, st') => (Ok (if is_nil_type v then recv else v), st')
    | (Er _ _, st') => (Ok recv, st')
    | (Fuel, st') => (Fuel, st')
    | (Unsup w, st') => (Unsup w, st')
    end.
Proof. exact thoughtful_spec. Qed.
Print Assumptions C04_thoughtful_rule.

(* the prop-call stack and the literal/variable-call stack are one skeleton *)
Theorem C04_prop_chain_is_skeleton :
  forall W R fuel env add main ca recv name args kwargs st, main <> Reduce ->
    prop_chain W R fuel env add main ca recv name args kwargs st =
    skeleton W R fuel env add main ca recv kwargs (fun r => prop_base W R env name kwargs r args) st.
Proof. exact prop_chain_skeleton. Qed.
Print Assumptions C04_prop_chain_is_skeleton.

Theorem C04_literal_chain_is_skeleton :
  forall W R fuel env add main ca recv f st, main <> Reduce ->
    lit_chain W R fuel env add main ca recv f st =
    skeleton W R fuel env add main ca recv [] (lit_base W R env f) st.
Proof. exact lit_chain_skeleton. Qed.
Print Assumptions C04_literal_chain_is_skeleton.

(* three forms agree: wherever calling the function on a receiver behaves like the
   property call on it, the whole chains agree, in every scalar and list context *)
Theorem C04_forms_agree :
  forall W R fuel env add main ca recv name args f st, main <> Reduce ->
    (forall r s, prop_base W R env name [] r args s = lit_base W R env f r s) ->
    prop_chain W R fuel env add main ca recv name args [] st =
    lit_chain W R fuel env add main ca recv f st.
Proof. exact forms_agree. Qed.
Print Assumptions C04_forms_agree.

Example C04_nonvacuous :
  forall st, list_loop 5 scripted [VBool true; VNil (VBool true); VBool false] false (fun v => ret v) [] st
             = (Ok [VBool true; VBool false], st) /\ length [VBool true; VNil (VBool true); VBool false] < 5.
Proof. intros. split; [reflexivity|cbn; auto]. Qed.
