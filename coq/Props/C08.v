(* C08 — evaluation order is left-to-right, each part exactly once, and every run
   is reproducible. Order theorems: for every split of a list-shaped construct
   (so for every length and every position) evaluating the whole is evaluating
   the first part and then the second part from the state the first left, for
   every lower interpreter level R. Reproducibility: PanCore is a function of
   (program, state), so the model has no run-to-run variation; the one source of
   variation in the implementation, Go map iteration order, is removed by sorting
   on a unique key, and [sort_iteration_order_irrelevant] shows the result is the
   same for EVERY iteration order the runtime may choose. Proofs: Core/OrderProofs.v *)
From Coq Require Import ZArith String List Bool Permutation.
From PanVerif Require Import Core.Syntax Core.Values Core.Interp Core.FailStopProofs Core.OrderProofs.
Import ListNotations.

Theorem C08_array_elements_in_order_once :
  forall W R es1, Forall plain es1 -> forall es2 env st,
    eval_arr_elems W R (es1 ++ es2) env st =
    (l1 <- eval_arr_elems W R es1 env ;; l2 <- eval_arr_elems W R es2 env ;; ret (l1 ++ l2)) st.
Proof. exact arr_elems_app. Qed.
Print Assumptions C08_array_elements_in_order_once.

Theorem C08_positional_arguments_in_order_once :
  forall W R es1, Forall plain es1 -> forall es2 env st,
    eval_args W R (es1 ++ es2) env st =
    ('(a1, k1) <- eval_args W R es1 env ;; '(a2, k2) <- eval_args W R es2 env ;;
     ret (a1 ++ a2, k2)) st.
Proof. exact args_app. Qed.
Print Assumptions C08_positional_arguments_in_order_once.

Theorem C08_keyword_arguments_in_order_once :
  forall R ks1 ks2 env acc st,
    eval_kwargs R (ks1 ++ ks2) env acc st =
    (a <- eval_kwargs R ks1 env acc ;; eval_kwargs R ks2 env a) st.
Proof. exact kwargs_app. Qed.
Print Assumptions C08_keyword_arguments_in_order_once.

Theorem C08_string_parts_in_order_once :
  forall W R ps1 ps2 env st,
    eval_embstr W R (ps1 ++ ps2) env st =
    (s1 <- eval_embstr W R ps1 env ;; s2 <- eval_embstr W R ps2 env ;; ret (s1 ++ s2)%string) st.
Proof. exact embstr_app. Qed.
Print Assumptions C08_string_parts_in_order_once.

Theorem C08_infix_left_then_right :
  forall W R fuel op l r env st,
    String.eqb op "||" = false -> String.eqb op "&&" = false ->
    eval_expr W R fuel (EInfix op l r) env st =
    (lv <- r_expr R l env ;; rv <- r_expr R r env ;; r_callprop R env lv op [rv] []) st.
Proof. exact infix_order. Qed.
Print Assumptions C08_infix_left_then_right.

Theorem C08_range_start_stop_step :
  forall W R fuel a b c env st,
    eval_expr W R fuel (ERange a b c) env st =
    (x <- eval_opt W R a env ;; y <- eval_opt W R b env ;; z <- eval_opt W R c env ;;
     ret (VRange (wkv W "Range") x y z)) st.
Proof. exact range_order. Qed.
Print Assumptions C08_range_start_stop_step.

Theorem C08_call_receiver_chainarg_args_kwargs :
  forall W R fuel add main carg recv prop args kwargs env st,
    eval_expr W R fuel (EPropCall add main carg recv prop args kwargs) env st =
    (rv <- eval_recv R recv env ;;
     ca <- eval_opt W R carg env ;;
     '(a, uk) <- eval_args W R args env ;;
     k <- eval_kwargs R kwargs env [] ;;
     prop_chain W R fuel env add main ca rv prop a
       (fold_left (fun acc kv => add_first (fst kv) (snd kv) acc) uk k)) st.
Proof. exact propcall_order. Qed.
Print Assumptions C08_call_receiver_chainarg_args_kwargs.

Theorem C08_statements_in_order :
  forall W R ss1 ss2 env last y ds st,
    DeferProofs.run_prefix W R (ss1 ++ ss2) env last y ds st =
    match DeferProofs.run_prefix W R ss1 env last y ds st with
    | (DeferProofs.Fell l' y' ds', st') => DeferProofs.run_prefix W R ss2 env l' y' ds' st'
    | (DeferProofs.Exited r ds', st') => (DeferProofs.Exited r ds', st')
    end.
Proof. exact DeferProofs.run_prefix_app. Qed.
Print Assumptions C08_statements_in_order.

(* duplicate keys / keywords: the first occurrence wins *)
Theorem C08_first_occurrence_wins :
  forall A k (v : A) l,
    assoc k (add_first k v l) = match assoc k l with Some x => Some x | None => Some v end.
Proof. exact @assoc_add_first_same. Qed.
Print Assumptions C08_first_occurrence_wins.

Theorem C08_other_keys_untouched :
  forall A k k' (v : A) l, k <> k' -> assoc k' (add_first k v l) = assoc k' l.
Proof. exact @assoc_add_first_other. Qed.
Print Assumptions C08_other_keys_untouched.

(* hash-table layout cannot reach an observable: any iteration order sorts to the same list *)
Theorem C08_map_iteration_order_irrelevant :
  forall A (key : A -> nat) l1 l2,
    NoDup (map key l1) -> Permutation l1 l2 -> isort A key l1 = isort A key l2.
Proof. exact sort_iteration_order_irrelevant. Qed.
Print Assumptions C08_map_iteration_order_irrelevant.

Example C08_nonvacuous :
  isort nat (fun x => x) [3; 1; 2] = [1; 2; 3] /\ isort nat (fun x => x) [2; 3; 1] = [1; 2; 3]
  /\ NoDup (map (fun x : nat => x) [3; 1; 2]).
Proof. repeat split; try reflexivity. repeat constructor; cbn; intuition discriminate. Qed.
