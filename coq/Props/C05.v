(* C05 — property resolution follows the prototype chain, then _missing, then NoPropErr.
   For every state (any prototype forest), value and name. Proofs: Core/ProtoProofs.v.
   ancestors / kindOf? / bro are Pangaea source interpreted from the regenerated world;
   the forest correspondence covers them. *)
From Coq Require Import ZArith String List Bool Arith.
From PanVerif Require Import Core.Syntax Core.Values Core.Interp Core.ProtoProofs.
Import ListNotations.

(* the search equals "first owner along the chain o, proto o, proto (proto o), ..." *)
Theorem C05_search_is_first_owner_on_chain :
  forall W fuel st v n,
    find_prop_fuel W fuel st v n = first_owner st n (chain_of W fuel st v).
Proof. exact find_prop_is_first_on_chain. Qed.
Print Assumptions C05_search_is_first_owner_on_chain.

Theorem C05_first_owner_means_no_earlier_owner :
  forall st n l p o,
    first_owner st n l = Some (p, o) <->
    exists l1 l2, l = l1 ++ o :: l2 /\ own_prop st o n = Some p /\
                  Forall (fun x => own_prop st x n = None) l1.
Proof. exact first_owner_spec. Qed.
Print Assumptions C05_first_owner_means_no_earlier_owner.

(* which / indexing by symbol agree with that search: the owner `which` reports owns the value found *)
Theorem C05_which_agrees_with_lookup :
  forall W st v n o,
    find_owner W st v n = Some o -> exists p, own_prop st o n = Some p /\ find_prop W st v n = Some p.
Proof. exact owner_owns. Qed.
Print Assumptions C05_which_agrees_with_lookup.


(* a callable property is invoked with the receiver first; an iterator literal held as a property is returned *)
Theorem C05_callable_gets_receiver_first :
  forall R env recv args kw st,
    (forall b, eval_call R env recv (VBuiltin b) args kw st = r_callval R env (VBuiltin b) (recv :: args) kw st) /\
    (forall fid c, nth_error (funcs st) fid = Some c -> ckind c = KFunc ->
       eval_call R env recv (VFunc fid) args kw st = r_callval R env (VFunc fid) (recv :: args) kw st) /\
    (forall fid c, nth_error (funcs st) fid = Some c -> ckind c = KIter ->
       eval_call R env recv (VFunc fid) args kw st = (Ok (VFunc fid), st)).
Proof. exact callable_gets_receiver_first. Qed.
Print Assumptions C05_callable_gets_receiver_first.

(* the property, else the first _missing in the same order, else NoPropErr *)
Theorem C05_resolution_order :
  forall W name recv st,
    eval_prop W name recv st =
    match find_prop W st recv name with
    | Some (VErrObj k m) => (Er k m, st)
    | Some p => (Ok (p, false), st)
    | None => match find_prop W st recv "_missing" with
              | Some m => (Ok (m, true), st)
              | None => (Er "NoPropErr" ("property `" ++ name ++ "` is not defined."), st)
              end
    end.
Proof. exact resolution_order. Qed.
Print Assumptions C05_resolution_order.

Theorem C05_missing_called_with_name_first :
  forall W R env name kw recv args st m,
    eval_prop W name recv st = (Ok (m, true), st) ->
    prop_base W R env name kw recv args st = eval_call R env recv m (vStr W name :: args) kw st.
Proof. exact missing_gets_name_first. Qed.
Print Assumptions C05_missing_called_with_name_first.

Theorem C05_noncallable_returned_arguments_ignored :
  forall R env recv p args kw st,
    (forall b, p <> VBuiltin b) -> (forall f, p <> VFunc f) ->
    eval_call R env recv p args kw st = (Ok p, st).
Proof. exact noncallable_returned. Qed.
Print Assumptions C05_noncallable_returned_arguments_ignored.

Theorem C05_bear_links_child_to_receiver :
  forall W R env proto sid src kw st,
    get_obj st sid = Some src ->
    exists z, call_builtin W R env B_Base_bear [proto; VObj sid] kw st =
      (Ok (VObj (length (heap st))),
       {| heap := heap st ++ [{| oproto := Some proto; ozero := z; opairs := opairs src |}];
          frames := frames st; funcs := funcs st; biters := biters st; out := out st; inp := inp st |}).
Proof. exact bear_spec. Qed.
Print Assumptions C05_bear_links_child_to_receiver.

Theorem C05_keys_list_own_pairs_only :
  forall W self id rec p st kw f,
    self = VObj id -> get_obj st id = Some rec -> oproto rec = Some p ->
    obj_listing W self kw f st =
    (Ok (vArr W (flat_map (fun k => match assoc k (opairs rec) with Some v => [f k v] | None => [] end)
                    (public_keys (opairs rec) ++ (if kw_true kw "private?" then private_keys (opairs rec) else [])))), st).
Proof.
  intros. apply keys_from_own_pairs. eapply listing_uses_own_pairs; eassumption.
Qed.
Print Assumptions C05_keys_list_own_pairs_only.
