(* C03 — lexical scoping and argument binding of functions and methods.
   Statements about PanCore's frames (a frame = a store + the link to the frame
   where the function literal was written) for all frames, names, values,
   argument lists and every lower interpreter level. Proofs: Core/ScopeProofs.v.
   The whole-program statement is C03_frame_locality (Core/FrameLocality.v,
   induction on the fuel level through every construct and every modelled
   built-in); the other theorems are the per-primitive facts. *)
From Coq Require Import ZArith String List Bool Arith.
From PanVerif Require Import Core.Syntax Core.Values Core.Interp Core.ScopeProofs Core.FrameLocality.
Import ListNotations.

(* For every program fragment, environment, state and amount of fuel: evaluating it
   changes no frame that existed before, other than the frame it runs in and frames
   that are a closure's own dedicated frame (where iterators keep their progress).
   So a function body can never change an enclosing scope, the caller's scope, the
   global scope or another activation of the same function (recursion is safe). *)
Theorem C03_frame_locality :
  forall W fuel e env st r st',
    r_expr (level W fuel) e env st = (r, st') ->
    length (frames st) <= length (frames st') /\
    forall g, g < length (frames st) -> g <> env -> ~ clof st g ->
              nth_error (frames st') g = nth_error (frames st) g.
Proof. exact frame_locality. Qed.
Print Assumptions C03_frame_locality.

Theorem C03_frame_locality_bodies :
  forall W fuel ss env st r st',
    r_body (level W fuel) ss env st = (r, st') ->
    length (frames st) <= length (frames st') /\
    forall g, g < length (frames st) -> g <> env -> ~ clof st g ->
              nth_error (frames st') g = nth_error (frames st) g.
Proof. exact frame_locality_body. Qed.
Print Assumptions C03_frame_locality_bodies.

(* assignment (and compound assignment, which the parser desugars to it) evaluates its
   right-hand side and then writes the CURRENT frame ... *)
Theorem C03_assignment_is_local_write :
  forall W R fuel x e env st,
    eval_expr W R fuel (EAssign x e) env st =
    (v <- r_expr R e env ;; _ <- env_set env x v ;; ret v) st.
Proof. reflexivity. Qed.
Print Assumptions C03_assignment_is_local_write.

(* ... and writing a frame changes that frame only: every other frame (enclosing scopes,
   the caller's scope, the global scope), the heap, closures and output are untouched *)
Theorem C03_write_touches_one_frame :
  forall e x v st f,
    nth_error (frames st) e = Some f ->
    exists st', env_set e x v st = (Ok tt, st') /\
      nth_error (frames st') e = Some {| fstore := set_assoc x v (fstore f); fouter := fouter f |} /\
      (forall g, g <> e -> nth_error (frames st') g = nth_error (frames st) g) /\
      length (frames st') = length (frames st) /\
      heap st' = heap st /\ funcs st' = funcs st /\ biters st' = biters st /\ out st' = out st.
Proof. exact env_set_spec. Qed.
Print Assumptions C03_write_touches_one_frame.

(* a variable is read from the current frame, else from the frame where the literal was
   written, and so on outward (as those frames are at the time of the read); the caller's
   frame is consulted only if it is on that chain *)
Theorem C03_lookup_follows_definition_chain :
  forall fuel st e x f,
    nth_error (frames st) e = Some f ->
    env_get_fuel (S fuel) st e x =
    match assoc x (fstore f) with
    | Some v => Some v
    | None => match fouter f with Some o => env_get_fuel fuel st o x | None => None end
    end.
Proof. intros. cbn. now rewrite H. Qed.
Print Assumptions C03_lookup_follows_definition_chain.

(* a call copies the closure's frame into a FRESH frame, binds the arguments there and
   runs the body there (so recursion and later calls never share variables) *)
Theorem C03_call_runs_in_its_own_frame :
  forall W R fid args kwargs st,
    call_clo W R fid args kwargs st =
    (c <- get_clo fid ;; e <- copy_frame (cenv c) ;;
     _ <- bind_args W e (cparams c) (ckw c) args kwargs ;; r_body R (cbody c) e) st.
Proof. reflexivity. Qed.
Print Assumptions C03_call_runs_in_its_own_frame.

Theorem C03_call_frame_is_fresh_copy :
  forall e st f,
    nth_error (frames st) e = Some f ->
    copy_frame e st =
    (Ok (length (frames st)),
     {| heap := heap st; frames := frames st ++ [{| fstore := fstore f; fouter := fouter f |}];
        funcs := funcs st; biters := biters st; out := out st; inp := inp st |}).
Proof. exact copy_frame_spec. Qed.
Print Assumptions C03_call_frame_is_fresh_copy.

(* positional binding: missing arguments are nil, present ones are kept *)
Theorem C03_missing_arguments_are_nil :
  forall W args n i,
    nth_error (pad_args W args n) i =
    match nth_error args i with
    | Some a => Some a
    | None => if i <? n then Some (vNil W) else None
    end.
Proof. exact pad_args_nth. Qed.
Print Assumptions C03_missing_arguments_are_nil.

(* the binding order: parameters, \1.., \0, \, keyword parameters (passed value, else the
   default evaluated when the literal was evaluated), \name for every received keyword, \_ *)
Theorem C03_binding :
  forall W e params kwparams args kwargs st,
    bind_args W e params kwparams args kwargs st =
    (let args' := pad_args W args (length params) in
     _ <- set_all e (combine params args') ;;
     _ <- set_all e (argvars 1 args') ;;
     _ <- env_set e "\0" (vArr W args') ;;
     _ <- match args' with a :: _ => env_set e "\" a | [] => ret tt end ;;
     _ <- set_all e (map (fun kd => (fst kd, match assoc (fst kd) kwargs with
                                             | Some v => v | None => snd kd end)) kwparams) ;;
     _ <- set_all e (map (fun kv => (("\" ++ fst kv)%string, snd kv)) kwargs) ;;
     ko <- new_obj_literal W kwargs ;;
     env_set e "\_" ko) st.
Proof. reflexivity. Qed.
Print Assumptions C03_binding.

(* unpacking an array argument passes its elements in place *)
Theorem C03_star_unpacking :
  forall W R e t env st v st1 p l,
    r_expr R e env st = (Ok v, st1) -> as_arr W st1 v = Some (p, l) ->
    eval_args W R (EPrefix "*" e :: t) env st =
    ('(a, k) <- eval_args W R t env ;; ret ((l ++ a)%list, k)) st1.
Proof. exact unpack_star. Qed.
Print Assumptions C03_star_unpacking.

(* a property call passes the receiver first; a receiver-less chain uses \1 *)
Theorem C03_receiver_first :
  forall R env recv b args kwargs st,
    eval_call R env recv (VBuiltin b) args kwargs st = r_callval R env (VBuiltin b) (recv :: args) kwargs st.
Proof. reflexivity. Qed.
Print Assumptions C03_receiver_first.

Theorem C03_anonymous_chain_uses_first_argument :
  forall R env st,
    eval_recv R None env st =
    match env_get st env "\1" with
    | Some v => (Ok v, st)
    | None => (Er "NameErr" "name `\1` is not defined", st)
    end.
Proof. intros. unfold eval_recv, bind, get_st. destruct (env_get st env "\1"); reflexivity. Qed.
Print Assumptions C03_anonymous_chain_uses_first_argument.
