(* C13 — try/Either captures exactly the error that would have been raised.
   An Either is abstractly EV value | EE kind message. For every list of steps
   (each an arbitrary value called through `call` by an arbitrary lower
   interpreter level — property call, operator call, literal call), every start
   value and state. Proofs: Core/EitherProofs.v. The native accessors (val?, err?,
   catch, ignore, abandon) and the proxy that turns `.prop` / literal calls on an
   Either into fmap are Pangaea source, interpreted by PanCore from the regenerated
   world and covered by the correspondence. *)
From Coq Require Import ZArith String List Bool.
From PanVerif Require Import Core.Syntax Core.Values Core.Interp Core.EitherProofs.
Import ListNotations.

Theorem C13_try_commutes :
  forall R env fs v st,
    fold_fmap R env fs (EV v) st =
    (r <- plain R env fs v ;; ret (match r with inl x => EV x | inr (k, m) => EE k m end)) st.
Proof. exact try_commutes. Qed.
Print Assumptions C13_try_commutes.

Theorem C13_steps_after_failure_skipped :
  forall R env fs k m st, fold_fmap R env fs (EE k m) st = (Ok (EE k m), st).
Proof. exact skip_after_failure. Qed.
Print Assumptions C13_steps_after_failure_skipped.

Theorem C13_no_failure_same_value :
  forall R env fs v st x st',
    plain R env fs v st = (Ok (inl x), st') -> fold_fmap R env fs (EV v) st = (Ok (EV x), st').
Proof. exact no_failure_same_value. Qed.
Print Assumptions C13_no_failure_same_value.

Theorem C13_failure_same_error :
  forall R env fs v st k m st',
    plain R env fs v st = (Ok (inr (k, m)), st') -> fold_fmap R env fs (EV v) st = (Ok (EE k m), st').
Proof. exact failure_same_error. Qed.
Print Assumptions C13_failure_same_error.

(* the built-in fmap implements one step on the heap representation *)
Theorem C13_fmap_on_value_calls_once_and_wraps :
  forall W R env st o v f args kw, holds st o "_value" v ->
    call_builtin W R env B_EVal_fmap (o :: f :: args) kw st =
    (r <- catch (call_step R env f v) ;;
     match r with
     | inl x => new_obj W [("_value"%string, x)] (wkv W "EitherVal")
     | inr (k, m) => new_obj W [("_error"%string, VErrW k m)] (wkv W "EitherErr")
     end) st.
Proof. exact EVal_fmap_calls_once. Qed.
Print Assumptions C13_fmap_on_value_calls_once_and_wraps.

Theorem C13_fmap_on_error_skips :
  forall W R env o f args kw st,
    call_builtin W R env B_EErr_fmap (o :: f :: args) kw st = (Ok o, st).
Proof. exact EErr_fmap_skips. Qed.
Print Assumptions C13_fmap_on_error_skips.

(* accessor table: A, val, err, or report that single outcome *)
Theorem C13_accessors_on_value :
  forall W R env st o v d args kw, holds st o "_value" v ->
    call_builtin W R env B_EVal_A (o :: args) kw st = (Ok (acc_A W (EV v)), st) /\
    call_builtin W R env B_EVal_val (o :: args) kw st = (Ok (acc_val W (EV v)), st) /\
    call_builtin W R env B_EVal_err (o :: args) kw st = (Ok (acc_err W (EV v)), st) /\
    call_builtin W R env B_EVal_or (o :: d :: args) kw st = (Ok (acc_or (EV v) d), st).
Proof.
  intros. repeat split.
  - now apply EVal_A.
  - now apply EVal_val.
  - now apply EVal_or.
Qed.
Print Assumptions C13_accessors_on_value.

Theorem C13_accessors_on_error :
  forall W R env st o k m d args kw, holds st o "_error" (VErrW k m) ->
    call_builtin W R env B_EErr_A (o :: args) kw st = (Ok (acc_A W (EE k m)), st) /\
    call_builtin W R env B_EErr_err (o :: args) kw st = (Ok (acc_err W (EE k m)), st) /\
    call_builtin W R env B_EErr_val (o :: args) kw st = (Ok (acc_val W (EE k m)), st) /\
    call_builtin W R env B_EErr_or (o :: d :: args) kw st = (Ok (acc_or (EE k m) d), st).
Proof.
  intros. repeat split.
  - now apply EErr_A.
  - now apply EErr_err.
Qed.
Print Assumptions C13_accessors_on_error.

(* Non-vacuity: a two-step chain whose second step fails *)
Definition W0 : wk := {| wk_names := [] |}.
Definition st0 : state := {| heap := []; frames := [ {| fstore := []; fouter := None |} ];
                             funcs := []; biters := []; out := []; inp := [] |}.
Definition Rfail : recs :=
  {| r_expr := fun _ _ => nofuel; r_body := fun _ _ => nofuel;
     r_callprop := fun _ f _ args _ => match f with VBool true => ret (VBool false) | _ => raise "Err" "boom" end;
     r_callval := fun _ _ _ _ => nofuel |}.
Example C13_nonvacuous :
  fold_fmap Rfail 0 [VBool true; VBool false; VBool true] (EV (VBool true)) st0 = (Ok (EE "Err" "boom"), st0).
Proof. reflexivity. Qed.
