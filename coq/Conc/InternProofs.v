(* C20 — lemmas about Conc/Intern.v: with the write of both tables in ONE critical
   section, every answer SymHash2Str ever gives to a hash obtained from GetSymHash is
   a string with that hash (the string itself when the hash function does not collide
   on it), for every number of threads, all programs and all schedules; with the write
   split into two critical sections there is a schedule on which the lookup fails. *)
From Coq Require Import List Bool Arith NArith String Lia.
Import ListNotations.
From PanVerif Require Import Conc.Intern.

Section Proofs.
Variable h : string -> N.

Definition good (st : state) (k : N) : Prop := exists s', str st k = Some s' /\ h s' = k.

Definition thread_ok (st : state) (th : thread) : Prop :=
  (forall s k, th_cur th = Some (s, k) -> k = h s /\ good st k) /\
  (forall s k r, In (s, k, r) (th_obs th) -> k = h s /\ exists s', r = Some s' /\ h s' = k).

Definition Inv (st : state) : Prop :=
  (forall s k, sym st s = Some k -> k = h s /\ good st k) /\
  (forall th, In th (threads st) -> thread_ok st th).

Lemma in_upd {A} (l : list A) n x y : In y (upd l n x) -> y = x \/ In y l.
Proof.
  revert n; induction l as [|a l IH]; intros [|n] Hin; simpl in *; auto.
  - destruct Hin as [E|Hin]; auto.
  - destruct Hin as [E|Hin]; auto. destruct (IH _ Hin); auto.
Qed.

Lemma good_str_set st sy ths k s0 :
  good st k -> good (mkState sy (str_set (str st) (h s0) s0) ths) k.
Proof.
  intros [s' [E Hh]]. unfold good, str_set; simpl.
  destruct (N.eqb_spec k (h s0)) as [->|Hne].
  - exists s0; auto.
  - exists s'; auto.
Qed.

Lemma good_here st sy ths s0 : good (mkState sy (str_set (str st) (h s0) s0) ths) (h s0).
Proof. exists s0. unfold str_set; simpl. now rewrite N.eqb_refl. Qed.

Lemma good_same_str st sy ths k : good st k -> good (mkState sy (str st) ths) k.
Proof. intros H; exact H. Qed.

Lemma thread_ok_str_set st sy ths s0 th :
  thread_ok st th -> thread_ok (mkState sy (str_set (str st) (h s0) s0) ths) th.
Proof.
  intros [Hc Ho]; split; [|exact Ho].
  intros s k E. destruct (Hc _ _ E) as [-> Hg]. split; [reflexivity|]. now apply good_str_set.
Qed.

Lemma nth_error_In' {A} (l : list A) n x : nth_error l n = Some x -> In x l.
Proof. apply nth_error_In. Qed.

(* one critical section of the unsplit machine keeps the invariant *)
Lemma step_inv st t : Inv st -> Inv (step h false st t).
Proof.
  intros [Hs Ht]. unfold step.
  destruct (nth_error (threads st) t) as [th|] eqn:Eth; [|split; assumption].
  pose proof (Ht _ (nth_error_In' _ _ _ Eth)) as [Hcur Hobs].
  destruct (th_phase th) as [|s0|s0] eqn:Eph.
  - (* Ready *)
    destruct (th_todo th) as [|[s0|] rest] eqn:Etd; [split; assumption| |].
    + destruct (sym st s0) as [k|] eqn:Esym.
      * split; [exact Hs|]. simpl. intros th' Hin. apply in_upd in Hin as [->|Hin]; [|exact (Ht _ Hin)].
        split; simpl; [|exact Hobs]. intros s k0 E; injection E as <- <-. exact (Hs _ _ Esym).
      * split; [exact Hs|]. simpl. intros th' Hin. apply in_upd in Hin as [->|Hin]; [|exact (Ht _ Hin)].
        split; simpl; assumption.
    + destruct (th_cur th) as [[s k]|] eqn:Ecur.
      * split; [exact Hs|]. simpl. intros th' Hin. apply in_upd in Hin as [->|Hin]; [|exact (Ht _ Hin)].
        split; simpl; [try rewrite Ecur; exact Hcur|].
        intros s1 k1 r [E|Hin]; [|exact (Hobs _ _ _ Hin)].
        injection E as <- <- <-. destruct (Hcur _ _ eq_refl) as [-> [s' [E' Hh]]].
        split; [reflexivity|]. exists s'; auto.
      * split; [exact Hs|]. simpl. intros th' Hin. apply in_upd in Hin as [->|Hin]; [|exact (Ht _ Hin)].
        split; simpl; [intros ? ? E; discriminate|exact Hobs].
  - (* Missed: both tables in one step *)
    split; simpl.
    + intros s k. unfold sym_set. destruct (String.eqb_spec s s0) as [->|Hne].
      * intros E; injection E as <-. split; [reflexivity|apply good_here].
      * intros E. destruct (Hs _ _ E) as [-> Hg]. split; [reflexivity|]. now apply good_str_set.
    + intros th' Hin. apply in_upd in Hin as [->|Hin].
      * split; simpl.
        -- intros s k E; injection E as <- <-. split; [reflexivity|apply good_here].
        -- exact Hobs.
      * apply thread_ok_str_set. exact (Ht _ Hin).
  - (* HalfWritten (unreachable when unsplit, harmless) *)
    split; simpl.
    + intros s k E. destruct (Hs _ _ E) as [-> Hg]. split; [reflexivity|]. now apply good_str_set.
    + intros th' Hin. apply in_upd in Hin as [->|Hin].
      * split; simpl.
        -- intros s k E; injection E as <- <-. split; [reflexivity|apply good_here].
        -- exact Hobs.
      * apply thread_ok_str_set. exact (Ht _ Hin).
Qed.

Lemma init_inv progs : Inv (init progs).
Proof.
  split; simpl; [intros ? ? E; discriminate|].
  intros th Hin. apply in_map_iff in Hin as [p [<- _]].
  split; simpl; [intros ? ? E; discriminate|intros ? ? ? []].
Qed.

Lemma run_inv st sched : Inv st -> Inv (run h false st sched).
Proof.
  revert st; induction sched as [|t sched IH]; intros st H; simpl; [exact H|].
  apply IH. now apply step_inv.
Qed.

(* every reachable state, any number of threads, any programs, any schedule *)
Lemma atomic_lookup_never_fails : forall progs sched s k r,
  In (s, k, r) (observations (run h false (init progs) sched)) ->
  k = h s /\ exists s', r = Some s' /\ h s' = h s.
Proof.
  intros progs sched s k r Hin.
  destruct (run_inv _ sched (init_inv progs)) as [_ Ht].
  unfold observations in Hin. apply in_flat_map in Hin as [th [Hth Hobs]].
  destruct (Ht _ Hth) as [_ Ho]. destruct (Ho _ _ _ Hobs) as [-> [s' [-> Hh]]].
  split; [reflexivity|]. exists s'; auto.
Qed.

(* where the hash function does not collide, the lookup returns the very string *)
Lemma atomic_lookup_returns_the_string : forall progs sched s k r,
  (forall s', h s' = h s -> s' = s) ->
  In (s, k, r) (observations (run h false (init progs) sched)) -> r = Some s.
Proof.
  intros progs sched s k r Hinj Hin.
  destruct (atomic_lookup_never_fails _ _ _ _ _ Hin) as [_ [s' [-> Hh]]].
  now rewrite (Hinj _ Hh).
Qed.

(* the tables themselves in every reachable state: an interned string maps to its
   hash, and that hash maps back to a string with the same hash *)
Lemma atomic_tables_consistent : forall progs sched s k,
  sym (run h false (init progs) sched) s = Some k ->
  k = h s /\ exists s', str (run h false (init progs) sched) k = Some s' /\ h s' = k.
Proof.
  intros progs sched s k E.
  destruct (run_inv _ sched (init_inv progs)) as [Hs _]. exact (Hs _ _ E).
Qed.

(* split into two critical sections: thread 0 interns "a" and is between its two
   writes when thread 1 asks for the same symbol, finds the hash and looks it up *)
Definition split_progs : list (list instr) := [[IGet "a"]; [IGet "a"; IStr]].
Definition split_sched : list nat := [0; 0; 1; 1].

Lemma split_lookup_can_fail :
  In ("a"%string, h "a", None) (observations (run h true (init split_progs) split_sched)).
Proof.
  unfold observations, run, split_sched, split_progs, init; simpl.
  unfold sym_set; simpl. left. reflexivity.
Qed.

(* the same programs and schedule on the unsplit machine answer Some "a" *)
Lemma unsplit_same_schedule_succeeds :
  observations (run h false (init split_progs) split_sched) = [("a"%string, h "a", Some "a"%string)].
Proof.
  unfold observations, run, split_sched, split_progs, init; simpl.
  unfold sym_set, str_set; simpl. now rewrite N.eqb_refl.
Qed.

End Proofs.
