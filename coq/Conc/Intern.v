(* C20 — the CONTENTS of the two interning tables of object/hashtable.go under any
   interleaving of critical sections.  Conc/LockSet.v shows that critical sections
   exclude each other (no two threads are inside conflicting accesses); here each
   critical section is therefore one atomic step, and the question is what the
   tables hold between them:

     GetSymHash(str):   readSymHash (RLock: symHashTable[str]) ; on a miss
                        writeSymHash (Lock: symHashTable[str] = h ; strTable[h] = str)
     SymHash2Str(h):    RLock: strTable[h]

   "Cannot corrupt symbol lookup": whatever the schedule, a hash that any thread
   obtained from GetSymHash is found by SymHash2Str, and the string found has that
   hash.  The machine below has a switch [split]: with [split = false] the write is
   one critical section (the code as it is); with [split = true] it is two (first
   symHashTable, then strTable, each under the write lock) — race-free for the lock
   discipline, but the theorem fails (InternProofs.split_lookup_can_fail).
   The driver (tools/c20.py, from the critical-section numbers of the translator dumpsites) checks on every run that every
   function of /repo/object that writes one table writes the other one in the same
   critical section, which is [split = false].
   Definitions only; lemmas in Conc/InternProofs.v. *)
From Coq Require Import List Bool Arith NArith String.
Import ListNotations.

Section Intern.
(* the hash function (FNV-1a 64 in the code): any function; collisions allowed *)
Variable h : string -> N.

Definition symtab := string -> option N.       (* symHashTable *)
Definition strtab := N -> option string.       (* strTable *)

Definition sym_set (m : symtab) (s : string) (k : N) : symtab :=
  fun s' => if String.eqb s' s then Some k else m s'.
Definition str_set (m : strtab) (k : N) (s : string) : strtab :=
  fun k' => if N.eqb k' k then Some s else m k'.

(* what a thread still has to do *)
Inductive instr :=
| IGet (s : string)      (* GetSymHash(s); the result becomes the thread's current hash *)
| IStr.                  (* SymHash2Str(current hash); the answer is recorded *)

(* where a thread is inside GetSymHash *)
Inductive phase :=
| Ready                          (* between calls *)
| Missed (s : string)            (* readSymHash missed; writeSymHash(h s, s) is next *)
| HalfWritten (s : string).      (* split only: symHashTable written, strTable not yet *)

Record thread := mkThread {
  th_phase : phase;
  th_todo  : list instr;
  th_cur   : option (string * N);            (* the last GetSymHash: its argument and the hash it returned *)
  th_obs   : list (string * N * option string)   (* (that argument, that hash, SymHash2Str's answer), newest first *)
}.

Record state := mkState { sym : symtab; str : strtab; threads : list thread }.

Fixpoint upd {A} (l : list A) (n : nat) (x : A) : list A :=
  match l, n with
  | [], _ => []
  | _ :: r, O => x :: r
  | y :: r, S n' => y :: upd r n' x
  end.

Variable split : bool.

(* Thread [t] runs its next critical section. *)
Definition step (st : state) (t : nat) : state :=
  match nth_error (threads st) t with
  | None => st
  | Some th =>
    match th_phase th with
    | Missed s =>
        if split
        then mkState (sym_set (sym st) s (h s)) (str st)
                     (upd (threads st) t (mkThread (HalfWritten s) (th_todo th) (th_cur th) (th_obs th)))
        else mkState (sym_set (sym st) s (h s)) (str_set (str st) (h s) s)
                     (upd (threads st) t (mkThread Ready (th_todo th) (Some (s, h s)) (th_obs th)))
    | HalfWritten s =>
        mkState (sym st) (str_set (str st) (h s) s)
                (upd (threads st) t (mkThread Ready (th_todo th) (Some (s, h s)) (th_obs th)))
    | Ready =>
        match th_todo th with
        | [] => st
        | IGet s :: rest =>
            match sym st s with
            | Some k => mkState (sym st) (str st) (upd (threads st) t (mkThread Ready rest (Some (s, k)) (th_obs th)))
            | None   => mkState (sym st) (str st) (upd (threads st) t (mkThread (Missed s) rest (th_cur th) (th_obs th)))
            end
        | IStr :: rest =>
            match th_cur th with
            | Some (s, k) => mkState (sym st) (str st)
                          (upd (threads st) t (mkThread Ready rest (th_cur th) ((s, k, str st k) :: th_obs th)))
            | None => mkState (sym st) (str st) (upd (threads st) t (mkThread Ready rest None (th_obs th)))
            end
        end
    end
  end.

Definition run (st : state) (sched : list nat) : state := fold_left step sched st.

Definition init (progs : list (list instr)) : state :=
  mkState (fun _ => None) (fun _ => None) (map (fun p => mkThread Ready p None []) progs).

(* every answer any thread ever got *)
Definition observations (st : state) : list (string * N * option string) :=
  flat_map th_obs (threads st).

End Intern.
