(* C20 — proofs about Conc/LockSet.v: a table of well-locked sites admits no race
   state, for any number of threads, any programs built from the table and any
   schedule; and the discipline is necessary (an ill-locked site races with a
   well-locked partner). *)
From Coq Require Import List Bool Arith Lia.
Import ListNotations.
From PanVerif Require Import Conc.LockSet.

(* ---- list update ----------------------------------------------------------- *)
Lemma nth_error_upd_same : forall A (l : list A) n x y,
  nth_error l n = Some y -> nth_error (upd l n x) n = Some x.
Proof.
  induction l as [|a l IH]; intros [|n] x y H; simpl in *; try discriminate; auto.
  eapply IH; eauto.
Qed.

Lemma nth_error_upd_other : forall A (l : list A) n m x,
  n <> m -> nth_error (upd l n x) m = nth_error l m.
Proof.
  induction l as [|a l IH]; intros [|n] [|m] x H; simpl in *; auto; try congruence.
Qed.

Lemma nth_error_upd_inv : forall A (l : list A) n m x y z,
  nth_error l n = Some z ->
  nth_error (upd l n x) m = Some y ->
  (m = n /\ y = x) \/ (m <> n /\ nth_error l m = Some y).
Proof.
  intros A l n m x y z Hn Hm.
  destruct (Nat.eq_dec n m) as [->|Hne].
  - rewrite (nth_error_upd_same _ _ _ _ _ Hn) in Hm. left. split; congruence.
  - rewrite nth_error_upd_other in Hm by assumption. right. split; auto.
Qed.

Lemma in_remove_one_other : forall t t' l, t' <> t -> In t' l -> In t' (remove_one t l).
Proof.
  induction l as [|x l IH]; simpl; intros Hne Hin; auto.
  destruct (Nat.eqb x t) eqn:E.
  - apply Nat.eqb_eq in E. subst x. destruct Hin as [->|Hin]; [congruence|auto].
  - destruct Hin as [->|Hin]; [left; auto | right; auto].
Qed.

(* ---- the invariant --------------------------------------------------------- *)
(* lock state consistent with the position of thread [t]: past its acquire and
   before its release, the thread holds the lock its current site names *)
Definition holds_lock (w : option tid) (r : list tid) (t : tid) (th : thread) : Prop :=
  match th_phase th, th_todo th with
  | Idle, _ => True
  | _, [] => True
  | _, s :: _ =>
      match s_lock s with
      | NoLock => True
      | RLock => In t r
      | WLock => w = Some t
      end
  end.

Definition all_ok (p : list site) : Prop := Forall (fun s => site_ok s = true) p.

Definition inv (st : state) : Prop :=
  (forall t th, nth_error (threads st) t = Some th ->
     holds_lock (writer st) (readers st) t th /\ all_ok (th_todo th))
  /\ (forall t, writer st = Some t -> readers st = []).

Lemma inv_update : forall st t th th' w' r',
  inv st ->
  nth_error (threads st) t = Some th ->
  holds_lock w' r' t th' -> all_ok (th_todo th') ->
  (forall t' th'', t' <> t -> nth_error (threads st) t' = Some th'' ->
     holds_lock (writer st) (readers st) t' th'' -> holds_lock w' r' t' th'') ->
  (forall x, w' = Some x -> r' = []) ->
  inv (mkState w' r' (upd (threads st) t th')).
Proof.
  intros st t th th' w' r' [Hth Hw] Hn Hnew Hok Hothers Hwr.
  split; simpl; auto.
  intros t' th'' Hn'.
  destruct (nth_error_upd_inv _ _ _ _ _ _ _ Hn Hn') as [[-> ->]|[Hne Hold]].
  - split; assumption.
  - destruct (Hth _ _ Hold) as [Hh Ha]. split; auto.
Qed.

Lemma all_ok_tail : forall s p, all_ok (s :: p) -> all_ok p.
Proof. intros s p H. inversion H; assumption. Qed.

Lemma step_inv : forall st t, inv st -> inv (step st t).
Proof.
  intros st t Hinv. unfold step.
  destruct (nth_error (threads st) t) as [th|] eqn:Hn; [|assumption].
  destruct th as [ph todo]. simpl.
  destruct todo as [|s rest]; [assumption|].
  pose proof Hinv as [Hth Hw].
  destruct (Hth _ _ Hn) as [Hh Hok]. simpl in Hok.
  destruct ph.
  - (* acquire *)
    destruct (s_lock s) eqn:L; unfold acquire.
    + (* NoLock *)
      eapply inv_update; eauto.
      unfold holds_lock; simpl; rewrite L; exact I.
    + (* RLock *)
      destruct (writer st) as [x|] eqn:Wr; [assumption|].
      eapply inv_update; eauto.
      * unfold holds_lock; simpl; rewrite L; left; reflexivity.
      * intros t' th'' Hne Hn'' Hold. unfold holds_lock in *.
        destruct (th_phase th''); auto; destruct (th_todo th'') as [|s' r']; auto;
          destruct (s_lock s'); auto; try (right; assumption); try congruence.
      * intros x Hx; discriminate.
    + (* Lock *)
      destruct (writer st) as [x|] eqn:Wr; [assumption|].
      destruct (readers st) as [|y ys] eqn:Rd; [|assumption].
      eapply inv_update; eauto.
      * unfold holds_lock; simpl; rewrite L; reflexivity.
      * intros t' th'' Hne Hn'' Hold. unfold holds_lock in *.
        destruct (th_phase th''); auto; destruct (th_todo th'') as [|s' r']; auto;
          destruct (s_lock s'); auto; try (rewrite Rd in Hold; contradiction); try congruence.
  - (* begin-access *)
    eapply inv_update; eauto.
  - (* end-access *)
    eapply inv_update; eauto.
  - (* release *)
    destruct (s_lock s) eqn:L; unfold release.
    + eapply inv_update; eauto.
      * unfold holds_lock; simpl; exact I.
      * simpl. eapply all_ok_tail; eauto.
    + eapply inv_update; eauto.
      * unfold holds_lock; simpl; exact I.
      * simpl. eapply all_ok_tail; eauto.
      * intros t' th'' Hne Hn'' Hold. unfold holds_lock in *.
        destruct (th_phase th''); auto; destruct (th_todo th'') as [|s' r']; auto;
          destruct (s_lock s'); auto; apply in_remove_one_other; assumption.
      * intros x Hx. rewrite (Hw _ Hx). reflexivity.
    + (* the releasing thread is the writer, so nobody else holds anything *)
      unfold holds_lock in Hh; simpl in Hh; rewrite L in Hh.
      eapply inv_update; eauto.
      * unfold holds_lock; simpl; exact I.
      * simpl. eapply all_ok_tail; eauto.
      * intros t' th'' Hne Hn'' Hold. unfold holds_lock in *.
        destruct (th_phase th''); auto; destruct (th_todo th'') as [|s' r']; auto;
          destruct (s_lock s'); auto; rewrite Hh in Hold; congruence.
Qed.

Lemma run_inv : forall sched st, inv st -> inv (run st sched).
Proof.
  induction sched as [|t sched IH]; intros st H; simpl; auto.
  apply IH. apply step_inv. assumption.
Qed.

Lemma nth_error_map_some : forall A B (f : A -> B) l n y,
  nth_error (map f l) n = Some y -> exists x, nth_error l n = Some x /\ y = f x.
Proof.
  induction l as [|a l IH]; intros [|n] y H; simpl in *; try discriminate.
  - inversion H. eauto.
  - eauto.
Qed.

Lemma init_inv : forall sites progs,
  well_locked sites = true -> built_from sites progs -> inv (init progs).
Proof.
  intros sites progs Hwl Hb. split; simpl.
  - intros t th Hn. apply nth_error_map_some in Hn. destruct Hn as [p [Hp ->]].
    split; [exact I|]. simpl.
    unfold built_from in Hb. rewrite Forall_forall in Hb.
    pose proof (Hb _ (nth_error_In _ _ Hp)) as Hp'.
    unfold all_ok. rewrite Forall_forall in *. intros s Hs.
    unfold well_locked in Hwl. rewrite forallb_forall in Hwl. auto.
  - intros t H; discriminate.
Qed.

(* a race state contradicts the invariant *)
Lemma inv_no_race : forall st, inv st -> ~ race_state st.
Proof.
  intros st [Hth Hw] (t1 & t2 & v & k1 & k2 & Hne & (m1 & r1 & H1) & (m2 & r2 & H2) & Hk).
  destruct (Hth _ _ H1) as [Hh1 Ho1]. destruct (Hth _ _ H2) as [Hh2 Ho2].
  unfold holds_lock in Hh1, Hh2. simpl in *.
  inversion Ho1 as [|? ? Hs1 _]; inversion Ho2 as [|? ? Hs2 _]; subst.
  unfold site_ok in Hs1, Hs2; simpl in *.
  destruct Hk as [-> | ->].
  - destruct m1; try discriminate.
    destruct k2, m2; try discriminate; try congruence;
      rewrite (Hw _ Hh1) in Hh2; contradiction.
  - destruct m2; try discriminate.
    destruct k1, m1; try discriminate; try congruence;
      rewrite (Hw _ Hh2) in Hh1; contradiction.
Qed.

(* ---- sufficiency ------------------------------------------------------------ *)
Theorem well_locked_no_race : forall sites,
  well_locked sites = true ->
  forall progs, built_from sites progs ->
  forall sched, ~ reaches_race progs sched.
Proof.
  intros sites Hwl progs Hb sched [n Hrace].
  eapply inv_no_race; [|exact Hrace].
  apply run_inv. eapply init_inv; eauto.
Qed.

(* what the invariant says about a reachable state, spelled out: a thread that is
   inside a write is the writer and nobody else holds the lock; a thread inside a
   read holds the read lock or the write lock *)
Theorem well_locked_exclusion : forall sites,
  well_locked sites = true ->
  forall progs, built_from sites progs ->
  forall sched t v k,
    in_access (run (init progs) sched) t v k ->
    let st := run (init progs) sched in
    match k with
    | W => writer st = Some t /\ readers st = []
    | R => In t (readers st) \/ writer st = Some t
    end.
Proof.
  intros sites Hwl progs Hb sched t v k (m & rest & Hn) st.
  assert (Hinv : inv st) by (apply run_inv; eapply init_inv; eauto).
  destruct Hinv as [Hth Hw]. destruct (Hth _ _ Hn) as [Hh Ho].
  unfold holds_lock in Hh; simpl in *.
  inversion Ho as [|? ? Hs _]; subst. unfold site_ok in Hs; simpl in Hs.
  destruct k, m; try discriminate; auto.
  split; [assumption | eapply Hw; eassumption].
Qed.

(* ---- necessity -------------------------------------------------------------- *)
(* an unlocked read and a locked write of the same variable: thread 0 enters the
   read without touching the lock, thread 1 takes the free write lock and enters
   the write *)
Theorem unlocked_read_races : forall v,
  let sites := [mkSite v R NoLock; mkSite v W WLock] in
  well_locked sites = false /\
  exists progs sched, built_from sites progs /\ reaches_race progs sched.
Proof.
  intros v sites. split; [reflexivity|].
  exists [[mkSite v R NoLock]; [mkSite v W WLock]], [0; 0; 1; 1].
  split.
  - unfold built_from; repeat (apply Forall_cons || apply Forall_nil); simpl; auto.
  - exists 4, 0, 1, v, R, W. split; [discriminate|].
    split; [|split; [|right; reflexivity]].
    + exists NoLock, []. vm_compute. reflexivity.
    + exists WLock, []. vm_compute. reflexivity.
Qed.

(* every way of breaking the discipline at one site is a race against a partner
   site that keeps it *)
Theorem ill_locked_site_races : forall s,
  site_ok s = false ->
  exists s', site_ok s' = true /\ s_var s' = s_var s /\
  exists progs sched, built_from [s; s'] progs /\ reaches_race progs sched.
Proof.
  intros [v k m] Hbad. destruct k, m; try discriminate Hbad.
  - (* unlocked read, against a locked write *)
    exists (mkSite v W WLock). split; [reflexivity|]. split; [reflexivity|].
    exists [[mkSite v R NoLock]; [mkSite v W WLock]], [0; 0; 1; 1].
    split; [unfold built_from; repeat (apply Forall_cons || apply Forall_nil); simpl; auto|].
    exists 4, 0, 1, v, R, W. split; [discriminate|].
    split; [|split; [|right; reflexivity]].
    + exists NoLock, []. vm_compute. reflexivity.
    + exists WLock, []. vm_compute. reflexivity.
  - (* unlocked write, against a locked write *)
    exists (mkSite v W WLock). split; [reflexivity|]. split; [reflexivity|].
    exists [[mkSite v W NoLock]; [mkSite v W WLock]], [0; 0; 1; 1].
    split; [unfold built_from; repeat (apply Forall_cons || apply Forall_nil); simpl; auto|].
    exists 4, 0, 1, v, W, W. split; [discriminate|].
    split; [|split; [|right; reflexivity]].
    + exists NoLock, []. vm_compute. reflexivity.
    + exists WLock, []. vm_compute. reflexivity.
  - (* write under the read lock, against a read under the read lock *)
    exists (mkSite v R RLock). split; [reflexivity|]. split; [reflexivity|].
    exists [[mkSite v W RLock]; [mkSite v R RLock]], [0; 0; 1; 1].
    split; [unfold built_from; repeat (apply Forall_cons || apply Forall_nil); simpl; auto|].
    exists 4, 0, 1, v, W, R. split; [discriminate|].
    split; [|split; [|left; reflexivity]].
    + exists RLock, []. vm_compute. reflexivity.
    + exists RLock, []. vm_compute. reflexivity.
Qed.

(* ---- the machine is not vacuous: a well-locked table does run ---------------- *)
(* one reader and one writer both run to completion under a fair schedule, the
   reader blocking while the writer is inside *)
Definition demo_sites : list site :=
  [mkSite symHashTable R RLock; mkSite strTable W WLock].
Definition demo_progs : list (list site) :=
  [[mkSite strTable W WLock]; [mkSite symHashTable R RLock]; [mkSite symHashTable R RLock; mkSite strTable W WLock]].

Lemma demo_built : built_from demo_sites demo_progs.
Proof. unfold built_from; repeat (apply Forall_cons || apply Forall_nil); simpl; auto. Qed.

Lemma demo_runs_to_completion :
  let st := run (init demo_progs) [0;1;2;0;1;2;0;1;2;0;1;2;1;2;1;2;1;2;2;2;2;2;2] in
  threads st = [mkThread Idle []; mkThread Idle []; mkThread Idle []]
  /\ writer st = None /\ readers st = [].
Proof. vm_compute. auto. Qed.

(* while thread 0 is inside its write, thread 1's RLock blocks: it does not advance *)
Lemma demo_blocked_step_does_not_advance :
  let st := run (init demo_progs) [0; 0] in
  in_access st 0 strTable W /\ step st 1 = st.
Proof. split; [exists WLock, []; vm_compute; reflexivity | vm_compute; reflexivity]. Qed.
