(* C20 — lock-set model of the interpreter-wide symbol tables of package object
   (object/hashtable.go): shared variables, access sites with the lock they hold,
   threads that execute sites, and a machine that interleaves any number of
   threads under any schedule with sync.RWMutex semantics.  Definitions only;
   the lemmas are in Conc/LockSetProofs.v. *)
From Coq Require Import List Bool Arith.
Import ListNotations.

(* ---- shared variables ------------------------------------------------------ *)
(* Generic: a variable is a number.  The translator (harness dumpsites) uses these two. *)
Definition var := nat.
Definition symHashTable : var := 0.   (* map[string]SymHash *)
Definition strTable     : var := 1.   (* map[SymHash]*PanStr *)

Inductive kind := R | W.                      (* map read / map write *)
Inductive lk := NoLock | RLock | WLock.       (* nothing / lock.RLock() / lock.Lock() *)

(* An access site of the source: which table, read or write, and the lock that is
   held on every path from the entry of the enclosing function to the access. *)
Record site := mkSite { s_var : var; s_kind : kind; s_lock : lk }.

(* The discipline. *)
Definition site_ok (s : site) : bool :=
  match s_kind s, s_lock s with
  | W, WLock => true
  | R, RLock => true
  | R, WLock => true
  | _, _ => false
  end.

Definition well_locked (sites : list site) : bool := forallb site_ok sites.

(* positions (0-based) of the sites that break the discipline; printed by the driver *)
Fixpoint ill_locked_from (i : nat) (sites : list site) : list nat :=
  match sites with
  | [] => []
  | s :: r => if site_ok s then ill_locked_from (S i) r else i :: ill_locked_from (S i) r
  end.
Definition ill_locked (sites : list site) : list nat := ill_locked_from 0 sites.

(* ---- threads --------------------------------------------------------------- *)
Definition tid := nat.

(* One execution of a site is four steps:
     acquire (s_lock) ; begin-access ; end-access ; release (s_lock).
   A thread is the list of sites it still has to execute together with its position
   between those four steps for the site at the head of the list. *)
Inductive phase :=
| Idle        (* next step: acquire       *)
| Holding     (* next step: begin-access  *)
| InAccess    (* next step: end-access    (the thread is inside the map operation) *)
| Accessed.   (* next step: release       *)

Inductive action := Acquire | BeginAccess | EndAccess | Release.
Definition next_action (p : phase) : action :=
  match p with Idle => Acquire | Holding => BeginAccess | InAccess => EndAccess | Accessed => Release end.

Record thread := mkThread { th_phase : phase; th_todo : list site }.

(* ---- machine --------------------------------------------------------------- *)
(* sync.RWMutex: at most one writer, which excludes everyone; readers exclude writers. *)
Record state := mkState {
  writer  : option tid;
  readers : list tid;           (* multiset of threads holding the read lock *)
  threads : list thread
}.

Fixpoint remove_one (t : tid) (l : list tid) : list tid :=
  match l with
  | [] => []
  | x :: r => if Nat.eqb x t then r else x :: remove_one t r
  end.

Fixpoint upd {A} (l : list A) (n : nat) (x : A) : list A :=
  match l, n with
  | [], _ => []
  | _ :: r, O => x :: r
  | y :: r, S n' => y :: upd r n' x
  end.

(* None = the step blocks (the thread does not advance). *)
Definition acquire (m : lk) (t : tid) (st : state) : option (option tid * list tid) :=
  match m with
  | NoLock => Some (writer st, readers st)
  | RLock => match writer st with
             | None => Some (None, t :: readers st)
             | Some _ => None
             end
  | WLock => match writer st, readers st with
             | None, [] => Some (Some t, [])
             | _, _ => None
             end
  end.

Definition release (m : lk) (t : tid) (st : state) : option tid * list tid :=
  match m with
  | NoLock => (writer st, readers st)
  | RLock => (writer st, remove_one t (readers st))
  | WLock => (None, readers st)
  end.

(* Thread [t] is scheduled for one step.  A thread id outside the machine, a thread
   that has finished, and a blocked acquire leave the state unchanged. *)
Definition step (st : state) (t : tid) : state :=
  match nth_error (threads st) t with
  | None => st
  | Some th =>
    match th_todo th with
    | [] => st
    | s :: rest =>
      match th_phase th with
      | Idle =>
          match acquire (s_lock s) t st with
          | None => st
          | Some (w, r) => mkState w r (upd (threads st) t (mkThread Holding (s :: rest)))
          end
      | Holding =>
          mkState (writer st) (readers st) (upd (threads st) t (mkThread InAccess (s :: rest)))
      | InAccess =>
          mkState (writer st) (readers st) (upd (threads st) t (mkThread Accessed (s :: rest)))
      | Accessed =>
          let (w, r) := release (s_lock s) t st in
          mkState w r (upd (threads st) t (mkThread Idle rest))
      end
    end
  end.

Definition schedule := list tid.

Definition run (st : state) (sched : schedule) : state := fold_left step sched st.

(* programs: one list of sites per thread; any number of threads *)
Definition init (progs : list (list site)) : state :=
  mkState None [] (map (mkThread Idle) progs).

(* ---- races ----------------------------------------------------------------- *)
Definition in_access (st : state) (t : tid) (v : var) (k : kind) : Prop :=
  exists m rest, nth_error (threads st) t = Some (mkThread InAccess (mkSite v k m :: rest)).

(* two distinct threads inside accesses to the same variable, at least one a write *)
Definition race_state (st : state) : Prop :=
  exists t1 t2 v k1 k2,
    t1 <> t2 /\ in_access st t1 v k1 /\ in_access st t2 v k2 /\ (k1 = W \/ k2 = W).

(* some prefix of the schedule leads into a race state *)
Definition reaches_race (progs : list (list site)) (sched : schedule) : Prop :=
  exists n, race_state (run (init progs) (firstn n sched)).

(* every thread only executes sites of the given table *)
Definition built_from (sites : list site) (progs : list (list site)) : Prop :=
  Forall (fun p => Forall (fun s => In s sites) p) progs.
