(* Running PanCore on a program and comparing with what the implementation did. *)
From Coq Require Import ZArith String List Bool.
From PanVerif Require Import Core.Syntax Core.Values Core.Interp.
Import ListNotations.
Local Open Scope string_scope.

Inductive obs :=
| ObsVal (repr : string)          (* final value, as Inspect() prints it *)
| ObsErr (kind msg : string)      (* the program ended with this Pangaea error *)
| ObsFuel
| ObsUnsup (why : string).

Definition out_string (st : state) : string := String.concat "" (rev (out st)).

Definition default_fuel : nat := 400.

Definition run_obs (W : wk) (init : state) (fuel : nat) (prog : list stmt) : obs * string :=
  match run_program W fuel prog 0 init with
  | (Ok v, st) => (ObsVal (inspect_v st v), out_string st)
  | (Er k m, st) => (ObsErr k m, out_string st)
  | (Fuel, st) => (ObsFuel, out_string st)
  | (Unsup w, st) => (ObsUnsup w, out_string st)
  end.

(* a prelude evaluated once: the state it leaves and the scope it ran in *)
Definition run_prelude (W : wk) (init : state) (fuel : nat) (prelude : list stmt) : option (state * nat) :=
  match alloc_frame [] (Some 0) init with
  | (Ok e, st) => match r_body (level W fuel) prelude e st with
                  | (Ok _, st') => Some ({| heap := heap st'; frames := frames st'; funcs := funcs st';
                                            biters := biters st'; out := []; inp := inp st' |}, e)
                  | _ => None
                  end
  | _ => None
  end.

Definition run_obs_from (W : wk) (base : option (state * nat)) (fuel : nat) (prog : list stmt) : obs * string :=
  match base with
  | None => (ObsUnsup "prelude did not evaluate in the model", EmptyString)
  | Some (init, outer) =>
    match run_program W fuel prog outer init with
    | (Ok v, st) => (ObsVal (inspect_v st v), out_string st)
    | (Er k m, st) => (ObsErr k m, out_string st)
    | (Fuel, st) => (ObsFuel, out_string st)
    | (Unsup w, st) => (ObsUnsup w, out_string st)
    end
  end.

(* what the harness observed: kind ("value" | "error"), repr or error kind, message, stdout *)
Record impl_obs := { i_kind : string; i_a : string; i_b : string; i_out : string }.

(* verdict: 0 agree, 1 disagree, 2 out of fuel, 3 unsupported construct.
   cmp_msg: compare error messages too. *)
Definition verdict (cmp_msg : bool) (m : obs * string) (i : impl_obs) : nat :=
  match fst m with
  | ObsFuel => 2
  | ObsUnsup _ => 3
  | ObsVal r => if String.eqb (i_kind i) "value" && String.eqb r (i_a i) && String.eqb (snd m) (i_out i)
                then 0 else 1
  | ObsErr k msg => if String.eqb (i_kind i) "error" && String.eqb k (i_a i)
                       && (negb cmp_msg || String.eqb msg (i_b i)) && String.eqb (snd m) (i_out i)
                    then 0 else 1
  end.

Definition case := (nat * list stmt * impl_obs)%type.

Definition judge (W : wk) (base : option (state * nat)) (fuel : nat) (cmp_msg : bool) (cs : list case)
  : list (nat * nat) :=
  map (fun c => match c with (i, prog, io) => (i, verdict cmp_msg (run_obs_from W base fuel prog) io) end) cs.

Definition details (W : wk) (base : option (state * nat)) (fuel : nat) (cmp_msg : bool) (cs : list case)
  : list (nat * (obs * string)) :=
  flat_map (fun c => match c with (i, prog, io) =>
     let m := run_obs_from W base fuel prog in
     match verdict cmp_msg m io with 0 => [] | _ => [(i, m)] end end) cs.
