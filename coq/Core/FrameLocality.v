(* Frame locality for the whole interpreter (C03, C14, C19): for every fuel level,
   every program fragment, environment and state, an evaluation changes only
   - the frame it runs in,
   - frames it allocates itself,
   - frames that are some closure's own frame (the dedicated frame every function /
     iterator literal gets when it is evaluated: iterators keep their progress there);
   every other frame that existed before — the enclosing scopes, the callers' frames,
   the global scope, the frames of other activations — is bit-for-bit the same
   afterwards. Proved by induction on the fuel level, through every construct and
   every modelled built-in. *)
From Coq Require Import ZArith String List Bool Arith Lia.
From PanVerif Require Import Core.Syntax Core.Values Core.Interp Core.ScopeProofs.
Import ListNotations.

Definition clof (st : state) (g : nat) : Prop :=
  exists fid c, nth_error (funcs st) fid = Some c /\ cenv c = g.

Record ext (n env : nat) (st st' : state) : Prop := {
  ext_len : length (frames st) <= length (frames st');
  ext_same : forall g, g < n -> g <> env -> ~ clof st g ->
             nth_error (frames st') g = nth_error (frames st) g;
  ext_clo : forall g, g < n -> clof st' g -> clof st g;
  (* the object heap is append-only: every object that existed keeps its record *)
  ext_heap : forall id o, nth_error (heap st) id = Some o -> nth_error (heap st') id = Some o
}.

Lemma ext_refl n env st : ext n env st st.
Proof. constructor; auto. Qed.

Lemma ext_trans n env st1 st2 st3 : ext n env st1 st2 -> ext n env st2 st3 -> ext n env st1 st3.
Proof.
  intros [L1 S1 C1 H1] [L2 S2 C2 H2]. constructor; [| | |intros id o X; apply H2, H1, X].
  - lia.
  - intros g Hg He Hc. rewrite S2.
    + apply S1; assumption.
    + exact Hg.
    + exact He.
    + intro Hc2. apply Hc. apply C1; assumption.
  - intros g Hg Hc. apply C1; [assumption|]. apply C2; assumption.
Qed.

(* a computation that ran in a fresh frame, or in a closure's own frame, is fine for any env *)
Lemma ext_weaken_fresh n e env st st' : n <= e -> ext n e st st' -> ext n env st st'.
Proof. intros Le [L S C Hh]. constructor; auto. intros g Hg _ Hc. apply S; auto. lia. Qed.

Lemma ext_weaken_clof n e env st st' : clof st e -> ext n e st st' -> ext n env st st'.
Proof.
  intros Hc [L S C Hh]. constructor; auto. intros g Hg _ Hn. apply S; auto. intro E. subst. contradiction.
Qed.

(* states that differ only in heap / biters / out / inp *)
Lemma ext_same_frames n env st st' :
  frames st' = frames st -> funcs st' = funcs st ->
  (forall id o, nth_error (heap st) id = Some o -> nth_error (heap st') id = Some o) ->
  ext n env st st'.
Proof.
  intros F U Hh. constructor.
  - rewrite F. lia.
  - intros. now rewrite F.
  - intros g _ (fid & c & H & E). exists fid, c. now rewrite <- U.
  - exact Hh.
Qed.

(* ---- computations that respect the relation --------------------------------------- *)
Definition okm {A} (n env : nat) (m : M A) : Prop :=
  forall st r st', n <= length (frames st) -> m st = (r, st') -> ext n env st st'.

Lemma okm_ret {A} n env (a : A) : okm n env (ret a).
Proof. intros st r st' _ H. inversion H; subst. apply ext_refl. Qed.
Lemma okm_raise {A} n env k m : okm n env (@raise A k m).
Proof. intros st r st' _ H. inversion H; subst. apply ext_refl. Qed.
Lemma okm_unsup {A} n env w : okm n env (@unsup A w).
Proof. intros st r st' _ H. inversion H; subst. apply ext_refl. Qed.
Lemma okm_nofuel {A} n env : okm n env (@nofuel A).
Proof. intros st r st' _ H. inversion H; subst. apply ext_refl. Qed.
Lemma okm_get_st n env : okm n env get_st.
Proof. intros st r st' _ H. inversion H; subst. apply ext_refl. Qed.
Lemma okm_with_st {A} n env (f : state -> A) : okm n env (with_st f).
Proof. intros st r st' _ H. inversion H; subst. apply ext_refl. Qed.
Lemma okm_insp n env v : okm n env (insp v).
Proof. intros st r st' _ H. inversion H; subst. apply ext_refl. Qed.

Lemma okm_bind {A B} n env (m : M A) (f : A -> M B) :
  okm n env m -> (forall a, okm n env (f a)) -> okm n env (bind m f).
Proof.
  intros Hm Hf st r st' Hn H. unfold bind in H.
  destruct (m st) as [[a|k e| |w] s1] eqn:E.
  - pose proof (Hm _ _ _ Hn E) as X. eapply ext_trans; [exact X|].
    eapply Hf; [|exact H]. destruct X. lia.
  - inversion H; subst. eapply Hm; eauto.
  - inversion H; subst. eapply Hm; eauto.
  - inversion H; subst. eapply Hm; eauto.
Qed.

Lemma okm_catch {A} n env (m : M A) : okm n env m -> okm n env (catch m).
Proof.
  intros Hm st r st' Hn H. unfold catch in H.
  destruct (m st) as [[a|k e| |w] s1] eqn:E; inversion H; subst; eapply Hm; eauto.
Qed.

Lemma okm_need {A} n env (o : option A) msg : okm n env (need o msg).
Proof. destruct o; [apply okm_ret|apply okm_raise]. Qed.

Lemma okm_mapM {A B} n env (f : A -> M B) l : (forall a, okm n env (f a)) -> okm n env (mapM f l).
Proof.
  intros Hf. induction l as [|a t IH]; cbn [mapM]; [apply okm_ret|].
  apply okm_bind; [apply Hf|]. intros b. apply okm_bind; [exact IH|]. intros bs. apply okm_ret.
Qed.

(* ---- state primitives ---------------------------------------------------------------- *)
Lemma okm_push_out n env s : okm n env (push_out s).
Proof. intros st r st' _ H. inversion H; subst. apply ext_same_frames; auto. Qed.
Lemma okm_alloc_obj n env o : okm n env (alloc_obj o).
Proof.
  intros st r st' _ H. inversion H; subst. apply ext_same_frames; auto.
  intros id o' X. cbn [heap]. rewrite nth_error_app1; [exact X|]. apply nth_error_Some. congruence.
Qed.
Lemma okm_alloc_biter n env b : okm n env (alloc_biter b).
Proof. intros st r st' _ H. inversion H; subst. apply ext_same_frames; auto. Qed.
Lemma okm_set_biter n env i b : okm n env (set_biter i b).
Proof. intros st r st' _ H. inversion H; subst. apply ext_same_frames; auto. Qed.
Lemma okm_get_clo n env fid : okm n env (get_clo fid).
Proof.
  intros st r st' _ H. unfold get_clo in H. destruct (nth_error (funcs st) fid); inversion H; subst; apply ext_refl.
Qed.
Lemma okm_frame_outer n env e : okm n env (frame_outer e).
Proof.
  intros st r st' _ H. unfold frame_outer in H. destruct (nth_error (frames st) e); inversion H; subst; apply ext_refl.
Qed.

(* writing frame e is fine when e is the current frame or a fresh one *)
Lemma okm_env_set n env e x v : e = env \/ n <= e -> okm n env (env_set e x v).
Proof.
  intros He st r st' Hn H. unfold env_set in H.
  destruct (nth_error (frames st) e) as [f|] eqn:E; inversion H; subst; [|apply ext_refl].
  constructor; cbn [frames funcs].
  - rewrite length_upd. lia.
  - intros g Hg Hne _. apply nth_error_upd_other. destruct He; [congruence|lia].
  - intros g _ Hc. exact Hc.
  - auto.
Qed.

(* writing a closure's own frame is fine too *)
Lemma ext_env_set_clof n env e x v st r st' :
  clof st e -> env_set e x v st = (r, st') -> ext n env st st' /\ funcs st' = funcs st.
Proof.
  intros Hc H. unfold env_set in H.
  destruct (nth_error (frames st) e) as [f|] eqn:E; inversion H; subst; [|split; [apply ext_refl|reflexivity]].
  split; [|reflexivity]. constructor; cbn [frames funcs].
  - rewrite length_upd. lia.
  - intros g Hg Hne Hn. apply nth_error_upd_other. intro; subst. contradiction.
  - intros g _ X. exact X.
  - auto.
Qed.

Lemma okm_alloc_frame_bind {B} n env store o (k : nat -> M B) :
  (forall e, n <= e -> okm n env (k e)) -> okm n env (e <- alloc_frame store o ;; k e).
Proof.
  intros Hk st r st' Hn H. unfold bind, alloc_frame in H.
  set (st1 := {| heap := heap st; frames := frames st ++ [{| fstore := store; fouter := o |}];
                 funcs := funcs st; biters := biters st; out := out st; inp := inp st |}) in *.
  assert (ext n env st st1) as X.
  { constructor; cbn [frames funcs st1].
    - rewrite app_length. lia.
    - intros g Hg _ _. apply nth_error_app1. lia.
    - intros g _ Hc. exact Hc.
    - auto. }
  eapply ext_trans; [exact X|]. eapply (Hk (length (frames st))); [lia| |exact H].
  cbn [frames st1]. rewrite app_length. lia.
Qed.

Lemma okm_copy_frame_bind {B} n env e0 (k : nat -> M B) :
  (forall e, n <= e -> okm n env (k e)) -> okm n env (e <- copy_frame e0 ;; k e).
Proof.
  intros Hk st r st' Hn H. unfold bind at 1 in H. unfold copy_frame in H.
  destruct (nth_error (frames st) e0) as [f|] eqn:E.
  - change (bind (alloc_frame (fstore f) (fouter f)) k st = (r, st')) in H.
    eapply okm_alloc_frame_bind; eauto.
  - inversion H; subst. apply ext_refl.
Qed.

(* a new closure must own a fresh frame *)
Lemma okm_alloc_clo n env c : n <= cenv c -> okm n env (alloc_clo c).
Proof.
  intros Hc st r st' Hn H. inversion H; subst. constructor; cbn [frames funcs].
  - lia.
  - reflexivity.
  - intros g Hg (fid & c0 & Hf & E). cbn [funcs] in Hf.
    destruct (Nat.lt_ge_cases fid (length (funcs st))) as [L|L].
    + rewrite nth_error_app1 in Hf by assumption. now exists fid, c0.
    + rewrite nth_error_app2 in Hf by assumption.
      destruct (fid - length (funcs st)) as [|k]; cbn in Hf; [|destruct k; discriminate].
      inversion Hf; subst. lia.
  - auto.
Qed.

Lemma okm_set_clo_env n env fid e : n <= e -> okm n env (set_clo_env fid e).
Proof.
  intros He st r st' Hn H. unfold set_clo_env in H.
  destruct (nth_error (funcs st) fid) as [c|] eqn:E; inversion H; subst; [|apply ext_refl].
  constructor; cbn [frames funcs].
  - lia.
  - reflexivity.
  - intros g Hg (fid0 & c0 & Hf & E0). cbn [funcs] in Hf.
    destruct (Nat.eq_dec fid0 fid) as [->|N].
    + rewrite nth_error_upd_same in Hf by (apply nth_error_Some; congruence).
      inversion Hf; subst. cbn in Hg. lia.
    + rewrite nth_error_upd_other in Hf by congruence. now exists fid0, c0.
  - auto.
Qed.

(* ---- the invariant on interpreter levels ------------------------------------------- *)
Definition okR (R : recs) : Prop :=
  (forall n env e, okm n env (r_expr R e env)) /\
  (forall n env ss, okm n env (r_body R ss env)) /\
  (forall n env env' obj name args kw, okm n env (r_callprop R env' obj name args kw)) /\
  (forall n env env' f args kw, okm n env (r_callval R env' f args kw)).

Lemma okR_bottom : okR bottom.
Proof. unfold okR, bottom; cbn. split; [|split; [|split]]; intros; apply okm_nofuel. Qed.

Ltac okm_leaf :=
  first [ apply okm_ret | apply okm_raise | apply okm_unsup | apply okm_nofuel | apply okm_get_st
        | apply okm_with_st | apply okm_insp | apply okm_need | apply okm_push_out | apply okm_alloc_obj
        | apply okm_alloc_biter | apply okm_set_biter | apply okm_get_clo | apply okm_frame_outer
        | assumption ].

Ltac okm_go :=
  repeat (intros; match goal with
  | |- okm _ _ (bind (alloc_frame _ _) _) => apply okm_alloc_frame_bind
  | |- okm _ _ (bind (copy_frame _) _) => apply okm_copy_frame_bind
  | |- okm _ _ (bind _ _) => apply okm_bind
  | |- okm _ _ (catch _) => apply okm_catch
  | |- okm _ _ (match ?x with _ => _ end) => destruct x
  | |- okm _ _ (if ?x then _ else _) => destruct x
  | |- okm _ _ (let (_, _) := ?x in _) => destruct x
  | |- _ => okm_leaf
  end).

Section Step.
Variable W : wk.
Variable R : recs.
Variable fuel : nat.
Hypothesis HR : okR R.

Let HRe := proj1 HR.
Let HRb := proj1 (proj2 HR).
Let HRp := proj1 (proj2 (proj2 HR)).
Let HRv := proj2 (proj2 (proj2 HR)).

Ltac go := okm_go; try (first [apply HRp | apply HRv | apply HRe | apply HRb]).

Lemma ok_callprop n env env' o nm a k : okm n env (callprop R env' o nm a k).
Proof. apply HRp. Qed.
Lemma ok_callval n env env' f a k : okm n env (callval R env' f a k).
Proof. apply HRv. Qed.
Hint Resolve ok_callprop ok_callval : okm.

Lemma ok_truthy_via_B n env env' v : okm n env (truthy_via_B R env' v).
Proof. unfold truthy_via_B. go. Qed.

Lemma ok_is_truthy n env env' v : okm n env (is_truthy R env' v).
Proof. unfold is_truthy. destruct v; try apply ok_truthy_via_B. apply okm_ret. Qed.

Lemma ok_set_all n env e l : e = env \/ n <= e -> okm n env (set_all e l).
Proof.
  intros He. induction l as [|[x v] t IH]; cbn [set_all]; [apply okm_ret|].
  apply okm_bind; [now apply okm_env_set|]. intros _. exact IH.
Qed.

Lemma ok_new_obj_literal n env ps : okm n env (new_obj_literal W ps).
Proof. unfold new_obj_literal. apply okm_alloc_obj. Qed.

Lemma ok_new_obj n env ps p : okm n env (new_obj W ps p).
Proof. unfold new_obj. go. Qed.

Lemma ok_bind_args n env e ps kw args kwargs : e = env \/ n <= e ->
  okm n env (bind_args W e ps kw args kwargs).
Proof.
  intros He. unfold bind_args.
  apply okm_bind; [now apply ok_set_all|]. intros _.
  apply okm_bind; [now apply ok_set_all|]. intros _.
  apply okm_bind; [now apply okm_env_set|]. intros _.
  apply okm_bind. { destruct (pad_args W args (length ps)); [apply okm_ret|now apply okm_env_set]. } intros _.
  apply okm_bind; [now apply ok_set_all|]. intros _.
  apply okm_bind; [now apply ok_set_all|]. intros _.
  apply okm_bind; [apply ok_new_obj_literal|]. intros ko. now apply okm_env_set.
Qed.

Lemma ok_call_clo n env fid args kw : okm n env (call_clo W R fid args kw).
Proof.
  unfold call_clo. apply okm_bind; [apply okm_get_clo|]. intros c.
  apply okm_copy_frame_bind. intros e He.
  apply okm_bind; [apply ok_bind_args; now right|]. intros _.
  intros st r st' Hn H. eapply ext_weaken_fresh; [exact He|]. eapply HRb; eauto.
Qed.

Lemma ok_eval_prop n env nm recv : okm n env (eval_prop W nm recv).
Proof. unfold eval_prop. go. Qed.

Lemma ok_eval_call n env env' recv p args kw : okm n env (eval_call R env' recv p args kw).
Proof. unfold eval_call. go. Qed.

Lemma ok_prop_base n env env' nm kw recv args : okm n env (prop_base W R env' nm kw recv args).
Proof.
  unfold prop_base. apply okm_bind; [apply ok_eval_prop|]. intros [p mis]. apply ok_eval_call.
Qed.

Lemma ok_iter_of n env env' v : okm n env (iter_of W R env' v).
Proof. unfold iter_of. go. Qed.

Lemma ok_iter_next n env env' it : okm n env (iter_next R env' it).
Proof.
  intros st r st' Hn H. unfold iter_next in H.
  destruct (callprop R env' it "next" [] [] st) as [[v|k m| |w] s1] eqn:E.
  - inversion H; subst. eapply HRp; eauto.
  - destruct (String.eqb k "StopIterErr"); inversion H; subst; eapply HRp; eauto.
  - inversion H; subst. eapply HRp; eauto.
  - inversion H; subst. eapply HRp; eauto.
Qed.

Lemma ok_real_next n env env' it u : okm n env (real_next R env' it u).
Proof. unfold real_next. apply okm_bind; [apply ok_iter_next|]. intros o. apply okm_ret. Qed.

Lemma ok_finish_list n env env' ca kw els : okm n env (finish_list W R env' ca kw els).
Proof.
  unfold finish_list. destruct (is_builtin_nil W ca); [apply okm_ret|].
  apply okm_bind; [apply ok_eval_prop|]. intros [d m]. apply HRv.
Qed.

Lemma ok_list_loop {S} n env k : forall (nxt : S -> M (option (val * S))) s keep h acc,
  (forall s0, okm n env (nxt s0)) -> (forall x, okm n env (h x)) ->
  okm n env (list_loop k nxt s keep h acc).
Proof.
  induction k as [|k IH]; intros nxt s keep h acc Hn Hh; cbn [list_loop]; [apply okm_nofuel|].
  apply okm_bind; [apply Hn|]. intros [[x s']|]; [|apply okm_ret].
  apply okm_bind; [apply Hh|]. intros e. destruct (negb keep && is_nil_type e); apply IH; assumption.
Qed.

Lemma ok_reduce_loop {S} n env k : forall (nxt : S -> M (option (val * S))) s h acc,
  (forall s0, okm n env (nxt s0)) -> (forall a x, okm n env (h a x)) ->
  okm n env (reduce_loop k nxt s h acc).
Proof.
  induction k as [|k IH]; intros nxt s h acc Hn Hh; cbn [reduce_loop]; [apply okm_nofuel|].
  apply okm_bind; [apply Hn|]. intros [[x s']|]; [|apply okm_ret].
  apply okm_bind; [apply Hh|]. intros a. apply IH; assumption.
Qed.

Lemma ok_thoughtful_reduce_loop {S} n env k : forall (nxt : S -> M (option (val * S))) s h acc,
  (forall s0, okm n env (nxt s0)) -> (forall a x, okm n env (h a x)) ->
  okm n env (thoughtful_reduce_loop k nxt s h acc).
Proof.
  induction k as [|k IH]; intros nxt s h acc Hn Hh; cbn [thoughtful_reduce_loop]; [apply okm_nofuel|].
  apply okm_bind; [apply Hn|]. intros [[x s']|]; [|apply okm_ret].
  apply okm_bind; [apply okm_catch, Hh|]. intros [a|km]; [destruct (is_nil_type a)|]; apply IH; assumption.
Qed.

Lemma ok_additional n env add base recv : (forall r, okm n env (base r)) -> okm n env (additional add base recv).
Proof.
  intros Hb. destruct add; cbn [additional]; try apply Hb.
  - unfold lonely. destruct (is_nil_type recv); [apply okm_ret|apply Hb].
  - unfold thoughtful. apply okm_bind; [apply okm_catch, Hb|]. intros [v|km]; [destruct (is_nil_type v)|]; apply okm_ret.
Qed.

Lemma ok_prop_chain n env env' add main ca recv nm args kw :
  okm n env (prop_chain W R fuel env' add main ca recv nm args kw).
Proof.
  unfold prop_chain. destruct main.
  - apply ok_additional. intros r. apply ok_prop_base.
  - apply okm_bind; [apply ok_iter_of|]. intros it.
    apply okm_bind; [|intros els; apply ok_finish_list].
    apply ok_list_loop; [intros; apply ok_real_next|]. intros x. apply ok_additional. intros r. apply ok_prop_base.
  - apply okm_bind; [apply ok_iter_of|]. intros it.
    apply ok_reduce_loop; [intros; apply ok_real_next|]. intros a x. apply ok_additional. intros r. apply ok_prop_base.
Qed.

Lemma ok_literal_args n env recv c : okm n env (literal_args W recv c).
Proof. unfold literal_args. go. Qed.

Lemma ok_lit_base n env env' f recv : okm n env (lit_base W R env' f recv).
Proof.
  unfold lit_base. apply okm_bind; [apply okm_get_st|]. intros st.
  destruct (find_prop W st recv "_literalProxy").
  - destruct (as_func W st f); [apply ok_eval_call|apply okm_raise].
  - destruct (as_func W st f).
    + apply okm_bind; [apply okm_get_clo|]. intros c. apply okm_bind; [apply ok_literal_args|]. intros a. apply ok_call_clo.
    + destruct (as_builtin W st f); [apply HRv|].
      destruct (find_prop W st f "call"); [|apply okm_raise].
      destruct (as_func W st v); [|apply okm_raise].
      apply okm_bind; [apply okm_get_clo|]. intros c. apply okm_bind; [apply ok_literal_args|]. intros a. apply ok_call_clo.
Qed.

Lemma ok_lit_chain n env env' add main ca recv f : okm n env (lit_chain W R fuel env' add main ca recv f).
Proof.
  unfold lit_chain. destruct main.
  - apply ok_additional. intros r. apply ok_lit_base.
  - apply okm_bind; [apply ok_iter_of|]. intros it.
    apply okm_bind; [|intros els; apply ok_finish_list].
    apply ok_list_loop; [intros; apply ok_real_next|]. intros x. apply ok_additional. intros r. apply ok_lit_base.
  - apply okm_bind; [apply ok_iter_of|]. intros it. destruct add.
    + apply ok_reduce_loop; [intros; apply ok_real_next|]. intros a x. apply ok_additional. intros r. apply ok_lit_base.
    + apply ok_reduce_loop; [intros; apply ok_real_next|]. intros a x. apply ok_additional. intros r. apply ok_lit_base.
    + apply ok_thoughtful_reduce_loop; [intros; apply ok_real_next|]. intros a x. apply ok_lit_base.
    + apply ok_reduce_loop; [intros; apply ok_real_next|]. intros a x. apply ok_additional. intros r. apply ok_lit_base.
Qed.


(* ---- built-in helpers ------------------------------------------------------------------ *)
Lemma ok_int_binop n env nm z args : okm n env (int_binop W nm z args).
Proof. unfold int_binop, tyerr. go. Qed.
Lemma ok_inherit_int n env s z : okm n env (inherit_int W s z).
Proof. unfold inherit_int. go. Qed.
Lemma ok_str_binop n env nm args : okm n env (str_binop W nm args).
Proof. unfold str_binop, tyerr. go. Qed.

Lemma ok_all_eq n env env' l1 : forall l2, okm n env (all_eq R env' l1 l2).
Proof.
  induction l1 as [|a t IH]; intros [|b u]; cbn [all_eq]; try apply okm_ret.
  apply okm_bind; [apply okm_catch, HRp|]. intros [v|km]; [destruct (is_false v); [apply okm_ret|]|]; apply IH.
Qed.

Lemma ok_pairs_eq n env env' p1 p2 : okm n env (pairs_eq R env' p1 p2).
Proof.
  induction p1 as [|[k v] t IH]; cbn [pairs_eq]; [apply okm_ret|].
  destruct (assoc k p2); [|apply okm_ret].
  apply okm_bind; [apply okm_catch, HRp|]. intros [b|km]; [destruct (is_false b); [apply okm_ret|]|]; apply IH.
Qed.

Lemma ok_scalar_pairs_eq n env env' p1 p2 : okm n env (scalar_pairs_eq R env' p1 p2).
Proof.
  induction p1 as [|[k v] t IH]; cbn [scalar_pairs_eq]; [apply okm_ret|].
  destruct (scalar_lookup k p2); [|apply okm_ret].
  apply okm_bind; [apply okm_catch, HRp|]. intros [b|km]; [destruct (is_false b); [apply okm_ret|]|]; apply IH.
Qed.

Lemma ok_ns_lookup n env env' k l : okm n env (ns_lookup R env' k l).
Proof.
  induction l as [|[k' v] t IH]; cbn [ns_lookup]; [apply okm_ret|].
  apply okm_bind; [apply okm_catch, HRp|]. intros [b|km]; [destruct (is_true b); [apply okm_ret|]|]; apply IH.
Qed.

Lemma ok_ns_pairs_eq n env env' p1 p2 : okm n env (ns_pairs_eq R env' p1 p2).
Proof.
  induction p1 as [|[k v] t IH]; cbn [ns_pairs_eq]; [apply okm_ret|].
  apply okm_bind; [apply ok_ns_lookup|]. intros [v2|]; [|apply okm_ret].
  apply okm_bind; [apply okm_catch, HRp|]. intros [b|km]; [destruct (is_false b); [apply okm_ret|]|]; apply IH.
Qed.

Lemma ok_base_at n env args : okm n env (base_at W args).
Proof. unfold base_at, tyerr. go. Qed.
Lemma ok_own_pairs n env v : okm n env (own_pairs W v).
Proof. unfold own_pairs. go. Qed.
Lemma ok_obj_listing n env self kw f : okm n env (obj_listing W self kw f).
Proof. unfold obj_listing. apply okm_bind; [apply ok_own_pairs|]. intros [ps|]; apply okm_ret. Qed.
Lemma ok_either_field n env self f w : okm n env (either_field W self f w).
Proof. unfold either_field, tyerr. apply okm_bind; [apply ok_own_pairs|]. go. Qed.
Lemma ok_bear_with n env p args who z : okm n env (bear_with p args who z).
Proof. unfold bear_with, tyerr. go. Qed.

Lemma ok_arr_has_loop n env env' x l : okm n env (arr_has_loop R env' x l).
Proof.
  induction l as [|e t IH]; cbn [arr_has_loop]; [apply okm_ret|].
  apply okm_bind; [apply okm_catch, HRp|]. intros [v|km]; [destruct (is_true v); [apply okm_ret|]|]; apply IH.
Qed.
Lemma ok_arr_O_loop n env st0 l : forall acc, okm n env (arr_O_loop W st0 l acc).
Proof. induction l as [|e t IH]; intros acc; cbn [arr_O_loop]; [apply okm_ret|]. go; apply IH. Qed.
Lemma ok_arr_M_loop n env st0 l : forall sc ns, okm n env (arr_M_loop W st0 l sc ns).
Proof. induction l as [|e t IH]; intros sc ns; cbn [arr_M_loop]; [apply okm_ret|]. go; apply IH. Qed.
Lemma ok_map_at_loop n env env' k l : okm n env (map_at_loop W R env' k l).
Proof.
  induction l as [|[k' v] t IH]; cbn [map_at_loop]; [apply okm_ret|].
  apply okm_bind; [apply HRp|]. intros r. destruct (is_true r); [apply okm_ret|apply IH].
Qed.

Ltac helper :=
  first [ apply ok_callprop | apply ok_callval | apply ok_truthy_via_B | apply ok_is_truthy
        | apply ok_new_obj_literal | apply ok_new_obj | apply ok_call_clo | apply ok_eval_prop
        | apply ok_eval_call | apply ok_prop_base | apply ok_iter_of | apply ok_finish_list
        | apply ok_prop_chain | apply ok_lit_chain | apply ok_lit_base | apply ok_literal_args
        | apply ok_int_binop | apply ok_inherit_int | apply ok_str_binop | apply ok_all_eq
        | apply ok_pairs_eq | apply ok_scalar_pairs_eq | apply ok_ns_lookup | apply ok_ns_pairs_eq
        | apply ok_base_at | apply ok_own_pairs | apply ok_obj_listing | apply ok_either_field
        | apply ok_bear_with | apply ok_arr_has_loop | apply ok_arr_O_loop | apply ok_arr_M_loop
        | apply ok_map_at_loop | apply HRp | apply HRv | apply HRe | apply HRb ].

Ltac go2 :=
  repeat (intros; match goal with
  | |- okm _ _ (bind (alloc_frame _ _) _) => apply okm_alloc_frame_bind
  | |- okm _ _ (bind (copy_frame _) _) => apply okm_copy_frame_bind
  | |- okm _ _ (bind _ _) => apply okm_bind
  | |- okm _ _ (catch _) => apply okm_catch
  | |- okm _ _ (mapM _ _) => apply okm_mapM
  | |- okm _ _ _ => first [okm_leaf | helper]
  | |- okm _ _ (match ?x with _ => _ end) => destruct x
  | |- okm _ _ (if ?x then _ else _) => destruct x
  | |- okm _ _ (let (_, _) := ?x in _) => destruct x
  end).

(* Iter#next on an iterator literal: writes `recur` into, and runs the body in, the
   iterator's own frame — a closure frame *)
Lemma ok_iter_next_func n env fid :
  okm n env (c <- get_clo fid ;; _ <- env_set (cenv c) "recur" (VBuiltin (B_Recur fid)) ;; r_body R (cbody c) (cenv c)).
Proof.
  intros st r st' Hn H. unfold bind at 1 in H. unfold get_clo in H.
  destruct (nth_error (funcs st) fid) as [c|] eqn:E; [|inversion H; subst; apply ext_refl].
  assert (clof st (cenv c)) as Hc by (exists fid, c; auto).
  unfold bind in H.
  destruct (env_set (cenv c) "recur" (VBuiltin (B_Recur fid)) st) as [[u|k m| |w] s1] eqn:E1;
    destruct (ext_env_set_clof n env _ _ _ _ _ _ Hc E1) as [X F]; try (inversion H; subst; exact X).
  eapply ext_trans; [exact X|].
  eapply ext_weaken_clof with (e := cenv c).
  - destruct Hc as (f0 & c0 & H0 & E0). exists f0, c0. now rewrite F.
  - eapply HRb; [|exact H]. destruct X. lia.
Qed.

Lemma ok_fresh_iter n env k ps kw body code rest kwargs o :
  okm n env (e <- alloc_frame [] o ;; _ <- bind_args W e ps kw rest kwargs ;; alloc_clo (mkclo k ps kw body code e)).
Proof.
  apply okm_alloc_frame_bind. intros e He.
  apply okm_bind; [apply ok_bind_args; now right|]. intros _. apply okm_alloc_clo. exact He.
Qed.

Lemma ok_call_builtin n env env' b args kw : okm n env (call_builtin W R env' b args kw).
Proof.
  destruct b; cbn [call_builtin]; unfold tyerr; try solve [go2].
  - (* Iter#new *)
    destruct args as [|self rest]; [apply okm_raise|].
    apply okm_bind; [apply okm_get_st|]. intros st.
    destruct (as_biter W st self); [apply okm_raise|].
    destruct (as_func W st self); [|apply okm_raise].
    apply okm_bind; [apply okm_get_clo|]. intros c.
    apply okm_bind; [apply okm_frame_outer|]. intros o. apply ok_fresh_iter.
  - (* Iter#next *)
    destruct args as [|[] rest]; try solve [go2].
    apply ok_iter_next_func.
  - (* Iter#_iter *)
    apply okm_bind; [apply okm_need|]. intros self.
    apply okm_bind; [apply okm_get_st|]. intros st.
    destruct (as_func W st self).
    + apply okm_bind; [apply okm_get_clo|]. intros c. destruct (ckind c); [go2|].
      apply okm_copy_frame_bind. intros e He. apply okm_alloc_clo. exact He.
    + go2.
  - (* recur *)
    apply okm_bind; [apply okm_get_clo|]. intros c.
    apply okm_bind; [apply okm_frame_outer|]. intros o.
    apply okm_alloc_frame_bind. intros e He.
    apply okm_bind; [apply ok_bind_args; now right|]. intros _.
    apply okm_bind; [now apply okm_set_clo_env|]. intros _. apply okm_ret.
Qed.

Lemma ok_raise_if_err n env m : okm n env m -> okm n env (raise_if_err m).
Proof.
  intros H. unfold raise_if_err. apply okm_bind; [exact H|]. intros v. destruct v; try apply okm_ret; apply okm_raise.
Qed.

Lemma ok_call_value n env env' f args kw : okm n env (call_value W R env' f args kw).
Proof.
  unfold call_value, tyerr. destruct f; try apply ok_call_clo; try (apply ok_raise_if_err; apply ok_call_builtin); go2.
Qed.

Lemma ok_call_prop n env env' obj nm args kw : okm n env (call_prop W R env' obj nm args kw).
Proof.
  unfold call_prop. apply okm_bind; [apply okm_get_st|]. intros st.
  destruct (find_prop W st obj nm) as [[]|]; try apply okm_ret; try apply ok_call_clo;
    try (apply ok_raise_if_err; apply ok_call_builtin).
Qed.

(* ---- expressions (same env: the sub-expressions run in the current frame) ----------------- *)
Lemma ok_ev n env e : okm n env (ev R e env).
Proof. apply HRe. Qed.

Lemma ok_eval_opt n env o : okm n env (eval_opt W R o env).
Proof. destruct o; cbn [eval_opt]; [apply HRe|apply okm_ret]. Qed.

Ltac go3 :=
  repeat (intros; match goal with
  | |- okm _ _ (bind (alloc_frame _ _) _) => apply okm_alloc_frame_bind
  | |- okm _ _ (bind (copy_frame _) _) => apply okm_copy_frame_bind
  | |- okm _ _ (bind _ _) => apply okm_bind
  | |- okm _ _ (catch _) => apply okm_catch
  | |- okm _ _ (ev _ _ _) => apply HRe
  | |- okm _ _ _ => first [okm_leaf | helper | apply ok_eval_opt]
  | |- okm _ _ (match ?x with _ => _ end) => destruct x
  | |- okm _ _ (if ?x then _ else _) => destruct x
  | |- okm _ _ (let (_, _) := ?x in _) => destruct x
  end).

Lemma ok_eval_args n env es : okm n env (eval_args W R es env).
Proof.
  induction es as [|e t IH]; [apply okm_ret|]. cbn [eval_args]. unfold tyerr. go3.
Qed.

Lemma ok_eval_kwargs n env ks : forall acc, okm n env (eval_kwargs R ks env acc).
Proof.
  induction ks as [|[k e] t IH]; intros acc; cbn [eval_kwargs]; [apply okm_ret|].
  apply okm_bind; [apply HRe|]. intros v. apply IH.
Qed.

Lemma ok_eval_recv n env r : okm n env (eval_recv R r env).
Proof. unfold eval_recv. go3. Qed.

Lemma ok_eval_callable n env k fc : okm n env (eval_callable R k fc env).
Proof.
  destruct fc. cbn [eval_callable]. apply okm_bind; [apply ok_eval_kwargs|]. intros kw.
  apply okm_alloc_frame_bind. intros e He. apply okm_alloc_clo. exact He.
Qed.

Lemma ok_eval_obj_pairs n env ps : forall acc, okm n env (eval_obj_pairs W R ps env acc).
Proof.
  induction ps as [|[k e] t IH]; intros acc; cbn [eval_obj_pairs]; [apply okm_ret|]. unfold tyerr.
  apply okm_bind; [apply HRe|]. intros v.
  apply okm_bind. { destruct k; go3. } intros kv.
  apply okm_bind; [apply okm_get_st|]. intros st. destruct (as_str W st kv) as [[p s]|]; [apply IH|go3].
Qed.

Lemma ok_eval_obj_emb n env es : forall acc, okm n env (eval_obj_emb R es env acc).
Proof.
  induction es as [|e t IH]; intros acc; cbn [eval_obj_emb]; [apply okm_ret|]. unfold tyerr.
  apply okm_bind; [apply HRe|]. intros v. destruct v; try solve [go3].
  apply okm_bind; [apply okm_get_st|]. intros st. destruct (get_obj st id); [apply IH|apply okm_unsup].
Qed.

Lemma ok_add_map_pair n env env' k v sc ns : okm n env (add_map_pair R env' k v sc ns).
Proof. unfold add_map_pair. go3. Qed.

Lemma ok_eval_map_pairs n env ps : forall sc ns, okm n env (eval_map_pairs R ps env sc ns).
Proof.
  induction ps as [|[k e] t IH]; intros sc ns; cbn [eval_map_pairs]; [apply okm_ret|].
  apply okm_bind; [apply HRe|]. intros v.
  apply okm_bind. { destruct k; apply HRe. } intros kv.
  apply okm_bind; [apply ok_add_map_pair|]. intros [sc' ns']. apply IH.
Qed.

Lemma ok_add_map_pairs n env env' l : forall sc ns, okm n env (add_map_pairs R env' l sc ns).
Proof.
  induction l as [|[k v] t IH]; intros sc ns; cbn [add_map_pairs]; [apply okm_ret|].
  apply okm_bind; [apply ok_add_map_pair|]. intros [sc' ns']. apply IH.
Qed.

Lemma ok_eval_map_emb n env es : forall sc ns, okm n env (eval_map_emb W R es env sc ns).
Proof.
  induction es as [|e t IH]; intros sc ns; cbn [eval_map_emb]; [apply okm_ret|]. unfold tyerr.
  apply okm_bind; [apply HRe|]. intros v. destruct v; try solve [go3].
  - apply okm_bind; [apply ok_add_map_pairs|]. intros [sc' ns']. apply IH.
  - apply okm_bind; [apply okm_get_st|]. intros st. destruct (get_obj st id); [|apply okm_unsup].
    apply okm_bind; [apply ok_add_map_pairs|]. intros [sc' ns']. apply IH.
Qed.

Lemma ok_eval_embstr n env ps : okm n env (eval_embstr W R ps env).
Proof.
  induction ps as [|[s e] t IH]; cbn [eval_embstr]; [apply okm_ret|].
  apply okm_bind; [apply HRe|]. intros v. apply okm_bind; [apply HRp|]. intros sv.
  apply okm_bind; [apply okm_get_st|]. intros st. destruct (as_str W st sv) as [[p x]|]; [|apply okm_raise].
  apply okm_bind; [exact IH|]. intros rest. apply okm_ret.
Qed.

Lemma ok_eval_arr_elems n env es : okm n env (eval_arr_elems W R es env).
Proof.
  induction es as [|e t IH]; [apply okm_ret|]. cbn [eval_arr_elems]. unfold tyerr. go3.
Qed.

Ltac go4 :=
  repeat (intros; match goal with
  | |- okm _ _ (bind (alloc_frame _ _) _) => apply okm_alloc_frame_bind
  | |- okm _ _ (bind (copy_frame _) _) => apply okm_copy_frame_bind
  | |- okm _ _ (bind _ _) => apply okm_bind
  | |- okm _ _ (catch _) => apply okm_catch
  | |- okm _ _ (ev _ _ _) => apply HRe
  | |- okm _ _ _ => first [okm_leaf | helper | apply ok_eval_opt | apply ok_eval_arr_elems
                          | apply ok_eval_obj_pairs | apply ok_eval_obj_emb | apply ok_eval_map_pairs
                          | apply ok_eval_map_emb | apply ok_eval_callable | apply ok_eval_embstr
                          | apply ok_eval_recv | apply ok_eval_args | apply ok_eval_kwargs
                          | (apply okm_env_set; now left) ]
  | |- okm _ _ (match ?x with _ => _ end) => destruct x
  | |- okm _ _ (if ?x then _ else _) => destruct x
  | |- okm _ _ (let (_, _) := ?x in _) => destruct x
  end).

Lemma ok_eval_expr n env e : okm n env (eval_expr W R fuel e env).
Proof. destruct e; cbn [eval_expr]; go4. Qed.

(* ---- statements ------------------------------------------------------------------------------ *)
Lemma ok_eval_jump n env j e : okm n env (eval_jump R j e env).
Proof. destruct j; cbn [eval_jump]; go3. Qed.

Lemma ok_eval_stmt n env s : okm n env (eval_stmt W R s env).
Proof.
  destruct s; cbn [eval_stmt].
  - go3.
  - apply ok_eval_jump.
  - apply okm_bind; [apply HRe|]. intros cv. apply okm_bind; [apply ok_is_truthy|]. intros b.
    destruct b; [apply ok_eval_jump|]. destruct j; try apply okm_ret. apply okm_raise.
Qed.

Lemma ok_run_stmts n env ss : forall last y ds st r ds' st',
  n <= length (frames st) -> run_stmts W R ss env last y ds st = ((r, ds'), st') -> ext n env st st'.
Proof.
  induction ss as [|s t IH]; intros last y ds st r ds' st' Hn H; cbn [run_stmts] in H.
  - inversion H; subst. apply ext_refl.
  - destruct (eval_stmt W R s env st) as [[[v|v|v|e]|k m| |w] s1] eqn:E;
      pose proof (ok_eval_stmt n env s _ _ _ Hn E) as X;
      try (inversion H; subst; exact X);
      (eapply ext_trans; [exact X|]; eapply IH; [|exact H]; destruct X; lia).
Qed.

Lemma ok_run_defers n env ds : okm n env (run_defers R ds env).
Proof. induction ds as [|d t IH]; cbn [run_defers]; [apply okm_ret|]. apply okm_bind; [apply HRe|]. intros _. exact IH. Qed.

Lemma ok_eval_body n env ss : okm n env (eval_body W R ss env).
Proof.
  intros st r st' Hn H. unfold eval_body in H.
  destruct (run_stmts W R ss env (vNil W) None [] st) as [[r0 ds] s1] eqn:E.
  pose proof (ok_run_stmts n env ss _ _ _ _ _ _ _ Hn E) as X.
  assert (n <= length (frames s1)) as Hn1 by (destruct X; lia).
  destruct r0 as [v|k m| |w].
  - destruct (run_defers R ds env s1) as [[u|k2 m2| |w2] s2] eqn:D;
      pose proof (ok_run_defers n env ds _ _ _ Hn1 D) as Y; inversion H; subst; eapply ext_trans; eauto.
  - destruct (run_defers R ds env s1) as [[u|k2 m2| |w2] s2] eqn:D;
      pose proof (ok_run_defers n env ds _ _ _ Hn1 D) as Y; inversion H; subst; eapply ext_trans; eauto.
  - inversion H; subst. exact X.
  - inversion H; subst. exact X.
Qed.

Theorem okR_step : okR (level_step W R fuel).
Proof.
  unfold okR, level_step; cbn [r_expr r_body r_callprop r_callval].
  split; [|split; [|split]]; intros.
  - apply ok_eval_expr.
  - apply ok_eval_body.
  - apply ok_call_prop.
  - apply ok_call_value.
Qed.

End Step.

Theorem okR_level W n : okR (level W n).
Proof. induction n as [|n IH]; cbn [level]; [apply okR_bottom|]. now apply okR_step. Qed.

(* ---- the theorem, in plain terms ---------------------------------------------------------- *)
Theorem frame_locality W fuel e env st r st' :
  r_expr (level W fuel) e env st = (r, st') ->
  length (frames st) <= length (frames st') /\
  forall g, g < length (frames st) -> g <> env -> ~ clof st g ->
            nth_error (frames st') g = nth_error (frames st) g.
Proof.
  intros H. destruct (okR_level W fuel) as [He _].
  destruct (He (length (frames st)) env e st r st' (le_n _) H) as [L S _ _]. split; [exact L|exact S].
Qed.

Theorem frame_locality_body W fuel ss env st r st' :
  r_body (level W fuel) ss env st = (r, st') ->
  length (frames st) <= length (frames st') /\
  forall g, g < length (frames st) -> g <> env -> ~ clof st g ->
            nth_error (frames st') g = nth_error (frames st) g.
Proof.
  intros H. destruct (okR_level W fuel) as [_ [Hb _]].
  destruct (Hb (length (frames st)) env ss st r st' (le_n _) H) as [L S _ _]. split; [exact L|exact S].
Qed.

(* running a whole program in a fresh scope never changes any frame that existed before
   (in particular the global scope and the scopes of earlier programs), except closures' own frames *)
Theorem program_frame_locality W fuel prog outer st r st' :
  run_program W fuel prog outer st = (r, st') ->
  forall g, g < length (frames st) -> ~ clof st g ->
            nth_error (frames st') g = nth_error (frames st) g.
Proof.
  intros H g Hg Hc. unfold run_program in H.
  assert (okm (length (frames st)) (length (frames st)) (run_program W fuel prog outer)) as OK.
  { unfold run_program. apply okm_alloc_frame_bind. intros e He.
    intros s r0 s' Hn H0. eapply ext_weaken_fresh; [exact He|].
    destruct (okR_level W fuel) as [_ [Hb _]]. eapply Hb; eauto. }
  destruct (OK st r st' (le_n _) H) as [_ S _ _]. apply S; auto. lia.
Qed.

(* ... and never changes an object that existed before: the heap is append-only, so the
   built-in objects keep exactly their properties, prototype link and zero value *)
Theorem program_heap_append_only W fuel prog outer st r st' :
  run_program W fuel prog outer st = (r, st') ->
  forall id o, nth_error (heap st) id = Some o -> nth_error (heap st') id = Some o.
Proof.
  intros H.
  assert (okm (length (frames st)) (length (frames st)) (run_program W fuel prog outer)) as OK.
  { unfold run_program. apply okm_alloc_frame_bind. intros e He.
    intros s r0 s' Hn H0. eapply ext_weaken_fresh; [exact He|].
    destruct (okR_level W fuel) as [_ [Hb _]]. eapply Hb; eauto. }
  destruct (OK st r st' (le_n _) H) as [_ _ _ Hh]. exact Hh.
Qed.
