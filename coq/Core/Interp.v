(* PanCore: a fuel-indexed definitional interpreter that follows
   /repo/evaluator/*.go and the Go built-ins of /repo/props/*.go function by
   function (DESIGN.md Appendix D). Written in open-recursion style: level (S n)
   is defined from the four entry points of level n, so each law is proved as
   "preserved by one level". Out-of-fuel and unsupported constructs are distinct
   outcomes; cases that hit them are discarded by the correspondence. *)
From Coq Require Import ZArith String Ascii List Bool Arith.
From PanVerif Require Import Base.Int64 Core.Syntax Core.Values.
Import ListNotations.
Local Open Scope string_scope.

Section Interp.
Variable W : wk.

Notation vInt := (vInt W). Notation vStr := (vStr W). Notation vNil := (vNil W).
Notation vArr := (vArr W).

Definition kwargs_t := list (string * val).

Record recs := {
  r_expr : expr -> nat -> M val;                                    (* Eval *)
  r_body : list stmt -> nat -> M val;                               (* evalStmts *)
  r_callprop : nat -> val -> string -> list val -> kwargs_t -> M val;  (* builtInCallProp *)
  r_callval : nat -> val -> list val -> kwargs_t -> M val             (* evalFuncCall *)
}.

(* ---- state primitives ---------------------------------------------------- *)
Definition alloc_frame (store : list (string * val)) (outer : option nat) : M nat :=
  fun st => let id := length (frames st) in
    (Ok id, {| heap := heap st; frames := (frames st ++ [{| fstore := store; fouter := outer |}])%list;
               funcs := funcs st; biters := biters st; out := out st; inp := inp st |}).

Definition alloc_obj (o : objrec) : M val :=
  fun st => let id := length (heap st) in
    (Ok (VObj id), {| heap := (heap st ++ [o])%list; frames := frames st;
               funcs := funcs st; biters := biters st; out := out st; inp := inp st |}).

Definition alloc_clo (c : clo) : M val :=
  fun st => let id := length (funcs st) in
    (Ok (VFunc id), {| heap := heap st; frames := frames st;
               funcs := (funcs st ++ [c])%list; biters := biters st; out := out st; inp := inp st |}).

Definition alloc_biter (b : biter) : M val :=
  fun st => let id := length (biters st) in
    (Ok (VBIter id), {| heap := heap st; frames := frames st;
               funcs := funcs st; biters := (biters st ++ [b])%list; out := out st; inp := inp st |}).

Definition set_biter (id : nat) (b : biter) : M unit :=
  fun st => (Ok tt, {| heap := heap st; frames := frames st; funcs := funcs st;
               biters := upd_nth id b (biters st); out := out st; inp := inp st |}).

Definition set_clo_env (fid : nat) (e : nat) : M unit :=
  fun st => match nth_error (funcs st) fid with
            | Some c => (Ok tt, {| heap := heap st; frames := frames st;
                 funcs := upd_nth fid (mkclo (ckind c) (cparams c) (ckw c) (cbody c) (ccode c) e) (funcs st);
                 biters := biters st; out := out st; inp := inp st |})
            | None => (Ok tt, st)
            end.

Definition push_out (s : string) : M unit :=
  fun st => (Ok tt, {| heap := heap st; frames := frames st; funcs := funcs st;
               biters := biters st; out := s :: out st; inp := inp st |}).

Definition env_set (e : nat) (x : string) (v : val) : M unit :=
  fun st => match nth_error (frames st) e with
            | Some f => (Ok tt, {| heap := heap st;
                 frames := upd_nth e {| fstore := set_assoc x v (fstore f); fouter := fouter f |} (frames st);
                 funcs := funcs st; biters := biters st; out := out st; inp := inp st |})
            | None => (Ok tt, st)
            end.

Fixpoint env_get_fuel (fuel : nat) (st : state) (e : nat) (x : string) : option val :=
  match fuel with
  | O => None
  | S f => match nth_error (frames st) e with
           | None => None
           | Some fr => match assoc x (fstore fr) with
                        | Some v => Some v
                        | None => match fouter fr with
                                  | Some o => env_get_fuel f st o x
                                  | None => None
                                  end
                        end
           end
  end.
Definition env_get (st : state) (e : nat) (x : string) : option val :=
  env_get_fuel (S (length (frames st))) st e x.

Definition get_clo (fid : nat) : M clo :=
  fun st => match nth_error (funcs st) fid with
            | Some c => (Ok c, st)
            | None => (Unsup "dangling closure id", st)
            end.

(* NewCopiedEnv: same store, same outer, new identity *)
Definition copy_frame (e : nat) : M nat :=
  fun st => match nth_error (frames st) e with
            | Some f => alloc_frame (fstore f) (fouter f) st
            | None => (Unsup "dangling frame id", st)
            end.
Definition frame_outer (e : nat) : M (option nat) :=
  fun st => match nth_error (frames st) e with
            | Some f => (Ok (fouter f), st)
            | None => (Unsup "dangling frame id", st)
            end.

(* ---- small helpers ---------------------------------------------------------- *)
Definition insp (v : val) : M string := fun st => (Ok (inspect_v st v), st).
Definition with_st {A} (f : state -> A) : M A := fun st => (Ok (f st), st).

Definition is_nil_type (v : val) : bool := match v with VNil _ => true | _ => false end.
Definition is_builtin_nil (v : val) : bool :=
  match v with VNil p => is_wk W p "Nil" | _ => false end.
Definition is_true (v : val) : bool := match v with VBool true => true | _ => false end.
Definition is_false (v : val) : bool := match v with VBool false => true | _ => false end.

Definition new_obj_literal (pairs : list (string * val)) : M val :=
  alloc_obj {| oproto := Some (wkv W "Obj"); ozero := Some (wkv W "%zeroObj"); opairs := pairs |}.
(* NewPanObj(pairs, proto): zero inherited from proto *)
Definition new_obj (pairs : list (string * val)) (proto : val) : M val :=
  z <- with_st (fun st => zero_of W st proto) ;;
  alloc_obj {| oproto := Some proto; ozero := Some z; opairs := pairs |}.

(* pointer identity of prototypes: objects by id, everything else structurally
   (approximation, only met for prototypes that are not objects) *)
Fixpoint val_same (a b : val) : bool :=
  match a, b with
  | VObj i, VObj j => Nat.eqb i j
  | VInt p z, VInt q y => Z.eqb z y && val_same p q
  | VStr p s, VStr q t => String.eqb s t && val_same p q
  | VBool x, VBool y => Bool.eqb x y
  | VNil p, VNil q => val_same p q
  | VFunc i, VFunc j => Nat.eqb i j
  | VBIter i, VBIter j => Nat.eqb i j
  | _, _ => false
  end.

(* scalar map keys: HashKey{Type, Value} *)
Definition is_scalar (v : val) : bool :=
  match v with VInt _ _ | VFloat _ _ | VStr _ _ | VBool _ | VNil _ => true | _ => false end.
Definition scalar_eqb (a b : val) : bool :=
  match a, b with
  | VInt _ x, VInt _ y => Z.eqb x y
  | VFloat x _, VFloat y _ => Z.eqb x y
  | VStr _ s, VStr _ t => String.eqb s t
  | VBool x, VBool y => Bool.eqb x y
  | VNil _, VNil _ => true
  | _, _ => false
  end.
Fixpoint scalar_lookup (k : val) (l : list (val * val)) : option val :=
  match l with
  | [] => None
  | (k', v) :: t => if scalar_eqb k k' then Some v else scalar_lookup k t
  end.
Definition scalar_add_first (k v : val) (l : list (val * val)) : list (val * val) :=
  match scalar_lookup k l with Some _ => l | None => l ++ [(k, v)] end.

(* UTF-8: split a string into code points (as strings) *)
Definition utf8_len (c : ascii) : nat :=
  let n := nat_of_ascii c in
  if (240 <=? n)%nat then 4 else if (224 <=? n)%nat then 3 else if (192 <=? n)%nat then 2 else 1.
Fixpoint take_str (n : nat) (s : string) : string * string :=
  match n, s with
  | O, _ => (EmptyString, s)
  | S k, String c t => let '(a, b) := take_str k t in (String c a, b)
  | S _, EmptyString => (EmptyString, EmptyString)
  end.
Fixpoint runes_fuel (fuel : nat) (s : string) : list string :=
  match fuel, s with
  | O, _ => []
  | _, EmptyString => []
  | S f, String c t => let '(r, rest) := take_str (utf8_len c) s in r :: runes_fuel f rest
  end.
Definition runes (s : string) : list string := runes_fuel (String.length s) s.

(* Str#_incBy: the last character moved by k code points. Modelled for ASCII results only (None otherwise). *)
Definition str_inc_last (s : string) (k : Z) : option string :=
  match String.length s with
  | O => None
  | S n =>
      match String.get n s with
      | Some c =>
          let b := Z.of_nat (nat_of_ascii c) in
          if ((b <? 128) && (0 <=? b + k) && (b + k <? 128))%Z
          then Some (String.substring 0 n s ++ String (ascii_of_nat (Z.to_nat (b + k))) EmptyString)%string
          else None
      | None => None
      end
  end.

Fixpoint repeat_str (n : nat) (s : string) : string :=
  match n with O => "" | S k => s ++ repeat_str k s end.

(* ---- indexing (repaired evaluator/index.go), ints only ---------------------- *)
Definition idx_list {A} (l : list A) (i : Z) : option A :=
  let n := Z.of_nat (length l) in
  if ((i >=? n) || (i <? - n))%Z then None
  else nth_error l (Z.to_nat (if (i <? 0)%Z then i + n else i)).

Definition fix_bound (n : Z) (lower upper : Z) (i : Z) : Z :=
  if (i <? 0)%Z then (if (i <? - n)%Z then lower else i + n)%Z
  else if (i >? upper)%Z then upper else i.

Fixpoint slice_loop {A} (fuel : nat) (l : list A) (i stop step : Z) : list A :=
  match fuel with
  | O => []
  | S f => if (if (step <? 0)%Z then (i >? stop)%Z else (i <? stop)%Z)
           then match idx_list l i with
                | Some x => x :: slice_loop f l (i + step)%Z stop step
                | None => slice_loop f l (i + step)%Z stop step
                end
           else []
  end.

(* bounds: None = nil. Returns None for a zero step. *)
Definition slice_list {A} (l : list A) (a b c : option Z) : option (list A) :=
  let n := Z.of_nat (length l) in
  let step0 := match c with Some s => s | None => 1%Z end in
  if (step0 =? 0)%Z then None else
  (* clip the step to +-(n+1): same elements, no overflow *)
  let step := if (step0 >? n + 1)%Z then (n + 1)%Z else if (step0 <? - (n + 1))%Z then (- (n + 1))%Z else step0 in
  let '(lower, upper) := if (step <? 0)%Z then ((-1)%Z, (n - 1)%Z) else (0%Z, n) in
  let start := match a with Some i => fix_bound n lower upper i
                          | None => if (step <? 0)%Z then (n - 1)%Z else 0%Z end in
  let stop := match b with Some i => fix_bound n lower upper i
                         | None => if (step <? 0)%Z then (-1)%Z else n end in
  Some (slice_loop (S (length l)) l start stop step).

(* ========================================================================= *)
(* One level of the interpreter, given the entry points R of the level below. *)
Section Level.
Variable R : recs.
Variable fuel : nat.    (* bounds the loops of this level (chain iteration) *)

Definition callprop := r_callprop R.
Definition callval := r_callval R.

(* isTruthy / canShortCut / Obj#!: B through callProp; errors are swallowed *)
Definition truthy_via_B (env : nat) (v : val) : M bool :=
  r <- catch (callprop env v "B" [] []) ;;
  ret (match r with inl b => is_true b | inr _ => false end).
Definition is_truthy (env : nat) (v : val) : M bool :=
  match v with VBool b => ret b | _ => truthy_via_B env v end.

(* assignArgsToEnv *)
Fixpoint pad_args (args : list val) (n : nat) : list val :=
  match n, args with
  | O, _ => args
  | S k, [] => vNil :: pad_args [] k
  | S k, a :: t => a :: pad_args t k
  end.
Fixpoint set_all (e : nat) (l : list (string * val)) : M unit :=
  match l with
  | [] => ret tt
  | (x, v) :: t => _ <- env_set e x v ;; set_all e t
  end.
Fixpoint argvars (i : nat) (args : list val) : list (string * val) :=
  match args with
  | [] => []
  | a :: t => ("\" ++ Z_to_string (Z.of_nat i), a) :: argvars (S i) t
  end.
Definition bind_args (e : nat) (params : list string) (kwparams : list (string * val))
           (args : list val) (kwargs : kwargs_t) : M unit :=
  let args := pad_args args (length params) in
  _ <- set_all e (combine params args) ;;
  _ <- set_all e (argvars 1 args) ;;
  _ <- env_set e "\0" (vArr args) ;;
  _ <- match args with a :: _ => env_set e "\" a | [] => ret tt end ;;
  _ <- set_all e (map (fun kd => (fst kd, match assoc (fst kd) kwargs with
                                          | Some v => v | None => snd kd end)) kwparams) ;;
  _ <- set_all e (map (fun kv => ("\" ++ fst kv, snd kv)) kwargs) ;;
  ko <- new_obj_literal kwargs ;;
  env_set e "\_" ko.

(* evalPanFuncCall *)
Definition call_clo (fid : nat) (args : list val) (kwargs : kwargs_t) : M val :=
  c <- get_clo fid ;;
  e <- copy_frame (cenv c) ;;
  _ <- bind_args e (cparams c) (ckw c) args kwargs ;;
  r_body R (cbody c) e.

(* evalProp: property, else _missing (isMissing), else NoPropErr *)
Definition eval_prop (name : string) (recv : val) : M (val * bool) :=
  st <- get_st ;;
  match find_prop W st recv name with
  | Some (VErrObj k m) => raise k m      (* an error object held as a property raises when read *)
  | Some p => ret (p, false)
  | None => match find_prop W st recv "_missing" with
            | Some m => ret (m, true)
            | None => raise "NoPropErr" ("property `" ++ name ++ "` is not defined.")
            end
  end.

(* evalCall *)
Definition eval_call (env : nat) (recv prop : val) (args : list val) (kwargs : kwargs_t) : M val :=
  match prop with
  | VBuiltin _ => callval env prop (recv :: args) kwargs
  | VFunc fid => c <- get_clo fid ;;
                 match ckind c with
                 | KFunc => callval env prop (recv :: args) kwargs
                 | KIter => ret prop
                 end
  | _ => ret prop
  end.

(* findProp middleware followed by the call handler *)
Definition prop_base (env : nat) (name : string) (kwargs : kwargs_t) (recv : val) (args : list val) : M val :=
  '(p, missing) <- eval_prop name recv ;;
  eval_call env recv p (if missing then vStr name :: args else args) kwargs.

(* ---- iteration protocol -------------------------------------------------------- *)
Definition iter_of (env : nat) (v : val) : M val :=
  it <- callprop env v "_iter" [] [] ;;
  if is_builtin_nil it then raise "TypeErr" "recv must have prop `_iter`" else ret it.
(* Next: Some elem | None on StopIterErr *)
Definition iter_next (env : nat) (it : val) : M (option val) :=
  fun st => match callprop env it "next" [] [] st with
            | (Ok v, st') => (Ok (Some v), st')
            | (Er k m, st') => if String.eqb k "StopIterErr" then (Ok None, st') else (Er k m, st')
            | (Fuel, st') => (Fuel, st')
            | (Unsup w, st') => (Unsup w, st')
            end.

(* digest the collected elements when a chain argument is given *)
Definition finish_list (env : nat) (chainArg : val) (kwargs : kwargs_t) (elems : list val) : M val :=
  if is_builtin_nil chainArg then ret (vArr elems)
  else '(d, _) <- eval_prop "digest" chainArg ;;
       callval env d [chainArg; vArr elems] kwargs.

(* The three loops. [h] is the per-element handler (the rest of the middleware stack);
   [nxt] advances the iterator. The loops are written over an explicit iterator state
   [S] so that their laws can be stated for any iterator; the interpreter instantiates
   them with [real_next] (S = unit: the position lives in the interpreter state). *)
Fixpoint list_loop {S : Type} (n : nat) (nxt : S -> M (option (val * S))) (s : S) (keep_nil : bool)
         (h : val -> M val) (acc : list val) : M (list val) :=
  match n with
  | O => nofuel
  | S k => o <- nxt s ;;
           match o with
           | None => ret (rev acc)
           | Some (x, s') => e <- h x ;;
                       if negb keep_nil && is_nil_type e then list_loop k nxt s' keep_nil h acc
                       else list_loop k nxt s' keep_nil h (e :: acc)
           end
  end.

Fixpoint reduce_loop {S : Type} (n : nat) (nxt : S -> M (option (val * S))) (s : S)
         (h : val -> val -> M val) (acc : val) : M val :=
  match n with
  | O => nofuel
  | S k => o <- nxt s ;;
           match o with
           | None => ret acc
           | Some (x, s') => a <- h acc x ;; reduce_loop k nxt s' h a
           end
  end.

(* literal-call `~$`: a nil or failed step keeps the accumulator *)
Fixpoint thoughtful_reduce_loop {S : Type} (n : nat) (nxt : S -> M (option (val * S))) (s : S)
         (h : val -> val -> M val) (acc : val) : M val :=
  match n with
  | O => nofuel
  | S k => o <- nxt s ;;
           match o with
           | None => ret acc
           | Some (x, s') => r <- catch (h acc x) ;;
                       match r with
                       | inl a => if is_nil_type a then thoughtful_reduce_loop k nxt s' h acc
                                  else thoughtful_reduce_loop k nxt s' h a
                       | inr _ => thoughtful_reduce_loop k nxt s' h acc
                       end
           end
  end.

(* the interpreter's iterator: `next` through property lookup *)
Definition real_next (env : nat) (it : val) (_ : unit) : M (option (val * unit)) :=
  o <- iter_next env it ;; ret (option_map (fun x => (x, tt)) o).

Definition lonely (base : val -> M val) (recv : val) : M val :=
  if is_nil_type recv then ret recv else base recv.
Definition thoughtful (base : val -> M val) (recv : val) : M val :=
  r <- catch (base recv) ;;
  match r with
  | inl v => if is_nil_type v then ret recv else ret v
  | inr _ => ret recv
  end.
Definition additional (add : addchain) (base : val -> M val) : val -> M val :=
  match add with
  | Lonely => lonely base
  | Thoughtful => thoughtful base
  | Strict | Vanilla => base
  end.

(* newChainMiddleware applied to the property-call handler *)
Definition prop_chain (env : nat) (add : addchain) (main : mainchain) (chainArg recv : val)
           (name : string) (args : list val) (kwargs : kwargs_t) : M val :=
  let base := fun a r => prop_base env name kwargs r a in
  match main with
  | Scalar => additional add (base args) recv
  | ListC =>
      it <- iter_of env recv ;;
      let keep := match add with Strict | Thoughtful => true | _ => false end in
      els <- list_loop fuel (real_next env it) tt keep (additional add (base args)) [] ;;
      finish_list env chainArg kwargs els
  | Reduce =>
      it <- iter_of env recv ;;
      reduce_loop fuel (real_next env it) tt (fun acc x => additional add (base (x :: args)) acc) chainArg
  end.

(* literalCallArgs *)
Definition literal_args (recv : val) (c : clo) : M (list val) :=
  if (1 <? length (cparams c))%nat
  then st <- get_st ;;
       match as_arr W st recv with
       | Some (_, l) => ret l
       | None => ret [recv]
       end
  else ret [recv].

(* literalProxy middleware followed by literalCallHandler *)
Definition lit_base (env : nat) (f : val) (recv : val) : M val :=
  st <- get_st ;;
  match find_prop W st recv "_literalProxy" with
  | Some proxy =>
      match as_func W st f with
      | None => raise "TypeErr" "literal call must be func"
      | Some fid => eval_call env recv proxy [VFunc fid] []
      end
  | None =>
      match as_func W st f with
      | Some fid => c <- get_clo fid ;; a <- literal_args recv c ;; call_clo fid a []
      | None =>
        match as_builtin W st f with
        | Some b => callval env (VBuiltin b) [recv] []
        | None =>
          match find_prop W st f "call" with
          | Some cl => match as_func W st cl with
                       | Some cid => c <- get_clo cid ;; a <- literal_args recv c ;; call_clo cid (f :: a) []
                       | None => raise "TypeErr" "prop 'call in varcall must be func"
                       end
          | None => raise "TypeErr" "literal call must be func"
          end
        end
      end
  end.

(* newLiteralCallChainMiddleware applied to the literal-call handler *)
Definition lit_chain (env : nat) (add : addchain) (main : mainchain) (chainArg recv f : val) : M val :=
  let base := lit_base env f in
  match main with
  | Scalar => additional add base recv
  | ListC =>
      it <- iter_of env recv ;;
      let keep := match add with Strict | Thoughtful => true | _ => false end in
      els <- list_loop fuel (real_next env it) tt keep (additional add base) [] ;;
      finish_list env chainArg [] els
  | Reduce =>
      it <- iter_of env recv ;;
      match add with
      | Thoughtful => thoughtful_reduce_loop fuel (real_next env it) tt (fun acc x => base (vArr [acc; x])) chainArg
      | _ => reduce_loop fuel (real_next env it) tt (fun acc x => additional add base (vArr [acc; x])) chainArg
      end
  end.

(* ---- built-in functions ---------------------------------------------------------- *)
Definition arg0 (args : list val) : option val := nth_error args 0.
Definition arg1 (args : list val) : option val := nth_error args 1.
Definition tyerr {A} (m : string) : M A := raise "TypeErr" m.
Definition need {A} (o : option A) (m : string) : M A :=
  match o with Some a => ret a | None => tyerr m end.

Definition int_binop (name : string) (nil_as : Z) (args : list val) : M (val * Z * Z) :=
  match args with
  | a :: b :: _ =>
      st <- get_st ;;
      match as_int W st a with
      | None => s <- insp a ;; tyerr (s ++ " cannot be treated as int")
      | Some (_, x) =>
          match as_int W st b with
          | Some (_, y) => ret (a, x, y)
          | None => match as_nil W st b with
                    | Some _ => ret (a, x, nil_as)
                    | None => s <- insp b ;; tyerr (s ++ " cannot be treated as int")
                    end
          end
      end
  | _ => tyerr (name ++ " requires at least 2 args")
  end.
(* NewInheritedInt(args[0].Proto(), z) *)
Definition inherit_int (self : val) (z : Z) : M val :=
  st <- get_st ;;
  match proto_of W st self with
  | Some p => ret (VInt p z)
  | None => ret (vInt z)
  end.

Definition str_binop (name : string) (args : list val) : M (val * string * string) :=
  match args with
  | a :: b :: _ =>
      st <- get_st ;;
      match as_str W st a with
      | None => s <- insp a ;; tyerr (s ++ " cannot be treated as str")
      | Some (_, x) =>
          match as_str W st b with
          | Some (_, y) => ret (a, x, y)
          | None => match as_nil W st b with
                    | Some _ => ret (a, x, "")
                    | None => s <- insp b ;; tyerr (s ++ " cannot be treated as str")
                    end
          end
      end
  | _ => tyerr (name ++ " requires at least 2 args")
  end.

(* element-wise `==` through callProp; only an explicit false stops (as the Go loops do) *)
Fixpoint all_eq (env : nat) (l1 l2 : list val) : M bool :=
  match l1, l2 with
  | [], [] => ret true
  | a :: t1, b :: t2 => r <- catch (callprop env a "==" [b] []) ;;
                        match r with
                        | inl v => if is_false v then ret false else all_eq env t1 t2
                        | inr _ => all_eq env t1 t2
                        end
  | _, _ => ret false
  end.

Fixpoint pairs_eq (env : nat) (p1 p2 : list (string * val)) : M bool :=
  match p1 with
  | [] => ret true
  | (k, v) :: t => match assoc k p2 with
                   | None => ret false
                   | Some v2 => r <- catch (callprop env v "==" [v2] []) ;;
                                match r with
                                | inl b => if is_false b then ret false else pairs_eq env t p2
                                | inr _ => pairs_eq env t p2
                                end
                   end
  end.

Fixpoint scalar_pairs_eq (env : nat) (p1 p2 : list (val * val)) : M bool :=
  match p1 with
  | [] => ret true
  | (k, v) :: t => match scalar_lookup k p2 with
                   | None => ret false
                   | Some v2 => r <- catch (callprop env v "==" [v2] []) ;;
                                match r with
                                | inl b => if is_false b then ret false else scalar_pairs_eq env t p2
                                | inr _ => scalar_pairs_eq env t p2
                                end
                   end
  end.

(* find a non-scalar key with `k == key` (containsKey / existsNonHashableKey) *)
Fixpoint ns_lookup (env : nat) (k : val) (l : list (val * val)) : M (option val) :=
  match l with
  | [] => ret None
  | (k', v) :: t => r <- catch (callprop env k "==" [k'] []) ;;
                    match r with
                    | inl b => if is_true b then ret (Some v) else ns_lookup env k t
                    | inr _ => ns_lookup env k t
                    end
  end.

Fixpoint ns_pairs_eq (env : nat) (p1 p2 : list (val * val)) : M bool :=
  match p1 with
  | [] => ret true
  | (k, v) :: t => o <- ns_lookup env k p2 ;;
                   match o with
                   | None => ret false
                   | Some v2 => r <- catch (callprop env v "==" [v2] []) ;;
                                match r with
                                | inl b => if is_false b then ret false else ns_pairs_eq env t p2
                                | inr _ => ns_pairs_eq env t p2
                                end
                   end
  end.

(* findElemInObj: prop of self named by the str in the index array, else nil *)
Definition base_at (args : list val) : M val :=
  match args with
  | self :: ix :: _ =>
      st <- get_st ;;
      match as_arr W st ix with
      | Some (_, i :: _) => match as_str W st i with
                            | Some (_, n) => match find_prop W st self n with
                                             | Some (VErrObj k m) => raise k m
                                             | Some v => ret v
                                             | None => ret vNil end
                            | None => ret vNil end
      | _ => ret vNil
      end
  | _ => tyerr "Obj#at requires at least 2 args"
  end.

Definition range_bounds (st : state) (a b c : val) : option (option Z * option Z * option Z) :=
  let f v := match v with VInt _ z => Some (Some z) | VNil _ => Some None | _ => None end in
  match f a, f b, f c with
  | Some x, Some y, Some z => Some (x, y, z)
  | _, _, _ => None
  end.

Definition own_pairs (v : val) : M (option (list (string * val))) :=
  st <- get_st ;;
  match as_obj W st v with
  | Some id => match get_obj st id with Some o => ret (Some (opairs o)) | None => ret None end
  | None => ret None
  end.

Definition kw_true (kwargs : kwargs_t) (k : string) : bool :=
  match assoc k kwargs with Some v => is_true v | None => false end.

Definition obj_listing (self : val) (kwargs : kwargs_t) (f : string -> val -> val) : M val :=
  o <- own_pairs self ;;
  match o with
  | None => ret (vArr [])
  | Some ps =>
      let ks := app (public_keys ps) (if kw_true kwargs "private?" then private_keys ps else []) in
      ret (vArr (flat_map (fun k => match assoc k ps with Some v => [f k v] | None => [] end) ks))
  end.

Definition either_field (self : val) (field what : string) : M val :=
  o <- own_pairs self ;;
  match o with
  | Some ps => match assoc field ps with
               | Some v => ret v
               | None => s <- insp self ;; tyerr (s ++ " cannot be treated as " ++ what)
               end
  | None => s <- insp self ;; tyerr (s ++ " cannot be treated as " ++ what)
  end.

Definition bear_with (proto : val) (args : list val) (who : string) (zero : option val) : M val :=
  match arg1 args with
  | None => alloc_obj {| oproto := Some proto; ozero := zero; opairs := [] |}
  | Some (VObj id) =>
      st <- get_st ;;
      match get_obj st id with
      | Some o => alloc_obj {| oproto := Some proto; ozero := zero; opairs := opairs o |}
      | None => unsup "dangling object"
      end
  | Some _ => tyerr (who ++ "#bear requires obj literal src")
  end.

Fixpoint arr_has_loop (env : nat) (x : val) (l : list val) : M val :=
  match l with
  | [] => ret (VBool false)
  | e :: t => r <- catch (callprop env e "==" [x] []) ;;
              match r with
              | inl v => if is_true v then ret (VBool true) else arr_has_loop env x t
              | inr _ => arr_has_loop env x t
              end
  end.

Fixpoint arr_O_loop (st : state) (l : list val) (acc : list (string * val)) : M (list (string * val)) :=
  match l with
  | [] => ret acc
  | e :: t =>
      match as_arr W st e with
      | Some (_, [k; v]) =>
          match as_str W st k with
          | Some (_, ks) => arr_O_loop st t (add_first ks v acc)
          | None => s <- insp k ;; raise "ValueErr" ("element key " ++ s ++ " cannot be treated as str")
          end
      | Some _ => s <- insp e ;; raise "ValueErr" ("element " ++ s ++ " must have two elements")
      | None => s <- insp e ;; raise "ValueErr" ("element " ++ s ++ " cannot be treated as arr")
      end
  end.

Fixpoint arr_M_loop (st : state) (l : list val) (sc ns : list (val * val)) : M (list (val * val) * list (val * val)) :=
  match l with
  | [] => ret (sc, ns)
  | e :: t =>
      match as_arr W st e with
      | Some (_, [k; v]) => if is_scalar k then arr_M_loop st t (scalar_add_first k v sc) ns
                            else arr_M_loop st t sc (ns ++ [(k, v)])%list
      | Some _ => s <- insp e ;; raise "ValueErr" ("element " ++ s ++ " must have two elements")
      | None => s <- insp e ;; raise "ValueErr" ("element " ++ s ++ " cannot be treated as arr")
      end
  end.

Fixpoint map_at_loop (env : nat) (k : val) (l : list (val * val)) : M val :=
  match l with
  | [] => ret vNil
  | (k', v) :: t => r <- callprop env k "==" [k'] [] ;;
                    if is_true r then ret v else map_at_loop env k t
  end.

Definition call_builtin (env : nat) (b : bfn) (args : list val) (kwargs : kwargs_t) : M val :=
  match b with
  (* ---------- Obj / BaseObj ---------- *)
  | B_Obj_callProp =>
      (* builtInCallProp(env, kwargs, ignored, obj, name, args...) *)
      match args with
      | _ :: obj :: VStr _ n :: rest => callprop env obj n rest kwargs
      | _ => ret vNil
      end
  | B_Obj_p =>
      self <- need (arg0 args) "Obj#p requires at least 1 arg" ;;
      st <- get_st ;;
      match env_get st env "IO" with
      | Some VIO =>
          s <- callprop env self "S" [] [] ;;
          st <- get_st ;;
          match as_str W st s with
          | None => tyerr "\1.S must be str"
          | Some (_, str) =>
              match assoc "end" kwargs with
              | None => _ <- push_out (str ++ sb [10]) ;; ret vNil
              | Some e => match as_str W st e with
                          | Some (_, es) => _ <- push_out (str ++ es) ;; ret vNil
                          | None => tyerr "end must be str"
                          end
              end
          end
      | Some _ => tyerr "name `IO` is not io object"
      | None => raise "NameErr" "name `IO` is not defined."
      end
  | B_Obj_S =>
      self <- need (arg0 args) "Obj#S requires at least 1 arg" ;;
      match self with
      | VStr _ s => ret (vStr s)
      | VFloat _ _ => unsup "float formatting"
      | VInt _ z => match assoc "base" kwargs with
                    | Some _ => unsup "Int#S with base"
                    | None => ret (vStr (Z_to_string z)) end
      | _ => s <- insp self ;; ret (vStr s)
      end
  | B_Obj_repr => unsup "repr"
  | B_Obj_B =>
      self <- need (arg0 args) "Obj#B requires at least 1 arg" ;;
      o <- own_pairs self ;;
      match o with
      | Some ps => ret (VBool (negb (Nat.eqb (length ps) 0)))
      | None => tyerr "\1 must be obj"
      end
  | B_Obj_not =>
      self <- need (arg0 args) "! requires at least 1 arg" ;;
      t <- truthy_via_B env self ;; ret (VBool (negb t))
  | B_Obj_try =>
      self <- need (arg0 args) "Obj#try requires at least 1 arg" ;;
      new_obj [("_value", self)] (wkv W "EitherVal")
  | B_Obj_new =>
      match args with
      | _ :: (VObj id) :: _ =>
          st <- get_st ;;
          match get_obj st id with
          | Some o => new_obj_literal (opairs o)
          | None => unsup "dangling object" end
      | _ :: a :: _ => st <- get_st ;;
                       match as_nil W st a with
                       | Some _ => new_obj_literal []
                       | None => new_obj_literal [("_value", a)] end
      | _ => new_obj_literal []
      end
  | B_Obj_which =>
      match args with
      | self :: n :: _ =>
          st <- get_st ;;
          match as_str W st n with
          | Some (_, name) => match find_owner W st self name with
                              | Some o => ret o | None => ret vNil end
          | None => s <- insp n ;; tyerr (s ++ " cannot be treated as str")
          end
      | _ => tyerr "Obj#which requires at least 2 args"
      end
  | B_Obj_keys => self <- need (arg0 args) "Obj#keys requires at least 1 arg" ;;
                  obj_listing self kwargs (fun k _ => vStr k)
  | B_Obj_values => self <- need (arg0 args) "Obj#values requires at least 1 arg" ;;
                    obj_listing self kwargs (fun _ v => v)
  | B_Obj_items => self <- need (arg0 args) "Obj#values requires at least 1 arg" ;;
                   obj_listing self kwargs (fun k v => vArr [vStr k; v])
  | B_Obj_iter =>
      self <- need (arg0 args) "Obj#_iter requires at least 1 arg" ;;
      o <- own_pairs self ;;
      match o with
      | Some ps => alloc_biter (BIList (flat_map (fun k => match assoc k ps with
                                 | Some v => [vArr [vStr k; v]] | None => [] end) (public_keys ps)))
      | None => tyerr "Obj#_iter cannot be applied to \1"
      end
  | B_Base_eq =>
      match args with
      | VObj i :: VObj j :: _ =>
          st <- get_st ;;
          match get_obj st i, get_obj st j with
          | Some o1, Some o2 =>
              if negb (Nat.eqb (length (opairs o1)) (length (opairs o2))) then ret (VBool false)
              else r <- pairs_eq env (opairs o1) (opairs o2) ;; ret (VBool r)
          | _, _ => unsup "dangling object"
          end
      | _ :: _ :: _ => ret (VBool false)
      | _ => tyerr "== requires at least 2 args"
      end
  | B_Base_at => base_at args
  | B_Base_bear =>
      proto <- need (arg0 args) "BaseObj#bear requires at least 1 arg" ;;
      z <- with_st (fun st => zero_of W st proto) ;;
      (* ChildPanObjPtr: zero inherited from the prototype *)
      bear_with proto args "BaseObj" (match proto with VObj _ => Some z | _ => Some z end)
  | B_Base_proto =>
      self <- need (arg0 args) "proto requires at least 1 arg" ;;
      st <- get_st ;;
      match proto_of W st self with Some p => ret p | None => ret vNil end
  (* ---------- Int ---------- *)
  | B_Int_add => '(s, x, y) <- int_binop "+" 0 args ;; inherit_int s (add64 x y)
  | B_Int_sub => '(s, x, y) <- int_binop "-" 0 args ;; inherit_int s (sub64 x y)
  | B_Int_mul => '(s, x, y) <- int_binop "*" 1 args ;; inherit_int s (mul64 x y)
  | B_Int_incBy => '(s, x, y) <- int_binop "_incBy" 0 args ;; inherit_int s (add64 x y)
  | B_Int_pow => '(s, x, y) <- int_binop "**" 1 args ;;
      if (y <? 0)%Z then unsup "float power" else
      if (x =? 0)%Z then inherit_int s (if (y =? 0)%Z then 1 else 0)%Z else
      if (x =? 1)%Z then inherit_int s 1%Z else
      if (x =? -1)%Z then inherit_int s (if Z.even y then 1 else -1)%Z else
      if (64 <=? y)%Z then unsup "float power" else
      if in64b (x ^ y) then inherit_int s (x ^ y)%Z else unsup "float power"
  | B_Int_div => '(s, x, y) <- int_binop "/" 1 args ;;
      if (y =? 0)%Z then raise "ZeroDivisionErr" "cannot be divided by 0" else unsup "float division"
  | B_Int_fdiv => '(s, x, y) <- int_binop "//" 1 args ;;
      if (y =? 0)%Z then raise "ZeroDivisionErr" "cannot be divided by 0" else
      let q := quot64 x y in
      if negb (rem64 x y =? 0)%Z && negb (Bool.eqb (x <? 0)%Z (y <? 0)%Z)
      then inherit_int s (sub64 q 1) else inherit_int s q
  | B_Int_mod => '(s, x, y) <- int_binop "%" 0 args ;;
      if (y =? 0)%Z then raise "ZeroDivisionErr" "cannot be divided by 0" else inherit_int s (rem64 x y)
  | B_Int_cmp => '(s, x, y) <- int_binop "<=>" 0 args ;;
      ret (vInt (if (x >? y)%Z then 1 else if (x =? y)%Z then 0 else -1)%Z)
  | B_Int_eq =>
      match args with
      | a :: b :: _ =>
          st <- get_st ;;
          match as_int W st a, as_int W st b with
          | Some (p, x), Some (q, y) => ret (VBool (val_same p q && (x =? y)%Z))
          | _, _ => ret (VBool false)
          end
      | _ => tyerr "== requires at least 2 args"
      end
  | B_Int_neq =>
      match args with
      | a :: b :: _ =>
          st <- get_st ;;
          match as_int W st a with
          | None => ret (VBool false)
          | Some (p, x) => match as_int W st b with
                           | None => ret (VBool true)
                           | Some (q, y) => ret (VBool (negb (val_same p q && (x =? y)%Z)))
                           end
          end
      | _ => tyerr "!= requires at least 2 args"
      end
  | B_Int_neg =>
      self <- need (arg0 args) "\- requires at least 1 arg" ;;
      st <- get_st ;;
      match as_int W st self with
      | Some (_, x) => inherit_int self (neg64 x)
      | None => tyerr "\1 must be int"
      end
  | B_Int_B =>
      self <- need (arg0 args) "Int#B requires at least 1 arg" ;;
      st <- get_st ;;
      match as_int W st self with
      | Some (_, x) => ret (VBool (negb (x =? 0)%Z))
      | None => tyerr "\1 must be int"
      end
  | B_Int_iter =>
      self <- need (arg0 args) "Int#_iter requires at least 1 arg" ;;
      st <- get_st ;;
      match as_int W st self with
      | Some (_, x) => alloc_biter (BICount 1 x)
      | None => tyerr "\1 must be int"
      end
  | B_Int_new =>
      match args with
      | proto :: v :: _ =>
          let proto := match proto with VBool _ => wkv W "Int" | _ => proto end in
          st <- get_st ;;
          match as_int W st v with
          | Some (_, x) => ret (VInt proto x)
          | None => match v with
                    | VFloat _ _ => unsup "Int.new(float)"
                    | _ => s <- insp v ;; tyerr (s ++ " cannot be treated as int") end
          end
      | _ => tyerr "Int#new requires at least 2 args"
      end
  | B_Int_bear =>
      proto <- need (arg0 args) "Int#bear requires at least 1 arg" ;;
      match proto with
      | VBool _ => ret proto
      | VInt _ _ => bear_with proto args "Int" (Some proto)
      | _ => (* zero is 0 inherited from the new object itself *)
          let self_id := fun st => length (heap st) in
          id <- with_st self_id ;;
          bear_with proto args "Int" (Some (VInt (VObj id) 0))
      end
  | B_Int_at =>
      match args with
      | self :: ix :: _ =>
          st <- get_st ;;
          match as_int W st self, as_arr W st ix with
          | Some _, Some (_, i :: _) =>
              match as_int W st i, as_range W st i with
              | None, None => base_at args
              | _, _ => unsup "bit indexing of ints"
              end
          | Some _, Some (_, []) => ret vNil
          | _, _ => base_at args
          end
      | _ => tyerr "Int#at requires at least 2 args"
      end
  (* ---------- Str ---------- *)
  | B_Str_add => '(s, x, y) <- str_binop "+" args ;;
      st <- get_st ;; ret (VStr (match proto_of W st s with Some p => p | None => wkv W "Str" end) (x ++ y))
  | B_Str_cmp => '(s, x, y) <- str_binop "<=>" args ;;
      ret (vInt (match String.compare x y with Lt => -1 | Eq => 0 | Gt => 1 end)%Z)
  | B_Str_mul =>
      match args with
      | a :: n :: _ =>
          st <- get_st ;;
          match as_str W st a with
          | None => s <- insp a ;; tyerr (s ++ " cannot be treated as str")
          | Some (_, x) =>
              match as_int W st n with
              | None => s <- insp n ;; tyerr (s ++ " cannot be treated as int")
              | Some (_, k) =>
                  if (k <? 0)%Z then s <- insp n ;; raise "ValueErr" (s ++ " is not positive")
                  else if (k >? 2000)%Z then unsup "huge repeat"
                  else ret (VStr (match proto_of W st a with Some p => p | None => wkv W "Str" end)
                                 (repeat_str (Z.to_nat k) x))
              end
          end
      | _ => tyerr "* requires at least 2 args"
      end
  | B_Str_eq =>
      match args with
      | a :: b :: _ =>
          if is_wk W a "Str" && is_wk W b "Str" then ret (VBool true) else
          match a, b with
          | VStr _ x, VStr _ y => ret (VBool (String.eqb x y))
          | _, _ => ret (VBool false)
          end
      | _ => tyerr "== requires at least 2 args"
      end
  | B_Str_B =>
      self <- need (arg0 args) "Str#B requires at least 1 arg" ;;
      st <- get_st ;;
      match as_str W st self with
      | Some (_, x) => ret (VBool (negb (String.eqb x "")))
      | None => tyerr "\1 must be str"
      end
  | B_Str_uc | B_Str_lc =>
      let nm := match b with B_Str_uc => "uc" | _ => "lc" end in
      self <- need (arg0 args) ("Str#" ++ nm ++ " requires at least 1 arg") ;;
      st <- get_st ;;
      match as_str W st self with
      | Some (_, x) =>
          match map_case (match b with B_Str_uc => true | _ => false end) x with
          | Some y => ret (VStr (match proto_of W st self with Some p => p | None => wkv W "Str" end) y)
          | None => unsup "case mapping of non-ASCII text"
          end
      | None => tyerr "\1 must be str"
      end
  | B_Str_symp =>
      self <- need (arg0 args) "Str#sym? requires at least 1 arg" ;;
      st <- get_st ;;
      match as_str W st self with
      | Some (_, x) => ret (VBool (is_sym x))
      | None => s <- insp self ;; tyerr (s ++ " cannot be treated as str")
      end
  | B_Str_len =>
      self <- need (arg0 args) "Str#len requires at least 1 arg" ;;
      st <- get_st ;;
      match as_str W st self with
      | Some (_, x) => ret (vInt (Z.of_nat (length (runes x))))
      | None => tyerr "\1 must be str"
      end
  | B_Str_iter =>
      self <- need (arg0 args) "Str#_iter requires at least 1 arg" ;;
      st <- get_st ;;
      match as_str W st self with
      | Some (_, x) => alloc_biter (BIList (map vStr (runes x)))
      | None => tyerr "\1 must be str"
      end
  | B_Str_at =>
      match args with
      | self :: ix :: _ =>
          st <- get_st ;;
          match as_str W st self, as_arr W st ix with
          | Some (_, s), Some (_, i :: _) =>
              match as_int W st i with
              | Some (_, z) => match idx_list (runes s) z with
                               | Some r => ret (vStr r) | None => ret vNil end
              | None =>
                  match as_range W st i with
                  | Some (a, b, c) =>
                      match range_bounds st a b c with
                      | Some (x, y, z) =>
                          match slice_list (runes s) x y z with
                          | Some l => ret (vStr (String.concat "" l))
                          | None => raise "ValueErr" "cannot use 0 for range step"
                          end
                      | None => ret (vStr "")
                      end
                  | None => base_at args
                  end
              end
          | Some _, Some (_, []) => ret vNil
          | _, _ => base_at args
          end
      | _ => tyerr "Str#at requires at least 2 args"
      end
  | B_Str_incBy =>
      match args with
      | self :: nv :: _ =>
          st <- get_st ;;
          match as_str W st self with
          | None => tyerr "\1 must be str"
          | Some (_, x) =>
              match as_int W st nv with
              | None => tyerr "\2 must be int"
              | Some (_, k) =>
                  match x with
                  | EmptyString => raise "ValueErr" "empty str cannot be incremented"
                  | _ =>
                      match str_inc_last x k with
                      | Some y => ret (VStr (match proto_of W st self with Some p => p | None => wkv W "Str" end) y)
                      | None => unsup "Str#_incBy beyond ASCII"
                      end
                  end
              end
          end
      | _ => tyerr "Str#_incBy requires at least 2 args"
      end
  | B_Str_new =>
      match args with
      | proto :: v :: _ =>
          st <- get_st ;;
          match as_str W st v with
          | Some (_, x) => ret (VStr proto x)
          | None => unsup "Str.new(non-str)"      (* the implementation answers \2.S *)
          end
      | _ => tyerr "Str#new requires at least 2 args"
      end
  (* ---------- Arr ---------- *)
  | B_Arr_add =>
      match args with
      | a :: b :: _ =>
          st <- get_st ;;
          match as_arr W st a with
          | None => s <- insp a ;; tyerr (s ++ " cannot be treated as arr")
          | Some (pa, x) =>
              match as_arr W st b with
              | Some (_, y) => ret (vArr (x ++ y)%list)
              | None => match as_nil W st b with
                        | Some _ => ret (VArr pa x)
                        | None => s <- insp b ;; tyerr (s ++ " cannot be treated as arr")
                        end
              end
          end
      | _ => tyerr "+ requires at least 2 args"
      end
  | B_Arr_mul =>
      match args with
      | a :: n :: _ =>
          st <- get_st ;;
          match as_arr W st a with
          | None => s <- insp a ;; tyerr (s ++ " cannot be treated as arr")
          | Some (_, x) =>
              match as_int W st n with
              | None => s <- insp a ;; tyerr (s ++ " cannot be treated as int")
              | Some (_, k) => if (k >? 2000)%Z then unsup "huge repeat"
                               else ret (vArr (concat (repeat x (Z.to_nat k))))
              end
          end
      | _ => tyerr "* requires at least 2 args"
      end
  | B_Arr_eq =>
      match args with
      | a :: b :: _ =>
          st <- get_st ;;
          match as_arr W st a, as_arr W st b with
          | Some (pa, x), Some (pb, y) =>
              if negb (Nat.eqb (length x) (length y)) then ret (VBool false)
              else if negb (val_same pa pb) then ret (VBool false)
              else r <- all_eq env x y ;; ret (VBool r)
          | _, _ => ret (VBool false)
          end
      | _ => tyerr "== requires at least 2 args"
      end
  | B_Arr_B =>
      self <- need (arg0 args) "Arr#B requires at least 1 arg" ;;
      st <- get_st ;;
      match as_arr W st self with
      | Some (_, x) => ret (VBool (negb (Nat.eqb (length x) 0)))
      | None => tyerr "\1 must be arr"
      end
  | B_Arr_len =>
      self <- need (arg0 args) "Arr#len requires at least 1 arg" ;;
      st <- get_st ;;
      match as_arr W st self with
      | Some (_, x) => ret (vInt (Z.of_nat (length x)))
      | None => tyerr "\1 must be arr"
      end
  | B_Arr_iter =>
      self <- need (arg0 args) "Arr#_iter requires at least 1 arg" ;;
      st <- get_st ;;
      match as_arr W st self with
      | Some (_, x) => alloc_biter (BIList x)
      | None => tyerr "\1 must be arr"
      end
  | B_Arr_new =>
      match args with
      | proto :: a :: _ =>
          st <- get_st ;;
          match as_arr W st a with
          | Some (_, x) => ret (VArr proto x)
          | None => s <- insp a ;; tyerr (s ++ " cannot be treated as arr")
          end
      | _ => tyerr "Arr#new requires at least 2 args"
      end
  | B_Arr_call =>
      match args with
      | proto :: rest => ret (VArr proto rest)
      | [] => tyerr "Arr#call requires at least 1 arg"
      end
  | B_Arr_has =>
      match args with
      | a :: x :: _ =>
          st <- get_st ;;
          match as_arr W st a with
          | Some (_, l) => arr_has_loop env x l
          | None => tyerr "\1 must be arr"
          end
      | _ => tyerr "Arr#has? requires at least 2 args"
      end
  | B_Arr_join =>
      match args with
      | a :: j :: _ =>
          st <- get_st ;;
          match as_arr W st a, as_str W st j with
          | Some (_, l), Some (_, sep) =>
              ss <- mapM (fun e => s <- callprop env e "S" [j] [] ;;
                                   st <- get_st ;;
                                   match as_str W st s with
                                   | Some (_, x) => ret x
                                   | None => unsup "join of non-str S"
                                   end) l ;;
              ret (vStr (join sep ss))
          | None, _ => tyerr "\1 must be arr"
          | _, None => tyerr "\2 must be str"
          end
      | _ => tyerr "Arr#join requires at least 2 args"
      end
  | B_Arr_O =>
      self <- need (arg0 args) "Arr#O requires at least 1 arg" ;;
      st <- get_st ;;
      match as_arr W st self with
      | None => s <- insp self ;; tyerr (s ++ " cannot be treated as arr")
      | Some (_, l) =>
          ps <- arr_O_loop st l [] ;;
          new_obj_literal ps
      end
  | B_Arr_M =>
      self <- need (arg0 args) "Arr#M requires at least 1 arg" ;;
      st <- get_st ;;
      match as_arr W st self with
      | None => s <- insp self ;; tyerr (s ++ " cannot be treated as arr")
      | Some (_, l) =>
          '(sc, ns) <- arr_M_loop st l [] [] ;;
          ret (VMap (wkv W "Map") sc ns)
      end
  | B_Arr_at =>
      match args with
      | self :: ix :: _ =>
          st <- get_st ;;
          match as_arr W st self, as_arr W st ix with
          | Some (_, l), Some (_, i :: _) =>
              match as_int W st i with
              | Some (_, z) => match idx_list l z with Some r => ret r | None => ret vNil end
              | None =>
                  match as_range W st i with
                  | Some (a, b, c) =>
                      match range_bounds st a b c with
                      | Some (x, y, z) =>
                          match slice_list l x y z with
                          | Some r => ret (vArr r)
                          | None => raise "ValueErr" "cannot use 0 for range step"
                          end
                      | None => ret (vArr [])
                      end
                  | None => base_at args
                  end
              end
          | Some _, Some (_, []) => ret vNil
          | _, _ => base_at args
          end
      | _ => tyerr "Arr#at requires at least 2 args"
      end
  | B_Arr_bear =>
      proto <- need (arg0 args) "Arr#bear requires at least 1 arg" ;;
      match proto with
      | VArr _ _ => bear_with proto args "Arr" (Some proto)
      | _ => id <- with_st (fun st => length (heap st)) ;;
             bear_with proto args "Arr" (Some (VArr (VObj id) []))
      end
  | B_Float_B =>
      self <- need (arg0 args) "Float#B requires at least 1 arg" ;;
      match self with
      | VFloat bits _ => ret (VBool (negb ((bits =? 0)%Z || (bits =? 9223372036854775808)%Z)))
      | _ => unsup "Float#B of non-float"
      end
  | B_Float_eq =>
      match args with
      | a :: b :: _ =>
          st <- get_st ;;
          match as_float W st a, as_float W st b with
          | Some x, Some y => ret (VBool (f_eq x y))
          | _, _ => ret (VBool false)
          end
      | _ => tyerr "== requires at least 2 args"
      end
  | B_Float_cmp =>
      match args with
      | a :: b :: _ =>
          st <- get_st ;;
          match as_float W st a, as_float W st b with
          | Some x, Some y => ret (vInt (if f_gt x y then 1 else if f_eq x y then 0 else -1)%Z)
          | _, _ => unsup "Float#<=> with a non-float operand"
          end
      | _ => tyerr "<=> requires at least 2 args"
      end
  (* ---------- Map ---------- *)
  | B_Map_eq =>
      match args with
      | a :: b :: _ =>
          st <- get_st ;;
          match as_map W st a, as_map W st b with
          | Some (s1, n1), Some (s2, n2) =>
              if negb (Nat.eqb (length s1) (length s2)) then ret (VBool false) else
              r1 <- scalar_pairs_eq env s1 s2 ;;
              if negb r1 then ret (VBool false) else
              if negb (Nat.eqb (length n1) (length n2)) then ret (VBool false) else
              r2 <- ns_pairs_eq env n1 n2 ;; ret (VBool r2)
          | _, _ => ret (VBool false)
          end
      | _ => tyerr "== requires at least 2 args"
      end
  | B_Map_B =>
      self <- need (arg0 args) "Map#B requires at least 1 arg" ;;
      st <- get_st ;;
      match as_map W st self with
      | Some (s, n) => ret (VBool (negb (Nat.eqb (length s + length n) 0)))
      | None => tyerr "\1 must be map"
      end
  | B_Map_len =>
      self <- need (arg0 args) "Map#len requires at least 1 arg" ;;
      st <- get_st ;;
      match as_map W st self with
      | Some (s, n) => ret (vInt (Z.of_nat (length s + length n)))
      | None => tyerr "\1 must be map"
      end
  | B_Map_keys =>
      self <- need (arg0 args) "Map#keys requires at least 1 arg" ;;
      st <- get_st ;;
      match as_map W st self with
      | Some (s, n) => ret (vArr (map fst (s ++ n)%list))
      | None => ret (vArr [])
      end
  | B_Map_values =>
      self <- need (arg0 args) "Map#values requires at least 1 arg" ;;
      st <- get_st ;;
      match as_map W st self with
      | Some (s, n) => ret (vArr (map snd (s ++ n)%list))
      | None => ret (vArr [])
      end
  | B_Map_items =>
      self <- need (arg0 args) "Map#items requires at least 1 arg" ;;
      st <- get_st ;;
      match as_map W st self with
      | Some (s, n) => ret (vArr (map (fun kv => vArr [fst kv; snd kv]) (s ++ n)%list))
      | None => ret (vArr [])
      end
  | B_Map_iter =>
      self <- need (arg0 args) "Map#_iter requires at least 1 arg" ;;
      st <- get_st ;;
      match as_map W st self with
      | Some (s, n) => alloc_biter (BIList (map (fun kv => vArr [fst kv; snd kv]) (s ++ n)%list))
      | None => tyerr "\1 must be map"
      end
  | B_Map_at =>
      match args with
      | self :: ix :: _ =>
          st <- get_st ;;
          match as_map W st self, as_arr W st ix with
          | Some (sc, ns), Some (_, k :: _) =>
              if is_scalar k then
                match scalar_lookup k sc with
                | Some v => ret v
                | None => base_at args
                end
              else map_at_loop env k ns
          | Some _, Some (_, []) => ret vNil
          | _, _ => base_at args
          end
      | _ => tyerr "Obj#at requires at least 2 args"
      end
  (* ---------- Range ---------- *)
  | B_Range_eq =>
      match args with
      | a :: b :: _ =>
          st <- get_st ;;
          match as_range W st a, as_range W st b with
          | Some (a1, b1, c1), Some (a2, b2, c2) =>
              r <- all_eq env [a1; b1; c1] [a2; b2; c2] ;; ret (VBool r)
          | _, _ => ret (VBool false)
          end
      | _ => tyerr "== requires at least 2 args"
      end
  | B_Range_B =>
      self <- need (arg0 args) "Range#B requires at least 1 arg" ;;
      st <- get_st ;;
      match as_range W st self with Some _ => ret (VBool true) | None => tyerr "\1 must be range" end
  | B_Range_start | B_Range_stop | B_Range_step =>
      self <- need (arg0 args) "Range#start requires at least 1 arg" ;;
      st <- get_st ;;
      match as_range W st self with
      | Some (a, b0, c) => ret (match b with B_Range_start => a | B_Range_stop => b0 | _ => c end)
      | None => s <- insp self ;; tyerr (s ++ " cannot be treated as range")
      end
  | B_Range_new =>
      match args with
      | [p; a] => ret (VRange p a vNil vNil)
      | [p; a; b0] => ret (VRange p a b0 vNil)
      | p :: a :: b0 :: c :: _ => ret (VRange p a b0 c)
      | _ => tyerr "Range#new requires at least 2 args"
      end
  | B_Range_iter =>
      self <- need (arg0 args) "Range#_iter requires at least 1 arg" ;;
      st <- get_st ;;
      match as_range W st self with
      | None => tyerr "\1 must be Range"
      | Some (a, b0, c) =>
          match c with
          | VInt _ 0%Z => raise "ValueErr" "cannot use 0 for range step"
          | _ =>
            match a, b0, c with
            | VInt _ x, VInt _ y, VInt _ z => alloc_biter (BIRange x y z)
            | VInt _ x, VInt _ y, VNil _ => alloc_biter (BIRange x y 1)
            | _, _, VInt _ z => alloc_biter (BIGen a b0 z)
            | _, _, VNil _ => alloc_biter (BIGen a b0 1)
            | _, _, _ => unsup "non-int range step"
            end
          end
      end
  (* ---------- Nil ---------- *)
  | B_Nil_eq =>
      match args with
      | a :: b :: _ =>
          st <- get_st ;;
          match as_nil W st a, as_nil W st b with
          | Some _, Some _ => ret (VBool true)
          | _, _ => ret (VBool false)
          end
      | _ => tyerr "== requires at least 2 args"
      end
  | B_Nil_B =>
      self <- need (arg0 args) "Nil#B requires at least 1 arg" ;;
      st <- get_st ;;
      match as_nil W st self with Some _ => ret (VBool false) | None => tyerr "\1 must be nil" end
  | B_Nil_new => self <- need (arg0 args) "Nil#bear requires at least 1 arg" ;; ret (VNil self)
  | B_Nil_add | B_Nil_mul =>
      match args with _ :: b :: _ => ret b | _ => tyerr "+ requires at least 2 args" end
  | B_Nil_sub =>
      match args with _ :: b :: _ => callprop env b "-%" [] [] | _ => tyerr "- requires at least 2 args" end
  (* ---------- Func / Iter ---------- *)
  | B_Func_call =>
      match args with
      | f :: rest => callval env f rest kwargs
      | [] => tyerr "Func#call requires at least 1 arg"
      end
  | B_Func_eq =>
      match args with
      | a :: b :: _ =>
          if is_wk W a "Func" && is_wk W b "Func" then ret (VBool true) else
          st <- get_st ;;
          match as_func W st a with
          | Some _ => match as_func W st b with
                      | Some _ => ret (VBool (String.eqb (inspect_v st a) (inspect_v st b)))
                      | None => ret (VBool false) end
          | None => match as_builtin W st a, as_builtin W st b with
                    | Some x, Some y => ret (VBool (bfn_beq x y))
                    | _, _ => ret (VBool false) end
          end
      | _ => tyerr "== requires at least 2 args"
      end
  | B_Num_floor =>
      self <- need (arg0 args) "Num#floor requires at least 1 arg" ;;
      st <- get_st ;;
      match as_int W st self with
      | Some (p, z) => ret (VInt p z)
      | None => match as_float W st self with
                | Some fb => match f_floor_int fb with
                             | Some z => ret (vInt z)
                             | None => unsup "Num#floor of a float beyond int64"
                             end
                | None => s <- insp self ;; tyerr (s ++ " cannot be treated as num")
                end
      end
  | B_Func_B | B_Iter_B => ret (VBool true)
  | B_Iter_eq =>
      match args with
      | a :: b :: _ =>
          if is_wk W a "Iter" && is_wk W b "Iter" then ret (VBool true) else
          match a, b with
          | VFunc _, VFunc _ => st <- get_st ;; ret (VBool (String.eqb (inspect_v st a) (inspect_v st b)))
          | VBIter i, VBIter j => ret (VBool (Nat.eqb i j))
          | _, _ => ret (VBool false)
          end
      | _ => tyerr "== requires at least 2 args"
      end
  | B_Iter_new =>
      match args with
      | self :: rest =>
          st <- get_st ;;
          match as_biter W st self with
          | Some _ => raise "ValueErr" "Iter#new cannot handle builtinIter (use _iter instead)"
          | None =>
            match as_func W st self with
            | None => tyerr "\1 must be iter"
            | Some fid =>
                c <- get_clo fid ;;
                o <- frame_outer (cenv c) ;;
                e <- alloc_frame [] o ;;
                _ <- bind_args e (cparams c) (ckw c) rest kwargs ;;
                alloc_clo (mkclo KIter (cparams c) (ckw c) (cbody c) (ccode c) e)
            end
          end
      | [] => tyerr "Iter#new requires at least 1 arg"
      end
  | B_Iter_next =>
      match args with
      | VFunc fid :: _ =>
          c <- get_clo fid ;;
          _ <- env_set (cenv c) "recur" (VBuiltin (B_Recur fid)) ;;
          r_body R (cbody c) (cenv c)
      | VBIter id :: _ =>
          st <- get_st ;;
          match nth_error (biters st) id with
          | Some (BIList []) => raise "StopIterErr" "iter stopped"
          | Some (BIList (x :: t)) => _ <- set_biter id (BIList t) ;; ret x
          | Some (BICount n m) => if (n >? m)%Z then raise "StopIterErr" "iter stopped"
                                  else _ <- set_biter id (BICount (n + 1) m) ;; ret (vInt n)
          | Some (BIRange cur stop step) =>
              if (if (step >? 0)%Z then (cur >=? stop)%Z else (cur <=? stop)%Z)
              then raise "StopIterErr" "iter stopped"
              else _ <- set_biter id (BIRange (add64 cur step) stop step) ;; ret (vInt cur)
          | Some (BIGen cur stop step) =>
              (* rangeIter: `cur <=> stop` decides (must be an int), then `cur._incBy(step)` is the next value *)
              c <- callprop env cur "<=>" [stop] [] ;;
              st1 <- get_st ;;
              match as_int W st1 c with
              | None => raise "ValueErr" "<=> returned non-int value"
              | Some (_, r) =>
                  if (if (step >? 0)%Z then negb (r =? -1)%Z else negb (r =? 1)%Z)
                  then raise "StopIterErr" "iter stopped"
                  else r1 <- catch (callprop env cur "_incBy" [vInt step] []) ;;
                       match r1 with
                       | inl nxt => _ <- set_biter id (BIGen nxt stop step) ;; ret cur
                       | inr _ => unsup "range iteration: _incBy failed"   (* the implementation keeps the error as the next value *)
                       end
              end
          | None => unsup "dangling builtin iter"
          end
      | v :: _ => s <- insp v ;; tyerr ("`" ++ s ++ "` is not callable.")
      | [] => tyerr "Iter#next requires at least 1 arg"
      end
  | B_Iter_iter =>
      self <- need (arg0 args) "Iter#_iter requires at least 1 arg" ;;
      st <- get_st ;;
      match as_func W st self with
      | Some fid =>
          c <- get_clo fid ;;
          match ckind c with
          | KIter => e <- copy_frame (cenv c) ;;
                     alloc_clo (mkclo KIter (cparams c) (ckw c) (cbody c) (ccode c) e)
          | KFunc => s <- insp self ;; tyerr (s ++ " cannot be treated as iter")
          end
      | None => match as_biter W st self with
                | Some id => ret (VBIter id)      (* the copy shares the Go closure *)
                | None => s <- insp self ;; tyerr (s ++ " cannot be treated as iter")
                end
      end
  | B_Recur fid =>
      c <- get_clo fid ;;
      o <- frame_outer (cenv c) ;;
      e <- alloc_frame [] o ;;
      _ <- bind_args e (cparams c) (ckw c) args kwargs ;;
      _ <- set_clo_env fid e ;;
      ret vNil
  (* ---------- Either ---------- *)
  | B_EVal_A => self <- need (arg0 args) "EitherVal#A requires at least 1 arg" ;;
                v <- either_field self "_value" "EitherVal" ;; ret (vArr [v; vNil])
  | B_EVal_val => self <- need (arg0 args) "EitherVal#val requires at least 1 arg" ;;
                  either_field self "_value" "EitherVal"
  | B_EVal_err => _ <- need (arg0 args) "EitherVal#err requires at least 1 arg" ;; ret vNil
  | B_EVal_or =>
      match args with
      | self :: _ :: _ => either_field self "_value" "EitherVal"
      | _ => tyerr "EitherVal#or requires at least 2 args"
      end
  | B_EVal_fmap =>
      match args with
      | self :: f :: _ =>
          v <- either_field self "_value" "EitherVal" ;;
          r <- catch (callprop env f "call" [v] []) ;;
          match r with
          | inl x => new_obj [("_value", x)] (wkv W "EitherVal")
          | inr (k, m) => new_obj [("_error", VErrW k m)] (wkv W "EitherErr")
          end
      | _ => tyerr "EitherVal#fmap requires at least 2 args"
      end
  | B_EErr_A => self <- need (arg0 args) "EitherErr#A requires at least 1 arg" ;;
                e <- either_field self "_error" "EitherErr" ;; ret (vArr [vNil; e])
  | B_EErr_err => self <- need (arg0 args) "EitherErr#err requires at least 1 arg" ;;
                  either_field self "_error" "EitherErr"
  | B_EErr_val => _ <- need (arg0 args) "EitherErr#val requires at least 1 arg" ;; ret vNil
  | B_EErr_or =>
      match args with _ :: d :: _ => ret d | _ => tyerr "EitherErr#or requires at least 2 args" end
  | B_EErr_fmap =>
      match args with self :: _ :: _ => ret self | _ => tyerr "EitherErr#fmap requires at least 2 args" end
  (* ---------- Err ---------- *)
  | B_Err_new kind =>
      match args with
      | _ :: m :: _ =>
          st <- get_st ;;
          match as_str W st m with
          | Some (_, s) => raise kind s
          | None => s <- callprop env m "S" [] [] ;;
                    st <- get_st ;;
                    match as_str W st s with
                    | Some (_, x) => raise kind x
                    | None => x <- insp m ;; raise kind x
                    end
          end
      | _ => raise kind "nil"
      end
  | B_Err_eq =>
      match args with
      | a :: b :: _ =>
          match a, b with
          | VObj i, VObj j => if Nat.eqb i j then ret (VBool true) else ret (VBool false)
          | _, _ =>
            st <- get_st ;;
            match as_errw W st a, as_errw W st b with
            | Some (k1, m1), Some (k2, m2) => ret (VBool (String.eqb k1 k2 && String.eqb m1 m2))
            | _, _ => ret (VBool false)
            end
          end
      | _ => tyerr "== requires at least 2 args"
      end
  | B_Err_msg =>
      self <- need (arg0 args) "Err#msg requires at least 1 arg" ;;
      st <- get_st ;;
      match as_errw W st self with
      | Some (_, m) => ret (vStr m)
      | None => s <- insp self ;; tyerr (s ++ " cannot be treated as err")
      end
  | B_Err_type =>
      self <- need (arg0 args) "Err#type requires at least 1 arg" ;;
      st <- get_st ;;
      match as_obj W st self with
      | Some id => ret (VObj id)
      | None => ret (wkv W "Err")
      end
  | B_Kernel_assert =>
      v <- need (arg0 args) "assert requires at least 1 arg" ;;
      t <- truthy_via_B env v ;;
      if t then ret vNil else s <- insp v ;; raise "AssertionErr" (s ++ " is not truthy")
  | B_Kernel_assertEq =>
      match args with
      | a :: b :: _ =>
          r <- catch (callprop env a "==" [b] []) ;;
          match r with
          | inl (VBool true) => ret vNil
          | _ => s1 <- insp a ;; s2 <- insp b ;; raise "AssertionErr" (s1 ++ " != " ++ s2)
          end
      | _ => tyerr "assertEq requires at least 2 args"
      end
  | B_Kernel_assertRaises =>
      match args with
      | ety :: m :: f :: _ =>
          st <- get_st ;;
          match as_str W st m with
          | None => s <- insp m ;; tyerr (s ++ " cannot be treated as str")
          | Some (_, msg) =>
              r <- catch (callprop env f "call" [] []) ;;
              match r with
              | inl _ => raise "AssertionErr" "error must be raised"
              | inr (k, em) =>
                  if negb (val_same (wkv W k) ety) then
                    s <- insp ety ;; raise "AssertionErr" ("wrong type: " ++ k ++ " != " ++ s)
                  else if negb (String.eqb em msg) then
                    raise "AssertionErr" ("wrong msg: """ ++ em ++ """ != """ ++ msg ++ """")
                  else ret vNil
              end
          end
      | _ => tyerr "assertRaises requires at least 3 args"
      end
  | B_Unknown n => unsup ("builtin " ++ n)
  end.

(* evalFuncCall *)
(* a Go built-in that hands back an error OBJECT (e.g. an element of `Either.values` fetched by Arr#at) has, for its
   caller, raised that error: every caller tests the result with a type assertion to PanErr *)
Definition raise_if_err (m : M val) : M val :=
  v <- m ;;
  match v with VErrObj k msg => raise k msg | _ => ret v end.

Definition call_value (env : nat) (f : val) (args : list val) (kwargs : kwargs_t) : M val :=
  match f with
  | VFunc fid => call_clo fid args kwargs
  | VBuiltin b => raise_if_err (call_builtin env b args kwargs)
  | _ => s <- insp f ;; tyerr (s ++ " is not callable.")
  end.

(* builtInCallProp(env, kwargs, _, obj, name, args...) *)
Definition call_prop (env : nat) (obj : val) (name : string) (args : list val) (kwargs : kwargs_t) : M val :=
  st <- get_st ;;
  match find_prop W st obj name with
  | None => ret vNil
  | Some (VFunc fid) => call_clo fid (obj :: args) kwargs
  | Some (VBuiltin b) => raise_if_err (call_builtin env b (obj :: args) kwargs)
  | Some v => ret v
  end.

(* ---- expressions ---------------------------------------------------------------- *)
Definition ev := r_expr R.

Definition eval_opt (o : option expr) (env : nat) : M val :=
  match o with None => ret vNil | Some e => ev e env end.

(* evalArgs: positional arguments with `*` and `**` expansion, in source order *)
Fixpoint eval_args (es : list expr) (env : nat) : M (list val * kwargs_t) :=
  match es with
  | [] => ret ([], [])
  | EPrefix "**" e :: t =>
      o <- ev e env ;;
      match o with
      | VObj id =>
          st <- get_st ;;
          match get_obj st id with
          | Some ob => '(a, k) <- eval_args t env ;;
                       ret (a, fold_left (fun acc kv => add_first (fst kv) (snd kv) acc) k (opairs ob))
          | None => unsup "dangling object"
          end
      | _ => s <- insp o ;; tyerr ("cannot use `**` unpacking for `" ++ s ++ "`")
      end
  | EPrefix "*" e :: t =>
      v <- ev e env ;;
      st <- get_st ;;
      match as_arr W st v with
      | Some (_, l) => '(a, k) <- eval_args t env ;; ret ((l ++ a)%list, k)
      | None => s <- insp v ;; tyerr ("cannot use `*` unpacking for `" ++ s ++ "`")
      end
  | e :: t => v <- ev e env ;; '(a, k) <- eval_args t env ;; ret (v :: a, k)
  end.

(* evalKwargs: keyword arguments in source order, first occurrence wins *)
Fixpoint eval_kwargs (ks : list (string * expr)) (env : nat) (acc : kwargs_t) : M kwargs_t :=
  match ks with
  | [] => ret acc
  | (k, e) :: t => v <- ev e env ;; eval_kwargs t env (add_first k v acc)
  end.

Definition eval_recv (recv : option expr) (env : nat) : M val :=
  match recv with
  | Some e => ev e env
  | None => st <- get_st ;;
            match env_get st env "\1" with
            | Some v => ret v
            | None => raise "NameErr" "name `\1` is not defined"
            end
  end.

Definition eval_callable (k : fkind) (fc : funcomp) (env : nat) : M val :=
  match fc with
  | FC params kwparams body code =>
      kw <- eval_kwargs kwparams env [] ;;
      e <- alloc_frame [] (Some env) ;;
      alloc_clo (mkclo k params kw body code e)
  end.

Fixpoint eval_obj_pairs (ps : list (pkey * expr)) (env : nat) (acc : list (string * val)) : M (list (string * val)) :=
  match ps with
  | [] => ret acc
  | (k, e) :: t =>
      v <- ev e env ;;
      kv <- match k with
            | KIdent x => ret (vStr x)
            | KPinned x => st <- get_st ;;
                           match env_get st env x with
                           | Some (VErrObj ek em) => raise ek em
                           | Some kv => match as_str W st kv with
                                        | Some (p, s) => ret (VStr p s)
                                        | None => tyerr "key of obj must be str" end
                           | None => raise "NameErr" ("name `" ++ x ++ "` is not defined")
                           end
            | KExpr ke => ev ke env
            end ;;
      st <- get_st ;;
      match as_str W st kv with
      | Some (_, s) => eval_obj_pairs t env (add_first s v acc)
      | None => s <- insp kv ;; tyerr ("cannot use `" ++ s ++ "` as Obj key.")
      end
  end.

Fixpoint eval_obj_emb (es : list expr) (env : nat) (acc : list (string * val)) : M (list (string * val)) :=
  match es with
  | [] => ret acc
  | e :: t =>
      v <- ev e env ;;
      match v with
      | VObj id => st <- get_st ;;
                   match get_obj st id with
                   | Some o => eval_obj_emb t env (fold_left (fun a kv => add_first (fst kv) (snd kv) a) (opairs o) acc)
                   | None => unsup "dangling object"
                   end
      | _ => s <- insp v ;; tyerr ("cannot use `**` unpacking for `" ++ s ++ "`")
      end
  end.

(* map literal: (scalar pairs in order, non-scalar pairs de-duplicated with ==) *)
Definition add_map_pair (env : nat) (k v : val) (sc ns : list (val * val)) : M (list (val * val) * list (val * val)) :=
  if is_scalar k then ret (scalar_add_first k v sc, ns)
  else o <- ns_lookup env k ns ;;
       match o with Some _ => ret (sc, ns) | None => ret (sc, (ns ++ [(k, v)])%list) end.

Fixpoint eval_map_pairs (ps : list (pkey * expr)) (env : nat) (sc ns : list (val * val)) : M (list (val * val) * list (val * val)) :=
  match ps with
  | [] => ret (sc, ns)
  | (k, e) :: t =>
      v <- ev e env ;;
      kv <- match k with
            | KIdent x => ev (EIdent x) env
            | KPinned x => ev (EIdent x) env
            | KExpr ke => ev ke env
            end ;;
      '(sc', ns') <- add_map_pair env kv v sc ns ;;
      eval_map_pairs t env sc' ns'
  end.

Fixpoint add_map_pairs (env : nat) (l : list (val * val)) (sc ns : list (val * val)) : M (list (val * val) * list (val * val)) :=
  match l with
  | [] => ret (sc, ns)
  | (k, v) :: t => '(sc', ns') <- add_map_pair env k v sc ns ;; add_map_pairs env t sc' ns'
  end.

Fixpoint eval_map_emb (es : list expr) (env : nat) (sc ns : list (val * val)) : M (list (val * val) * list (val * val)) :=
  match es with
  | [] => ret (sc, ns)
  | e :: t =>
      v <- ev e env ;;
      match v with
      | VMap _ s n => '(sc', ns') <- add_map_pairs env (s ++ n)%list sc ns ;; eval_map_emb t env sc' ns'
      | VObj id => st <- get_st ;;
                   match get_obj st id with
                   | Some o =>
                       let ps := opairs o in
                       let ks := app (public_keys ps) (private_keys ps) in
                       let l := flat_map (fun k => match assoc k ps with Some x => [(vStr k, x)] | None => [] end) ks in
                       '(sc', ns') <- add_map_pairs env l sc ns ;; eval_map_emb t env sc' ns'
                   | None => unsup "dangling object"
                   end
      | _ => s <- insp v ;; tyerr ("cannot use `**` unpacking for `" ++ s ++ "`")
      end
  end.

Fixpoint eval_embstr (ps : list (string * expr)) (env : nat) : M string :=
  match ps with
  | [] => ret ""
  | (s, e) :: t =>
      v <- ev e env ;;
      sv <- callprop env v "S" [] [] ;;
      st <- get_st ;;
      match as_str W st sv with
      | Some (_, x) => rest <- eval_embstr t env ;; ret (s ++ x ++ rest)
      | None => raise "ValueErr" ".S must return str"
      end
  end.

Definition prefix_name (op : string) : string :=
  if String.eqb op "+" then "+%" else if String.eqb op "-" then "-%" else op.

Fixpoint eval_arr_elems (es : list expr) (env : nat) : M (list val) :=
  match es with
  | [] => ret []
  | EPrefix "*" e :: t =>
      v <- ev e env ;;
      st <- get_st ;;
      match as_arr W st v with
      | Some (_, l) => r <- eval_arr_elems t env ;; ret (l ++ r)%list
      | None => s <- insp v ;; tyerr ("cannot use `*` unpacking for `" ++ s ++ "`")
      end
  | e :: t => v <- ev e env ;; r <- eval_arr_elems t env ;; ret (v :: r)
  end.

Definition eval_expr (e : expr) (env : nat) : M val :=
  match e with
  | EInt z => ret (vInt z)
  | EFloat b t => ret (VFloat b t)
  | EStr s | ESym s => ret (vStr s)
  | ERange a b c =>
      x <- eval_opt a env ;; y <- eval_opt b env ;; z <- eval_opt c env ;;
      ret (VRange (wkv W "Range") x y z)
  | EArr es => l <- eval_arr_elems es env ;; ret (vArr l)
  | EObj ps emb =>
      p1 <- eval_obj_pairs ps env [] ;;
      p2 <- eval_obj_emb emb env p1 ;;
      new_obj_literal p2
  | EMap ps emb =>
      '(sc, ns) <- eval_map_pairs ps env [] [] ;;
      '(sc', ns') <- eval_map_emb emb env sc ns ;;
      ret (VMap (wkv W "Map") sc' ns')
  | EFunc fc => eval_callable KFunc fc env
  | EIter fc => eval_callable KIter fc env
  | EDiamond => unsup "diamond"
  | EIdent x =>
      st <- get_st ;;
      match env_get st env x with
      | Some (VErrObj k m) => raise k m
      | Some v => ret v
      | None => raise "NameErr" ("name `" ++ x ++ "` is not defined")
      end
  | EAssign x e1 => v <- ev e1 env ;; _ <- env_set env x v ;; ret v
  | EIf c t el =>
      cv <- ev c env ;;
      b <- is_truthy env cv ;;
      if b then ev t env
      else match el with Some e2 => ev e2 env | None => ret vNil end
  | EEmbStr ps latter => s <- eval_embstr ps env ;; ret (vStr (s ++ latter))
  | EPrefix op e1 =>
      if String.eqb op "*" then raise "SyntaxErr" "cannot use `*` unpacking outside of Arr."
      else v <- ev e1 env ;; callprop env v (prefix_name op) [] []
  | EInfix op l r =>
      if String.eqb op "||" then
        lv <- ev l env ;; t <- truthy_via_B env lv ;; if t then ret lv else ev r env
      else if String.eqb op "&&" then
        lv <- ev l env ;; t <- truthy_via_B env lv ;; if negb t then ret lv else ev r env
      else
        lv <- ev l env ;; rv <- ev r env ;; callprop env lv op [rv] []
  | EPropCall add main carg recv prop args kwargs =>
      rv <- eval_recv recv env ;;
      ca <- eval_opt carg env ;;
      '(a, uk) <- eval_args args env ;;
      k <- eval_kwargs kwargs env [] ;;
      let kw := fold_left (fun acc kv => add_first (fst kv) (snd kv) acc) uk k in
      prop_chain env add main ca rv prop a kw
  | ELitCall add main carg recv fc =>
      rv <- eval_recv recv env ;;
      f <- eval_callable KFunc fc env ;;
      ca <- eval_opt carg env ;;
      lit_chain env add main ca rv f
  | EVarCall add main carg recv x =>
      rv <- eval_recv recv env ;;
      f <- ev (EIdent x) env ;;
      ca <- eval_opt carg env ;;
      lit_chain env add main ca rv f
  | EUnsup w => unsup w
  end.

(* ---- statements ---------------------------------------------------------------------- *)
Inductive sres := SVal (v : val) | SRet (v : val) | SYield (v : val) | SDefer (e : expr).

Definition eval_jump (j : jump) (e : expr) (env : nat) : M sres :=
  match j with
  | JDefer => ret (SDefer e)
  | JReturn => v <- ev e env ;; ret (SRet v)
  | JYield => v <- ev e env ;; ret (SYield v)
  | JRaise => v <- ev e env ;;
              match v with
              | VErrW k m => raise k m
              | _ => ret (SRet v)
              end
  end.

Definition eval_stmt (s : stmt) (env : nat) : M sres :=
  match s with
  | SExpr e => v <- ev e env ;; ret (SVal v)
  | SJump j e => eval_jump j e env
  | SJumpIf j e c =>
      cv <- ev c env ;;
      b <- is_truthy env cv ;;
      if b then eval_jump j e env
      else match j with
           | JYield => raise "StopIterErr" "iter stopped"
           | _ => ret (SVal vNil)
           end
  end.

(* _evalStmts: value, remembered first yield, collected defers *)
Fixpoint run_stmts (ss : list stmt) (env : nat) (last : val) (yielded : option val)
         (defers : list expr) : state -> (res val * list expr) * state :=
  fun st =>
  match ss with
  | [] => ((Ok (match yielded with Some y => y | None => last end), defers), st)
  | s :: t =>
      match eval_stmt s env st with
      | (Ok (SVal v), st') => run_stmts t env v yielded defers st'
      | (Ok (SRet v), st') => ((Ok v, defers), st')
      | (Ok (SYield v), st') =>
          run_stmts t env v (match yielded with Some y => Some y | None => Some v end) defers st'
      | (Ok (SDefer e), st') => run_stmts t env vNil yielded (defers ++ [e])%list st'
      | (Er k m, st') => ((Er k m, defers), st')
      | (Fuel, st') => ((Fuel, defers), st')
      | (Unsup w, st') => ((Unsup w, defers), st')
      end
  end.

Fixpoint run_defers (ds : list expr) (env : nat) : M unit :=
  match ds with
  | [] => ret tt
  | d :: t => _ <- ev d env ;; run_defers t env
  end.

(* evalStmts *)
Definition eval_body (ss : list stmt) (env : nat) : M val :=
  fun st =>
  match run_stmts ss env vNil None [] st with
  | ((Fuel, _), st') => (Fuel, st')
  | ((Unsup w, _), st') => (Unsup w, st')
  | ((r, ds), st') =>
      match run_defers ds env st' with
      | (Ok _, st'') => (r, st'')
      | (Er k m, st'') => (Er k m, st'')
      | (Fuel, st'') => (Fuel, st'')
      | (Unsup w, st'') => (Unsup w, st'')
      end
  end.

Definition level_step : recs :=
  {| r_expr := eval_expr; r_body := eval_body; r_callprop := call_prop; r_callval := call_value |}.

End Level.

Definition bottom : recs :=
  {| r_expr := fun _ _ => nofuel; r_body := fun _ _ => nofuel;
     r_callprop := fun _ _ _ _ _ => nofuel; r_callval := fun _ _ _ _ => nofuel |}.

Fixpoint level (n : nat) : recs :=
  match n with
  | O => bottom
  | S k => level_step (level k) n
  end.

(* run a program (list of top-level statements) in a fresh scope enclosed in frame [outer] *)
Definition run_program (fuel : nat) (prog : list stmt) (outer : nat) : M val :=
  e <- alloc_frame [] (Some outer) ;;
  r_body (level fuel) prog e.

End Interp.
