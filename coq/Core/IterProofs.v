(* C14: iterator protocol. Equations for new / next / recur / _iter and the facts
   that make iterators independent: `new` and `_iter` give the iterator a frame of
   its own that did not exist before; `next` runs the body in that frame; `recur`
   replaces only that iterator's frame; chains iterate a copy. *)
From Coq Require Import ZArith String List Bool Arith Lia.
From PanVerif Require Import Core.Syntax Core.Values Core.Interp Core.FailStopProofs Core.DeferProofs
     Core.TruthyProofs Core.FrameLocality.
Import ListNotations.

Section Iter.
Variable W : wk.
Variable R : recs.
Variable env : nat.

Lemma as_func_self st fid c : nth_error (funcs st) fid = Some c -> as_func W st (VFunc fid) = Some fid.
Proof.
  intros H. unfold as_func, trace, chain_fuel.
  replace (length (heap st) + 16) with (S (length (heap st) + 15)) by lia.
  cbn [trace_fuel proto_of]. rewrite H. reflexivity.
Qed.

(* new: a fresh frame (outer = where the literal was written), the arguments bound in it,
   a fresh iterator value around it; the generator itself is not touched *)
Lemma iter_new_spec st fid c rest kwargs :
  nth_error (funcs st) fid = Some c -> as_biter W st (VFunc fid) = None ->
  call_builtin W R env B_Iter_new (VFunc fid :: rest) kwargs st =
  (o <- frame_outer (cenv c) ;;
   e <- alloc_frame [] o ;;
   _ <- bind_args W e (cparams c) (ckw c) rest kwargs ;;
   alloc_clo (mkclo KIter (cparams c) (ckw c) (cbody c) (ccode c) e)) st.
Proof.
  intros H Hb. cbn [call_builtin]. unfold bind at 1, get_st. rewrite Hb, (as_func_self _ _ _ H).
  unfold bind at 1, get_clo. rewrite H. reflexivity.
Qed.

(* next: `recur` is (re)bound in the iterator's own frame and the body is evaluated there, once *)
Lemma iter_next_spec fid rest kwargs st :
  call_builtin W R env B_Iter_next (VFunc fid :: rest) kwargs st =
  (c <- get_clo fid ;;
   _ <- env_set (cenv c) "recur" (VBuiltin (B_Recur fid)) ;;
   r_body R (cbody c) (cenv c)) st.
Proof. reflexivity. Qed.

(* recur: a fresh frame with the new arguments replaces the frame of THIS iterator only *)
Lemma recur_spec fid args kwargs st :
  call_builtin W R env (B_Recur fid) args kwargs st =
  (c <- get_clo fid ;;
   o <- frame_outer (cenv c) ;;
   e <- alloc_frame [] o ;;
   _ <- bind_args W e (cparams c) (ckw c) args kwargs ;;
   _ <- set_clo_env fid e ;;
   ret (vNil W)) st.
Proof. reflexivity. Qed.

Lemma set_clo_env_only_that_iterator fid e st u st' :
  set_clo_env fid e st = (Ok u, st') ->
  (forall g, g <> fid -> nth_error (funcs st') g = nth_error (funcs st) g) /\
  frames st' = frames st /\ heap st' = heap st.
Proof.
  unfold set_clo_env. intros H. destruct (nth_error (funcs st) fid) as [c|]; inversion H; subst; cbn; [|auto].
  split; [|auto]. intros g N. apply ScopeProofs.nth_error_upd_other. congruence.
Qed.

(* _iter on an iterator literal: a copy with a frame of its own; the original is not advanced by
   whatever is done to the copy (list / reduce chains and A iterate `_iter` of their receiver) *)
Lemma iter_copy_spec st fid c args kwargs :
  nth_error (funcs st) fid = Some c -> ckind c = KIter ->
  call_builtin W R env B_Iter_iter (VFunc fid :: args) kwargs st =
  (e <- copy_frame (cenv c) ;; alloc_clo (mkclo KIter (cparams c) (ckw c) (cbody c) (ccode c) e)) st.
Proof.
  intros H K. cbn [call_builtin arg0 nth_error need]. unfold bind at 1, ret at 1.
  unfold bind at 1, get_st. rewrite (as_func_self _ _ _ H).
  unfold bind at 1, get_clo. rewrite H, K. reflexivity.
Qed.

Lemma chains_iterate_iter_of_receiver fuel add ca recv name args kw st :
  prop_chain W R fuel env add ListC ca recv name args kw st =
  (it <- iter_of W R env recv ;;
   els <- list_loop fuel (real_next R env it) tt
            (match add with Strict | Thoughtful => true | _ => false end)
            (additional add (fun r => prop_base W R env name kw r args)) [] ;;
   finish_list W R env ca kw els) st.
Proof. reflexivity. Qed.

Lemma iter_of_is_iter_prop recv st :
  iter_of W R env recv st =
  (it <- r_callprop R env recv "_iter" [] [] ;;
   if is_builtin_nil W it then raise "TypeErr" "recv must have prop `_iter`" else ret it) st.
Proof. reflexivity. Qed.

(* the first yield of a body is its value; the statements after it still run (that is how
   `recur` after `yield` takes effect) *)
Lemma first_yield_wins last (y0 v : val) ds :
  finish (Fell last (match Some y0 with Some y => Some y | None => Some v end) ds) = (Ok y0, ds).
Proof. reflexivity. Qed.

Lemma yield_continues e t envb last y ds st v st1 :
  eval_stmt W R (SJump JYield e) envb st = (Ok (SYield v), st1) ->
  run_prefix W R (SJump JYield e :: t) envb last y ds st =
  run_prefix W R t envb v (match y with Some y0 => Some y0 | None => Some v end) ds st1.
Proof. intros H. cbn [run_prefix]. now rewrite H. Qed.

End Iter.
