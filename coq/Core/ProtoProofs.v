(* C05: property resolution follows the prototype chain. *)
From Coq Require Import ZArith String List Bool Arith Lia.
From PanVerif Require Import Core.Syntax Core.Values Core.Interp Core.FailStopProofs.
Import ListNotations.

Section Proto.
Variable W : wk.

(* the chain of an object: itself, its prototype, ... (as far as the fuel reaches; the
   last element is BaseObj, the only object without a prototype) *)
Fixpoint chain_of (fuel : nat) (st : state) (v : val) : list val :=
  match fuel with
  | O => []
  | S f => v :: match proto_of W st v with Some p => chain_of f st p | None => [] end
  end.

(* the first element of a list that owns the name *)
Fixpoint first_owner (st : state) (n : string) (l : list val) : option (val * val) :=
  match l with
  | [] => None
  | o :: t => match own_prop st o n with Some p => Some (p, o) | None => first_owner st n t end
  end.

(* resolve_first: the search returns the value held by the FIRST object of the chain that
   owns the name, together with that owner; objects further up are not consulted *)
Theorem find_prop_is_first_on_chain fuel st v n :
  find_prop_fuel W fuel st v n = first_owner st n (chain_of fuel st v).
Proof.
  revert v. induction fuel as [|f IH]; intros v; cbn [find_prop_fuel chain_of first_owner]; [reflexivity|].
  destruct (own_prop st v n); [reflexivity|].
  destruct (proto_of W st v); [apply IH|reflexivity].
Qed.

Lemma first_owner_spec st n l p o :
  first_owner st n l = Some (p, o) <->
  exists l1 l2, l = l1 ++ o :: l2 /\ own_prop st o n = Some p /\ Forall (fun x => own_prop st x n = None) l1.
Proof.
  split.
  - revert p o. induction l as [|x t IH]; intros p o H; cbn [first_owner] in H; [discriminate|].
    destruct (own_prop st x n) eqn:E.
    + inversion H; subst. exists [], t. repeat split; auto.
    + destruct (IH _ _ H) as (l1 & l2 & -> & Ho & Hf). exists (x :: l1), l2. repeat split; auto.
  - intros (l1 & l2 & -> & Ho & Hf). induction Hf as [|x t Hx Ht IH]; cbn [app first_owner].
    + now rewrite Ho.
    + now rewrite Hx.
Qed.

(* which / indexing by symbol use the same walk *)
Lemma which_agrees st v n : find_owner W st v n = option_map snd (find_prop_fuel W (chain_fuel st) st v n).
Proof. reflexivity. Qed.
Lemma find_agrees st v n : find_prop W st v n = option_map fst (find_prop_fuel W (chain_fuel st) st v n).
Proof. reflexivity. Qed.

Lemma owner_owns st v n o :
  find_owner W st v n = Some o -> exists p, own_prop st o n = Some p /\ find_prop W st v n = Some p.
Proof.
  unfold find_owner, find_prop. rewrite find_prop_is_first_on_chain.
  destruct (first_owner st n (chain_of (chain_fuel st) st v)) as [[p o']|] eqn:E; cbn; [|discriminate].
  intros H. inversion H; subst. exists p. split; [|reflexivity].
  apply first_owner_spec in E. destruct E as (l1 & l2 & _ & Ho & _). exact Ho.
Qed.

(* o.name: the property if some chain element owns it; else the first _missing (same walk),
   called with the name first; else NoPropErr *)
Variable R : recs.
Lemma resolution_order name recv st :
  eval_prop W name recv st =
  match find_prop W st recv name with
  | Some (VErrObj k m) => (Er k m, st)
  | Some p => (Ok (p, false), st)
  | None => match find_prop W st recv "_missing" with
            | Some m => (Ok (m, true), st)
            | None => (Er "NoPropErr" ("property `" ++ name ++ "` is not defined."), st)
            end
  end.
Proof.
  unfold eval_prop, bind, get_st. destruct (find_prop W st recv name) as [[]|]; try reflexivity.
  destruct (find_prop W st recv "_missing"); reflexivity.
Qed.

Lemma missing_gets_name_first env name kw recv args st m :
  eval_prop W name recv st = (Ok (m, true), st) ->
  prop_base W R env name kw recv args st = eval_call R env recv m (vStr W name :: args) kw st.
Proof. intros H. unfold prop_base. now rewrite (bind_ok _ _ _ _ _ H). Qed.

(* a non-callable property is returned as it is, the arguments are ignored *)
Lemma noncallable_returned env recv p args kw st :
  (forall b, p <> VBuiltin b) -> (forall f, p <> VFunc f) ->
  eval_call R env recv p args kw st = (Ok p, st).
Proof. intros Hb Hf. destruct p; try reflexivity; [now elim (Hf id)|now elim (Hb b)]. Qed.

(* a callable property is invoked with the receiver as the first argument (built-in, function);
   an iterator literal held as a property is returned, not run *)
Lemma callable_gets_receiver_first env recv args kw st :
  (forall b, eval_call R env recv (VBuiltin b) args kw st = r_callval R env (VBuiltin b) (recv :: args) kw st) /\
  (forall fid c, nth_error (funcs st) fid = Some c -> ckind c = KFunc ->
     eval_call R env recv (VFunc fid) args kw st = r_callval R env (VFunc fid) (recv :: args) kw st) /\
  (forall fid c, nth_error (funcs st) fid = Some c -> ckind c = KIter ->
     eval_call R env recv (VFunc fid) args kw st = (Ok (VFunc fid), st)).
Proof.
  repeat split.
  - intros fid c H K. cbn [eval_call]. unfold bind, get_clo. rewrite H, K. reflexivity.
  - intros fid c H K. cbn [eval_call]. unfold bind, get_clo. rewrite H, K. reflexivity.
Qed.

(* bear: the child's prototype is the receiver and its own properties are those of the source *)
Lemma bear_spec env proto sid src kw st :
  get_obj st sid = Some src ->
  exists z, call_builtin W R env B_Base_bear [proto; VObj sid] kw st =
    (Ok (VObj (length (heap st))),
     {| heap := heap st ++ [{| oproto := Some proto; ozero := z; opairs := opairs src |}];
        frames := frames st; funcs := funcs st; biters := biters st; out := out st; inp := inp st |}).
Proof.
  intros G. cbn [call_builtin arg0 nth_error need]. unfold bind at 1, ret at 1.
  unfold bind at 1, with_st. unfold bear_with. cbn [arg1 nth_error].
  unfold bind, get_st. rewrite G. unfold alloc_obj. eexists.
  destruct proto; reflexivity.
Qed.

(* keys / values / items list the receiver's OWN pairs only (sorted public names, private
   ones after them only on request): nothing inherited *)
Lemma listing_uses_own_pairs self id rec p st :
  self = VObj id -> get_obj st id = Some rec -> oproto rec = Some p ->
  own_pairs W self st = (Ok (Some (opairs rec)), st).
Proof.
  intros -> G P. unfold own_pairs, bind, get_st, ret.
  assert (as_obj W st (VObj id) = Some id) as A.
  { unfold as_obj, trace, chain_fuel. replace (length (heap st) + 16) with (S (length (heap st) + 15)) by lia.
    cbn [trace_fuel proto_of]. rewrite G, P. reflexivity. }
  now rewrite A, G.
Qed.

Lemma keys_from_own_pairs self kw f st ps :
  own_pairs W self st = (Ok (Some ps), st) ->
  obj_listing W self kw f st =
  (Ok (vArr W (flat_map (fun k => match assoc k ps with Some v => [f k v] | None => [] end)
                  (public_keys ps ++ (if kw_true kw "private?" then private_keys ps else [])))), st).
Proof. intros H. unfold obj_listing. rewrite (bind_ok _ _ _ _ _ H). reflexivity. Qed.
End Proto.
