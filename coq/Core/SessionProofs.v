(* C19: what an earlier program can leave behind. For EVERY list of earlier programs
   (each run in a fresh scope enclosed in the global one, failing ones included): the
   global scope is exactly as it was, every object that existed (all built-in objects
   with their properties, prototype links and zero values) is exactly as it was, and no
   closure ever owns the global frame. *)
From Coq Require Import ZArith String List Bool Arith Lia.
From PanVerif Require Import Core.Syntax Core.Values Core.Interp Core.FrameLocality.
Import ListNotations.

(* run the programs one after the other in one interpreter, each in its own fresh scope *)
Fixpoint run_history (W : wk) (fuel : nat) (hs : list (list stmt)) (st : state) : state :=
  match hs with
  | [] => st
  | h :: t => run_history W fuel t (snd (run_program W fuel h 0 st))
  end.

Lemma okm_run_program W fuel prog n env : okm n env (run_program W fuel prog 0).
Proof.
  unfold run_program. apply okm_alloc_frame_bind. intros e He.
  intros s r0 s' Hn H0. eapply ext_weaken_fresh; [exact He|].
  destruct (okR_level W fuel) as [_ [Hb _]]. eapply Hb; eauto.
Qed.

Theorem history_preserves_world W fuel hs : forall st,
  1 <= length (frames st) -> ~ clof st 0 ->
  let st' := run_history W fuel hs st in
  nth_error (frames st') 0 = nth_error (frames st) 0 /\
  (forall id o, nth_error (heap st) id = Some o -> nth_error (heap st') id = Some o) /\
  ~ clof st' 0 /\ 1 <= length (frames st').
Proof.
  induction hs as [|h t IH]; intros st L C; cbn [run_history].
  - repeat split; auto.
  - destruct (run_program W fuel h 0 st) as [r s1] eqn:E. cbn [snd].
    (* the fresh scope of the program is frame (length (frames st)) >= 1 *)
    assert (ext 1 (length (frames st)) st s1) as X.
    { eapply (okm_run_program W fuel h 1 (length (frames st))); eauto. }
    destruct X as [XL XS XC XH].
    assert (~ clof s1 0) as C1 by (intro Y; apply C; apply XC; [lia|exact Y]).
    assert (1 <= length (frames s1)) as L1 by lia.
    destruct (IH s1 L1 C1) as (F & Hh & C2 & L2).
    repeat split.
    + rewrite F. apply XS; [lia|lia|exact C].
    + intros id o Ho. apply Hh, XH, Ho.
    + exact C2.
    + exact L2.
Qed.
