(* C19: what an earlier program can leave behind. For EVERY list of earlier programs
   (each run in a fresh scope enclosed in the global one, failing ones included): the
   global scope is exactly as it was, every object that existed (all built-in objects
   with their properties, prototype links and zero values) is exactly as it was, and no
   closure ever owns the global frame. *)
From Coq Require Import ZArith String List Bool Arith Lia.
From PanVerif Require Import Core.Syntax Core.Values Core.Interp Core.FrameLocality.
Import ListNotations.

(* run the programs one after the other in one interpreter, each in its own fresh scope *)
Fixpoint run_history (W : wk) (fuel : nat) (hs : list (list stmt)) (st : state) : state :=
  match hs with
  | [] => st
  | h :: t => run_history W fuel t (snd (run_program W fuel h 0 st))
  end.

Lemma okm_run_program W fuel prog n env : okm n env (run_program W fuel prog 0).
Proof.
  unfold run_program. apply okm_alloc_frame_bind. intros e He.
  intros s r0 s' Hn H0. eapply ext_weaken_fresh; [exact He|].
  destruct (okR_level W fuel) as [_ [Hb _]]. eapply Hb; eauto.
Qed.

Theorem history_preserves_world W fuel hs : forall st,
  1 <= length (frames st) -> ~ clof st 0 ->
  let st' := run_history W fuel hs st in
  nth_error (frames st') 0 = nth_error (frames st) 0 /\
  (forall id o, nth_error (heap st) id = Some o -> nth_error (heap st') id = Some o) /\
  ~ clof st' 0 /\ 1 <= length (frames st').
Proof.
  induction hs as [|h t IH]; intros st L C; cbn [run_history].
  - repeat split; auto.
  - destruct (run_program W fuel h 0 st) as [r s1] eqn:E. cbn [snd].
    (* the fresh scope of the program is frame (length (frames st)) >= 1 *)
    assert (ext 1 (length (frames st)) st s1) as X.
    { eapply (okm_run_program W fuel h 1 (length (frames st))); eauto. }
    destruct X as [XL XS XC XH].
    assert (~ clof s1 0) as C1 by (intro Y; apply C; apply XC; [lia|exact Y]).
    assert (1 <= length (frames s1)) as L1 by lia.
    destruct (IH s1 L1 C1) as (F & Hh & C2 & L2).
    repeat split.
    + rewrite F. apply XS; [lia|lia|exact C].
    + intros id o Ho. apply Hh, XH, Ho.
    + exact C2.
    + exact L2.
Qed.

(* ---- what the next program sees ------------------------------------------------------------
   The next program starts in a fresh, empty scope enclosed in the global one. Every name it looks
   up there resolves, at that moment, exactly as in the global scope of the interpreter before the
   history ran: earlier programs' variables are not on its lookup chain, and the global scope has
   not changed. *)
Lemma env_get_fuel_global st x fr f :
  nth_error (frames st) 0 = Some fr -> fouter fr = None ->
  env_get_fuel (S f) st 0 x = assoc x (fstore fr).
Proof.
  intros H0 Ho. cbn [env_get_fuel]. rewrite H0. destruct (assoc x (fstore fr)); [reflexivity|]. now rewrite Ho.
Qed.

Lemma fresh_scope_resolves_in_global st x fr :
  nth_error (frames st) 0 = Some fr -> fouter fr = None ->
  let '(r, st1) := alloc_frame [] (Some 0) st in
  match r with Ok e => env_get st1 e x = assoc x (fstore fr) | _ => False end.
Proof.
  intros H0 Ho. unfold alloc_frame.
  assert (1 <= length (frames st)) as L.
  { destruct (frames st); [discriminate|cbn; lia]. }
  set (nf := {| fstore := []; fouter := Some 0 |}).
  set (st1 := {| heap := heap st; frames := (frames st ++ [nf])%list; funcs := funcs st;
                 biters := biters st; out := out st; inp := inp st |}).
  unfold env_get.
  assert (length (frames st1) = S (length (frames st))) as E1.
  { unfold st1. cbn [frames]. rewrite app_length. cbn [length]. lia. }
  rewrite E1.
  assert (nth_error (frames st1) (length (frames st)) = Some nf) as En.
  { unfold st1. cbn [frames]. rewrite nth_error_app2 by lia. now rewrite Nat.sub_diag. }
  assert (nth_error (frames st1) 0 = Some fr) as E0.
  { unfold st1. cbn [frames]. rewrite nth_error_app1 by lia. exact H0. }
  change (env_get_fuel (S (S (length (frames st)))) st1 (length (frames st)) x) with
    (match nth_error (frames st1) (length (frames st)) with
     | None => None
     | Some fr0 => match assoc x (fstore fr0) with
                   | Some v => Some v
                   | None => match fouter fr0 with
                             | Some o => env_get_fuel (S (length (frames st))) st1 o x
                             | None => None
                             end
                   end
     end).
  rewrite En. unfold nf. cbn [fstore assoc fouter].
  apply env_get_fuel_global; assumption.
Qed.

Theorem next_program_sees_the_original_globals W fuel hs st x fr :
  nth_error (frames st) 0 = Some fr -> fouter fr = None -> ~ clof st 0 ->
  let st' := run_history W fuel hs st in
  let '(r, st1) := alloc_frame [] (Some 0) st' in
  match r with Ok e => env_get st1 e x = assoc x (fstore fr) | _ => False end.
Proof.
  intros H0 Ho C st'.
  assert (1 <= length (frames st)) as L.
  { destruct (frames st); [discriminate|cbn; lia]. }
  destruct (history_preserves_world W fuel hs st L C) as (F & _ & _ & _).
  apply fresh_scope_resolves_in_global; [|exact Ho]. fold st' in F. rewrite F. exact H0.
Qed.
