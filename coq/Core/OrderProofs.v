(* C08: left-to-right, exactly-once evaluation and independence from hash-table
   iteration order. *)
From Coq Require Import ZArith String List Bool Arith Lia Permutation.
From PanVerif Require Import Core.Syntax Core.Values Core.Interp Core.DeferProofs Core.FailStopProofs.
Import ListNotations.

Lemma str_app_assoc (a b c : string) : ((a ++ b) ++ c = a ++ (b ++ c))%string.
Proof. induction a as [|x a IH]; cbn; [reflexivity|now rewrite IH]. Qed.

Lemma bind_ret_r {A} (m : M A) st : bind m (fun a => ret a) st = m st.
Proof. unfold bind, ret. destruct (m st) as [[a| | |] s]; reflexivity. Qed.

(* ---- list-shaped constructs are evaluated left to right, each part once ---- *)
Section Order.
Variable W : wk.
Variable R : recs.
Variable fuel : nat.
Notation ev := (r_expr R).

(* array literal: evaluating es1 ++ es2 is evaluating es1, then es2 from the state
   es1 left, and appending the results — for every split, so every element is
   evaluated exactly once and in source order *)
Lemma arr_elems_app es1 : Forall plain es1 -> forall es2 env st,
  eval_arr_elems W R (es1 ++ es2) env st =
  (l1 <- eval_arr_elems W R es1 env ;; l2 <- eval_arr_elems W R es2 env ;; ret (l1 ++ l2)) st.
Proof.
  induction 1 as [|x t Px Pt IH]; intros es2 env st; cbn [app].
  - cbn [eval_arr_elems]. unfold bind at 1, ret at 1. cbn [app]. now rewrite bind_ret_r.
  - rewrite !plain_arr_elem by assumption. unfold bind, ret.
    destruct (ev x env st) as [[v| | |] s1]; try reflexivity.
    rewrite IH. unfold bind, ret.
    destruct (eval_arr_elems W R t env s1) as [[l1| | |] s2]; try reflexivity.
    destruct (eval_arr_elems W R es2 env s2) as [[l2| | |] s3]; reflexivity.
Qed.

(* positional arguments *)
Lemma args_app es1 : Forall plain es1 -> forall es2 env st,
  eval_args W R (es1 ++ es2) env st =
  ('(a1, k1) <- eval_args W R es1 env ;; '(a2, k2) <- eval_args W R es2 env ;;
   ret (a1 ++ a2, k2)) st.
Proof.
  induction 1 as [|x t Px Pt IH]; intros es2 env st; cbn [app].
  - cbn [eval_args]. unfold bind at 1, ret at 1. cbn [app]. unfold bind, ret.
    destruct (eval_args W R es2 env st) as [[[a k]| | |] s]; reflexivity.
  - rewrite !plain_arg by assumption. unfold bind, ret.
    destruct (ev x env st) as [[v| | |] s1]; try reflexivity.
    rewrite IH. unfold bind, ret.
    destruct (eval_args W R t env s1) as [[[a1 k1]| | |] s2]; try reflexivity.
    destruct (eval_args W R es2 env s2) as [[[a2 k2]| | |] s3]; reflexivity.
Qed.

(* keyword arguments, with first-occurrence-wins accumulation *)
Lemma kwargs_app ks1 : forall ks2 env acc st,
  eval_kwargs R (ks1 ++ ks2) env acc st =
  (a <- eval_kwargs R ks1 env acc ;; eval_kwargs R ks2 env a) st.
Proof.
  induction ks1 as [|[k e] t IH]; intros ks2 env acc st; cbn [app eval_kwargs].
  - reflexivity.
  - unfold bind, Interp.ev in IH |- *.
    destruct (ev e env st) as [[v| | |] s1]; try reflexivity.
    apply IH.
Qed.

(* interpolated parts of a string *)
Lemma embstr_app ps1 : forall ps2 env st,
  eval_embstr W R (ps1 ++ ps2) env st =
  (s1 <- eval_embstr W R ps1 env ;; s2 <- eval_embstr W R ps2 env ;; ret (s1 ++ s2)%string) st.
Proof.
  induction ps1 as [|[s e] t IH]; intros ps2 env st; cbn [app eval_embstr].
  - unfold bind at 1, ret at 1. cbn. now rewrite bind_ret_r.
  - unfold bind, ret, Interp.ev, callprop, get_st in IH |- *.
    destruct (ev e env st) as [[v| | |] s1]; try reflexivity.
    destruct (r_callprop R env v "S" [] [] s1) as [[sv| | |] s2]; try reflexivity.
    destruct (as_str W s2 sv) as [[p x]|]; [|reflexivity].
    rewrite IH.
    destruct (eval_embstr W R t env s2) as [[r1| | |] s3]; try reflexivity.
    destruct (eval_embstr W R ps2 env s3) as [[r2| | |] s4]; try reflexivity.
    now rewrite !str_app_assoc.
Qed.

(* infix operators: left operand, then right operand, then the operator *)
Lemma infix_order op l r env st :
  String.eqb op "||" = false -> String.eqb op "&&" = false ->
  eval_expr W R fuel (EInfix op l r) env st =
  (lv <- ev l env ;; rv <- ev r env ;; r_callprop R env lv op [rv] []) st.
Proof. intros H1 H2. cbn [eval_expr]. now rewrite H1, H2. Qed.

(* range: start, stop, step *)
Lemma range_order a b c env st :
  eval_expr W R fuel (ERange a b c) env st =
  (x <- eval_opt W R a env ;; y <- eval_opt W R b env ;; z <- eval_opt W R c env ;;
   ret (VRange (wkv W "Range") x y z)) st.
Proof. reflexivity. Qed.

(* property call: receiver, chain argument, positional arguments, keyword arguments *)
Lemma propcall_order add main carg recv prop args kwargs env st :
  eval_expr W R fuel (EPropCall add main carg recv prop args kwargs) env st =
  (rv <- eval_recv R recv env ;;
   ca <- eval_opt W R carg env ;;
   '(a, uk) <- eval_args W R args env ;;
   k <- eval_kwargs R kwargs env [] ;;
   prop_chain W R fuel env add main ca rv prop a
     (fold_left (fun acc kv => add_first (fst kv) (snd kv) acc) uk k)) st.
Proof. reflexivity. Qed.

End Order.

(* ---- first occurrence wins ---------------------------------------------------- *)
Lemma assoc_add_first_same {A} k (v : A) l :
  assoc k (add_first k v l) = match assoc k l with Some x => Some x | None => Some v end.
Proof.
  unfold add_first. destruct (assoc k l) eqn:E; [exact E|].
  induction l as [|[k' v'] t IH]; cbn [app assoc].
  - now rewrite String.eqb_refl.
  - cbn [assoc] in E. destruct (String.eqb k k'); [discriminate|]. now apply IH.
Qed.

Lemma assoc_add_first_other {A} k k' (v : A) l :
  k <> k' -> assoc k' (add_first k v l) = assoc k' l.
Proof.
  intros N. unfold add_first. destruct (assoc k l); [reflexivity|].
  induction l as [|[k2 v2] t IH]; cbn [app assoc].
  - destruct (String.eqb_spec k' k); [congruence|reflexivity].
  - destruct (String.eqb k' k2); [reflexivity|exact IH].
Qed.

(* ---- independence from Go map iteration order ----------------------------------
   The implementation keeps keyword arguments (and object pairs) in Go maps, whose
   iteration order is arbitrary; it restores a canonical order by sorting on a key
   that is unique per entry (the identifier's source position, the property name).
   Whatever order the map hands the entries out in (any permutation), sorting
   yields the same list. *)
Section SortPerm.
Variable A : Type.
Variable key : A -> nat.

Fixpoint ins (x : A) (l : list A) : list A :=
  match l with
  | [] => [x]
  | y :: t => if key x <? key y then x :: y :: t else y :: ins x t
  end.
Definition isort (l : list A) : list A := fold_right ins [] l.

Inductive sorted : list A -> Prop :=
| sorted_nil : sorted []
| sorted_one x : sorted [x]
| sorted_cons x y t : key x < key y -> sorted (y :: t) -> sorted (x :: y :: t).

Lemma ins_perm x l : Permutation (ins x l) (x :: l).
Proof.
  induction l as [|y t IH]; cbn [ins]; [reflexivity|].
  destruct (key x <? key y); [reflexivity|].
  rewrite IH. apply perm_swap.
Qed.

Lemma isort_perm l : Permutation (isort l) l.
Proof. induction l as [|x t IH]; cbn [isort fold_right]; [reflexivity|]. rewrite ins_perm. now constructor. Qed.

Lemma ins_sorted x l : sorted l -> ~ In (key x) (map key l) -> sorted (ins x l).
Proof.
  induction 1 as [|y|y z t Hyz Hs IH]; intros Hn; cbn [ins].
  - constructor.
  - cbn in Hn. destruct (Nat.ltb_spec (key x) (key y)); constructor; try constructor; lia.
  - cbn [map In] in Hn.
    destruct (Nat.ltb_spec (key x) (key y)).
    + constructor; [assumption|]. now constructor.
    + assert (sorted (ins x (z :: t))) as S by (apply IH; cbn [map In]; tauto).
      cbn [ins] in S |- *. destruct (Nat.ltb_spec (key x) (key z)).
      * constructor; [lia|assumption].
      * constructor; assumption.
Qed.

Lemma isort_sorted l : NoDup (map key l) -> sorted (isort l).
Proof.
  induction l as [|x t IH]; cbn [isort fold_right map]; intros N; [constructor|].
  inversion N as [|? ? Hx Ht]; subst. apply ins_sorted; [now apply IH|].
  intros Hin. apply Hx. apply (Permutation_in (key x) (Permutation_map key (isort_perm t))). exact Hin.
Qed.

Lemma sorted_head_min x l : sorted (x :: l) -> forall y, In y l -> key x < key y.
Proof.
  revert x. induction l as [|z t IH]; intros x S y Hy; [contradiction|].
  inversion S as [| |? ? ? Hxz Hs]; subst. destruct Hy as [->|Hy]; [assumption|].
  specialize (IH z Hs y Hy). lia.
Qed.

Lemma sorted_perm_eq l1 : forall l2, sorted l1 -> sorted l2 -> Permutation l1 l2 -> l1 = l2.
Proof.
  induction l1 as [|x t IH]; intros l2 S1 S2 P.
  - apply Permutation_nil in P. now subst.
  - destruct l2 as [|y u]; [apply Permutation_sym, Permutation_nil in P; discriminate|].
    assert (x = y) as ->.
    { assert (In x (y :: u)) as Hx by (apply (Permutation_in _ P); now left).
      assert (In y (x :: t)) as Hy by (apply (Permutation_in _ (Permutation_sym P)); now left).
      destruct Hx as [E|Hx]; [now subst|]. destruct Hy as [E|Hy]; [now subst|].
      pose proof (sorted_head_min _ _ S1 _ Hy). pose proof (sorted_head_min _ _ S2 _ Hx). lia. }
    f_equal. apply IH.
    + inversion S1; subst; [constructor|assumption].
    + inversion S2; subst; [constructor|assumption].
    + now apply Permutation_cons_inv in P.
Qed.

(* the law: any two iteration orders of the same entries sort to the same list *)
Theorem sort_iteration_order_irrelevant l1 l2 :
  NoDup (map key l1) -> Permutation l1 l2 -> isort l1 = isort l2.
Proof.
  intros N P. apply sorted_perm_eq.
  - now apply isort_sorted.
  - apply isort_sorted. eapply Permutation_NoDup; [|exact N]. now apply Permutation_map.
  - rewrite (isort_perm l1), P. symmetry. apply isort_perm.
Qed.
End SortPerm.
