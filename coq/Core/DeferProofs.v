(* C15: laws of statement lists and deferred expressions, for every body and for
   an arbitrary lower level R (hence every expression evaluator). *)
From Coq Require Import ZArith String List Bool.
From PanVerif Require Import Core.Syntax Core.Values Core.Interp.
Import ListNotations.

Section DeferLaws.
Variable W : wk.
Variable R : recs.
Variable fuel : nat.

Notation eval_stmt := (eval_stmt W R).
Notation run_stmts := (run_stmts W R).
Notation run_defers := (run_defers R).
Notation eval_body := (eval_body W R).
Notation ev := (r_expr R).

(* How far a statement list got: fell off the end, or left through an exit. *)
Inductive status :=
| Fell (last : val) (yielded : option val) (defers : list expr)
| Exited (r : res val) (defers : list expr).

Fixpoint run_prefix (ss : list stmt) (env : nat) (last : val) (y : option val)
         (ds : list expr) (st : state) : status * state :=
  match ss with
  | [] => (Fell last y ds, st)
  | s :: t =>
      match eval_stmt s env st with
      | (Ok (SVal v), st') => run_prefix t env v y ds st'
      | (Ok (SRet v), st') => (Exited (Ok v) ds, st')
      | (Ok (SYield v), st') =>
          run_prefix t env v (match y with Some y0 => Some y0 | None => Some v end) ds st'
      | (Ok (SDefer e), st') => run_prefix t env (vNil W) y (ds ++ [e]) st'
      | (Er k m, st') => (Exited (Er k m) ds, st')
      | (Fuel, st') => (Exited Fuel ds, st')
      | (Unsup w, st') => (Exited (Unsup w) ds, st')
      end
  end.

Definition finish (s : status) : res val * list expr :=
  match s with
  | Fell last y ds => (Ok (match y with Some v => v | None => last end), ds)
  | Exited r ds => (r, ds)
  end.

Lemma run_stmts_prefix ss env last y ds st :
  run_stmts ss env last y ds st =
  (finish (fst (run_prefix ss env last y ds st)), snd (run_prefix ss env last y ds st)).
Proof.
  revert last y ds st. induction ss as [|s t IH]; intros last y ds st; cbn [Interp.run_stmts run_prefix].
  - reflexivity.
  - destruct (eval_stmt s env st) as [[[v|v|v|e]|k m| |w] st']; cbn [finish fst snd];
      try rewrite IH; reflexivity.
Qed.

(* Statements are run left to right; a list is run by running its first part and,
   only if that part fell off its end, the rest from the state it reached. *)
Lemma run_prefix_app ss1 ss2 env last y ds st :
  run_prefix (ss1 ++ ss2) env last y ds st =
  match run_prefix ss1 env last y ds st with
  | (Fell l' y' ds', st') => run_prefix ss2 env l' y' ds' st'
  | (Exited r ds', st') => (Exited r ds', st')
  end.
Proof.
  revert last y ds st. induction ss1 as [|s t IH]; intros last y ds st; cbn [app run_prefix].
  - reflexivity.
  - destruct (eval_stmt s env st) as [[[v|v|v|e]|k m| |w] st']; try apply IH; reflexivity.
Qed.

(* unreached_never_run: once a body has left through return / raise / a failing
   call, no statement written after that point (defers included) has any effect. *)
Lemma unreached_never_run ss1 ss2 env st r ds st' :
  run_prefix ss1 env (vNil W) None [] st = (Exited r ds, st') ->
  eval_body (ss1 ++ ss2) env st = eval_body ss1 env st.
Proof.
  intros H. unfold Interp.eval_body. rewrite !run_stmts_prefix, run_prefix_app, H. reflexivity.
Qed.

(* A defer statement does not evaluate its expression when reached; it appends it
   to the pending list (so the order of the list is the order of reaching). *)
Lemma defer_reached e env last y ds st :
  run_prefix [SJump JDefer e] env last y ds st = (Fell (vNil W) y (ds ++ [e]), st).
Proof. reflexivity. Qed.

(* guarded defer: the guard is evaluated; the expression is appended iff it is truthy *)
Lemma guarded_defer_reached e c env last y ds st cv st1 b st2 :
  ev c env st = (Ok cv, st1) -> is_truthy R env cv st1 = (Ok b, st2) ->
  run_prefix [SJumpIf JDefer e c] env last y ds st =
  (Fell (vNil W) y (if b then ds ++ [e] else ds), st2).
Proof.
  intros Hc Hb. cbn [run_prefix]. unfold Interp.eval_stmt, bind, Interp.ev. rewrite Hc, Hb.
  destruct b; reflexivity.
Qed.

(* The pending expressions are evaluated one after the other, each exactly once,
   stopping at the first that raises. *)
Lemma run_defers_cons d t env st :
  run_defers (d :: t) env st =
  match ev d env st with
  | (Ok _, st') => run_defers t env st'
  | (Er k m, st') => (Er k m, st')
  | (Fuel, st') => (Fuel, st')
  | (Unsup w, st') => (Unsup w, st')
  end.
Proof. cbn [Interp.run_defers]. unfold bind, Interp.ev. destruct (ev d env st) as [[v|k m| |w] st']; reflexivity. Qed.

Lemma run_defers_app d1 d2 env st :
  run_defers (d1 ++ d2) env st =
  match run_defers d1 env st with
  | (Ok _, st') => run_defers d2 env st'
  | (Er k m, st') => (Er k m, st')
  | (Fuel, st') => (Fuel, st')
  | (Unsup w, st') => (Unsup w, st')
  end.
Proof.
  revert st. induction d1 as [|d t IH]; intros st; cbn [app].
  - reflexivity.
  - rewrite !run_defers_cons. destruct (ev d env st) as [[v|k m| |w] st']; try reflexivity. apply IH.
Qed.

(* defer_spec: a body is its statements up to the exit point, then the pending
   deferred expressions in the order they were reached; the body's own value or
   error is the outcome unless a deferred expression raises. *)
Definition not_cut (r : res val) : Prop :=
  match r with Fuel | Unsup _ => False | _ => True end.

Lemma defer_spec ss env st s st1 :
  run_prefix ss env (vNil W) None [] st = (s, st1) ->
  not_cut (fst (finish s)) ->
  eval_body ss env st =
  match run_defers (snd (finish s)) env st1 with
  | (Ok _, st2) => (fst (finish s), st2)
  | (Er k m, st2) => (Er k m, st2)
  | (Fuel, st2) => (Fuel, st2)
  | (Unsup w, st2) => (Unsup w, st2)
  end.
Proof.
  intros H Hc. unfold Interp.eval_body. rewrite run_stmts_prefix, H. cbn [fst snd].
  destruct (finish s) as [r ds] eqn:F. cbn [fst snd] in *.
  destruct r; try contradiction; reflexivity.
Qed.

(* the function's value or error is unchanged by defers that do not raise *)
Lemma outcome_unchanged ss env st s st1 st2 u :
  run_prefix ss env (vNil W) None [] st = (s, st1) ->
  not_cut (fst (finish s)) ->
  run_defers (snd (finish s)) env st1 = (Ok u, st2) ->
  fst (eval_body ss env st) = fst (finish s).
Proof. intros H Hc Hd. rewrite (defer_spec _ _ _ _ _ H Hc), Hd. reflexivity. Qed.

(* a deferred expression that raises replaces the outcome and stops the rest *)
Lemma raising_defer_wins ss env st s st1 d1 d d2 st2 k m st3 u :
  run_prefix ss env (vNil W) None [] st = (s, st1) ->
  not_cut (fst (finish s)) ->
  snd (finish s) = d1 ++ d :: d2 ->
  run_defers d1 env st1 = (Ok u, st2) ->
  ev d env st2 = (Er k m, st3) ->
  eval_body ss env st = (Er k m, st3).
Proof.
  intros H Hc Hs H1 Hd. rewrite (defer_spec _ _ _ _ _ H Hc), Hs, run_defers_app, H1, run_defers_cons, Hd.
  reflexivity.
Qed.

End DeferLaws.

(* nested calls: the body of a callee — its own defers included — is a complete
   eval_body of the level below, so it has finished before the caller continues. *)
Lemma nested_body_is_eval_body W n :
  r_body (level W (S n)) = eval_body W (level W n).
Proof. reflexivity. Qed.
