(* C04: the chain loops refine their declarative specification, for every element
   list, every handler (arbitrary effects, nil results and raises at any position)
   and every accumulator. The iterator is "scripted": it yields the given elements
   one after the other. *)
From Coq Require Import ZArith String List Bool Arith Lia.
From PanVerif Require Import Core.Syntax Core.Values Core.Interp Core.FailStopProofs Core.OrderProofs.
Import ListNotations.

(* an iterator that yields exactly the elements of a list, in order *)
Definition scripted (es : list val) : M (option (val * list val)) :=
  match es with
  | [] => ret None
  | x :: t => ret (Some (x, t))
  end.

(* declarative specifications, written with map/filter/fold over the element list *)
Definition nonnil (v : val) : bool := negb (is_nil_type v).

Fixpoint foldM (h : val -> val -> M val) (es : list val) (acc : val) : M val :=
  match es with
  | [] => ret acc
  | x :: t => a <- h acc x ;; foldM h t a
  end.

(* `@`: results in order, nil results dropped; `=@` keeps them *)
Definition list_spec (keep : bool) (h : val -> M val) (es : list val) : M (list val) :=
  rs <- mapM h es ;; ret (if keep then rs else filter nonnil rs).

(* `~$` (literal form): a nil or failed step keeps the accumulator *)
Definition keep_acc (h : val -> val -> M val) (acc x : val) : M val :=
  r <- catch (h acc x) ;;
  match r with
  | inl a => if is_nil_type a then ret acc else ret a
  | inr _ => ret acc
  end.

Lemma list_loop_scripted es : forall n keep h acc st,
  length es < n ->
  list_loop n scripted es keep h acc st =
  (rs <- mapM h es ;; ret (rev acc ++ (if keep then rs else filter nonnil rs))) st.
Proof.
  induction es as [|x t IH]; intros n keep h acc st L; destruct n as [|n]; try (cbn in L; lia).
  - cbn [list_loop scripted mapM]. unfold bind, ret. destruct keep; cbn; now rewrite app_nil_r.
  - cbn [list_loop scripted mapM]. unfold bind, ret.
    destruct (h x st) as [[e| | |] s1]; try reflexivity.
    assert (length t < n) as L' by (cbn in L; lia).
    destruct (negb keep && is_nil_type e) eqn:D.
    + rewrite (IH n keep h acc s1 L'). unfold bind, ret.
      destruct (mapM h t s1) as [[rs| | |] s2]; try reflexivity.
      destruct keep; [discriminate|]. cbn [negb andb] in D.
      replace (filter nonnil (e :: rs)) with (filter nonnil rs); [reflexivity|].
      cbn [filter]. unfold nonnil at 2. now rewrite D.
    + rewrite (IH n keep h (e :: acc) s1 L'). unfold bind, ret.
      destruct (mapM h t s1) as [[rs| | |] s2]; try reflexivity.
      cbn [rev]. rewrite <- app_assoc. cbn [app].
      destruct keep; [reflexivity|]. cbn [negb andb] in D.
      replace (filter nonnil (e :: rs)) with (e :: filter nonnil rs); [reflexivity|].
      cbn [filter]. unfold nonnil at 2. now rewrite D.
Qed.

Theorem list_chain_refines_spec es n keep h st :
  length es < n ->
  list_loop n scripted es keep h [] st = list_spec keep h es st.
Proof. intros L. rewrite list_loop_scripted by assumption. reflexivity. Qed.

Theorem reduce_chain_refines_spec es : forall n h acc st,
  length es < n ->
  reduce_loop n scripted es h acc st = foldM h es acc st.
Proof.
  induction es as [|x t IH]; intros n h acc st L; destruct n as [|n]; try (cbn in L; lia).
  - reflexivity.
  - cbn [reduce_loop scripted foldM]. unfold bind at 1, ret at 1. unfold bind.
    destruct (h acc x st) as [[a| | |] s1]; try reflexivity.
    apply IH. cbn in L. lia.
Qed.

Theorem thoughtful_reduce_refines_spec es : forall n h acc st,
  length es < n ->
  thoughtful_reduce_loop n scripted es h acc st = foldM (keep_acc h) es acc st.
Proof.
  induction es as [|x t IH]; intros n h acc st L; destruct n as [|n]; try (cbn in L; lia).
  - reflexivity.
  - cbn [thoughtful_reduce_loop scripted foldM]. unfold bind at 1, ret at 1.
    unfold keep_acc at 1. unfold bind, catch, ret.
    assert (length t < n) as L' by (cbn in L; lia).
    destruct (h acc x st) as [[a| | |] s1]; try reflexivity.
    + destruct (is_nil_type a); apply IH; assumption.
    + apply IH; assumption.
Qed.

(* the additional contexts, per receiver *)
Lemma lonely_spec base recv st :
  lonely base recv st = if is_nil_type recv then (Ok recv, st) else base recv st.
Proof. unfold lonely, ret. destruct (is_nil_type recv); reflexivity. Qed.

Lemma thoughtful_spec base recv st :
  thoughtful base recv st =
  match base recv st with
  | (Ok v, st') => (Ok (if is_nil_type v then recv else v), st')
  | (Er _ _, st') => (Ok recv, st')
  | (Fuel, st') => (Fuel, st')
  | (Unsup w, st') => (Unsup w, st')
  end.
Proof.
  unfold thoughtful, bind, catch, ret. destruct (base recv st) as [[v| | |] st']; try reflexivity.
  destruct (is_nil_type v); reflexivity.
Qed.

(* the property-call and the literal/variable-call chains are the same skeleton around
   their per-receiver handler (all contexts but the reduce chains, whose receiver
   differs between the forms as the property says) *)
Section Forms.
Variable W : wk.
Variable R : recs.
Variable fuel : nat.

Definition skeleton (env : nat) (add : addchain) (main : mainchain) (ca recv : val)
           (kwargs : kwargs_t) (base : val -> M val) : M val :=
  match main with
  | Scalar => additional add base recv
  | ListC =>
      it <- iter_of W R env recv ;;
      els <- list_loop fuel (real_next R env it) tt
               (match add with Strict | Thoughtful => true | _ => false end) (additional add base) [] ;;
      finish_list W R env ca kwargs els
  | Reduce => unsup "reduce"
  end.

Lemma prop_chain_skeleton env add main ca recv name args kwargs st :
  main <> Reduce ->
  prop_chain W R fuel env add main ca recv name args kwargs st =
  skeleton env add main ca recv kwargs (fun r => prop_base W R env name kwargs r args) st.
Proof. intros N. destruct main; try reflexivity. now elim N. Qed.

Lemma lit_chain_skeleton env add main ca recv f st :
  main <> Reduce ->
  lit_chain W R fuel env add main ca recv f st =
  skeleton env add main ca recv [] (lit_base W R env f) st.
Proof. intros N. destruct main; try reflexivity. now elim N. Qed.

(* hence: where the two per-receiver handlers agree, the two forms agree *)
Lemma additional_ext add (b1 b2 : val -> M val) :
  (forall r s, b1 r s = b2 r s) -> forall r s, additional add b1 r s = additional add b2 r s.
Proof.
  intros H r s. destruct add; cbn [additional]; unfold lonely, thoughtful, bind, catch; try apply H.
  - destruct (is_nil_type r); [reflexivity|apply H].
  - now rewrite H.
Qed.

Lemma list_loop_ext {S} n : forall (nxt : S -> M (option (val * S))) s keep (h1 h2 : val -> M val) acc st,
  (forall x s0, h1 x s0 = h2 x s0) ->
  list_loop n nxt s keep h1 acc st = list_loop n nxt s keep h2 acc st.
Proof.
  induction n as [|n IH]; intros nxt s keep h1 h2 acc st H; [reflexivity|].
  cbn [list_loop]. unfold bind. destruct (nxt s st) as [[[[x s']|]| | |] s1]; try reflexivity.
  rewrite H. destruct (h2 x s1) as [[e| | |] s2]; try reflexivity.
  destruct (negb keep && is_nil_type e); apply IH; assumption.
Qed.

Lemma forms_agree env add main ca recv name args f st :
  main <> Reduce ->
  (forall r s, prop_base W R env name [] r args s = lit_base W R env f r s) ->
  prop_chain W R fuel env add main ca recv name args [] st = lit_chain W R fuel env add main ca recv f st.
Proof.
  intros N H. rewrite prop_chain_skeleton, lit_chain_skeleton by assumption.
  unfold skeleton. destruct main; [| |now elim N].
  - now apply additional_ext.
  - unfold bind. destruct (iter_of W R env recv st) as [[it| | |] s1]; try reflexivity.
    rewrite (list_loop_ext fuel _ _ _ _ (additional add (lit_base W R env f))); [reflexivity|].
    now apply additional_ext.
Qed.
End Forms.
