(* C18: the comparison primitives that `==`, `<=>` and the derived order operators
   of Comparable reduce to are an equivalence / a total order on their carriers. *)
From Coq Require Import ZArith String Ascii List Bool Arith Lia NArith.
From PanVerif Require Import Core.Syntax Core.Values Core.Interp.
Import ListNotations.

(* the three-way comparisons the built-in `<=>` compute, as numbers -1 / 0 / 1 *)
Definition zcmp (x y : Z) : Z := if (x >? y)%Z then 1 else if (x =? y)%Z then 0 else (-1).
Definition scmp (x y : string) : Z := match String.compare x y with Lt => -1 | Eq => 0 | Gt => 1 end.
Definition fcmp (a b : Z) : Z := if f_gt a b then 1 else if f_eq a b then 0 else (-1).

Local Open Scope Z_scope.

(* ---- integers (and everything that inherits from them: booleans, descendants) ---------- *)
Lemma zcmp_range x y : zcmp x y = -1 \/ zcmp x y = 0 \/ zcmp x y = 1.
Proof. unfold zcmp. destruct (x >? y); [auto|]. destruct (x =? y); auto. Qed.

Lemma zcmp_trichotomy x y :
  (zcmp x y = -1 /\ x < y) \/ (zcmp x y = 0 /\ x = y) \/ (zcmp x y = 1 /\ x > y).
Proof.
  unfold zcmp. destruct (Z.gtb_spec x y) as [H|H]; [right; right; split; [reflexivity|lia]|].
  destruct (Z.eqb_spec x y); [right; left; auto|left; split; [reflexivity|lia]].
Qed.

Lemma zcmp_antisym x y : zcmp y x = - zcmp x y.
Proof.
  unfold zcmp. destruct (Z.gtb_spec x y), (Z.gtb_spec y x), (Z.eqb_spec x y), (Z.eqb_spec y x); lia.
Qed.

Lemma zcmp_trans x y z : zcmp x y = -1 -> zcmp y z = -1 -> zcmp x z = -1.
Proof.
  intros H1 H2. destruct (zcmp_trichotomy x y) as [[_ A]|[[E _]|[E _]]]; try congruence.
  destruct (zcmp_trichotomy y z) as [[_ B]|[[E _]|[E _]]]; try congruence.
  destruct (zcmp_trichotomy x z) as [[C _]|[[_ C]|[_ C]]]; [exact C|lia|lia].
Qed.

Lemma zcmp_eq_iff x y : zcmp x y = 0 <-> x = y.
Proof. destruct (zcmp_trichotomy x y) as [[E A]|[[E A]|[E A]]]; rewrite E; split; intros; try lia; try discriminate. Qed.

(* ---- strings ------------------------------------------------------------------------------- *)
Lemma ascii_compare_trans a b c : Ascii.compare a b = Lt -> Ascii.compare b c = Lt -> Ascii.compare a c = Lt.
Proof.
  unfold Ascii.compare. rewrite !N.compare_lt_iff. lia.
Qed.

Lemma string_compare_refl s : String.compare s s = Eq.
Proof.
  induction s as [|a s IH]; cbn; [reflexivity|].
  assert (Ascii.compare a a = Eq) as E by (unfold Ascii.compare; apply N.compare_refl). now rewrite E.
Qed.

Lemma string_compare_trans s1 : forall s2 s3,
  String.compare s1 s2 = Lt -> String.compare s2 s3 = Lt -> String.compare s1 s3 = Lt.
Proof.
  induction s1 as [|a s1 IH]; intros [|b s2] [|c s3]; cbn; try discriminate; try reflexivity.
  destruct (Ascii.compare a b) eqn:E1; try discriminate;
  destruct (Ascii.compare b c) eqn:E2; try discriminate; intros H1 H2.
  - apply Ascii.compare_eq_iff in E1, E2. subst.
    assert (Ascii.compare c c = Eq) as E by (unfold Ascii.compare; apply N.compare_refl). rewrite E. eapply IH; eauto.
  - apply Ascii.compare_eq_iff in E1. subst. now rewrite E2.
  - apply Ascii.compare_eq_iff in E2. subst. now rewrite E1.
  - now rewrite (ascii_compare_trans _ _ _ E1 E2).
Qed.

Lemma scmp_antisym x y : scmp y x = - scmp x y.
Proof. unfold scmp. rewrite (String.compare_antisym x y). destruct (String.compare y x); reflexivity. Qed.

Lemma scmp_eq_iff x y : scmp x y = 0 <-> x = y.
Proof.
  unfold scmp. split.
  - destruct (String.compare x y) eqn:E; try discriminate. intros _. now apply String.compare_eq_iff.
  - intros ->. now rewrite string_compare_refl.
Qed.

Lemma scmp_trans x y z : scmp x y = -1 -> scmp y z = -1 -> scmp x z = -1.
Proof.
  unfold scmp. destruct (String.compare x y) eqn:E1; try discriminate.
  destruct (String.compare y z) eqn:E2; try discriminate. intros _ _.
  now rewrite (string_compare_trans _ _ _ E1 E2).
Qed.

Lemma scmp_range x y : scmp x y = -1 \/ scmp x y = 0 \/ scmp x y = 1.
Proof. unfold scmp. destruct (String.compare x y); auto. Qed.

(* ---- floats (NaN excluded: IEEE comparisons with NaN are all false) ----------------------- *)
Lemma fcmp_is_key_order a b : f_nan a = false -> f_nan b = false -> fcmp a b = zcmp (f_key a) (f_key b).
Proof. intros Ha Hb. unfold fcmp, f_gt, f_eq, zcmp. rewrite Ha, Hb. reflexivity. Qed.

Lemma fcmp_antisym a b : f_nan a = false -> f_nan b = false -> fcmp b a = - fcmp a b.
Proof. intros Ha Hb. rewrite !fcmp_is_key_order by assumption. apply zcmp_antisym. Qed.

Lemma fcmp_trans a b c : f_nan a = false -> f_nan b = false -> f_nan c = false ->
  fcmp a b = -1 -> fcmp b c = -1 -> fcmp a c = -1.
Proof. intros Ha Hb Hc. rewrite !fcmp_is_key_order by assumption. apply zcmp_trans. Qed.

Lemma fcmp_eq_iff a b : f_nan a = false -> f_nan b = false -> (fcmp a b = 0 <-> f_eq a b = true).
Proof.
  intros Ha Hb. rewrite fcmp_is_key_order by assumption. rewrite zcmp_eq_iff.
  unfold f_eq. rewrite Ha, Hb. cbn [negb andb]. symmetry. apply Z.eqb_eq.
Qed.

Lemma f_eq_refl a : f_nan a = false -> f_eq a a = true.
Proof. intros H. unfold f_eq. rewrite H. cbn. apply Z.eqb_refl. Qed.

Lemma f_eq_sym a b : f_eq a b = f_eq b a.
Proof. unfold f_eq. rewrite (Z.eqb_sym (f_key a)). destruct (f_nan a), (f_nan b); reflexivity. Qed.

Lemma f_nan_never_equal a b : f_nan a = true -> f_eq a b = false /\ f_eq b a = false /\ f_gt a b = false /\ f_gt b a = false.
Proof. intros H. unfold f_eq, f_gt. rewrite H. cbn. destruct (f_nan b); auto. Qed.

(* ---- `==` of the scalar built-ins is reflexive and symmetric ------------------------------- *)
Lemma val_same_sym a : forall b, val_same a b = val_same b a.
Proof.
  induction a; intros []; cbn [val_same]; try reflexivity;
    rewrite ?(Z.eqb_sym z), ?(String.eqb_sym s), ?(Nat.eqb_sym id), ?IHa; try reflexivity.
  - destruct b, b0; reflexivity.
Qed.

Lemma val_same_refl_obj i : val_same (VObj i) (VObj i) = true.
Proof. cbn. apply Nat.eqb_refl. Qed.

(* ---- the built-ins compute those comparisons ---------------------------------------------------- *)
Section Builtins.
Variable W : wk.
Variable R : recs.
Variable env : nat.

Lemma as_int_lit st p x : as_int W st (VInt p x) = Some (p, x).
Proof.
  unfold as_int, trace, chain_fuel. replace (length (heap st) + 16)%nat with (S (length (heap st) + 15)) by lia.
  reflexivity.
Qed.
Lemma as_str_lit st p x : as_str W st (VStr p x) = Some (p, x).
Proof.
  unfold as_str, trace, chain_fuel. replace (length (heap st) + 16)%nat with (S (length (heap st) + 15)) by lia.
  reflexivity.
Qed.
Lemma as_float_lit st b t : as_float W st (VFloat b t) = Some b.
Proof.
  unfold as_float, trace, chain_fuel. replace (length (heap st) + 16)%nat with (S (length (heap st) + 15)) by lia.
  reflexivity.
Qed.

Lemma int_cmp_builtin st p x q y kw :
  call_builtin W R env B_Int_cmp [VInt p x; VInt q y] kw st = (Ok (vInt W (zcmp x y)), st).
Proof.
  cbn [call_builtin]. unfold int_binop, bind, get_st. rewrite !as_int_lit. reflexivity.
Qed.

Lemma int_eq_builtin st p x q y kw :
  call_builtin W R env B_Int_eq [VInt p x; VInt q y] kw st = (Ok (VBool (val_same p q && (x =? y))), st).
Proof. cbn [call_builtin]. unfold bind, get_st. rewrite !as_int_lit. reflexivity. Qed.

Lemma int_neq_is_negation st p x q y kw :
  call_builtin W R env B_Int_neq [VInt p x; VInt q y] kw st = (Ok (VBool (negb (val_same p q && (x =? y)))), st).
Proof. cbn [call_builtin]. unfold bind, get_st. rewrite !as_int_lit. reflexivity. Qed.

Lemma str_cmp_builtin st p x q y kw :
  call_builtin W R env B_Str_cmp [VStr p x; VStr q y] kw st = (Ok (vInt W (scmp x y)), st).
Proof.
  cbn [call_builtin]. unfold str_binop, bind, get_st. rewrite !as_str_lit. unfold ret, scmp.
  destruct (String.compare x y); reflexivity.
Qed.

Lemma str_eq_builtin st p x q y kw :
  is_wk W (VStr p x) "Str" && is_wk W (VStr q y) "Str" = false ->
  call_builtin W R env B_Str_eq [VStr p x; VStr q y] kw st = (Ok (VBool (String.eqb x y)), st).
Proof. intros H. cbn [call_builtin]. now rewrite H. Qed.

Lemma float_cmp_builtin st a ta b tb kw :
  call_builtin W R env B_Float_cmp [VFloat a ta; VFloat b tb] kw st = (Ok (vInt W (fcmp a b)), st).
Proof. cbn [call_builtin]. unfold bind, get_st. rewrite !as_float_lit. reflexivity. Qed.

Lemma float_eq_builtin st a ta b tb kw :
  call_builtin W R env B_Float_eq [VFloat a ta; VFloat b tb] kw st = (Ok (VBool (f_eq a b)), st).
Proof. cbn [call_builtin]. unfold bind, get_st. rewrite !as_float_lit. reflexivity. Qed.

End Builtins.
