(* C12: one truthiness rule, one branch, short-circuit — for every value,
   environment, state and lower interpreter level R. *)
From Coq Require Import ZArith String List Bool.
From PanVerif Require Import Core.Syntax Core.Values Core.Interp Core.FailStopProofs.
Import ListNotations.

Section Truthy.
Variable W : wk.
Variable R : recs.
Variable fuel : nat.
Notation ev := (r_expr R).

(* the rule: B through property lookup, called exactly once, an error counts as false *)
Lemma truthy_rule env v st :
  truthy_via_B R env v st =
  match r_callprop R env v "B" [] [] st with
  | (Ok b, st') => (Ok (is_true b), st')
  | (Er _ _, st') => (Ok false, st')
  | (Fuel, st') => (Fuel, st')
  | (Unsup w, st') => (Unsup w, st')
  end.
Proof.
  unfold truthy_via_B, bind, catch, callprop, ret.
  destruct (r_callprop R env v "B" [] [] st) as [[b|k m| |w] st']; reflexivity.
Qed.

(* if/else, guards: same rule; booleans decide directly (they are their own B) *)
Lemma is_truthy_rule env v st :
  is_truthy R env v st = match v with VBool b => (Ok b, st) | _ => truthy_via_B R env v st end.
Proof. destruct v; reflexivity. Qed.

(* `!`: the negation of the same rule *)
Lemma not_rule env v args kw st :
  call_builtin W R env B_Obj_not (v :: args) kw st =
  match truthy_via_B R env v st with
  | (Ok t, st') => (Ok (VBool (negb t)), st')
  | (Er k m, st') => (Er k m, st')
  | (Fuel, st') => (Fuel, st')
  | (Unsup w, st') => (Unsup w, st')
  end.
Proof.
  cbn [call_builtin arg0 nth_error need]. unfold bind at 1, ret at 1. unfold bind, ret.
  destruct (truthy_via_B R env v st) as [[t| | |] st']; reflexivity.
Qed.

(* if-expression: exactly one branch is evaluated *)
Lemma if_then c t e env st cv st1 st2 :
  ev c env st = (Ok cv, st1) -> is_truthy R env cv st1 = (Ok true, st2) ->
  eval_expr W R fuel (EIf c t e) env st = ev t env st2.
Proof.
  intros Hc Hb. cbn [eval_expr]. unfold Interp.ev. rewrite (bind_ok _ _ _ _ _ Hc), (bind_ok _ _ _ _ _ Hb). reflexivity.
Qed.

Lemma if_else c t e env st cv st1 st2 :
  ev c env st = (Ok cv, st1) -> is_truthy R env cv st1 = (Ok false, st2) ->
  eval_expr W R fuel (EIf c t e) env st =
  match e with Some e2 => ev e2 env st2 | None => (Ok (vNil W), st2) end.
Proof.
  intros Hc Hb. cbn [eval_expr]. unfold Interp.ev. rewrite (bind_ok _ _ _ _ _ Hc), (bind_ok _ _ _ _ _ Hb).
  destruct e; reflexivity.
Qed.

(* || and &&: the deciding operand itself is returned; the right operand is evaluated
   at most once and only when the left does not decide *)
Lemma or_left_decides l r env st lv st1 st2 :
  ev l env st = (Ok lv, st1) -> truthy_via_B R env lv st1 = (Ok true, st2) ->
  eval_expr W R fuel (EInfix "||" l r) env st = (Ok lv, st2).
Proof.
  intros Hl Hb. cbn [eval_expr]. cbn [String.eqb Ascii.eqb Bool.eqb]. unfold Interp.ev.
  rewrite (bind_ok _ _ _ _ _ Hl), (bind_ok _ _ _ _ _ Hb). reflexivity.
Qed.

Lemma or_right_decides l r env st lv st1 st2 :
  ev l env st = (Ok lv, st1) -> truthy_via_B R env lv st1 = (Ok false, st2) ->
  eval_expr W R fuel (EInfix "||" l r) env st = ev r env st2.
Proof.
  intros Hl Hb. cbn [eval_expr]. cbn [String.eqb Ascii.eqb Bool.eqb]. unfold Interp.ev.
  rewrite (bind_ok _ _ _ _ _ Hl), (bind_ok _ _ _ _ _ Hb). reflexivity.
Qed.

Lemma and_left_decides l r env st lv st1 st2 :
  ev l env st = (Ok lv, st1) -> truthy_via_B R env lv st1 = (Ok false, st2) ->
  eval_expr W R fuel (EInfix "&&" l r) env st = (Ok lv, st2).
Proof.
  intros Hl Hb. cbn [eval_expr]. cbn [String.eqb Ascii.eqb Bool.eqb]. unfold Interp.ev.
  rewrite (bind_ok _ _ _ _ _ Hl), (bind_ok _ _ _ _ _ Hb). reflexivity.
Qed.

Lemma and_right_decides l r env st lv st1 st2 :
  ev l env st = (Ok lv, st1) -> truthy_via_B R env lv st1 = (Ok true, st2) ->
  eval_expr W R fuel (EInfix "&&" l r) env st = ev r env st2.
Proof.
  intros Hl Hb. cbn [eval_expr]. cbn [String.eqb Ascii.eqb Bool.eqb]. unfold Interp.ev.
  rewrite (bind_ok _ _ _ _ _ Hl), (bind_ok _ _ _ _ _ Hb). reflexivity.
Qed.

(* guarded jump statements use the same rule *)
Lemma guard_true j e c env st cv st1 st2 :
  ev c env st = (Ok cv, st1) -> is_truthy R env cv st1 = (Ok true, st2) ->
  eval_stmt W R (SJumpIf j e c) env st = eval_jump R j e env st2.
Proof.
  intros Hc Hb. cbn [eval_stmt]. unfold Interp.ev. rewrite (bind_ok _ _ _ _ _ Hc), (bind_ok _ _ _ _ _ Hb). reflexivity.
Qed.

Lemma guard_false j e c env st cv st1 st2 :
  ev c env st = (Ok cv, st1) -> is_truthy R env cv st1 = (Ok false, st2) ->
  eval_stmt W R (SJumpIf j e c) env st =
  match j with JYield => (Er "StopIterErr" "iter stopped", st2) | _ => (Ok (SVal (vNil W)), st2) end.
Proof.
  intros Hc Hb. cbn [eval_stmt]. unfold Interp.ev. rewrite (bind_ok _ _ _ _ _ Hc), (bind_ok _ _ _ _ _ Hb).
  destruct j; reflexivity.
Qed.

End Truthy.
