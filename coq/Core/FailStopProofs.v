(* C07: fail-stop propagation. For an arbitrary lower level R: when the
   sub-expression in a given position raises, the construct raises the same error
   (kind and message) from the state reached at the raise, whatever is written
   after that position — so nothing after it is evaluated. *)
From Coq Require Import ZArith String List Bool.
From PanVerif Require Import Core.Syntax Core.Values Core.Interp Core.DeferProofs.
Import ListNotations.

(* ---- the monad: sequencing stops at the first raise --------------------- *)
Lemma bind_er {A B} (m : M A) (f : A -> M B) st k e st' :
  m st = (Er k e, st') -> bind m f st = (Er k e, st').
Proof. intros H. unfold bind. now rewrite H. Qed.

Lemma bind_ok {A B} (m : M A) (f : A -> M B) st a st' :
  m st = (Ok a, st') -> bind m f st = f a st'.
Proof. intros H. unfold bind. now rewrite H. Qed.

(* the nearest handler receives exactly the raised kind and message *)
Lemma catch_er {A} (m : M A) st k e st' :
  m st = (Er k e, st') -> catch m st = (Ok (inr (k, e)), st').
Proof. intros H. unfold catch. now rewrite H. Qed.

Lemma catch_ok {A} (m : M A) st a st' :
  m st = (Ok a, st') -> catch m st = (Ok (inl a), st').
Proof. intros H. unfold catch. now rewrite H. Qed.

Section FailStop.
Variable W : wk.
Variable R : recs.
Variable fuel : nat.
Notation ev := (r_expr R).

(* "e is not a `*`/`**` expansion": ordinary element / argument *)
Definition plain (e : expr) : Prop :=
  match e with EPrefix op _ => op <> "*"%string /\ op <> "**"%string | _ => True end.

Lemma plain_arr_elem e t env :
  plain e ->
  eval_arr_elems W R (e :: t) env =
  (v <- ev e env ;; r <- eval_arr_elems W R t env ;; ret (v :: r)).
Proof.
  intros P. destruct e; try reflexivity.
  cbn [eval_arr_elems]. destruct P as [P1 _].
  destruct op as [|a op]; [reflexivity|].
  destruct a as [[] [] [] [] [] [] [] []]; try reflexivity.
  destruct op; try reflexivity. now elim P1.
Qed.

(* array literal: elements before the failing one are evaluated in order, the
   failing one raises, the elements after it are irrelevant *)
Lemma arr_elems_fail es1 :
  Forall plain es1 ->
  forall e es2 env st vs st1 k m st2,
  mapM (fun x => ev x env) es1 st = (Ok vs, st1) ->
  ev e env st1 = (Er k m, st2) -> plain e ->
  eval_arr_elems W R (es1 ++ e :: es2) env st = (Er k m, st2).
Proof.
  induction 1 as [|x t Px Pt IH]; intros e es2 env st vs st1 k m st2 H1 He Pe; cbn [app].
  - cbn [mapM] in H1. unfold ret in H1. inversion H1; subst.
    rewrite plain_arr_elem by assumption. now apply bind_er.
  - rewrite plain_arr_elem by assumption.
    cbn [mapM] in H1. unfold bind in H1.
    destruct (ev x env st) as [[v| | | ] sa] eqn:Ex; try discriminate.
    destruct (mapM (fun x0 => ev x0 env) t sa) as [[vs'| | |] sb] eqn:Et; try discriminate.
    unfold ret in H1. inversion H1; subst.
    rewrite (bind_ok _ _ _ _ _ Ex). apply bind_er. eapply IH; eassumption.
Qed.

(* infix operator: left operand raises / right operand raises *)
Lemma infix_left_fail op l r env st k m st' :
  ev l env st = (Er k m, st') ->
  eval_expr W R fuel (EInfix op l r) env st = (Er k m, st').
Proof.
  intros H. cbn [eval_expr].
  destruct (String.eqb op "||"); [now apply bind_er|].
  destruct (String.eqb op "&&"); now apply bind_er.
Qed.

Lemma infix_right_fail op l r env st lv st1 k m st2 :
  String.eqb op "||" = false -> String.eqb op "&&" = false ->
  ev l env st = (Ok lv, st1) -> ev r env st1 = (Er k m, st2) ->
  eval_expr W R fuel (EInfix op l r) env st = (Er k m, st2).
Proof.
  intros H1 H2 Hl Hr. cbn [eval_expr]. rewrite H1, H2.
  rewrite (bind_ok _ _ _ _ _ Hl). now apply bind_er.
Qed.

(* range bounds *)
Lemma range_fail_1 a b c env st k m st' :
  ev a env st = (Er k m, st') ->
  eval_expr W R fuel (ERange (Some a) b c) env st = (Er k m, st').
Proof. intros H. cbn [eval_expr eval_opt]. now apply bind_er. Qed.

Lemma range_fail_2 a b c env st k m st1 st2 va :
  eval_opt W R a env st = (Ok va, st1) -> ev b env st1 = (Er k m, st2) ->
  eval_expr W R fuel (ERange a (Some b) c) env st = (Er k m, st2).
Proof.
  intros Ha Hb. cbn [eval_expr]. rewrite (bind_ok _ _ _ _ _ Ha). cbn [eval_opt]. now apply bind_er.
Qed.

Lemma range_fail_3 a b c env st k m st1 st2 st3 va vb :
  eval_opt W R a env st = (Ok va, st1) -> eval_opt W R b env st1 = (Ok vb, st2) ->
  ev c env st2 = (Er k m, st3) ->
  eval_expr W R fuel (ERange a b (Some c)) env st = (Er k m, st3).
Proof.
  intros Ha Hb Hc. cbn [eval_expr]. rewrite (bind_ok _ _ _ _ _ Ha), (bind_ok _ _ _ _ _ Hb).
  cbn [eval_opt]. now apply bind_er.
Qed.

(* condition and branches of an if-expression *)
Lemma if_cond_fail c t e env st k m st' :
  ev c env st = (Er k m, st') ->
  eval_expr W R fuel (EIf c t e) env st = (Er k m, st').
Proof. intros H. cbn [eval_expr]. now apply bind_er. Qed.

(* assignment: the variable is not written when the right-hand side raises *)
Lemma assign_fail x e env st k m st' :
  ev e env st = (Er k m, st') ->
  eval_expr W R fuel (EAssign x e) env st = (Er k m, st').
Proof. intros H. cbn [eval_expr]. now apply bind_er. Qed.

(* receiver, chain argument of a call *)
Lemma propcall_recv_fail add main carg r p args kw env st k m st' :
  ev r env st = (Er k m, st') ->
  eval_expr W R fuel (EPropCall add main carg (Some r) p args kw) env st = (Er k m, st').
Proof. intros H. cbn [eval_expr eval_recv]. now apply bind_er. Qed.

Lemma propcall_chainarg_fail add main ca r p args kw env st rv st1 k m st2 :
  ev r env st = (Ok rv, st1) -> ev ca env st1 = (Er k m, st2) ->
  eval_expr W R fuel (EPropCall add main (Some ca) (Some r) p args kw) env st = (Er k m, st2).
Proof.
  intros Hr Hc. cbn [eval_expr eval_recv]. rewrite (bind_ok _ _ _ _ _ Hr). cbn [eval_opt]. now apply bind_er.
Qed.

(* keyword arguments: the k-th raises after the earlier ones were evaluated in order *)
Lemma kwargs_fail ks1 : forall x e ks2 env acc st acc1 st1 k m st2,
  eval_kwargs R ks1 env acc st = (Ok acc1, st1) -> ev e env st1 = (Er k m, st2) ->
  eval_kwargs R (ks1 ++ (x, e) :: ks2) env acc st = (Er k m, st2).
Proof.
  induction ks1 as [|[y ey] t IH]; intros x e ks2 env acc st acc1 st1 k m st2 H1 He; cbn [app eval_kwargs].
  - cbn [eval_kwargs] in H1. unfold ret in H1. inversion H1; subst.
    unfold Interp.ev. now apply bind_er.
  - cbn [eval_kwargs] in H1. unfold bind, Interp.ev in H1.
    destruct (ev ey env st) as [[v| | |] sa] eqn:Ey; try discriminate.
    unfold Interp.ev. rewrite (bind_ok _ _ _ _ _ Ey). eapply IH; eassumption.
Qed.

(* statements: a raising statement ends the list; later statements are irrelevant
   (this is run_prefix_app / unreached_never_run of DeferProofs, restated for raises) *)

(* list / reduce chains: when the handler raises on an element, the loop raises the
   same error; elements after it are not visited *)
Lemma list_loop_elem_fail {S} n (nxt : S -> M (option (val * S))) s keep h acc st x s' st1 k m st2 :
  nxt s st = (Ok (Some (x, s')), st1) ->
  h x st1 = (Er k m, st2) ->
  list_loop (Datatypes.S n) nxt s keep h acc st = (Er k m, st2).
Proof.
  intros Hn Hh. cbn [list_loop]. rewrite (bind_ok _ _ _ _ _ Hn). now apply bind_er.
Qed.

Lemma reduce_loop_elem_fail {S} n (nxt : S -> M (option (val * S))) s h acc st x s' st1 k m st2 :
  nxt s st = (Ok (Some (x, s')), st1) ->
  h acc x st1 = (Er k m, st2) ->
  reduce_loop (Datatypes.S n) nxt s h acc st = (Er k m, st2).
Proof.
  intros Hn Hh. cbn [reduce_loop]. rewrite (bind_ok _ _ _ _ _ Hn). now apply bind_er.
Qed.

(* statements: a raising statement ends the list with that error; the pending
   defers are the ones reached so far; later statements are irrelevant *)
Lemma stmts_fail ss1 s ss2 env st l y ds st1 k m st2 :
  run_prefix W R ss1 env (vNil W) None [] st = (Fell l y ds, st1) ->
  eval_stmt W R s env st1 = (Er k m, st2) ->
  run_prefix W R (ss1 ++ s :: ss2) env (vNil W) None [] st = (Exited (Er k m) ds, st2).
Proof.
  intros H1 Hs. rewrite run_prefix_app, H1. cbn [run_prefix]. now rewrite Hs.
Qed.

(* positional arguments *)
Lemma plain_arg e t env :
  plain e ->
  eval_args W R (e :: t) env =
  (v <- ev e env ;; '(a, k) <- eval_args W R t env ;; ret (v :: a, k)).
Proof.
  intros P. destruct e; try reflexivity.
  cbn [eval_args]. destruct P as [P1 P2].
  destruct op as [|a op]; [reflexivity|].
  destruct a as [[] [] [] [] [] [] [] []]; try reflexivity.
  destruct op as [|b op]; [now elim P1|].
  destruct b as [[] [] [] [] [] [] [] []]; try reflexivity.
  destruct op; try reflexivity. now elim P2.
Qed.

Lemma args_fail es1 :
  Forall plain es1 ->
  forall e es2 env st vs st1 k m st2,
  mapM (fun x => ev x env) es1 st = (Ok vs, st1) ->
  ev e env st1 = (Er k m, st2) -> plain e ->
  eval_args W R (es1 ++ e :: es2) env st = (Er k m, st2).
Proof.
  induction 1 as [|x t Px Pt IH]; intros e es2 env st vs st1 k m st2 H1 He Pe; cbn [app].
  - cbn [mapM] in H1. unfold ret in H1. inversion H1; subst.
    rewrite plain_arg by assumption. now apply bind_er.
  - rewrite plain_arg by assumption.
    cbn [mapM] in H1. unfold bind in H1.
    destruct (ev x env st) as [[v| | | ] sa] eqn:Ex; try discriminate.
    destruct (mapM (fun x0 => ev x0 env) t sa) as [[vs'| | |] sb] eqn:Et; try discriminate.
    unfold ret in H1. inversion H1; subst.
    rewrite (bind_ok _ _ _ _ _ Ex). apply bind_er. eapply IH; eassumption.
Qed.

(* a raise inside the iteration protocol itself (other than StopIterErr) propagates *)
Lemma iter_next_fail env it st k m st' :
  r_callprop R env it "next" [] [] st = (Er k m, st') ->
  String.eqb k "StopIterErr" = false ->
  iter_next R env it st = (Er k m, st').
Proof. intros H Hk. unfold iter_next, callprop. rewrite H, Hk. reflexivity. Qed.

(* nearest handler: a thoughtful chain step and Either's fmap receive the error *)
Lemma thoughtful_absorbs base recv st k m st' :
  base recv st = (Er k m, st') ->
  thoughtful base recv st = (Ok recv, st').
Proof. intros H. unfold thoughtful. rewrite (bind_ok _ _ _ _ _ (catch_er _ _ _ _ _ H)). reflexivity. Qed.

End FailStop.
